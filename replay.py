#!/usr/bin/env python3
"""replay.py <property> <replay file> — shows a replay and re-evaluates the model on the case it holds."""
import os, re, subprocess, sys, tempfile
pid, path = sys.argv[1], sys.argv[2]
txt = open(path).read()
print(txt[:6000])
m = re.search(r"^\((nodecase|clockcase|\w+case) .*$", txt, flags=re.M)
if m:
    with tempfile.NamedTemporaryFile("w", suffix=".cases", delete=False) as f:
        f.write(m.group(0) + "\n")
    env = dict(os.environ, RV_DEBUG="1")
    print("--- model on this case ---")
    print(subprocess.run(["./bin/modelrun", f.name], env=env, stdout=subprocess.PIPE, stderr=subprocess.STDOUT, text=True).stdout[:6000])
    os.unlink(f.name)
