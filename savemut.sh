#!/bin/bash
# savemut.sh <dir name> <property> <caught-by text> : keep a confirmed seeded change under /verif/seeded
D=$1; P=$2; shift 2
SRC=/tmp/mut/out_${D}
mkdir -p /verif/seeded/$D
cp $SRC/patch.diff /verif/seeded/$D/
for f in $SRC/demo_test.go $SRC/NOTES.md; do [ -f $f ] && cp $f /verif/seeded/$D/; done
[ -d $SRC/demo ] && cp -r $SRC/demo /verif/seeded/$D/
python3 - "$D" "$P" "$*" <<'PY'
import json,sys,re,os
d,p,caught=sys.argv[1],sys.argv[2],sys.argv[3]
notes=open('/verif/seeded/%s/NOTES.md'%d).read() if os.path.exists('/verif/seeded/%s/NOTES.md'%d) else ''
meta={"property":p,"source":"written by an independent sub-agent given only the property text and a scratch worktree of /repo",
 "needs_to_manifest": (re.search(r"(?is)(needs?[^\n]*manifest[^\n]*\n(?:.*\n){0,12})", notes).group(1).strip()[:1200] if re.search(r"(?is)needs?[^\n]*manifest", notes) else "see NOTES.md"),
 "confirmed": "existing suite passes with the change; demonstration fails with it and passes without it (re-run by evalmut.sh in the scratch worktree)",
 "ran": "evalmut.sh %s: git -C /repo apply patch.diff; python3 run.py <check> quick; git -C /repo checkout -- ."%d,
 "result": caught}
json.dump(meta,open('/verif/seeded/%s/meta.json'%d,'w'),indent=1)
PY
echo saved $D
