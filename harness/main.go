package main

import (
	"flag"
	"fmt"
	"os"
	"path/filepath"
	"sync"
)

// Out collects the case file for the model, the full digests for diagnosis, and
// violations found by the model-free property monitors.
type Out struct {
	mu         sync.Mutex
	dir, name  string
	cases      *os.File
	digests    *os.File
	viol       *os.File
	Violations int
}

func NewOut(dir, name string) *Out {
	_ = os.MkdirAll(dir, 0o755)
	o := &Out{dir: dir, name: name}
	var err error
	if o.cases, err = os.Create(filepath.Join(dir, name+".cases")); err != nil {
		panic(err)
	}
	o.digests, _ = os.Create(filepath.Join(dir, name+".digests"))
	o.viol, _ = os.Create(filepath.Join(dir, name+".violations"))
	return o
}
func (o *Out) Case(s string) {
	o.mu.Lock()
	fmt.Fprintln(o.cases, s)
	o.mu.Unlock()
}
func (o *Out) Digest(id string, op int, kind, d string) {
	o.mu.Lock()
	fmt.Fprintf(o.digests, "%s %d %s %s\n", id, op, kind, d)
	o.mu.Unlock()
}
func (o *Out) Violation(prop, id, what string) {
	o.mu.Lock()
	o.Violations++
	fmt.Fprintf(o.viol, "%s\t%s\t%s\n", prop, id, what)
	o.mu.Unlock()
}
func (o *Out) Close() {
	o.cases.Close()
	o.digests.Close()
	o.viol.Close()
}

func main() {
	if len(os.Args) < 2 {
		fmt.Println("usage: rvharness <suite> [-seed N] [-n N] [-out DIR] [-mode M]")
		os.Exit(2)
	}
	suite := os.Args[1]
	fs := flag.NewFlagSet(suite, flag.ExitOnError)
	seed := fs.Uint64("seed", 1, "seed")
	n := fs.Int("n", 100, "number of cases")
	outDir := fs.String("out", "work", "output directory")
	mode := fs.String("mode", "mixed", "generator mode")
	steps := fs.Int("steps", 14, "operations per history")
	name := fs.String("name", suite, "output base name")
	_ = fs.Parse(os.Args[2:])
	out := NewOut(*outDir, *name)
	stats := NewStats()
	switch suite {
	case "clock":
		runClockSuite(*seed, *n, out, stats)
	case "accept":
		runAcceptSuite(*seed, *n, out, stats)
	case "place":
		runPlaceSuite(*seed, *n, out, stats)
	case "sweep":
		runSweepSuite(*seed, *n, out, stats)
	case "wire":
		runWireSuite(*seed, *n, out, stats)
	case "forks":
		runForkSuite(*seed, *n, out, stats)
	case "faults":
		runFaultSuite(*seed, *n, out, stats)
	case "crash":
		runCrashSuite(*seed, *n, out, stats)
	case "race":
		runRaceSuite(*seed, *n, out, stats)
	case "net":
		runNetSuite(*seed, *n, out, stats)
	case "wallet":
		runWalletSuite(*seed, *n, out, stats)
	case "views":
		runViewsSuite(*seed, *n, out, stats)
	case "lex":
		runLexSuite(*seed, *n, out, stats)
	case "settings":
		runSettingsSuite(*seed, *n, out, stats)
	case "decay":
		runDecaySuite(*seed, *n, out, stats)
	case "catchup":
		runCatchupSuite(*seed, *n, out, stats)
	case "chain":
		runChainSuite(*seed, *n, *steps, *mode, out, stats)
	default:
		fmt.Println("unknown suite", suite)
		os.Exit(2)
	}
	out.Close()
	stats.Write(filepath.Join(*outDir, *name+".stats.json"))
	fmt.Printf("suite=%s cases=%d ops=%d monitor_violations=%d\n", suite, stats.Cases, stats.Ops, out.Violations)
}

func runChainSuite(seed uint64, n, steps int, mode string, out *Out, stats *Stats) {
	for i := 0; i < n; i++ {
		id := fmt.Sprintf("ch%d_%d", seed, i)
		w := NewWorld(id, seed*1000003+uint64(i), mode, stats, out)
		w.run(steps)
		out.Case(w.rec.Emit())
		for k, d := range w.rec.Digests {
			out.Digest(id, k, w.rec.OpKinds[k], d)
		}
		stats.Cases++
		stats.Ops += len(w.rec.Ops)
		sig := ""
		for _, k := range w.rec.OpKinds {
			sig += k + ";"
		}
		stats.Mark(sig)
		if i < 2 {
			stats.Sample(id + ": " + sig)
		}
	}
}
