package main

import (
	"fmt"
	"math/big"
	"sync"
	"time"

	"github.com/my-cloud/ruthenium/validatornode/domain/clock"
)

// C20: the real Engine with a scripted TimeProvider. Periods are milliseconds so that a
// case costs little real time; the stamps the function receives are compared with the
// model applied to the readings the fake watch actually served.
// watchProbe: the repository's own Watch reads the system clock: each reading lies between the
// system time just before and just after it (a reading ahead of the clock dates requests into the
// next slot)
func watchProbe(prop, id string, out *Out, stats *Stats) {
	w := clock.NewWatch()
	for k := 0; k < 2000; k++ {
		before := time.Now()
		got := w.Now()
		after := time.Now()
		if got.Before(before.Add(-time.Microsecond)) || got.After(after.Add(time.Microsecond)) {
			out.Violation(prop, id, fmt.Sprintf("clock-reading\tWatch.Now() = %d, the system clock read %d before and %d after", got.UnixNano(), before.UnixNano(), after.UnixNano()))
			break
		}
	}
	stats.Count("watch-probe")
}

func runClockSuite(seed uint64, n int, out *Out, stats *Stats) {
	watchProbe("C20", fmt.Sprintf("clk%d_watch", seed), out, stats)
	r := NewRng(seed)
	base := int64(1_700_000_000) * int64(time.Second)
	for i := 0; i < n; i++ {
		id := fmt.Sprintf("clk%d_%d", seed, i)
		if i%3 == 0 {
			// Pulse
			timer := time.Duration(r.Pick(2, 3, 5, 7, 10)) * time.Millisecond
			d := int64(timer)
			b := base + int64(r.U64n(1_000_000))*d
			b -= gridMod(b, d) // on a boundary of Go's grid
			var now int64
			kind := ""
			switch r.Intn(5) {
			case 0:
				now, kind = b, "on-boundary"
			case 1:
				now, kind = b-1, "just-before"
			case 2:
				now, kind = b+1, "just-after"
			default:
				now, kind = b+int64(r.U64n(uint64(d))), "inside"
			}
			if i%24 == 0 {
				// the period as main.go wires it: ValidationTimer() of protocol settings that went through
				// the repository's decoder (interval 2 s, timeout 3 s); the reading is a few milliseconds
				// before a boundary of the interval that is not a boundary of the timeout
				set := &Settings{Limit: 1440, Genesis: 1, HalfLife: 3600e9, Base: 1, ILimit: 2, Fee: 1, Units: 100_000_000,
					Timeout: 3 * time.Second, Interval: int64(2 * time.Second), VerifCnt: 6}
				timer = set.ValidationTimer()
				d = int64(2 * time.Second)
				b = base - gridMod(base, 6*int64(time.Second)) + 2*int64(time.Second)
				now, kind = b-int64(1+r.Intn(4))*int64(time.Millisecond), "settings-wired"
			}
			watch := &ScriptWatch{readings: []int64{now}}
			var got []int64
			e := clock.NewEngine(func(ts int64) { got = append(got, ts) }, watch, timer, 1, 0)
			e.Pulse()
			g := "none"
			if len(got) == 1 {
				g = i64(got[0])
			} else if len(got) > 1 {
				g = fmt.Sprintf("calls%d", len(got))
			}
			out.Case(sx("clockcase", id, "pulse", i64(d), i64(now), g))
			stats.Count("pulse/" + kind)
			stats.Mark(fmt.Sprintf("pulse/%s/%d", kind, d))
			stats.Sample(fmt.Sprintf("pulse timer=%d now=%d -> %s", d, now, g))
			// monitor (model-free): the property itself on the implementation's output
			if len(got) != 1 || gridMod(got[0], d) != 0 || got[0] <= now || got[0] > now+d {
				out.Violation("C20", id, fmt.Sprintf("pulse timer=%d now=%d stamps=%v", d, now, got))
			}
		} else {
			// Start ... Stop
			occ := int64(r.Pick(1, 1, 2, 4, 6))
			sub := time.Duration(r.Pick(2, 3, 4)) * time.Millisecond
			if occ > 1 && r.Chance(1, 3) {
				sub = time.Duration(r.Pick(2500, 3500, 1250)) * time.Microsecond // a period whose slots are not whole milliseconds
			}
			timer := time.Duration(occ) * sub
			skipped := 0
			if occ > 1 && r.Chance(1, 2) {
				skipped = 1
			}
			calls := 3 + r.Intn(4)
			d := int64(sub)
			cur := base + int64(r.U64n(1_000_000_000))
			readings := []int64{cur}
			kinds := ""
			for k := 0; k < calls+3; k++ {
				switch r.Intn(6) {
				case 0: // stall of several periods
					cur += d * int64(2+r.Intn(5))
					kinds += "S"
				case 1: // exactly half-way
					cur += d
					cur -= gridMod(cur, d)
					cur += d / 2
					kinds += "H"
				case 2: // just before a boundary
					cur += d
					cur -= gridMod(cur, d)
					cur--
					kinds += "B"
				case 3: // clock did not advance
					kinds += "0"
				default:
					cur += int64(r.U64n(uint64(2 * d)))
					kinds += "r"
				}
				readings = append(readings, cur)
			}
			watch := &ScriptWatch{readings: append([]int64(nil), readings...)}
			var mu sync.Mutex
			var got []int64
			var e *clock.Engine
			afterStop := 0
			stopped := false
			done := make(chan struct{})
			e = clock.NewEngine(func(ts int64) {
				mu.Lock()
				defer mu.Unlock()
				if stopped {
					afterStop++
					return
				}
				got = append(got, ts)
				if len(got) == calls {
					stopped = true
					e.Stop()
				}
			}, watch, timer, occ, skipped)
			go func() { e.Start(); close(done) }()
			select {
			case <-done:
			case <-time.After(5 * time.Second):
				out.Violation("C20", id, "engine did not return after Stop")
			}
			time.Sleep(3 * sub)
			mu.Lock()
			served := append([]int64(nil), watch.served...)
			g := append([]int64(nil), got...)
			as := afterStop
			mu.Unlock()
			var rs, gs []string
			for _, x := range served {
				rs = append(rs, i64(x))
			}
			for _, x := range g {
				gs = append(gs, i64(x))
			}
			out.Case(sx("clockcase", id, "engine", i64(int64(timer)), i64(occ), plist(rs), plist(gs)))
			stats.Count(fmt.Sprintf("engine/occ%d/skip%d", occ, skipped))
			stats.Mark(fmt.Sprintf("engine/%d/%d/%s", occ, skipped, kinds))
			stats.Sample(fmt.Sprintf("engine timer=%d occ=%d skipped=%d readings=%v stamps=%v", int64(timer), occ, skipped, served, g))
			// monitor: aligned, non-decreasing, nothing after Stop
			prev := int64(-1 << 62)
			for _, s := range g {
				if gridMod(s, d) != 0 || s < prev {
					out.Violation("C20", id, fmt.Sprintf("engine sub=%d readings=%v stamps=%v", d, served, g))
					break
				}
				prev = s
			}
			if as > 0 {
				out.Violation("C20", id, fmt.Sprintf("%d calls after Stop", as))
			}
		}
		if i%16 == 7 {
			// Stop while Start is still waiting for its first period boundary: no call may ever happen
			// and Start must return. The wait is real time (the scripted reading is 40 ms before a
			// boundary), Stop lands 5 ms into it.
			timer := 50 * time.Millisecond
			d := int64(timer)
			b := base + int64(r.U64n(1_000_000))*d
			b -= gridMod(b, d)
			watch := &ScriptWatch{readings: []int64{b - 40*int64(time.Millisecond)}, fallback: func() int64 { return b + 1 }}
			occ, skipped := int64(1), 0
			if r.Chance(1, 2) {
				occ, skipped = 4, 1
			}
			var mu sync.Mutex
			calls, callsAfter := 0, 0
			stopReturned := false
			e := clock.NewEngine(func(int64) {
				mu.Lock()
				calls++
				if stopReturned {
					callsAfter++
				}
				mu.Unlock()
			}, watch, timer, occ, skipped)
			done := make(chan struct{})
			go func() { e.Start(); close(done) }()
			// wait until Start has read the clock (it is then past `started = true` and about to wait), however
			// loaded the machine is
			for k := 0; k < 4000; k++ {
				watch.mu.Lock()
				n := len(watch.served)
				watch.mu.Unlock()
				if n > 0 {
					break
				}
				time.Sleep(500 * time.Microsecond)
			}
			time.Sleep(2 * time.Millisecond)
			e.Stop()
			mu.Lock()
			stopReturned = true
			mu.Unlock()
			returned := true
			select {
			case <-done:
			case <-time.After(2 * time.Second):
				returned = false
			}
			time.Sleep(60 * time.Millisecond)
			mu.Lock()
			ca, c := callsAfter, calls
			mu.Unlock()
			stats.Count(fmt.Sprintf("engine/stop during the first wait/occ%d", occ))
			if ca > 0 || !returned {
				out.Violation("C20", id, fmt.Sprintf("stop-during-wait\tStop() was called while Start() was waiting for its first boundary (period %v, %d occurrences, %d skipped): %d calls after Stop returned (%d in all), Start returned: %v", timer, occ, skipped, ca, c, returned))
				if !returned {
					e.Stop()
				}
			}
			stats.Ops++
		}
		stats.Cases++
		stats.Ops++
	}
}

// (t + offset of the Unix epoch from Go's zero Time) mod d, without overflowing int64
func gridMod(t, d int64) int64 {
	off := new(big.Int).Mul(big.NewInt(62135596800), big.NewInt(1_000_000_000))
	x := new(big.Int).Add(off, big.NewInt(t))
	return new(big.Int).Mod(x, big.NewInt(d)).Int64()
}
