package main

import (
	"encoding/json"
	"fmt"
	"math"
	"strconv"

	"github.com/my-cloud/ruthenium/validatornode/domain/ledger"
	"github.com/my-cloud/ruthenium/validatornode/infrastructure/configuration"
)

// C09: Utxo.Value at lattice and random points. Each point is later enclosed rigorously by
// Coq's interval tactic on the real model (decay_eval.py); the monitors below evaluate the
// property's own inequalities on the implementation's results.

type decaySet struct {
	h    int64 // half-life in ns, exactly representable in binary64
	B, L uint64
}

var decaySets = []decaySet{
	{32278176000000000, 100000000000, 5000000000000}, // validatornode/settings.json (373.59 days)
	{60000000000, 10, 1000},                          // one minute
	{3600000000000, 1, 2},                            // smallest legal base/limit
	{86400000000000, 999999, 1000000},                // base just below limit
	{31536000000000000, 1 << 20, 1 << 52},            // a year, huge limit
	{600000000000, 3, 4},
}

// configuredHalfLife: the half-life as the node gets it, through the real decoder of the protocol
// settings from a halfLifeInDays number (373.59 in validatornode/settings.json)
func configuredHalfLife(h int64) float64 {
	days := float64(h) / 8.64e13
	js := fmt.Sprintf(`{"blocksCountLimit":1440,"coinDigitsCount":8,"genesisAmount":1,"halfLifeInDays":%s,"incomeBase":1,"incomeLimit":2,"minimalTransactionFee":1,"validationIntervalInSeconds":1,"validationTimeoutInSeconds":1,"verificationsCountPerValidation":1}`,
		strconv.FormatFloat(days, 'g', -1, 64))
	var ps configuration.ProtocolSettings
	if err := json.Unmarshal([]byte(js), &ps); err != nil {
		panic(err)
	}
	return ps.HalfLifeInNanoseconds()
}

var halfLifeMemo = map[int64]float64{}

func valueOf(y uint64, yielding bool, x int64, s decaySet) uint64 {
	u := ledger.NewUtxo(ledger.NewInputInfo(0, "x"), ledger.NewOutput("a", yielding, y), 0)
	hf, ok := halfLifeMemo[s.h]
	if !ok {
		hf = configuredHalfLife(s.h)
		halfLifeMemo[s.h] = hf
	}
	return u.Value(x, hf, s.B, s.L)
}

func slackOf(y uint64, s decaySet) uint64 {
	m := y
	if s.L > m {
		m = s.L
	}
	return 1 + uint64(math.Ceil(float64(m)/float64(uint64(1)<<44)))
}

func runDecaySuite(seed uint64, n int, out *Out, stats *Stats) {
	r := NewRng(seed)
	for i := 0; i < n; i++ {
		id := fmt.Sprintf("dc%d_%d", seed, i)
		s := decaySets[r.Intn(len(decaySets))]
		yielding := r.Chance(3, 5)
		var y uint64
		ykind := ""
		switch r.Intn(10) {
		case 0:
			y, ykind = 0, "0"
		case 1:
			y, ykind = 1, "1"
		case 2:
			y, ykind = s.B, "base"
		case 3:
			y, ykind = s.L-1, "limit-1"
		case 4:
			y, ykind = s.L, "limit"
		case 5:
			y, ykind = s.L+1, "limit+1"
		case 6:
			y, ykind = 2*s.L, "2limit"
		case 7:
			y, ykind = uint64(1)<<uint(r.Intn(54)), "pow2"
		case 8:
			y, ykind = r.U64n(s.L+1), "below-limit"
		default:
			y, ykind = r.U64n(uint64(1)<<53+1), "random"
		}
		var x int64
		xkind := ""
		switch r.Intn(8) {
		case 0:
			x, xkind = 1, "1ns"
		case 1:
			x, xkind = s.h/2, "half/2"
		case 2:
			x, xkind = s.h, "half-life"
		case 3:
			x, xkind = s.h+1, "half-life+1"
		case 4:
			x, xkind = 20*s.h, "20half-lives"
		case 5:
			x, xkind = int64(r.U64n(uint64(s.h)/1000+1)), "short"
		default:
			x, xkind = int64(r.U64n(uint64(20*s.h))), "random"
		}
		if x == 0 {
			x = 1
		}
		v := valueOf(y, yielding, x, s)
		if hf := halfLifeMemo[s.h]; math.Abs(hf-float64(s.h)) > float64(s.h)*1e-12 {
			out.Violation("C09", id, fmt.Sprintf("half-life-config\ta half-life of %d ns configured as %v days reaches the node as %v ns", s.h, float64(s.h)/8.64e13, hf))
		}
		out.Case(sx("decaycase", id, b01(yielding), u64(y), i64(x), i64(s.h), u64(s.B), u64(s.L), u64(v), u64(slackOf(y, s))))
		stats.Count(fmt.Sprintf("decay/yielding=%v/y=%s/x=%s", yielding, ykind, xkind))
		stats.Mark(fmt.Sprintf("%v/%s/%s/%d", yielding, ykind, xkind, s.h))
		stats.Sample(fmt.Sprintf("yielding=%v y=%d x=%d h=%d B=%d L=%d -> %d", yielding, y, x, s.h, s.B, s.L, v))
		stats.Cases++
		stats.Ops++
		// ---- monitors: the property's inequalities on the implementation ----
		sl := slackOf(y, s)
		viol := func(key, what string) {
			out.Violation("C09", id, fmt.Sprintf("%s\tyielding=%v y=%d x=%d h=%d B=%d L=%d value=%d: %s", key, yielding, y, x, s.h, s.B, s.L, v, what))
		}
		x2 := x + int64(r.U64n(uint64(s.h)))
		v2 := valueOf(y, yielding, x2, s)
		if !yielding {
			if v > y {
				viol("decay-exceeds-initial", "a non-yielding output is worth more than its initial value")
			}
			if v2 > v+sl {
				viol("decay-increases", fmt.Sprintf("value grows with time: %d at x=%d", v2, x2))
			}
			vh := valueOf(y, false, s.h, s)
			if absDiff(vh, y/2) > sl {
				viol("half-life", fmt.Sprintf("after one half-life the value is %d, not %d", vh, y/2))
			}
		} else {
			lo, hi := y, s.L
			if y > s.L {
				lo, hi = s.L, y
			}
			if v+1 < lo || v > hi+1 {
				viol("income-bounds", fmt.Sprintf("value outside [%d,%d] by more than one unit", lo, hi))
			}
			if y <= s.L && v2+sl < v || y >= s.L && v2 > v+sl {
				viol("income-monotone", fmt.Sprintf("does not move monotonically toward the limit: %d at x=%d", v2, x2))
			}
			v0 := valueOf(0, true, s.h, s)
			if absDiff(v0, s.B) > slackOf(0, s) {
				viol("base-after-half-life", fmt.Sprintf("from zero the value after one half-life is %d, not the base %d", v0, s.B))
			}
		}
		// churning never gains: value over [0,x] then over [x,x2] vs once over [0,x2]
		churn := valueOf(v, yielding, x2-x, s)
		if churn > v2+sl {
			viol("churn-gain", fmt.Sprintf("valuing at %d then at %d gives %d, more than %d + slack %d", x, x2, churn, v2, sl))
		}
		// depends on elapsed time only
		// realistic creation instants (Unix nanoseconds of the 2020s) as well as small ones
		d := int64(r.U64n(1 << 40))
		if r.Chance(2, 3) {
			d = 1_700_000_000_000_000_000 + int64(r.U64n(1<<56))
		}
		u := ledger.NewUtxo(ledger.NewInputInfo(0, "x"), ledger.NewOutput("a", yielding, y), d)
		if w := u.Value(d+x, float64(s.h), s.B, s.L); w != v {
			viol("elapsed-only", fmt.Sprintf("shifted by %d the value is %d", d, w))
		}
	}
}

func absDiff(a, b uint64) uint64 {
	if a > b {
		return a - b
	}
	return b - a
}
