package main

import (
	"encoding/json"
	"errors"
	"fmt"
	"strconv"
	"strings"
	"sync"
	"time"

	"github.com/my-cloud/ruthenium/validatornode/application"
	"github.com/my-cloud/ruthenium/validatornode/infrastructure/configuration"
)

// ---- capturing logger -------------------------------------------------------
type CapLogger struct {
	mu    sync.Mutex
	lines []string
}

func (l *CapLogger) add(level, msg string) {
	l.mu.Lock()
	l.lines = append(l.lines, level+":"+msg)
	l.mu.Unlock()
}
func (l *CapLogger) Debug(msg string) { l.add("D", msg) }
func (l *CapLogger) Info(msg string)  { l.add("I", msg) }
func (l *CapLogger) Warn(msg string)  { l.add("W", msg) }
func (l *CapLogger) Error(msg string) { l.add("E", msg) }
func (l *CapLogger) Fatal(msg string) { l.add("F", msg) }
func (l *CapLogger) Take() []string {
	l.mu.Lock()
	defer l.mu.Unlock()
	out := l.lines
	l.lines = nil
	return out
}

// error text -> the model's error enum (fixed table; never compare raw strings)
var errTable = []struct{ sub, class string }{
	{"the blockchain is empty", "empty-chain"},
	{"already in the transactions pool", "in-pool"},
	{"failed to verify signature", "sig"},
	{"neighbor transaction is invalid", "sig"},
	{"failed to find transaction ID", "unknown-id"},
	{"failed to find output index", "no-index"},
	{"failed to verify input recipient address", "owner"},
	{"overflow", "overflow"},
	{"fee is negative", "neg-fee"},
	{"fee is too low", "low-fee"},
	{"transaction ID already exists", "dup-id"},
	{"income requested for several", "two-incomes"},
	{"timestamp is too far in the future", "tx-future"},
	{"timestamp is too old", "tx-old"},
	{"blockchain is too short", "short"},
	{"blockchain is a fork", "fork"},
	{"previous neighbor block hash is invalid", "link"},
	{"block timestamp is invalid", "time"},
	{"block timestamp is in the future", "future"},
	{"multiple rewards attempt", "multi-reward"},
	{"yielding output address is not registered", "unregistered"},
	{"has not been rewarded", "no-reward"},
	{"reward exceeds", "reward-too-big"},
	{"response timeout", "timeout"},
	{"failed to get neighbor's blockchain", "fetch"},
}

func classify(msg string) string {
	for _, e := range errTable {
		if strings.Contains(msg, e.sub) {
			return e.class
		}
	}
	return "other"
}

// ---- protocol settings ------------------------------------------------------
type Settings struct {
	Limit    uint64
	Genesis  uint64
	HalfLife float64
	Base     uint64
	ILimit   uint64
	Fee      uint64
	Units    uint64
	Timeout  time.Duration
	Interval int64 // ns
	VerifCnt int64

	mu       sync.Mutex
	cache    *configuration.ProtocolSettings
	cacheKey string
}

// The node never reads these fields directly: every getter goes through the repository's own
// decoder of the protocol settings (configuration.ProtocolSettings), fed with a settings document
// built from the fields. The fields stay the harness's (and the model's) intended values, so a slip
// in the decoder shows up as a disagreement between the node and the model.
func (s *Settings) real() *configuration.ProtocolSettings {
	digits := 0
	for u := s.Units; u >= 10; u /= 10 {
		digits++
	}
	timeoutSec := int64(s.Timeout / time.Second)
	if time.Duration(timeoutSec)*time.Second != s.Timeout {
		// a sub-second test timeout cannot be written in the document: a value that differs from the
		// interval is written instead and ValidationTimeout() answers the field itself
		timeoutSec = s.Interval/int64(time.Second) + 7
	}
	js := fmt.Sprintf(`{"blocksCountLimit":%d,"coinDigitsCount":%d,"genesisAmount":%d,"halfLifeInDays":%s,"incomeBase":%d,"incomeLimit":%d,"minimalTransactionFee":%d,"validationIntervalInSeconds":%d,"validationTimeoutInSeconds":%d,"verificationsCountPerValidation":%d}`,
		s.Limit, digits, s.Genesis, strconv.FormatFloat(s.HalfLife/8.64e13, 'g', -1, 64), s.Base, s.ILimit, s.Fee, s.Interval/int64(time.Second), timeoutSec, s.VerifCnt)
	s.mu.Lock()
	defer s.mu.Unlock()
	if s.cache != nil && s.cacheKey == js {
		return s.cache
	}
	ps := new(configuration.ProtocolSettings)
	if err := json.Unmarshal([]byte(js), ps); err != nil {
		panic(err)
	}
	s.cache, s.cacheKey = ps, js
	return ps
}

func (s *Settings) BlocksCountLimit() uint64 { return s.real().BlocksCountLimit() }
func (s *Settings) GenesisAmount() uint64    { return s.real().GenesisAmount() }
func (s *Settings) HalfLifeInNanoseconds() float64 {
	// days -> nanoseconds may round in the last place; anything beyond that is the decoder's doing
	if d := s.real().HalfLifeInNanoseconds(); d > s.HalfLife*(1+1e-12) || d < s.HalfLife*(1-1e-12) {
		return d
	}
	return s.HalfLife
}
func (s *Settings) IncomeBase() uint64            { return s.real().IncomeBase() }
func (s *Settings) IncomeLimit() uint64           { return s.real().IncomeLimit() }
func (s *Settings) MinimalTransactionFee() uint64 { return s.real().MinimalTransactionFee() }
func (s *Settings) SmallestUnitsPerCoin() uint64 {
	if s.Units == 0 {
		return 0
	}
	return s.real().SmallestUnitsPerCoin()
}
func (s *Settings) ValidationTimeout() time.Duration {
	if s.Timeout%time.Second != 0 {
		return s.Timeout
	}
	return s.real().ValidationTimeout()
}
func (s *Settings) ValidationTimer() time.Duration { return s.real().ValidationTimer() }
func (s *Settings) ValidationTimestamp() int64     { return s.real().ValidationTimestamp() }
func (s *Settings) VerificationsCountPerValidation() int64 {
	return s.real().VerificationsCountPerValidation()
}

// ---- proof-of-humanity script ----------------------------------------------
type ScriptHumans struct {
	mu     sync.Mutex
	answer map[string]int // 1 valid, 0 invalid, 2 error; absent = valid
	asked  []string
}

func (h *ScriptHumans) IsRegistered(address string) (bool, error) {
	h.mu.Lock()
	defer h.mu.Unlock()
	h.asked = append(h.asked, address)
	switch v, ok := h.answer[address]; {
	case !ok || v == 1:
		return true, nil
	case v == 0:
		return false, nil
	default:
		return false, errors.New("poh unavailable")
	}
}

// ---- senders ---------------------------------------------------------------
type FakeSender struct {
	target    string
	getBlocks func(h uint64) ([]byte, error)
	mu        sync.Mutex
	asked     []uint64
	sentTx    [][]byte
	sentTgts  [][]string
	utxos     func(addr string) ([]byte, error)
	firstTs   func() (int64, error)
	txs       func() ([]byte, error)
	addTx     func(t []byte) error // what the transport does with the bytes it is handed
}

func (s *FakeSender) Target() string { return s.target }
func (s *FakeSender) GetBlocks(h uint64) ([]byte, error) {
	s.mu.Lock()
	s.asked = append(s.asked, h)
	s.mu.Unlock()
	if s.getBlocks == nil {
		return nil, errors.New("no blocks")
	}
	return s.getBlocks(h)
}
func (s *FakeSender) GetFirstBlockTimestamp() (int64, error) {
	if s.firstTs == nil {
		return 0, errors.New("unavailable")
	}
	return s.firstTs()
}
func (s *FakeSender) GetSettings() ([]byte, error) { return nil, nil }
func (s *FakeSender) SendTargets(t []string) error {
	s.mu.Lock()
	s.sentTgts = append(s.sentTgts, append([]string(nil), t...))
	s.mu.Unlock()
	return nil
}
func (s *FakeSender) AddTransaction(t []byte) error {
	if s.addTx != nil {
		return s.addTx(t)
	}
	s.mu.Lock()
	s.sentTx = append(s.sentTx, t)
	s.mu.Unlock()
	return nil
}
func (s *FakeSender) GetTransactions() ([]byte, error) {
	if s.txs == nil {
		return nil, errors.New("unavailable")
	}
	return s.txs()
}
func (s *FakeSender) GetUtxos(a string) ([]byte, error) {
	if s.utxos == nil {
		return nil, errors.New("unavailable")
	}
	return s.utxos(a)
}

type FakeSenders struct {
	mu         sync.Mutex
	senders    []application.Sender
	incentives []string
	host       string
}

func (f *FakeSenders) AddTargets(_ []string) {}
func (f *FakeSenders) HostTarget() string    { return f.host }
func (f *FakeSenders) Incentive(t string) {
	f.mu.Lock()
	f.incentives = append(f.incentives, t)
	f.mu.Unlock()
}
func (f *FakeSenders) Senders() []application.Sender {
	f.mu.Lock()
	defer f.mu.Unlock()
	return f.senders
}
func (f *FakeSenders) Set(s []application.Sender) {
	f.mu.Lock()
	f.senders = s
	f.mu.Unlock()
}

// ---- scripted clock ---------------------------------------------------------
type ScriptWatch struct {
	mu       sync.Mutex
	readings []int64
	served   []int64
	fallback func() int64
}

func (w *ScriptWatch) Now() time.Time {
	w.mu.Lock()
	defer w.mu.Unlock()
	var r int64
	if len(w.readings) > 0 {
		r = w.readings[0]
		w.readings = w.readings[1:]
	} else if w.fallback != nil {
		r = w.fallback()
	} else if len(w.served) > 0 {
		r = w.served[len(w.served)-1]
	}
	w.served = append(w.served, r)
	return time.Unix(0, r)
}
