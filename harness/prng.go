package main

// splitmix64: every random choice of a case derives from one state, so a case replays exactly.
type Rng struct{ s uint64 }

func NewRng(seed uint64) *Rng {
	// scramble the seed: consecutive seeds must not give shifted copies of one stream
	z := seed + 0x632BE59BD9B4E019
	z = (z ^ (z >> 33)) * 0xFF51AFD7ED558CCD
	z = (z ^ (z >> 33)) * 0xC4CEB9FE1A85EC53
	z ^= z >> 33
	return &Rng{z}
}
func (r *Rng) Next() uint64 {
	r.s += 0x9E3779B97F4A7C15
	z := r.s
	z = (z ^ (z >> 30)) * 0xBF58476D1CE4E5B9
	z = (z ^ (z >> 27)) * 0x94D049BB133111EB
	return z ^ (z >> 31)
}
func (r *Rng) Intn(n int) int {
	if n <= 0 {
		return 0
	}
	return int(r.Next() % uint64(n))
}
func (r *Rng) Chance(num, den int) bool { return r.Intn(den) < num }
func (r *Rng) Pick(xs ...int) int       { return xs[r.Intn(len(xs))] }
func (r *Rng) U64n(n uint64) uint64 {
	if n == 0 {
		return 0
	}
	return r.Next() % n
}

// Perm: a pseudo-random permutation of 0..n-1
func (r *Rng) Perm(n int) []int {
	p := make([]int, n)
	for i := range p {
		p[i] = i
	}
	for i := n - 1; i > 0; i-- {
		j := r.Intn(i + 1)
		p[i], p[j] = p[j], p[i]
	}
	return p
}
