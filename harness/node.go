package main

import (
	"context"
	"crypto/md5"
	"encoding/json"
	"fmt"
	"math/rand"
	"sort"
	"strings"
	"sync"

	gp2p "github.com/leprosus/golang-p2p"
	"github.com/my-cloud/ruthenium/validatornode/application"
	"github.com/my-cloud/ruthenium/validatornode/application/validation"
	"github.com/my-cloud/ruthenium/validatornode/application/verification"
	"github.com/my-cloud/ruthenium/validatornode/domain/ledger"
	"github.com/my-cloud/ruthenium/validatornode/presentation/api/history"
	vpayment "github.com/my-cloud/ruthenium/validatornode/presentation/api/payment"
	vwallet "github.com/my-cloud/ruthenium/validatornode/presentation/api/wallet"
)

// A real, fully wired validator node: real AddressesRegistry, UtxosRegistry, Blockchain and
// TransactionsPool. Only the network peers, the proof-of-humanity service and the logger are fakes.
type Node struct {
	Set       *Settings
	Log       *CapLogger
	Humans    *ScriptHumans
	Areg      *verification.AddressesRegistry
	Ureg      *verification.UtxosRegistry
	Senders   *FakeSenders
	Chain     *verification.Blockchain
	Pool      *validation.TransactionsPool
	Validator string

	// the validator's own presentation layer, created once per node and kept for its lifetime:
	// what a peer or the access node gets is what these handlers answer
	ctlOnce sync.Once
	utxCtl  *vwallet.UtxosController
	blkCtl  *history.BlocksController
	txsCtl  *vpayment.TransactionsController
}

func (n *Node) controllers() {
	n.ctlOnce.Do(func() {
		n.utxCtl = vwallet.NewUtxosController(n.Ureg)
		n.blkCtl = history.NewBlocksController(n.Chain)
		n.txsCtl = vpayment.NewTransactionsController(n.Senders, n.Pool)
	})
}

// ServedUtxos: the spendable outputs of an address as the node's "utxos" endpoint answers them
func (n *Node) ServedUtxos(address string) []*ledger.Utxo {
	n.controllers()
	res, err := n.utxCtl.HandleUtxosRequest(context.TODO(), gp2p.Data{Bytes: mustJSON(address)})
	if err != nil {
		panic(fmt.Sprintf("utxos endpoint: %v", err))
	}
	var out []*ledger.Utxo
	if err := json.Unmarshal(res.GetBytes(), &out); err != nil {
		panic(fmt.Sprintf("utxos endpoint answered undecodable bytes: %v", err))
	}
	return out
}

// ServedUtxosBytes, ServedBlocksBytes, ServedFirstTimestamp, ServedPoolBytes: the raw answers
func (n *Node) ServedUtxosBytes(address string) ([]byte, error) {
	n.controllers()
	res, err := n.utxCtl.HandleUtxosRequest(context.TODO(), gp2p.Data{Bytes: mustJSON(address)})
	return res.GetBytes(), err
}
func (n *Node) ServedBlocksBytes(h uint64) ([]byte, error) {
	n.controllers()
	res, err := n.blkCtl.HandleBlocksRequest(context.TODO(), gp2p.Data{Bytes: mustJSON(h)})
	if err != nil {
		return nil, err
	}
	return append([]byte(nil), res.GetBytes()...), nil
}
func (n *Node) ServedFirstTimestamp() (int64, error) {
	n.controllers()
	res, err := n.blkCtl.HandleFirstBlockTimestampRequest(context.TODO(), gp2p.Data{})
	if err != nil {
		return 0, err
	}
	var ts int64
	err = json.Unmarshal(res.GetBytes(), &ts)
	return ts, err
}
func (n *Node) ServedPoolBytes() ([]byte, error) {
	n.controllers()
	res, err := n.txsCtl.HandleTransactionsRequest(context.TODO(), gp2p.Data{})
	return res.GetBytes(), err
}

func NewNode(set *Settings, validator string) *Node {
	n := &Node{Set: set, Validator: validator}
	n.Log = &CapLogger{}
	n.Humans = &ScriptHumans{answer: map[string]int{}}
	n.Areg = verification.NewAddressesRegistry(n.Humans, n.Log)
	n.Ureg = verification.NewUtxosRegistry(set)
	n.Senders = &FakeSenders{host: "127.0.0.1:10600"}
	n.Chain = verification.NewBlockchain(n.Areg, set, n.Senders, n.Ureg, n.Log)
	n.Pool = validation.NewTransactionsPool(n.Chain, set, n.Senders, n.Ureg, validator, n.Log)
	return n
}

// AllBlocks pages through Blocks(h) like a peer would.
func (n *Node) AllBlocks() []*ledger.Block {
	var out []*ledger.Block
	if n.Set.Limit == 0 {
		return out
	}
	for {
		page := n.Chain.Blocks(uint64(len(out)))
		if len(page) == 0 {
			return out
		}
		out = append(out, page...)
		if len(out) > 100000 {
			panic("paging does not terminate")
		}
	}
}

func showStr(s string) string { return atom(s) }

// Digest of everything the properties observe on an idle node. Must match driver.ml digest_state.
func (n *Node) Digest(universe []string) string {
	var hs []string
	for _, b := range n.AllBlocks() {
		h, err := b.Hash()
		if err != nil {
			panic(err)
		}
		hs = append(hs, fmt.Sprintf("%x", h[:]))
	}
	var us []string
	var reg []string
	for _, a := range universe {
		var l []string
		for _, u := range n.ServedUtxos(a) {
			y := "n"
			if u.IsYielding() {
				y = "y"
			}
			var j struct {
				Timestamp int64 `json:"timestamp"`
			}
			if err := json.Unmarshal(mustJSON(u), &j); err != nil {
				panic(err)
			}
			l = append(l, fmt.Sprintf("%s/%d/%d/%s/%d", u.TransactionId(), u.OutputIndex(), u.InitialValue(), y, j.Timestamp))
		}
		us = append(us, showStr(a)+":"+strings.Join(l, ";"))
		if n.Areg.IsRegistered(a) {
			reg = append(reg, showStr(a))
		}
	}
	pend := "nil"
	if p := n.Areg.RemovedAddresses(); p != nil {
		var l []string
		for _, a := range p {
			l = append(l, showStr(a))
		}
		pend = "[" + strings.Join(l, ",") + "]"
	}
	pool := "nil"
	if p := n.Pool.Transactions(); p != nil {
		var l []string
		for _, t := range p {
			l = append(l, t.Id())
		}
		pool = "[" + strings.Join(l, ",") + "]"
	}
	return fmt.Sprintf("C=%s#U=%s#G=%s#P=%s#T=%s", strings.Join(hs, ","), strings.Join(us, "|"), strings.Join(reg, ","), pend, pool)
}

func md5hex(s string) string { return fmt.Sprintf("%x", md5.Sum([]byte(s))) }

// ShufflePerm: what rand.Seed(ts); rand.Shuffle(n, swap) does to positions: new[i] = old[perm[i]].
func ShufflePerm(ts int64, n int) []int {
	idx := make([]int, n)
	for i := range idx {
		idx[i] = i
	}
	rand.Seed(ts)
	rand.Shuffle(n, func(i, j int) { idx[i], idx[j] = idx[j], idx[i] })
	return idx
}

// ---- recording a history -------------------------------------------------------
type CaseRec struct {
	Id       string
	Node     *Node
	Universe []string
	Ops      []string
	Digests  []string
	OpKinds  []string
	outs     map[string]bool // "v y"
	stamps   map[int64]bool
	sigs     map[string]string // key -> sexp line
	addrs    map[string]string
	Mon      *ChainMonitor
	admitted map[string]bool
	// why the last sync round rejected a neighbor answer: "inc|target" / "full|target" -> reason
	Rejections map[string]string
	LateAnswers int // answers of well-behaved peers that arrived after the node's per-neighbor timeout
}

func NewCaseRec(id string, n *Node, universe []string) *CaseRec {
	return &CaseRec{Id: id, Node: n, Universe: universe, outs: map[string]bool{}, stamps: map[int64]bool{},
		sigs: map[string]string{}, addrs: map[string]string{}, admitted: map[string]bool{}}
}

func (c *CaseRec) noteTx(t *ledger.Transaction) {
	if t == nil {
		return
	}
	c.stamps[t.Timestamp()] = true
	for _, o := range t.Outputs() {
		if o != nil {
			c.outs[fmt.Sprintf("%d %s", o.InitialValue(), b01(o.IsYielding()))] = true
		}
	}
	for _, in := range t.Inputs() {
		if in == nil {
			continue
		}
		var j JInput
		if err := json.Unmarshal(mustJSON(in), &j); err != nil {
			panic(err)
		}
		k := fmt.Sprintf("%d|%s|%s|%s", j.OutputIndex, j.TransactionId, j.PublicKey, j.Signature)
		if _, ok := c.sigs[k]; !ok {
			ok := SigValid(&j)
			c.sigs[k] = sx(u64(uint64(j.OutputIndex)), atom(j.TransactionId), atom(j.PublicKey), atom(j.Signature), b01(ok))
		}
		if _, ok := c.addrs[j.PublicKey]; !ok {
			a, okA := AddrOf(j.PublicKey)
			if !okA {
				a = in.Address()
			}
			c.addrs[j.PublicKey] = sx(atom(j.PublicKey), atom(a))
		}
	}
}

func (c *CaseRec) noteBlock(b *ledger.Block) {
	if b == nil {
		return
	}
	c.stamps[b.Timestamp()] = true
	c.stamps[b.Timestamp()+c.Node.Set.Interval] = true
	for _, t := range b.Transactions() {
		c.noteTx(t)
	}
}

func (c *CaseRec) noteChain() {
	for _, b := range c.Node.AllBlocks() {
		c.noteBlock(b)
	}
	for _, t := range c.Node.Pool.Transactions() {
		c.noteTx(t)
	}
}

func (c *CaseRec) record(kind string, opHead string, res string) {
	c.noteChain()
	if c.Mon != nil {
		step := fmt.Sprintf("op %d (%s)", len(c.Ops), kind)
		blocks := c.Node.AllBlocks()
		c.Mon.CheckChain(blocks, step)
		c.Mon.CheckStable(blocks, step, kind == "update")
		c.Mon.CheckDerived(c.Node, blocks, c.Universe, step)
		c.Mon.CheckPool(c.Node.Pool.Transactions(), c.admitted, step)
	}
	d := "R=" + res + "#" + c.Node.Digest(c.Universe)
	c.Digests = append(c.Digests, d)
	c.OpKinds = append(c.OpKinds, kind+":"+res)
	c.Ops = append(c.Ops, "("+opHead+" "+md5hex(d)+")")
}

// ---- operations ------------------------------------------------------------------
func (c *CaseRec) Validate(ts int64) string {
	n := c.Node
	c.stamps[ts] = true
	before := len(n.AllBlocks())
	poolBefore := append([]*ledger.Transaction(nil), n.Pool.Transactions()...)
	lastTsBefore := n.Chain.LastBlockTimestamp()
	perm := ShufflePerm(ts, len(n.Pool.Transactions()))
	n.Log.Take()
	n.Pool.Validate(ts)
	lines := n.Log.Take()
	var drops []string
	for _, l := range lines {
		if strings.HasPrefix(l, "W:") && strings.Contains(l, "transaction removed from the transactions pool") {
			switch {
			case strings.Contains(l, "too far in the future"):
				drops = append(drops, "future")
			case strings.Contains(l, "too old"):
				drops = append(drops, "old")
			case strings.Contains(l, "failed to verify signature"):
				drops = append(drops, "sig")
			case strings.Contains(l, "failed to calculate fee"):
				drops = append(drops, "fee")
			case strings.Contains(l, "failed to update UTXOs"):
				drops = append(drops, "update")
			default:
				drops = append(drops, "other")
			}
		}
	}
	res := "refused"
	if after := n.AllBlocks(); len(after) > before {
		res = "produced:" + strings.Join(drops, ",")
		if c.Mon != nil {
			if before > 0 && (ts-lastTsBefore)%n.Set.Interval != 0 {
				c.Mon.Unaligned = true
			}
			c.Mon.CheckProduced(after[len(after)-1], poolBefore, len(n.Pool.Transactions()), n.Validator, before == 0, fmt.Sprintf("op %d (validate)", len(c.Ops)))
		}
	}
	var ps []string
	for _, p := range perm {
		ps = append(ps, fmt.Sprintf("%d", p))
	}
	c.record("validate", "validate "+i64(ts)+" "+plist(ps), res)
	return res
}

func (c *CaseRec) Admit(t *ledger.Transaction) string {
	n := c.Node
	c.noteTx(t)
	n.Log.Take()
	before := len(n.Pool.Transactions())
	poolBefore := append([]*ledger.Transaction(nil), n.Pool.Transactions()...)
	n.Pool.AddTransaction(t, "127.0.0.1:10601", n.Senders.host)
	lines := n.Log.Take()
	res := "ok"
	if len(n.Pool.Transactions()) == before {
		res = "err:other"
		for _, l := range lines {
			if strings.Contains(l, "failed to add transaction") {
				res = "err:" + classify(l)
			}
		}
	}
	if res == "ok" {
		c.admitted[t.Id()] = true
	}
	if res == "ok" && c.Mon != nil {
		c.Mon.CheckAdmit(t, n.Chain.LastBlockTimestamp(), n.Chain.LastBlockTransactions(), poolBefore, fmt.Sprintf("op %d (admit)", len(c.Ops)))
	}
	c.record("admit", "admit "+sxTx(t), res)
	return res
}

func (c *CaseRec) RegSync(answers map[string]int) {
	n := c.Node
	n.Humans.answer = answers
	before := append([]string(nil), n.Areg.RemovedAddresses()...)
	n.Areg.Synchronize(0)
	after := n.Areg.RemovedAddresses()
	appended := after[len(before):]
	// iteration order of the Go map is an input of the model: what was appended comes first
	seen := map[string]bool{}
	var order []string
	for _, a := range appended {
		if !seen[a] {
			order = append(order, a)
			seen[a] = true
		}
	}
	for _, a := range c.Universe {
		if !seen[a] {
			order = append(order, a)
			seen[a] = true
		}
	}
	var poh []string
	keys := make([]string, 0, len(answers))
	for k := range answers {
		keys = append(keys, k)
	}
	sort.Strings(keys)
	for _, k := range keys {
		poh = append(poh, sx(atom(k), fmt.Sprintf("%d", answers[k])))
	}
	for _, a := range c.Universe {
		if _, ok := answers[a]; !ok {
			poh = append(poh, sx(atom(a), "1"))
		}
	}
	var os []string
	for _, a := range order {
		os = append(os, atom(a))
	}
	c.record("regsync", "regsync "+plist(poh)+" "+plist(os), "-")
}

// A scripted neighbor: a pure function of the requested height.
type Peer struct {
	Target string
	Serve  func(h uint64) ([]byte, error)
	Slow   bool // answers only after the timeout: the model sees a failed request
}

func respSx(c *CaseRec, p *Peer, h uint64) string {
	if p.Slow {
		return "(fail timeout)"
	}
	bs, err := p.Serve(h)
	if err != nil {
		return "(fail fetch)"
	}
	var blocks []*ledger.Block
	if err := json.Unmarshal(bs, &blocks); err != nil {
		return "(fail decode)"
	}
	var l []string
	for _, b := range blocks {
		if b == nil {
			return "(fail nilblock)"
		}
		c.noteBlock(b)
		l = append(l, sxBlock(b))
	}
	return sxl("blocks", l)
}

func (c *CaseRec) Update(now int64, peers []*Peer) string {
	n := c.Node
	c.stamps[now] = true
	hostLen := len(n.AllBlocks())
	var senders []application.Sender
	var nbs, incs, fulls []string
	for _, p := range peers {
		p := p
		senders = append(senders, &FakeSender{target: p.Target, getBlocks: p.Serve})
		inc := "(fail fetch)"
		if hostLen > 0 {
			inc = respSx(c, p, uint64(hostLen-1))
		}
		incs = append(incs, inc)
		fulls = append(fulls, respSx(c, p, 0))
	}
	n.Senders.Set(senders)
	n.Log.Take()
	n.Chain.Update(now)
	lines := n.Log.Take()
	n.Senders.Set(nil)
	res := "kept"
	rejected := map[string]bool{}
	c.Rejections = map[string]string{}
	for _, l := range lines {
		if strings.Contains(l, "blockchain replaced") {
			res = "replaced"
		}
		if strings.Contains(l, "failed to verify whole neighbor blocks for target ") || strings.Contains(l, "failed to verify last neighbor blocks for target ") {
			rest := l[strings.Index(l, "for target ")+len("for target "):]
			tgt := rest
			if i := strings.Index(rest, ": "); i >= 0 {
				tgt = rest[:i]
			}
			reason := ""
			if i := strings.Index(rest, ": "); i >= 0 {
				reason = rest[i+2:]
			}
			if c.Rejections == nil {
				c.Rejections = map[string]string{}
			}
			if strings.Contains(l, "whole neighbor") {
				rejected["full|"+tgt] = true
				c.Rejections["full|"+tgt] = reason
			} else {
				rejected["inc|"+tgt] = true
				c.Rejections["inc|"+tgt] = reason
			}
		}
	}
	// accepted targets = those with a candidate at the end (last stage that ran decides)
	fullRan := false
	for _, l := range lines {
		if strings.Contains(l, "all neighbor blockchains are forks") {
			fullRan = true
		}
	}
	acc := map[string]bool{}
	for _, p := range peers {
		if hostLen > 2 && !rejected["inc|"+p.Target] {
			acc[p.Target] = true
		}
		if fullRan && !rejected["full|"+p.Target] {
			acc[p.Target] = true
		}
	}
	var accl []string
	for t := range acc {
		if t != "host" {
			accl = append(accl, showStr(t))
		}
	}
	sort.Strings(accl)
	res = res + ":" + strings.Join(accl, ",")
	// what a fetch returned is the model's input. An answer that reached the node only after its
	// per-neighbor timeout (a loaded machine; the timeout of the faults suite is short) was, for the
	// node, a failed fetch: the model is told what happened, and the event is counted.
	for k, p := range peers {
		if !p.Slow && strings.Contains(c.Rejections["inc|"+p.Target], "response timeout") && !strings.HasPrefix(incs[k], "(fail") {
			incs[k] = "(fail timeout)"
			c.LateAnswers++
		}
		if !p.Slow && strings.Contains(c.Rejections["full|"+p.Target], "response timeout") && !strings.HasPrefix(fulls[k], "(fail") {
			fulls[k] = "(fail timeout)"
			c.LateAnswers++
		}
		nbs = append(nbs, sx(atom(p.Target), incs[k], fulls[k]))
	}
	c.record("update", "update "+i64(now)+" "+plist(nbs)+" "+atom(res), res)
	return res
}

// ---- emission ----------------------------------------------------------------------
func (c *CaseRec) valuesTable() []string {
	set := c.Node.Set
	var ts []int64
	for t := range c.stamps {
		ts = append(ts, t)
	}
	sort.Slice(ts, func(i, j int) bool { return ts[i] < ts[j] })
	el := map[int64]bool{}
	for _, a := range ts {
		for _, b := range ts {
			el[a-b] = true
		}
	}
	var els []int64
	for e := range el {
		els = append(els, e)
	}
	sort.Slice(els, func(i, j int) bool { return els[i] < els[j] })
	var outs []string
	for o := range c.outs {
		outs = append(outs, o)
	}
	sort.Strings(outs)
	var lines []string
	for _, o := range outs {
		var v uint64
		var y string
		fmt.Sscanf(o, "%d %s", &v, &y)
		u := ledger.NewUtxo(ledger.NewInputInfo(0, "x"), ledger.NewOutput("a", y == "1", v), 0)
		for _, e := range els {
			if e == 0 {
				continue
			}
			r := u.Value(e, set.HalfLife, set.Base, set.ILimit)
			lines = append(lines, sx(u64(v), y, i64(e), u64(r)))
		}
	}
	return lines
}

func sortedVals(m map[string]string) []string {
	var ks []string
	for k := range m {
		ks = append(ks, k)
	}
	sort.Strings(ks)
	var out []string
	for _, k := range ks {
		out = append(out, m[k])
	}
	return out
}

func (c *CaseRec) Emit() string {
	set := c.Node.Set
	var univ []string
	for _, a := range c.Universe {
		univ = append(univ, atom(a))
	}
	return sx("nodecase", atom(c.Id),
		sx("settings", i64(set.Interval), u64(set.Fee), u64(set.Genesis), u64(set.Limit), atom(c.Node.Validator)),
		sxl("values", c.valuesTable()),
		sxl("addrs", sortedVals(c.addrs)),
		sxl("sigs", sortedVals(c.sigs)),
		sxl("universe", univ),
		sxl("ops", c.Ops))
}
