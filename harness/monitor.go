package main

import (
	"encoding/json"
	"fmt"
	"math/big"
	"sort"
	"strings"

	"github.com/my-cloud/ruthenium/validatornode/application/verification"
	"github.com/my-cloud/ruthenium/validatornode/domain/ledger"
)

// Model-free property monitors: the boolean form of the properties, evaluated directly on
// what the real node serves. They are the failing-input search: when the correspondence
// with the model breaks, a monitor hit on the same run is the concrete violating history.

type outKey struct {
	id  string
	idx uint16
}
type outRec struct {
	out    *ledger.Output
	ts     int64
	height int
}

type ChainMonitor struct {
	set      *Settings
	out      *Out
	caseId   string
	seenHash map[int]string // height -> hash at first observation (while the prefix is unchanged)
	hits     map[string]bool
	produced map[string]bool // hashes of the blocks this node produced itself
	// an unaligned production tick happened: outside the quantifier of C01/C04 (the engine,
	// C20, only ever delivers aligned ticks)
	Unaligned bool
	// AfterSync: the chain is only ever changed by sync rounds against misbehaving neighbors (faults
	// suite): a chain that breaks a chain rule afterwards is something a faulty neighbor got in (C13)
	AfterSync bool
}

func NewChainMonitor(set *Settings, out *Out, caseId string) *ChainMonitor {
	return &ChainMonitor{set: set, out: out, caseId: caseId, seenHash: map[int]string{}, hits: map[string]bool{}}
}

func (m *ChainMonitor) hit(prop, key, what string) {
	if m.Unaligned && !strings.HasPrefix(key, "pool-") && (prop == "C01" || (prop == "C04" && key == "spacing") || prop == "C11") {
		return
	}
	k := prop + "|" + key
	if m.hits[k] {
		return
	}
	m.hits[k] = true
	if m.out != nil {
		m.out.Violation(prop, m.caseId, key+"\t"+what)
		if m.AfterSync && strings.HasPrefix(what, "op ") && strings.Contains(what[:indexOrLen(what, ':')], "(update)") {
			switch key {
			case "double-spend", "unknown-output", "tx-bound", "reward-bound", "sig", "owner", "link", "spacing", "reward-count", "window", "yield-unregistered", "two-yielding":
				m.out.Violation("C13", m.caseId, "invalid-chain-kept:"+prop+"."+key+"\tafter a sync round with misbehaving neighbors the node holds a chain that is not valid: "+what)
			}
		}
	}
}

func blockHashHex(b *ledger.Block) string {
	h, err := b.Hash()
	if err != nil {
		return "err"
	}
	return fmt.Sprintf("%x", h[:])
}

// CheckChain evaluates C01-C04 and C10 on a chain as served; step names the operation after
// which it was observed.
func (m *ChainMonitor) CheckChain(blocks []*ledger.Block, step string) {
	set := m.set
	unspent := map[outKey]*outRec{}
	everCreated := map[outKey]int{}
	consumed := map[outKey]string{}
	regNow, regPrev := map[string]bool{}, map[string]bool{} // registered after blocks < k, and one block earlier
	for k, b := range blocks {
		// C04 (i) (ii)
		if k > 0 {
			ph, _ := blocks[k-1].Hash()
			if b.PreviousHash() != ph {
				m.hit("C04", "link", fmt.Sprintf("%s: block %d is not linked to block %d", step, k, k-1))
				m.hit("C12", "link", fmt.Sprintf("%s: served chain is not hash-linked at height %d", step, k))
			}
			if b.Timestamp() != blocks[k-1].Timestamp()+set.Interval {
				m.hit("C04", "spacing", fmt.Sprintf("%s: block %d timestamp %d != %d + interval", step, k, b.Timestamp(), blocks[k-1].Timestamp()))
			}
		}
		rewards := 0
		var rewardValue uint64
		rewardCreated := new(big.Int)
		totalFees := new(big.Int)
		// C02/C01 are judged against the state before this block (outputs of earlier blocks)
		created := map[outKey]*outRec{}
		for _, t := range b.Transactions() {
			if t.HasReward() {
				rewards++
				rewardValue = t.RewardValue()
				// everything a reward transaction creates counts, not only the output RewardValue() reads
				for _, o := range t.Outputs() {
					rewardCreated.Add(rewardCreated, new(big.Int).SetUint64(o.InitialValue()))
				}
			} else if k > 0 {
				// C04 (v)
				if t.Timestamp() > b.Timestamp() || t.Timestamp() < blocks[k-1].Timestamp() {
					m.hit("C04", "window", fmt.Sprintf("%s: block %d transaction %s dated %d outside [%d,%d]", step, k, t.Id(), t.Timestamp(), blocks[k-1].Timestamp(), b.Timestamp()))
				}
				// C15: what is served for an id is the content that id was computed from
				{
					var jt JTx
					if bs, err := json.Marshal(t); err == nil && json.Unmarshal(bs, &jt) == nil {
						canon := jt
						canon.Inputs = nil
						for _, in := range jt.Inputs {
							c := *in
							c.Signature = strings.ToLower(c.Signature)
							canon.Inputs = append(canon.Inputs, &c)
						}
						if jt.Inputs != nil && canon.Inputs == nil {
							canon.Inputs = []*JInput{}
						}
						if canon.ComputeId() != t.Id() {
							m.hit("C15", "served-id", fmt.Sprintf("%s: block %d serves transaction %s whose content now hashes to %s", step, k, t.Id(), canon.ComputeId()))
						}
					}
				}
				inSum := new(big.Int)
				for _, in := range t.Inputs() {
					key := outKey{in.TransactionId(), in.OutputIndex()}
					// C03
					if !inputSigValid(in) {
						m.hit("C03", "sig", fmt.Sprintf("%s: block %d transaction %s input %s/%d has an invalid signature", step, k, t.Id(), key.id, key.idx))
					}
					if prev, dup := consumed[key]; dup {
						m.hit("C02", "double-spend", fmt.Sprintf("%s: output %s/%d consumed by %s and again by %s (block %d)", step, key.id, key.idx, prev, t.Id(), k))
					}
					consumed[key] = t.Id()
					rec, ok := unspent[key]
					if !ok {
						if _, same := created[key]; same {
							m.hit("C02", "same-block-spend", fmt.Sprintf("%s: block %d transaction %s consumes %s/%d created in the same block", step, k, t.Id(), key.id, key.idx))
							rec = created[key]
						} else if _, ever := everCreated[key]; !ever {
							m.hit("C02", "unknown-output", fmt.Sprintf("%s: block %d transaction %s consumes unknown output %s/%d", step, k, t.Id(), key.id, key.idx))
							continue
						} else {
							continue
						}
					}
					if rec.out.Address() != in.Address() {
						m.hit("C03", "owner", fmt.Sprintf("%s: block %d transaction %s input %s/%d key address %s != owner %s", step, k, t.Id(), key.id, key.idx, in.Address(), rec.out.Address()))
					}
					u := ledger.NewUtxo(ledger.NewInputInfo(key.idx, key.id), rec.out, rec.ts)
					v := u.Value(b.Timestamp(), set.HalfLife, set.Base, set.ILimit)
					inSum.Add(inSum, new(big.Int).SetUint64(v))
					delete(unspent, key)
				}
				outSum := new(big.Int)
				for _, o := range t.Outputs() {
					outSum.Add(outSum, new(big.Int).SetUint64(o.InitialValue()))
					// C10: a yielding recipient is listed by this block or registered in the confirmed state
					// (inside a batch the verifier's registry is one block behind: either state is accepted here)
					if o.IsYielding() && !m.produced[blockHashHex(b)] {
						listed := false
						for _, a := range b.AddedRegisteredAddresses() {
							if a == o.Address() {
								listed = true
							}
						}
						if !listed && !regNow[o.Address()] && !regPrev[o.Address()] {
							m.hit("C10", "yield-unregistered", fmt.Sprintf("%s: block %d transaction %s gives a yielding output to %s, which is neither registered nor listed as newly registered by the block", step, k, t.Id(), o.Address()))
						}
					}
				}
				need := new(big.Int).Add(outSum, new(big.Int).SetUint64(set.Fee))
				if need.Cmp(inSum) > 0 {
					m.hit("C01", "tx-bound", fmt.Sprintf("%s: block %d transaction %s pays out %s + fee %d > inputs %s", step, k, t.Id(), outSum, set.Fee, inSum))
				}
				totalFees.Add(totalFees, new(big.Int).Sub(inSum, outSum))
			}
			if k > 0 || true {
				for j, o := range t.Outputs() {
					key := outKey{t.Id(), uint16(j)}
					created[key] = &outRec{o, b.Timestamp(), k}
				}
			}
		}
		if m.produced[blockHashHex(b)] {
			// C11: an honest producer's reward equals the fees collected (plus the genesis amount in a first block)
			want := new(big.Int).Set(totalFees)
			if k == 0 {
				want = new(big.Int).SetUint64(set.Genesis)
			}
			if want.Cmp(new(big.Int).SetUint64(rewardValue)) != 0 && want.BitLen() <= 64 {
				m.hit("C11", "reward-not-fees", fmt.Sprintf("%s: produced block %d pays a reward of %d, the fees of its transactions are %s", step, k, rewardValue, want))
			}
		}
		if k > 0 {
			if rewards != 1 {
				m.hit("C04", "reward-count", fmt.Sprintf("%s: block %d has %d reward transactions", step, k, rewards))
			}
			if new(big.Int).SetUint64(rewardValue).Cmp(totalFees) > 0 {
				m.hit("C01", "reward-bound", fmt.Sprintf("%s: block %d reward %d > fees %s", step, k, rewardValue, totalFees))
			} else if rewardCreated.Cmp(totalFees) > 0 {
				m.hit("C01", "reward-bound", fmt.Sprintf("%s: the reward transaction(s) of block %d create %s in all, the fees are %s", step, k, rewardCreated, totalFees))
			}
		}
		regPrev = map[string]bool{}
		for a := range regNow {
			regPrev[a] = true
		}
		for _, a := range b.RemovedRegisteredAddresses() {
			delete(regNow, a)
		}
		for _, a := range b.AddedRegisteredAddresses() {
			regNow[a] = true
		}
		for key, rec := range created {
			if _, gone := consumed[key]; gone {
				continue
			}
			unspent[key] = rec
			everCreated[key] = k
		}
		// C10: at most one unspent yielding output per address after each block
		yielding := map[string]int{}
		for _, rec := range unspent {
			if rec.out.IsYielding() {
				yielding[rec.out.Address()]++
			}
		}
		for a, c := range yielding {
			if c > 1 {
				m.hit("C10", "two-yielding", fmt.Sprintf("%s: after block %d address %s owns %d unspent yielding outputs", step, k, a, c))
			}
		}
	}
}

// CheckStable (C12): a block, once observed at a height, is served with the same hash for
// as long as the chain below and including it has not been replaced by a sync round.
func (m *ChainMonitor) CheckStable(blocks []*ledger.Block, step string, mayReplace bool) {
	hs := make([]string, len(blocks))
	for i, b := range blocks {
		hs[i] = blockHashHex(b)
	}
	if mayReplace {
		// a sync round may swap the tip or re-sync: everything from the first differing height on is new
		for i := range hs {
			if old, ok := m.seenHash[i]; ok && old != hs[i] {
				for j := i; j < len(hs)+8; j++ {
					delete(m.seenHash, j)
				}
				break
			}
		}
	}
	for i, h := range hs {
		if old, ok := m.seenHash[i]; ok && old != h {
			m.hit("C12", "mutated", fmt.Sprintf("%s: block at height %d was served with hash %s and now with %s", step, i, old, h))
		}
		m.seenHash[i] = h
	}
}

// CheckDerived (C07): the node's reported outputs and registered addresses equal a fresh
// replay of its chain minus the last block on fresh registries.
func (m *ChainMonitor) CheckDerived(n *Node, blocks []*ledger.Block, universe []string, step string) {
	if len(blocks) == 0 {
		return
	}
	ur := verification.NewUtxosRegistry(n.Set)
	ar := verification.NewAddressesRegistry(&ScriptHumans{answer: map[string]int{}}, &CapLogger{})
	for _, b := range blocks[:len(blocks)-1] {
		if err := ur.UpdateUtxos(b.Transactions(), b.Timestamp()); err != nil {
			m.hit("C07", "replay-fails", fmt.Sprintf("%s: replaying the node's own chain fails: %v", step, err))
			return
		}
		ar.Update(b.AddedRegisteredAddresses(), b.RemovedRegisteredAddresses())
	}
	for _, a := range universe {
		got := n.Ureg.Utxos(a)
		want := ur.Utxos(a)
		same := len(got) == len(want)
		for i := 0; same && i < len(got); i++ {
			same = string(mustJSON(got[i])) == string(mustJSON(want[i]))
		}
		if !same {
			m.hit("C07", "utxos", fmt.Sprintf("%s: Utxos(%s) = %s but replay gives %s", step, a, mustJSON(got), mustJSON(want)))
		}
		if n.Areg.IsRegistered(a) != ar.IsRegistered(a) {
			m.hit("C07", "registered", fmt.Sprintf("%s: IsRegistered(%s) = %v but replay gives %v", step, a, n.Areg.IsRegistered(a), ar.IsRegistered(a)))
		}
	}
}

// CheckAdmit (C02 second sentence, C11 first sentence): an admitted transaction is dated within
// [last block, next block], was not already pooled, and consumes nothing that the last block
// or an earlier pooled transaction consumes.
func (m *ChainMonitor) CheckAdmit(t *ledger.Transaction, lastTs int64, lastTxs, poolBefore []*ledger.Transaction, step string) {
	if t.Timestamp() < lastTs || t.Timestamp() > lastTs+m.set.Interval {
		m.hit("C11", "admit-window", fmt.Sprintf("%s: admitted transaction %s dated %d outside [%d,%d]", step, t.Id(), t.Timestamp(), lastTs, lastTs+m.set.Interval))
	}
	used := map[outKey]string{}
	for _, o := range lastTxs {
		for _, in := range o.Inputs() {
			used[outKey{in.TransactionId(), in.OutputIndex()}] = "last block"
		}
	}
	for _, o := range poolBefore {
		if o.Id() == t.Id() {
			m.hit("C11", "admit-duplicate", fmt.Sprintf("%s: transaction %s admitted twice", step, t.Id()))
		}
		for _, in := range o.Inputs() {
			used[outKey{in.TransactionId(), in.OutputIndex()}] = "pooled " + o.Id()
		}
	}
	seen := map[outKey]bool{}
	for _, in := range t.Inputs() {
		k := outKey{in.TransactionId(), in.OutputIndex()}
		if by, ok := used[k]; ok {
			m.hit("C02", "admit-conflict", fmt.Sprintf("%s: admitted transaction %s consumes %s/%d already consumed by %s", step, t.Id(), k.id, k.idx, by))
		}
		if seen[k] {
			m.hit("C02", "admit-self-conflict", fmt.Sprintf("%s: admitted transaction %s consumes %s/%d twice", step, t.Id(), k.id, k.idx))
		}
		seen[k] = true
		if !inputSigValid(in) {
			m.hit("C03", "admit-sig", fmt.Sprintf("%s: admitted transaction %s has an invalid signature", step, t.Id()))
		}
	}
}

// CheckProduced (C11 second sentence): the produced block holds pooled transactions only, none
// twice, plus exactly one reward paid to the producer; the pool is empty afterwards.
func (m *ChainMonitor) CheckProduced(b *ledger.Block, poolBefore []*ledger.Transaction, poolAfter int, validator string, first bool, step string) {
	if m.produced == nil {
		m.produced = map[string]bool{}
	}
	m.produced[blockHashHex(b)] = true
	pooled := map[string]bool{}
	for _, t := range poolBefore {
		pooled[t.Id()] = true
	}
	seen := map[string]bool{}
	rewards := 0
	for _, t := range b.Transactions() {
		if seen[t.Id()] {
			m.hit("C11", "produced-twice", fmt.Sprintf("%s: produced block holds %s twice", step, t.Id()))
		}
		seen[t.Id()] = true
		if t.HasReward() {
			rewards++
			if t.RewardRecipientAddress() != validator {
				m.hit("C11", "reward-recipient", fmt.Sprintf("%s: reward paid to %s, producer is %s", step, t.RewardRecipientAddress(), validator))
			}
		} else if !pooled[t.Id()] {
			m.hit("C11", "foreign-tx", fmt.Sprintf("%s: produced block holds %s which was not pooled", step, t.Id()))
		}
	}
	if rewards != 1 {
		m.hit("C11", "reward-count", fmt.Sprintf("%s: produced block has %d rewards", step, rewards))
	}
	if poolAfter != 0 {
		m.hit("C11", "pool-not-drained", fmt.Sprintf("%s: %d transactions left in the pool after production", step, poolAfter))
	}
}

// CheckPool (C11 first sentence, C16): whatever happened - refusals included - the pool holds
// only transactions that were admitted to it, none twice, and never a reward.
func (m *ChainMonitor) CheckPool(pool []*ledger.Transaction, admitted map[string]bool, step string) {
	seen := map[string]bool{}
	for _, t := range pool {
		if t == nil {
			m.hit("C11", "pool-nil", fmt.Sprintf("%s: the pool holds a nil transaction", step))
			continue
		}
		if t.HasReward() {
			m.hit("C11", "pool-reward", fmt.Sprintf("%s: the pool holds reward transaction %s", step, t.Id()))
		} else if !admitted[t.Id()] {
			m.hit("C11", "pool-foreign", fmt.Sprintf("%s: the pool holds %s which was never admitted", step, t.Id()))
		}
		if seen[t.Id()] {
			m.hit("C11", "pool-duplicate", fmt.Sprintf("%s: the pool holds %s twice", step, t.Id()))
		}
		seen[t.Id()] = true
	}
}

// HitKeys: the monitor hits of this case so far, sorted, as "C02.unknown-output"
func (m *ChainMonitor) HitKeys() []string {
	var ks []string
	for k := range m.hits {
		ks = append(ks, strings.Replace(k, "|", ".", 1))
	}
	sort.Strings(ks)
	return ks
}

// inputSigValid: the independent signature oracle (econ.go SigValid) on a decoded input
func inputSigValid(in *ledger.Input) bool {
	var j JInput
	bs, err := json.Marshal(in)
	if err != nil || json.Unmarshal(bs, &j) != nil {
		return false
	}
	return SigValid(&j)
}
