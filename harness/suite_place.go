package main

import (
	"fmt"
	"strings"
	"sync"
	"time"

	"github.com/my-cloud/ruthenium/validatornode/application"
	"github.com/my-cloud/ruthenium/validatornode/application/validation"
	"github.com/my-cloud/ruthenium/validatornode/application/verification"
	"github.com/my-cloud/ruthenium/validatornode/domain/ledger"
)

// C16, placements: one operation placed inside another at a collaborator call, by wrapping
// the injected collaborators (they are interfaces) with decorators that run the second
// operation when the first reaches the call. Deterministic, unlike the stress run.

type hookBlocks struct {
	inner      application.BlocksManager
	onAddBlock func()
}

func (h *hookBlocks) AddBlock(ts int64, txs []*ledger.Transaction, addrs []string) error {
	if h.onAddBlock != nil {
		f := h.onAddBlock
		h.onAddBlock = nil
		f()
	}
	return h.inner.AddBlock(ts, txs, addrs)
}
func (h *hookBlocks) Blocks(s uint64) []*ledger.Block { return h.inner.Blocks(s) }
func (h *hookBlocks) FirstBlockTimestamp() int64      { return h.inner.FirstBlockTimestamp() }
func (h *hookBlocks) LastBlockTimestamp() int64       { return h.inner.LastBlockTimestamp() }
func (h *hookBlocks) LastBlockTransactions() []*ledger.Transaction {
	return h.inner.LastBlockTransactions()
}

type hookUtxos struct {
	inner  application.UtxosManager
	onCopy func()
}

func (h *hookUtxos) CalculateFee(t *ledger.Transaction, ts int64) (uint64, error) {
	return h.inner.CalculateFee(t, ts)
}
func (h *hookUtxos) Clear() { h.inner.Clear() }
func (h *hookUtxos) Copy() application.UtxosManager {
	if h.onCopy != nil {
		f := h.onCopy
		h.onCopy = nil
		f()
	}
	return h.inner.Copy()
}
func (h *hookUtxos) UpdateUtxos(txs []*ledger.Transaction, ts int64) error {
	return h.inner.UpdateUtxos(txs, ts)
}
func (h *hookUtxos) Utxos(a string) []*ledger.Utxo { return h.inner.Utxos(a) }

type hookAddresses struct {
	inner    application.AddressesManager
	onFilter func()
}

func (h *hookAddresses) Clear()                             { h.inner.Clear() }
func (h *hookAddresses) Copy() application.AddressesManager { return h.inner.Copy() }
func (h *hookAddresses) Filter(a []string) []string {
	if h.onFilter != nil {
		f := h.onFilter
		h.onFilter = nil
		f()
	}
	return h.inner.Filter(a)
}
func (h *hookAddresses) IsRegistered(a string) bool    { return h.inner.IsRegistered(a) }
func (h *hookAddresses) RemovedAddresses() []string    { return h.inner.RemovedAddresses() }
func (h *hookAddresses) Update(a []string, r []string) { h.inner.Update(a, r) }

func runPlaceSuite(seed uint64, n int, out *Out, stats *Stats) {
	for i := 0; i < n; i++ {
		id := fmt.Sprintf("pl%d_%d", seed, i)
		r := NewRng(seed*122949829 + uint64(i))
		set := pickSettings(r)
		set.Limit = 1440
		set.Timeout = 2 * time.Second
		w := &World{r: r, set: set, stats: stats, mode: "honest"}
		for k := 0; k < 5; k++ {
			w.wallets = append(w.wallets, NewWallet(k))
		}
		// a node whose pool and chain talk to each other through decorators
		nd := &Node{Set: set, Validator: w.wallets[0].Addr}
		nd.Log = &CapLogger{}
		nd.Humans = &ScriptHumans{answer: map[string]int{}}
		nd.Areg = verification.NewAddressesRegistry(nd.Humans, nd.Log)
		nd.Ureg = verification.NewUtxosRegistry(set)
		nd.Senders = &FakeSenders{host: "127.0.0.1:10600"}
		hu := &hookUtxos{inner: nd.Ureg}
		ha := &hookAddresses{inner: nd.Areg}
		nd.Chain = verification.NewBlockchain(ha, set, nd.Senders, hu, nd.Log)
		hb := &hookBlocks{inner: nd.Chain}
		nd.Pool = validation.NewTransactionsPool(hb, set, nd.Senders, hu, nd.Validator, nd.Log)
		w.host = nd
		w.now = t0 - (t0 % set.Interval)
		var univ []string
		for _, wl := range w.wallets {
			univ = append(univ, wl.Addr)
		}
		// three blocks, the genesis coin split into several outputs
		for k := 0; k < 3; k++ {
			w.now += set.Interval
			nd.Pool.Validate(w.now)
			if k == 1 {
				if conf := w.confirmed(nd, w.wallets[0]); len(conf) > 0 && conf[0].value > 100*set.Fee+1000 {
					var outs []*JOutput
					share := (conf[0].value - set.Fee) / 6
					for j := 0; j < 6; j++ {
						outs = append(outs, &JOutput{w.wallets[j%5].Addr, false, share})
					}
					nd.Pool.AddTransaction(w.build(&txPlan{ins: []spendable{conf[0]}, outs: outs, ts: w.now}), "a", "b")
				}
			}
		}
		w.now += set.Interval
		nd.Pool.Validate(w.now)
		w.now += set.Interval
		nd.Pool.Validate(w.now)
		var txs []*ledger.Transaction
		for _, wl := range w.wallets {
			for _, u := range w.confirmed(nd, wl) {
				if u.value > set.Fee+10 {
					txs = append(txs, w.build(&txPlan{ins: []spendable{u}, outs: []*JOutput{{w.wallets[r.Intn(5)].Addr, false, u.value - set.Fee - 1}}, ts: w.now + int64(r.U64n(uint64(set.Interval)))}))
				}
			}
		}
		if len(txs) < 2 {
			continue
		}
		admitted := func(tag string) bool {
			nd.Senders.mu.Lock()
			defer nd.Senders.mu.Unlock()
			for _, t := range nd.Senders.incentives {
				if t == tag {
					return true
				}
			}
			return false
		}
		where := func(txid string) int {
			c := 0
			for _, b := range nd.AllBlocks() {
				for _, t := range b.Transactions() {
					if t.Id() == txid {
						c++
					}
				}
			}
			for _, t := range nd.Pool.Transactions() {
				if t.Id() == txid {
					c++
				}
			}
			return c
		}
		kind := i % 7
		switch kind {
		case 6:
			// a freshly started node: its first tick made its own genesis, a transaction spending the
			// genesis output is pooled; inside the next tick (after it read the tip) a sync round adopts
			// a longer chain that started earlier and whose tip carries the same timestamp
			helper := NewNode(set, w.wallets[1].Addr)
			helper.Pool.Validate(w.now - 2*set.Interval)
			helper.Pool.Validate(w.now - set.Interval)
			helper.Pool.Validate(w.now)
			fr := &Node{Set: set, Validator: w.wallets[0].Addr}
			fr.Log = &CapLogger{}
			fr.Humans = &ScriptHumans{answer: map[string]int{}}
			fr.Areg = verification.NewAddressesRegistry(fr.Humans, fr.Log)
			fr.Ureg = verification.NewUtxosRegistry(set)
			fr.Senders = &FakeSenders{host: "127.0.0.1:10600"}
			hu = &hookUtxos{inner: fr.Ureg}
			fr.Chain = verification.NewBlockchain(&hookAddresses{inner: fr.Areg}, set, fr.Senders, hu, fr.Log)
			fr.Pool = validation.NewTransactionsPool(&hookBlocks{inner: fr.Chain}, set, fr.Senders, hu, fr.Validator, fr.Log)
			nd = fr
			w.host = fr
			nd.Pool.Validate(w.now)
			gen := w.fresh(nd.Chain.LastBlockTransactions())
			if len(gen) == 0 {
				continue
			}
			txs = []*ledger.Transaction{w.build(&txPlan{ins: []spendable{gen[0]}, outs: []*JOutput{{w.wallets[2].Addr, false, gen[0].value / 2}}, ts: w.now + 1})}
			nd.Pool.AddTransaction(txs[0], "mine", "h")
			if len(nd.Pool.Transactions()) != 1 {
				stats.Count("place/fresh-node-tx-not-admitted")
			}
			hu.onCopy = func() {
				p := honestPeer("10.6.0.2:10600", helper)
				nd.Senders.Set([]application.Sender{&FakeSender{target: p.Target, getBlocks: p.Serve}})
				nd.Chain.Update(w.now + set.Interval)
				nd.Senders.Set(nil)
			}
			nd.Pool.Validate(w.now + set.Interval)
			if len(nd.AllBlocks()) == 4 {
				stats.Count("place/fresh-node-produced-on-adopted-chain")
			}
			stats.Count("place/fresh-node-adopts-inside-tick")
		case 5:
			// as placement 4, with a pooled transaction that the adopted chain has already confirmed:
			// the tick rejects it, builds its block and is refused by AddBlock; the pool must not
			// keep any trace of the block that was never added
			helper := NewNode(set, w.wallets[1].Addr)
			helper.Pool.Validate(nd.Chain.FirstBlockTimestamp())
			helperSync(helper, w.now, []*Peer{honestPeer("10.6.0.1:10600", nd)})
			helper.Pool.AddTransaction(txs[0], "a", "b")
			helper.Pool.Validate(w.now + set.Interval)
			helper.Pool.Validate(w.now + 2*set.Interval)
			nd.Pool.AddTransaction(txs[0], "mine", "h")
			nd.Pool.AddTransaction(txs[1], "mine", "h")
			if len(txs) > 2 && i%4 >= 2 {
				nd.Pool.AddTransaction(txs[2], "mine", "h")
			}
			hu.onCopy = func() {
				p := honestPeer("10.6.0.2:10600", helper)
				nd.Senders.Set([]application.Sender{&FakeSender{target: p.Target, getBlocks: p.Serve}})
				nd.Chain.Update(w.now + 2*set.Interval)
				nd.Senders.Set(nil)
			}
			nd.Pool.Validate(w.now + set.Interval)
			stats.Count("place/sync-confirms-pooled-inside-tick")
		case 4:
			// a sync round placed inside a production tick before the block is built: the tick has read
			// the tip, the round then adopts a longer chain, the tick goes on
			helper := NewNode(set, w.wallets[1].Addr)
			helper.Pool.Validate(nd.Chain.FirstBlockTimestamp())
			helperSync(helper, w.now, []*Peer{honestPeer("10.6.0.1:10600", nd)})
			helper.Pool.Validate(w.now + set.Interval)
			if (i/7)%2 == 0 {
				helper.Pool.Validate(w.now + 2*set.Interval)
			}
			nd.Pool.AddTransaction(txs[0], "mine", "h")
			hu.onCopy = func() {
				p := honestPeer("10.6.0.2:10600", helper)
				nd.Senders.Set([]application.Sender{&FakeSender{target: p.Target, getBlocks: p.Serve}})
				nd.Chain.Update(w.now + 2*set.Interval)
				nd.Senders.Set(nil)
			}
			nd.Pool.Validate(w.now + set.Interval)
			stats.Count("place/sync-inside-tick-before-block")
		case 3:
			// two production ticks placed inside one sync round (a slow round): the round snapshots
			// the chain, the node produces two blocks (with registry removals pending), the round commits
			helper := NewNode(set, w.wallets[1].Addr)
			helper.Pool.Validate(nd.Chain.FirstBlockTimestamp())
			helperSync(helper, w.now, []*Peer{honestPeer("10.6.0.1:10600", nd)})
			helper.Pool.Validate(w.now + set.Interval)
			nd.Humans.answer = map[string]int{w.wallets[0].Addr: 0}
			nd.Areg.Synchronize(0)
			hu.onCopy = func() {
				nd.Pool.Validate(w.now + set.Interval)
				nd.Pool.Validate(w.now + 2*set.Interval)
			}
			p := honestPeer("10.6.0.2:10600", helper)
			nd.Senders.Set([]application.Sender{&FakeSender{target: p.Target, getBlocks: p.Serve}})
			nd.Chain.Update(w.now + 2*set.Interval)
			nd.Senders.Set(nil)
			stats.Count("place/two-ticks-inside-sync")
		case 2:
			// a sync round placed inside a production tick, when AddBlock consults the registry
			helper := NewNode(set, w.wallets[1].Addr)
			helper.Pool.Validate(nd.Chain.FirstBlockTimestamp()) // an empty node never syncs: own genesis first
			helperSync(helper, w.now, []*Peer{honestPeer("10.6.0.1:10600", nd)})
			helper.Pool.Validate(w.now + set.Interval)
			helper.Pool.Validate(w.now + 2*set.Interval)
			if len(helper.AllBlocks()) != len(nd.AllBlocks())+2 {
				stats.Count("place/helper-not-in-sync")
			}
			nd.Pool.AddTransaction(txs[0], "mine", "h")
			var wg sync.WaitGroup
			ha.onFilter = func() {
				wg.Add(1)
				done := make(chan struct{})
				go func() {
					defer wg.Done()
					p := honestPeer("10.6.0.2:10600", helper)
					nd.Senders.Set([]application.Sender{&FakeSender{target: p.Target, getBlocks: p.Serve}})
					nd.Chain.Update(w.now + 2*set.Interval)
					nd.Senders.Set(nil)
					close(done)
				}()
				select {
				case <-done:
				case <-time.After(60 * time.Millisecond): // it waits for the chain lock: let the tick go on
				}
			}
			nd.Pool.Validate(w.now + set.Interval)
			wg.Wait()
			stats.Count("place/sync-inside-addblock")
		case 0:
			// a submission placed inside a production tick, at the pool's AddBlock call
			nd.Pool.AddTransaction(txs[0], "first", "h")
			var wg sync.WaitGroup
			hb.onAddBlock = func() {
				wg.Add(1)
				done := make(chan struct{})
				go func() {
					defer wg.Done()
					nd.Pool.AddTransaction(txs[1], "placed", "h")
					close(done)
				}()
				select {
				case <-done:
				case <-time.After(40 * time.Millisecond): // it waits for the pool lock: let the tick go on
				}
			}
			nd.Pool.Validate(w.now + set.Interval)
			wg.Wait()
			time.Sleep(2 * time.Millisecond)
			if admitted("placed") {
				if c := where(txs[1].Id()); c != 1 {
					out.Violation("C16", id, fmt.Sprintf("lost-transaction\ta transaction admitted while a production tick was at its AddBlock call is found %d times in chain + pool afterwards (expected once)", c))
				}
			}
			if c := where(txs[0].Id()); c != 1 {
				out.Violation("C16", id, fmt.Sprintf("lost-transaction\tthe pooled transaction is found %d times in chain + pool after the tick", c))
			}
			stats.Count("place/submit-inside-tick")
		case 1:
			// a production tick placed inside a sync round, between verification and commit
			helper := NewNode(set, w.wallets[1].Addr)
			helper.Pool.Validate(nd.Chain.FirstBlockTimestamp())
			helperSync(helper, w.now, []*Peer{honestPeer("10.6.0.1:10600", nd)})
			helper.Pool.AddTransaction(txs[0], "a", "b")
			helper.Pool.Validate(w.now + set.Interval)
			nd.Pool.AddTransaction(txs[1], "mine", "h")
			hu.onCopy = func() { nd.Pool.Validate(w.now + set.Interval) } // the host produces its own block meanwhile
			var ss []application.Sender
			p := honestPeer("10.6.0.2:10600", helper)
			ss = append(ss, &FakeSender{target: p.Target, getBlocks: p.Serve})
			nd.Senders.Set(ss)
			nd.Chain.Update(w.now + set.Interval)
			nd.Senders.Set(nil)
			stats.Count("place/tick-inside-sync")
		}
		// the quiescent state must satisfy C01-C07
		mon := NewChainMonitor(set, out, id)
		before := out.Violations
		blocks := nd.AllBlocks()
		mon.CheckChain(blocks, "after the placement")
		mon.CheckDerived(nd, blocks, univ, "after the placement")
		submitted := map[string]bool{}
		for _, t := range txs {
			submitted[t.Id()] = true
		}
		mon.CheckPool(nd.Pool.Transactions(), submitted, "after the placement")
		if out.Violations > before {
			out.Violation("C16", id, fmt.Sprintf("quiescent-state:%s:"+strings.Join(mon.HitKeys(), "+")+"\tafter the placement the node violates C01-C07 (see the lines above for this case)", []string{"submit-inside-tick", "tick-inside-sync", "sync-inside-addblock", "two-ticks-inside-sync", "sync-inside-tick-before-block", "sync-confirms-pooled-inside-tick", "fresh-node-adopts-inside-tick"}[kind]))
		}
		stats.Mark(fmt.Sprintf("%d/%d/%d", kind, len(blocks), len(nd.Pool.Transactions())))
		stats.Sample(fmt.Sprintf("%s: placement %s; chain of %d blocks, pool of %d afterwards", id, []string{"submission inside a production tick (at AddBlock)", "production tick inside a sync round (at the registry copy of verify)", "sync round inside a production tick (when AddBlock consults the registry)", "two production ticks inside one sync round", "sync round inside a production tick, after the tick read the tip", "sync round confirming a pooled transaction inside a production tick", "fresh node: sync round adopting an older chain with the same tip time inside its tick"}[kind], len(blocks), len(nd.Pool.Transactions())))
		stats.Cases++
		stats.Ops += 2
	}
}
