package main

import (
	"fmt"
	"sync"
	"sync/atomic"
	"time"

	"github.com/my-cloud/ruthenium/validatornode/domain/ledger"
)

// C16: the node's concurrent activities on one real node, run under the Go race detector
// (the binary is built with -race for this suite). At quiescence the node must satisfy the
// chain monitors (C01-C04, C07, C10) and no admitted transaction may be lost or duplicated.
func runRaceSuite(seed uint64, n int, out *Out, stats *Stats) {
	for i := 0; i < n; i++ {
		id := fmt.Sprintf("rc%d_%d", seed, i)
		r := NewRng(seed*86028121 + uint64(i))
		set := pickSettings(r)
		set.Interval = int64(time.Second)
		set.Limit = 1440
		set.Timeout = 2 * time.Second
		w := &World{r: r, set: set, stats: stats, mode: "honest"}
		for k := 0; k < 5; k++ {
			w.wallets = append(w.wallets, NewWallet(k))
		}
		host := NewNode(set, w.wallets[0].Addr)
		helper := NewNode(set, w.wallets[1].Addr)
		w.host = host
		w.now = t0 - (t0 % set.Interval)
		var univ []string
		for _, wl := range w.wallets {
			univ = append(univ, wl.Addr)
		}
		// a few blocks and some spread-out coins first (sequentially)
		for k := 0; k < 3; k++ {
			w.now += set.Interval
			host.Pool.Validate(w.now)
			if k == 1 {
				conf := w.confirmed(host, w.wallets[0])
				if len(conf) > 0 && conf[0].value > 10*set.Fee+1000 {
					var outs []*JOutput
					share := (conf[0].value - set.Fee) / 8
					for j := 0; j < 8; j++ {
						outs = append(outs, &JOutput{w.wallets[j%5].Addr, false, share})
					}
					host.Pool.AddTransaction(w.build(&txPlan{ins: []spendable{conf[0]}, outs: outs, ts: w.now}), "a", "b")
				}
			}
		}
		w.now += set.Interval
		host.Pool.Validate(w.now)
		w.now += set.Interval
		host.Pool.Validate(w.now)
		helperSync(helper, w.now, []*Peer{honestPeer("10.6.0.1:10600", host)})
		// pre-built transactions spending distinct confirmed outputs (plus one duplicate submission)
		var txs []*ledger.Transaction
		for _, wl := range w.wallets {
			for _, u := range w.confirmed(host, wl) {
				if u.value > set.Fee+10 {
					txs = append(txs, w.build(&txPlan{ins: []spendable{u}, outs: []*JOutput{{w.wallets[r.Intn(5)].Addr, false, u.value - set.Fee - 1}}, ts: w.now + int64(r.U64n(uint64(set.Interval)))}))
				}
			}
		}
		if len(txs) > 0 {
			txs = append(txs, txs[0], txs[0])
		}
		host.Log.Take()
		var wg sync.WaitGroup
		stop := make(chan struct{})
		run := func(f func()) {
			wg.Add(1)
			go func() {
				defer wg.Done()
				for {
					select {
					case <-stop:
						return
					default:
						f()
					}
				}
			}()
		}
		var mu sync.Mutex
		k := 0
		// submissions from two goroutines
		for g := 0; g < 2; g++ {
			run(func() {
				mu.Lock()
				var t *ledger.Transaction
				if k < len(txs) {
					t = txs[k]
					k++
				}
				mu.Unlock()
				if t != nil {
					host.Pool.AddTransaction(t, "10.6.0.9:10600", "h")
				} else {
					time.Sleep(time.Millisecond)
				}
			})
		}
		// queries
		run(func() {
			_ = host.Pool.Transactions()
			_ = host.Chain.Blocks(0)
			_ = host.Ureg.Utxos(univ[1])
			// and as peers and wallets ask: through the node's handlers, which encode what they were
			// handed after the component's lock has been released
			_, _ = host.ServedPoolBytes()
			_, _ = host.ServedBlocksBytes(0)
			for _, a := range univ {
				_, _ = host.ServedUtxosBytes(a)
			}
			_ = host.Chain.LastBlockTimestamp()
			_ = host.Chain.FirstBlockTimestamp()
			_ = host.Chain.LastBlockTransactions()
			_ = host.Areg.IsRegistered(univ[0])
			time.Sleep(200 * time.Microsecond)
		})
		// production ticks
		var tick int64 = w.now
		run(func() {
			t := atomic.AddInt64(&tick, set.Interval)
			host.Pool.Validate(t)
			helper.Pool.Validate(t)
			time.Sleep(3 * time.Millisecond)
		})
		// sync rounds against the helper
		run(func() {
			helperPeer := honestPeer("10.6.0.2:10600", helper)
			helperSync(host, atomic.LoadInt64(&tick)+10*set.Interval, []*Peer{helperPeer})
			time.Sleep(2 * time.Millisecond)
		})
		// registry refresh
		run(func() {
			host.Areg.Synchronize(0)
			time.Sleep(5 * time.Millisecond)
		})
		time.Sleep(time.Duration(40+r.Intn(40)) * time.Millisecond)
		close(stop)
		done := make(chan struct{})
		go func() { wg.Wait(); close(done) }()
		select {
		case <-done:
		case <-time.After(10 * time.Second):
			out.Violation("C16", id, "deadlock\tthe concurrent activities did not come to rest within 10 s")
			stats.Cases++
			continue
		}
		time.Sleep(5 * time.Millisecond) // fan-out goroutines of AddTransaction
		// quiescent state: C01-C04, C07, C10 on the held chain
		mon := NewChainMonitor(set, nil, id)
		mon.out = out
		blocks := host.AllBlocks()
		before := out.Violations
		mon.CheckChain(blocks, "at quiescence")
		mon.CheckDerived(host, blocks, univ, "at quiescence")
		if out.Violations > before {
			out.Violation("C16", id, "quiescent-state\tafter concurrent activity the node violates C01-C07 (see the lines above for this case)")
		}
		// no admitted transaction lost or duplicated: count occurrences in chain + pool
		occ := map[string]int{}
		for _, b := range blocks {
			for _, t := range b.Transactions() {
				occ[t.Id()]++
			}
		}
		for _, t := range host.Pool.Transactions() {
			occ[t.Id()]++
		}
		for idt, c := range occ {
			if c > 1 {
				out.Violation("C16", id, fmt.Sprintf("duplicated-transaction\ttransaction %s appears %d times in chain + pool", idt, c))
			}
		}
		stats.Count(fmt.Sprintf("race/blocks=%d/submitted=%d", minInt(len(blocks), 12), minInt(k, 20)))
		stats.Mark(fmt.Sprintf("%d/%d/%d", len(blocks), k, len(host.Pool.Transactions())))
		stats.Sample(fmt.Sprintf("%s: %d transactions submitted from 2 goroutines, queries, ticks, sync rounds and registry refreshes in parallel; chain of %d blocks at quiescence", id, k, len(blocks)))
		stats.Cases++
		stats.Ops += k
	}
}
