package main

import (
	"bytes"
	"encoding/json"
	"errors"
	"fmt"
	"strings"
	"time"

	"github.com/my-cloud/ruthenium/validatornode/application"
	"github.com/my-cloud/ruthenium/validatornode/domain/ledger"
)

// Histories over a real node ("host", recorded and compared with the model) in a small world
// of other real nodes ("helpers": honest block sources that sync from the host and produce
// extension or competing blocks) and scripted faulty peers.

const t0 = int64(1_700_000_100) * int64(time.Second)

type World struct {
	r       *Rng
	set     *Settings
	wallets []*Wallet
	host    *Node
	rec     *CaseRec
	helpers []*Node
	now     int64 // last tick
	stats   *Stats
	mode    string
	sent    []*ledger.Transaction
	// signatures the host has verified (admitted transactions), by public key
	goodSigs  map[string][][2]string // (signature, reference)
	raceFirst bool
	setupLost bool // wallet suites: the set-up payment was admitted but not included
	// outputs an ordinary wallet never lists: zero-valued plain outputs created beside others, and
	// outputs paid to another spelling of a wallet's address (owner = the wallet whose address it spells)
	zeroOuts  []spendable
	respelled []spendable
	paidTo    []string // every address string a generated transaction paid to
}

func pickSettings(r *Rng) *Settings {
	interval := int64(r.Pick(1, 1, 5, 60)) * int64(time.Second)
	hl := []float64{373.59 * 24 * 3600e9, 3600e9, 600e9}[r.Intn(3)]
	fee := uint64(r.Pick(1, 1000, 1000, 7))
	return &Settings{Limit: uint64(r.Pick(3, 4, 5, 8, 1440)), Genesis: []uint64{5_000_000_000_000, 1 << 40, 10_000_000}[r.Intn(3)],
		HalfLife: hl, Base: 100_000_000_000, ILimit: 5_000_000_000_000, Fee: fee, Units: 100_000_000,
		Timeout: 2 * time.Second, Interval: interval, VerifCnt: 6}
}

func NewWorld(id string, seed uint64, mode string, stats *Stats, out *Out) *World {
	r := NewRng(seed)
	w := &World{r: r, set: pickSettings(r), stats: stats, mode: mode}
	for i := 0; i < 5; i++ {
		w.wallets = append(w.wallets, NewWallet(i))
	}
	w.host = NewNode(w.set, w.wallets[0].Addr)
	var univ []string
	for _, wl := range w.wallets {
		univ = append(univ, wl.Addr)
	}
	univ = append(univ, "0xNotAWallet")
	w.rec = NewCaseRec(id, w.host, univ)
	w.rec.Mon = NewChainMonitor(w.set, out, id)
	nh := 1 + r.Intn(2)
	for i := 0; i < nh; i++ {
		// helper i validates with wallet i+1; sometimes with the host's own key (identical genesis)
		v := w.wallets[1+i].Addr
		if r.Chance(1, 4) {
			v = w.wallets[0].Addr
		}
		w.helpers = append(w.helpers, NewNode(w.set, v))
	}
	w.now = t0 - (t0 % w.set.Interval)
	return w
}

func (w *World) next() int64 { return w.now + w.set.Interval }

// honest peer serving a real node's chain through the real paging
func honestPeer(target string, n *Node) *Peer {
	return &Peer{Target: target, Serve: func(h uint64) ([]byte, error) {
		return n.ServedBlocksBytes(h) // through the node's own "blocks" handler
	}}
}

// an honest peer whose JSON is laid out differently (indented, as another implementation or a
// proxy might send it): the same values, other bytes
func indentedPeer(target string, n *Node) *Peer {
	return &Peer{Target: target, Serve: func(h uint64) ([]byte, error) {
		bs, err := n.ServedBlocksBytes(h)
		if err != nil {
			return nil, err
		}
		var buf bytes.Buffer
		if err := json.Indent(&buf, bs, "", "  "); err != nil {
			return bs, nil
		}
		return buf.Bytes(), nil
	}}
}

func staticPeer(target string, blocks []*JBlock, limit uint64) *Peer {
	return &Peer{Target: target, Serve: func(h uint64) ([]byte, error) {
		if h >= uint64(len(blocks)) {
			return []byte("[]"), nil
		}
		e := uint64(len(blocks))
		if h+limit < e {
			e = h + limit
		}
		return json.Marshal(blocks[h:e])
	}}
}

func failingPeer(target string, kind int) *Peer {
	return &Peer{Target: target, Serve: func(h uint64) ([]byte, error) {
		switch kind {
		case 0:
			return nil, errors.New("connection refused")
		case 1:
			return []byte("{not json"), nil
		case 2:
			return []byte("[]"), nil
		default:
			return []byte(`{"a":1}`), nil
		}
	}}
}

// helperSync: an unrecorded node syncs from the given peers.
func helperSync(n *Node, now int64, peers []*Peer) {
	var ss []application.Sender
	for _, p := range peers {
		ss = append(ss, &FakeSender{target: p.Target, getBlocks: p.Serve})
	}
	n.Senders.Set(ss)
	n.Chain.Update(now)
	n.Senders.Set(nil)
	n.Log.Take()
}

// ---- transactions ---------------------------------------------------------------
type spendable struct {
	txid  string
	idx   uint16
	value uint64 // at next block timestamp
	owner *Wallet
}

func (w *World) walletOf(addr string) *Wallet {
	for _, wl := range w.wallets {
		if wl.Addr == addr {
			return wl
		}
	}
	return nil
}

// confirmed outputs (what a wallet sees through Utxos(address))
func (w *World) confirmed(n *Node, wl *Wallet) []spendable {
	var out []spendable
	for _, u := range n.Ureg.Utxos(wl.Addr) {
		out = append(out, spendable{u.TransactionId(), u.OutputIndex(),
			u.Value(w.next(), w.set.HalfLife, w.set.Base, w.set.ILimit), wl})
	}
	return out
}

// registered: the node's confirmed registry still holds output z (looked up through the validator's own
// utxos endpoint data: every address the harness ever paid to, including other spellings)
func (w *World) registered(n *Node, z spendable) bool {
	for _, a := range w.paidTo {
		for _, u := range n.Ureg.Utxos(a) {
			if u.TransactionId() == z.txid && u.OutputIndex() == z.idx {
				return true
			}
		}
	}
	return false
}

// outputs of a list of transactions (last block / pool), stamped at "next" like the pool does
func (w *World) fresh(txs []*ledger.Transaction) []spendable {
	var out []spendable
	for _, t := range txs {
		for j, o := range t.Outputs() {
			if wl := w.walletOf(o.Address()); wl != nil {
				out = append(out, spendable{t.Id(), uint16(j), o.InitialValue(), wl})
			}
		}
	}
	return out
}

type txPlan struct {
	ins     []spendable
	signers []*Wallet // nil = owner
	outs    []*JOutput
	ts      int64
	tamper  string
	replay  string // tamper "replay-sig": a signature the same key made for another reference
}

func (w *World) build(p *txPlan) *ledger.Transaction {
	jt := &JTx{Timestamp: p.ts, Outputs: p.outs}
	jt.Inputs = []*JInput{}
	for i, s := range p.ins {
		signer := s.owner
		if p.signers != nil && p.signers[i] != nil {
			signer = p.signers[i]
		}
		in := signer.SignInput(s.idx, s.txid)
		jt.Inputs = append(jt.Inputs, in)
	}
	switch p.tamper {
	case "sig-s":
		if len(jt.Inputs) > 0 {
			s := []byte(jt.Inputs[0].Signature)
			if s[127] == '0' {
				s[127] = '1'
			} else {
				s[127] = '0'
			}
			jt.Inputs[0].Signature = string(s)
		}
	case "sig-r0":
		if len(jt.Inputs) > 0 {
			jt.Inputs[0].Signature = fmt.Sprintf("%064x", 0) + jt.Inputs[0].Signature[64:]
		}
	case "sig-s0":
		if len(jt.Inputs) > 0 {
			jt.Inputs[0].Signature = jt.Inputs[0].Signature[:64] + fmt.Sprintf("%064x", 0)
		}
	case "sig-rbig":
		if len(jt.Inputs) > 0 {
			jt.Inputs[0].Signature = "ffffffffffffffffffffffffffffffffffffffffffffffffffffffffffffffff" + jt.Inputs[0].Signature[64:]
		}
	case "replay-sig":
		// a genuine signature of the same key over another output reference (public chain data)
		if len(jt.Inputs) > 0 && p.replay != "" {
			jt.Inputs[0].Signature = p.replay
		}
	case "ref":
		// signature made for another reference
		if len(jt.Inputs) > 0 {
			jt.Inputs[0].OutputIndex++
		}
	case "upper":
		if len(jt.Inputs) > 0 {
			b := []byte(jt.Inputs[0].Signature)
			for i := range b {
				if b[i] >= 'a' && b[i] <= 'f' {
					b[i] -= 32
				}
			}
			jt.Inputs[0].Signature = string(b)
		}
	}
	// the decoder computes the id over the canonical (lower-case) re-encoding of the inputs
	canon := *jt
	canon.Inputs = nil
	for _, in := range jt.Inputs {
		c := *in
		c.Signature = strings.ToLower(c.Signature)
		canon.Inputs = append(canon.Inputs, &c)
	}
	if jt.Inputs != nil && canon.Inputs == nil {
		canon.Inputs = []*JInput{}
	}
	jt.Id = canon.ComputeId()
	tx, err := jt.Real()
	if err != nil {
		// the id was computed independently (mirror structs, crypto/sha256) over the content as written:
		// a decoder that refuses it does not take the hash of what was served (C15), and nothing built
		// on this transaction can be run
		panic(fmt.Sprintf("C15 honest-transaction-refused: the repository's decoder refuses a well-formed transaction whose id is the hash of its inputs, outputs and timestamp: %v; transaction as served: %s", err, truncate(string(mustJSON(jt)), 1500)))
	}
	return tx
}

// a wallet-style or deliberately faulty transaction for node n
func (w *World) genTx(n *Node) (*ledger.Transaction, string) {
	r := w.r
	fee := w.set.Fee
	ts := w.now + int64(r.U64n(uint64(w.set.Interval)+1))
	if r.Chance(1, 3) {
		ts = w.now
	} else if r.Chance(1, 4) {
		ts = w.next()
	}
	// source of inputs
	src := "confirmed"
	var pool []spendable
	sender := w.wallets[r.Intn(len(w.wallets))]
	k := r.Intn(10)
	switch {
	case k < 6:
		for tries := 0; tries < 6 && len(pool) == 0; tries++ {
			sender = w.wallets[r.Intn(len(w.wallets))]
			pool = w.confirmed(n, sender)
		}
	case k < 8:
		src = "lastblock"
		pool = w.fresh(n.Chain.LastBlockTransactions())
	default:
		src = "pool"
		pool = w.fresh(n.Pool.Transactions())
	}
	if len(pool) == 0 {
		src = "confirmed"
		for _, wl := range w.wallets {
			pool = append(pool, w.confirmed(n, wl)...)
		}
	}
	if len(pool) == 0 {
		// nothing spendable anywhere: a transaction spending an unknown output
		wl := w.wallets[1]
		return w.build(&txPlan{ins: []spendable{{"00", 0, 0, wl}}, outs: []*JOutput{{wl.Addr, false, 1}}, ts: ts}), "unknown-ref"
	}
	first := pool[r.Intn(len(pool))]
	ins := []spendable{first}
	if r.Chance(1, 4) {
		for _, s := range pool {
			if s.owner == first.owner && s != first && len(ins) < 3 {
				ins = append(ins, s)
			}
		}
	}
	var total uint64
	for _, s := range ins {
		total += s.value
	}
	rcpt := w.wallets[r.Intn(len(w.wallets))]
	kind := "valid"
	if w.mode != "honest" && r.Chance(1, 3) {
		kind = []string{"low-fee", "neg-fee", "overflow", "wrong-key", "sig-s", "sig-r0", "sig-s0", "sig-rbig", "ref", "bad-index",
			"future", "old", "two-yield", "dup-input", "exact-fee", "upper", "zero-out", "max-out", "wrong-key-late", "wrong-key-late", "replay-sig", "replay-sig"}[r.Intn(22)]
		if kind == "replay-sig" && len(w.goodSigs[first.owner.PubHex]) == 0 {
			kind = "ref"
		}
		if kind != "replay-sig" && len(w.goodSigs[first.owner.PubHex]) > 0 && r.Chance(1, 4) {
			kind = "replay-sig"
		}
		if kind == "wrong-key-late" {
			// needs at least two inputs of one owner: the owner's own input first, a foreign key later
			for _, s := range pool {
				if s.owner == first.owner && s != first && len(ins) < 3 {
					dup := false
					for _, x := range ins {
						if x == s {
							dup = true
						}
					}
					if !dup {
						ins = append(ins, s)
					}
				}
			}
			total = 0
			for _, s := range ins {
				total += s.value
			}
			if len(ins) < 2 {
				kind = "wrong-key"
			}
		}
	}
	zeroOverpay := false
	if kind == "valid" && len(w.zeroOuts) > 0 && r.Chance(1, 2) {
		// an empty output spent after another input of the same owner: worth nothing, consumed all the same.
		// Look for an owner who has both a registered empty output and something worth spending.
		for _, z := range w.zeroOuts {
			if !w.registered(n, z) {
				continue
			}
			for _, c := range w.confirmed(n, z.owner) {
				if c.value > 4*fee+8 {
					first, ins, total = c, []spendable{c, z}, c.value
					if w.mode != "honest" && r.Chance(1, 2) {
						zeroOverpay = true // pays out one and a half times what the first input is worth
						kind = "zero-late-overpay"
					}
					w.stats.Count("tx/zero-valued output spent at a later input position" + map[bool]string{true: ", paying out more than the inputs", false: ""}[zeroOverpay])
					break
				}
			}
			if len(ins) == 2 && ins[1] == z {
				break
			}
		}
	}
	respellSpend := false
	if w.mode != "honest" && len(w.respelled) > 0 && r.Chance(1, 3) {
		// an output paid to another spelling of a wallet's address is not that wallet's: its key must be refused
		for _, k := range r.Perm(len(w.respelled)) {
			z := w.respelled[k]
			if w.registered(n, z) {
				first, ins, total, kind, respellSpend = z, []spendable{z}, z.value, "respelled-owner", true
				w.stats.Count("tx/spend of an output paid to another spelling of the signer's address")
				break
			}
		}
	}
	p := &txPlan{ins: ins, ts: ts}
	amount := uint64(0)
	if total > fee {
		amount = r.U64n(total - fee + 1)
	}
	rest := uint64(0)
	if total >= fee+amount {
		rest = total - fee - amount
	}
	if r.Chance(1, 3) { // leave more than the minimal fee
		rest -= r.U64n(rest/2 + 1)
	}
	y1 := r.Chance(1, 4)
	p.outs = []*JOutput{{rcpt.Addr, y1, amount}}
	if r.Chance(1, 6) {
		// a zero-valued plain output in front (legal in a transaction with several outputs): it is
		// never listed as spendable, the outputs after it keep their indexes
		p.outs = []*JOutput{{rcpt.Addr, false, 0}, {rcpt.Addr, y1, amount}}
	}
	if rest > 0 || r.Chance(1, 2) {
		p.outs = append(p.outs, &JOutput{first.owner.Addr, (!y1 || first.owner != rcpt) && r.Chance(1, 4), rest})
	}
	if r.Chance(1, 8) && amount > 2 {
		// a third output, yielding, to yet another wallet
		third := w.wallets[r.Intn(len(w.wallets))]
		if third != rcpt && third != first.owner {
			p.outs[0].Value = amount / 2
			p.outs = append(p.outs, &JOutput{third.Addr, true, amount - amount/2})
		}
	}
	if kind == "valid" && r.Chance(1, 10) {
		// everything goes to the fee: one plain output of value zero (legal; nothing is created, the
		// inputs are consumed all the same)
		p.outs = []*JOutput{{rcpt.Addr, false, 0}}
		w.stats.Count("tx/fee-only (single zero-valued output)")
	}
	respellAt := -1
	if kind == "valid" && len(p.outs) > 0 && !p.outs[0].IsYielding && p.outs[0].Value > 4*fee+8 && r.Chance(1, 8) {
		// the recipient written in another spelling of the same 20 bytes: lower case, upper case, no prefix,
		// left-padded to 32 bytes. A different string: a different owner (nobody's, in fact)
		a := rcpt.Addr
		switch r.Intn(4) {
		case 0:
			a = strings.ToLower(a)
		case 1:
			a = "0x" + strings.ToUpper(a[2:])
		case 2:
			a = a[2:]
		case 3:
			a = "0x000000000000000000000000" + a[2:]
		}
		if a != rcpt.Addr {
			p.outs[0].Address = a
			respellAt = 0
			w.stats.Count("tx/recipient in another spelling of a wallet address")
		}
	}
	if respellSpend {
		p.outs = []*JOutput{{rcpt.Addr, false, total / 2}}
	}
	if zeroOverpay {
		p.outs = []*JOutput{{rcpt.Addr, false, total + total/2 - fee}}
	}
	switch kind {
	case "low-fee":
		if total >= 1 {
			p.outs = []*JOutput{{rcpt.Addr, false, total - (fee - 1)}}
			if fee-1 > total {
				p.outs[0].Value = 0
			}
		}
	case "exact-fee":
		if total >= fee {
			p.outs = []*JOutput{{rcpt.Addr, false, total - fee}}
		}
	case "neg-fee":
		p.outs = []*JOutput{{rcpt.Addr, false, total + 1 + r.U64n(1000)}}
	case "overflow":
		p.outs = []*JOutput{{rcpt.Addr, false, 1 << 63}, {first.owner.Addr, false, 1 << 63}, {rcpt.Addr, false, r.U64n(total + 1)}}
	case "max-out":
		p.outs = []*JOutput{{rcpt.Addr, false, ^uint64(0)}}
	case "wrong-key":
		other := w.wallets[(r.Intn(len(w.wallets)-1)+1+indexOf(w.wallets, first.owner))%len(w.wallets)]
		p.signers = make([]*Wallet, len(ins))
		p.signers[0] = other
	case "wrong-key-late":
		other := w.wallets[(r.Intn(len(w.wallets)-1)+1+indexOf(w.wallets, first.owner))%len(w.wallets)]
		p.ins = ins
		p.signers = make([]*Wallet, len(ins))
		p.signers[len(ins)-1] = other
	case "sig-s", "sig-r0", "sig-s0", "sig-rbig", "ref", "upper":
		p.tamper = kind
	case "replay-sig":
		p.tamper = kind
		var l []string
		for _, sr := range w.goodSigs[first.owner.PubHex] {
			if sr[1] != fmt.Sprintf("%s/%d", p.ins[0].txid, p.ins[0].idx) {
				l = append(l, sr[0])
			}
		}
		if len(l) > 0 {
			p.replay = l[r.Intn(len(l))]
		} else {
			p.tamper = "ref"
		}
	case "bad-index":
		p.ins[0].idx += 7
	case "future":
		p.ts = w.next() + 1 + int64(r.U64n(uint64(w.set.Interval)))
	case "old":
		p.ts = w.now - 1 - int64(r.U64n(uint64(w.set.Interval)))
	case "two-yield":
		p.outs = []*JOutput{{rcpt.Addr, true, amount / 2}, {rcpt.Addr, true, amount - amount/2}}
	case "dup-input":
		p.ins = append(p.ins, p.ins[0])
	case "zero-out":
		p.outs = []*JOutput{{rcpt.Addr, false, 0}}
	}
	tx := w.build(p)
	for _, o := range p.outs {
		known := false
		for _, a := range w.paidTo {
			known = known || a == o.Address
		}
		if !known && len(w.paidTo) < 64 {
			w.paidTo = append(w.paidTo, o.Address)
		}
	}
	if kind == "valid" {
		for k, o := range p.outs {
			if o.Value == 0 && !o.IsYielding && len(p.outs) > 1 {
				if wl := w.walletOf(o.Address); wl != nil && len(w.zeroOuts) < 16 {
					w.zeroOuts = append(w.zeroOuts, spendable{tx.Id(), uint16(k), 0, wl})
				}
			}
		}
		if respellAt >= 0 && len(w.respelled) < 16 {
			w.respelled = append(w.respelled, spendable{tx.Id(), uint16(respellAt), p.outs[respellAt].Value, rcpt})
		}
	}
	return tx, src + "/" + kind
}

func indexOf(ws []*Wallet, w *Wallet) int {
	for i, x := range ws {
		if x == w {
			return i
		}
	}
	return 0
}

// ---- candidate chains for sync rounds ------------------------------------------------
// mutate one honest chain so that exactly one rule is broken at height j (links repaired)
func (w *World) mutateChain(blocks []*JBlock, forced ...string) ([]*JBlock, string) {
	r := w.r
	bs := cloneJBlocks(blocks)
	if len(bs) < 2 {
		return bs, "none"
	}
	j := 1 + r.Intn(len(bs)-1)
	var b *JBlock
	kind := []string{"ts-shift", "future", "two-rewards", "no-reward", "big-reward", "tx-late", "tx-early", "bad-link",
		"truncate", "drop-first", "reward-yield", "dup-tx", "added-bogus", "removed-bogus", "stale", "big-reward-1", "unlist-yield", "yield-unlisted", "yield-unlisted", "double-spend", "double-spend", "yield-removed", "yield-removed", "reward-extra-output"}[r.Intn(24)]
	if len(forced) > 0 {
		kind = forced[0]
	}
	if kind == "double-spend" {
		// needs an ordinary transaction signed by one of our wallets: take the last block holding one
		for jj := len(bs) - 1; jj >= 1; jj-- {
			found := false
			for _, t := range bs[jj].Transactions {
				if len(t.Inputs) != 0 && w.walletOfKey(t.Inputs[0].PublicKey) != nil {
					found = true
				}
			}
			if found {
				j = jj
				break
			}
		}
	}
	if kind == "yield-removed" {
		kind = "yield-unlisted"
		// an address an earlier block of this chain lists as removed (and none lists again since)
		gone := ""
		for jj := 1; jj < len(bs)-1; jj++ {
			for _, a := range bs[jj].RemovedRegisteredAddresses {
				gone = a
			}
			for _, a := range bs[jj].AddedRegisteredAddresses {
				if a == gone {
					gone = ""
				}
			}
		}
		if gone != "" {
			for jj := len(bs) - 1; jj >= 2; jj-- {
				done := false
				for _, t := range bs[jj].Transactions {
					if len(t.Inputs) != 0 {
						t.Outputs = append(t.Outputs, &JOutput{gone, true, 0})
						t.Id = t.ComputeId()
						done = true
						break
					}
				}
				if done {
					Relink(bs, jj)
					w.stats.Count("mutate/yield-removed (a yielding output to an address the chain removed, not listed)")
					return bs, fmt.Sprintf("yield-removed(%d below the tip)@%d", len(bs)-1-jj, jj)
				}
			}
		}
	}
	if kind == "yield-unlisted" {
		// needs an ordinary transaction; prefer the last block holding one (no dependents above it)
		for jj := len(bs) - 1; jj >= 1; jj-- {
			found := false
			for _, t := range bs[jj].Transactions {
				if len(t.Inputs) != 0 {
					found = true
				}
			}
			if found {
				j = jj
				break
			}
		}
	}
	if kind == "tx-late" || kind == "tx-early" {
		// needs an ordinary transaction; two times in three one below the tip (a block older than the
		// verifier's clock: what is compared with the transaction's date must be its block, not "now")
		var with []int
		for jj := 1; jj < len(bs); jj++ {
			for _, t := range bs[jj].Transactions {
				if len(t.Inputs) != 0 {
					with = append(with, jj)
					break
				}
			}
		}
		if len(with) > 0 {
			j = with[r.Intn(len(with))]
			if len(with) > 1 && j == len(bs)-1 && r.Chance(2, 3) {
				j = with[r.Intn(len(with)-1)]
			}
		}
	}
	if kind == "unlist-yield" {
		// prefer a block that lists new addresses
		for tries := 0; tries < len(bs); tries++ {
			if len(bs[j].AddedRegisteredAddresses) > 0 {
				break
			}
			j = 1 + (j % (len(bs) - 1))
		}
	}
	b = bs[j]
	findReward := func() *JTx {
		for _, t := range b.Transactions {
			if len(t.Inputs) == 0 {
				return t
			}
		}
		return nil
	}
	switch kind {
	case "ts-shift":
		b.Timestamp += int64(r.Pick(1, -1)) * int64(1+r.Intn(1000))
	case "future":
		// shift the whole tail into the future, keeping spacing
		d := w.set.Interval * int64(1+len(bs))
		for i := j; i < len(bs); i++ {
			bs[i].Timestamp += d
		}
	case "two-rewards":
		if rt := findReward(); rt != nil {
			c := *rt
			c.Outputs = []*JOutput{{rt.Outputs[0].Address, false, 0}}
			c.Timestamp++
			c.Id = c.ComputeId()
			b.Transactions = append(b.Transactions, &c)
		}
	case "no-reward":
		var l []*JTx
		for _, t := range b.Transactions {
			if len(t.Inputs) != 0 {
				l = append(l, t)
			}
		}
		b.Transactions = l
	case "big-reward", "big-reward-1":
		if rt := findReward(); rt != nil {
			o := *rt.Outputs[0]
			if kind == "big-reward-1" {
				o.Value++
			} else {
				o.Value += 1 + r.U64n(1<<40)
			}
			rt.Outputs = []*JOutput{&o}
			rt.Id = rt.ComputeId()
		}
	case "reward-extra-output":
		// the reward written with an empty inputs list instead of null, and a second output beside the
		// one the fees cover: a reward has one output, however its (absent) inputs are spelled
		if rt := findReward(); rt != nil {
			rt.Inputs = []*JInput{}
			rt.Outputs = append(rt.Outputs, &JOutput{w.wallets[r.Intn(len(w.wallets))].Addr, false, 1 << 40})
			rt.Id = rt.ComputeId()
		}
	case "tx-late", "tx-early":
		for _, t := range b.Transactions {
			if len(t.Inputs) != 0 {
				if kind == "tx-late" {
					t.Timestamp = b.Timestamp + 1
				} else {
					t.Timestamp = bs[j-1].Timestamp - 1
				}
				t.Id = t.ComputeId()
				break
			}
		}
	case "bad-link":
		b.PreviousHash[r.Intn(32)] ^= byte(1 + r.Intn(255))
		return bs, kind + fmt.Sprintf("@%d", j)
	case "truncate":
		return bs[:j], kind + fmt.Sprintf("@%d", j)
	case "drop-first":
		return bs[1:], kind
	case "reward-yield":
		if rt := findReward(); rt != nil {
			o := *rt.Outputs[0]
			o.IsYielding = !o.IsYielding
			rt.Outputs = []*JOutput{&o}
			rt.Id = rt.ComputeId()
		}
	case "double-spend":
		// a second, correctly signed transaction spending the first input of an ordinary transaction
		// of the block again (every per-transaction check passes; only applying the block refuses it)
		for _, t := range b.Transactions {
			if len(t.Inputs) == 0 {
				continue
			}
			owner := w.walletOfKey(t.Inputs[0].PublicKey)
			if owner == nil {
				continue
			}
			t2 := &JTx{Timestamp: t.Timestamp, Inputs: []*JInput{owner.SignInput(t.Inputs[0].OutputIndex, t.Inputs[0].TransactionId)},
				Outputs: []*JOutput{{w.wallets[r.Intn(len(w.wallets))].Addr, false, 1}}}
			t2.Id = t2.ComputeId()
			b.Transactions = append([]*JTx{t2}, b.Transactions...)
			break
		}
	case "dup-tx":
		for _, t := range b.Transactions {
			if len(t.Inputs) != 0 {
				b.Transactions = append([]*JTx{t}, b.Transactions...)
				break
			}
		}
	case "added-bogus":
		b.AddedRegisteredAddresses = append(b.AddedRegisteredAddresses, w.wallets[4].Addr)
	case "removed-bogus":
		b.RemovedRegisteredAddresses = append(b.RemovedRegisteredAddresses, w.wallets[r.Intn(5)].Addr)
	case "stale":
		return bs[:len(bs)-1], kind
	case "yield-unlisted":
		// outputs are not signed: give an ordinary transaction two more (zero-valued) yielding outputs,
		// the first to a fresh address that the block lists as newly registered, the second to a
		// fresh address that is neither listed nor registered
		for _, t := range b.Transactions {
			if len(t.Inputs) != 0 {
				t.Outputs = append(t.Outputs, &JOutput{"0xFreshListed", true, 0}, &JOutput{"0xFreshUnlisted", true, 0})
				t.Id = t.ComputeId()
				b.AddedRegisteredAddresses = append(b.AddedRegisteredAddresses, "0xFreshListed")
				break
			}
		}
	case "unlist-yield":
		// a yielding recipient is no longer listed as newly registered (the last one listed)
		if n := len(b.AddedRegisteredAddresses); n > 0 {
			b.AddedRegisteredAddresses = append([]string(nil), b.AddedRegisteredAddresses[:n-1]...)
		}
	}
	Relink(bs, j)
	return bs, kind + fmt.Sprintf("@%d", j)
}

// ---- one history -----------------------------------------------------------------------
func (w *World) tickAll() {
	w.now = w.next()
}

func (w *World) run(steps int) {
	r := w.r
	// bootstrap: everybody makes a genesis at the same tick; helpers usually adopt the host's chain
	w.tickAll()
	w.rec.Validate(w.now)
	for _, h := range w.helpers {
		h.Pool.Validate(w.now)
	}
	w.tickAll()
	w.rec.Validate(w.now)
	for _, h := range w.helpers {
		if r.Chance(3, 4) {
			helperSync(h, w.now, []*Peer{honestPeer("10.0.0.1:10600", w.host)})
		} else {
			h.Pool.Validate(w.now)
		}
	}
	// half of the histories start by registering several addresses (yielding outputs to three
	// wallets), so that registry refreshes produce blocks with 2 or more pending removals
	registerThree := r.Chance(1, 2)
	w.raceFirst = !registerThree && r.Chance(1, 2)
	if w.mode != "honest" && registerThree {
		if conf := w.confirmed(w.host, w.wallets[0]); len(conf) > 0 && conf[0].value > 10*w.set.Fee+100 {
			share := (conf[0].value - w.set.Fee) / 4
			outs := []*JOutput{{w.wallets[1].Addr, true, share}, {w.wallets[2].Addr, true, share}, {w.wallets[3].Addr, true, share}, {w.wallets[0].Addr, false, share}}
			tx := w.build(&txPlan{ins: []spendable{conf[0]}, outs: outs, ts: w.now})
			res := w.rec.Admit(tx)
			w.stats.Count("admit/register-three=" + res)
			for _, h := range w.helpers {
				h.Pool.AddTransaction(tx, "x", "y")
				h.Log.Take()
			}
		}
	}
	if w.mode != "honest" && w.raceFirst {
		// plain outputs for several wallets first, then a pooled transaction that an adopted block
		// makes unproducible (yieldRace)
		if conf := w.confirmed(w.host, w.wallets[0]); len(conf) > 0 && conf[0].value > 100*w.set.Fee+1000 {
			share := (conf[0].value - w.set.Fee) / 5
			var outs []*JOutput
			for j := 0; j < 5; j++ {
				outs = append(outs, &JOutput{w.wallets[j].Addr, false, share})
			}
			tx := w.build(&txPlan{ins: []spendable{conf[0]}, outs: outs, ts: w.now})
			w.stats.Count("admit/split-five=" + w.rec.Admit(tx))
			for _, h := range w.helpers {
				h.Pool.AddTransaction(tx, "x", "y")
				h.Log.Take()
			}
			w.hostTick()
			w.hostTick()
			w.yieldRace()
		}
	}
	for s := 0; s < steps; s++ {
		k := r.Intn(106) // 99..105: registry refresh
		if w.mode == "swap" && r.Chance(1, 2) {
			w.swapStep()
			continue
		}
		switch {
		case k < 30: // a transaction for the host (and, usually, for the helpers too)
			tx, kind := w.genTx(w.host)
			res := w.rec.Admit(tx)
			w.stats.Count("admit/" + kind + "=" + res)
			w.sent = append(w.sent, tx)
			if res == "ok" {
				w.noteGoodSigs(tx)
			}
			for _, h := range w.helpers {
				if r.Chance(2, 3) {
					h.Pool.AddTransaction(tx, "x", "y")
					h.Log.Take()
				}
			}
			if r.Chance(1, 6) { // resubmission
				res := w.rec.Admit(tx)
				w.stats.Count("admit/duplicate=" + res)
			}
		case k < 55: // tick
			tick := "aligned"
			ts := w.next()
			if w.mode != "honest" {
				switch r.Intn(12) {
				case 0:
					ts, tick = w.now, "repeated"
				case 1:
					ts, tick = w.next()+w.set.Interval, "skipped"
				case 2:
					ts, tick = w.now+1+int64(r.U64n(uint64(w.set.Interval-1))), "unaligned"
				case 3:
					// a tick dated before the tip (the engine never delivers one; AddBlock refuses it and
					// the pool must stay as it was)
					ts, tick = w.now-w.set.Interval, "backwards"
				}
			}
			if tick == "aligned" {
				w.tickAll()
			}
			// who produces on this tick: a leader, sometimes a competitor too
			hostLeads := r.Chance(3, 5)
			compete := r.Chance(1, 4)
			if hostLeads || compete || tick != "aligned" {
				res := w.rec.Validate(ts)
				w.stats.Count("validate/" + tick + "=" + res[:7])
			}
			if tick == "aligned" {
				leader := r.Intn(len(w.helpers))
				for i, h := range w.helpers {
					if (!hostLeads && i == leader) || (compete && i == leader) {
						h.Pool.Validate(ts)
						h.Log.Take()
					}
				}
				// the others usually catch up at once
				if hostLeads {
					for _, h := range w.helpers {
						if r.Chance(3, 4) {
							helperSync(h, w.now, []*Peer{honestPeer("10.0.0.1:10600", w.host)})
						}
					}
				} else if r.Chance(3, 4) {
					res := w.rec.Update(w.now, []*Peer{honestPeer(fmt.Sprintf("10.1.%d.0:10600", s), w.helpers[leader])})
					w.stats.Count("update/follow=" + res[:indexOrLen(res, ':')])
					for i, h := range w.helpers {
						if i != leader && r.Chance(3, 4) {
							helperSync(h, w.now, []*Peer{honestPeer("10.0.0.9:10600", w.helpers[leader])})
						}
					}
				}
			}
		case k < 80: // sync round of the host
			var peers []*Peer
			var kinds string
			np := 1 + r.Intn(3)
			if r.Chance(1, 6) {
				np = 4 + r.Intn(5) // up to eight neighbors
			}
			for i := 0; i < np; i++ {
				tgt := fmt.Sprintf("10.0.%d.%d:10600", s, i)
				c := r.Intn(10)
				hn := w.helpers[r.Intn(len(w.helpers))]
				switch {
				case c < 5 || w.mode == "honest":
					if r.Chance(1, 3) {
						peers = append(peers, indentedPeer(tgt, hn))
						kinds += "I"
					} else {
						peers = append(peers, honestPeer(tgt, hn))
						kinds += "H"
					}
				case c < 8:
					mut, kind := w.mutateChain(MirrorBlocks(hn.AllBlocks()))
					peers = append(peers, staticPeer(tgt, mut, w.set.Limit))
					kinds += "M"
					w.stats.Count("mutant/" + kind[:indexOrLen(kind, '@')])
				default:
					peers = append(peers, failingPeer(tgt, r.Intn(4)))
					kinds += "F"
				}
			}
			now := w.now
			if r.Chance(1, 8) {
				now = w.now - w.set.Interval // a slow clock: tips look future-dated
			}
			hl := len(w.host.AllBlocks())
			res := w.rec.Update(now, peers)
			w.stats.Count(fmt.Sprintf("update/host%s/%s=%s", lenClass(hl), kinds, res[:indexOrLen(res, ':')]))
		case k < 86: // helpers sync from the host (keeps the world connected)
			for _, h := range w.helpers {
				if r.Chance(2, 3) {
					helperSync(h, w.now, []*Peer{honestPeer("10.0.0.1:10600", w.host)})
				}
			}
		case k < 88 && w.mode != "honest": // income juggling: two admitted transactions, only one order of which can be produced
			w.yieldSwap()
		case k < 92 && w.mode != "honest": // a pooled transaction that an adopted block makes unproducible
			w.yieldRace()
		case k < 94 && w.mode != "honest": // a neighbor pays income to an address the chain has removed
			w.removedYield()
		case k < 96 && w.mode != "honest": // outputs no wallet lists: another spelling of an address; an empty output beside a full one
			if r.Chance(1, 2) {
				w.respellScenario()
			} else {
				w.zeroLateScenario()
			}
		case k < 98: // the node and a neighbor part ways for one, two or three blocks, then the node re-syncs
			w.forkDepthScenario()
		case k < 99 && w.mode != "honest": // two outputs of one address spent together, the second with a foreign key
			w.wrongKeyLateScenario()
		default: // registry refresh
			ans := map[string]int{}
			for _, wl := range w.wallets {
				switch r.Intn(4) {
				case 0:
					ans[wl.Addr] = 0
				case 1:
					ans[wl.Addr] = 2
				}
			}
			w.rec.RegSync(ans)
			w.stats.Count("regsync")
			// the other nodes consult the same proof-of-humanity service
			for _, h := range w.helpers {
				if r.Chance(2, 3) {
					h.Humans.answer = ans
					h.Areg.Synchronize(0)
				}
			}
		}
	}
}

func lenClass(n int) string {
	switch {
	case n == 0:
		return "0"
	case n <= 2:
		return fmt.Sprintf("%d", n)
	default:
		return ">2"
	}
}

func indexOrLen(s string, c byte) int {
	for i := 0; i < len(s); i++ {
		if s[i] == c {
			return i
		}
	}
	return len(s)
}

// yieldSwap: an address holding a yielding output Y and a plain output P. T1 turns Y into a
// plain output, T2 turns P into a yielding one. Submitted in that order both are pooled; if the
// production shuffle tries T2 first, its fee computes but it cannot be applied (two incomes).
// findSwapPair: a wallet holding, confirmed on node n, a yielding and a plain output worth spending
func (w *World) findSwapPair(n *Node) (*spendable, *spendable) {
	for _, wl := range w.wallets {
		var y, p *spendable
		for _, u := range n.Ureg.Utxos(wl.Addr) {
			s := spendable{u.TransactionId(), u.OutputIndex(), u.Value(w.next(), w.set.HalfLife, w.set.Base, w.set.ILimit), wl}
			if s.value <= w.set.Fee+2 {
				continue
			}
			if u.IsYielding() && y == nil {
				c := s
				y = &c
			} else if !u.IsYielding() && p == nil {
				c := s
				p = &c
			}
		}
		if y != nil && p != nil {
			return y, p
		}
	}
	return nil, nil
}

func (w *World) yieldSwap() {
	for _, wl := range w.wallets {
		var y, p *spendable
		for _, u := range w.host.Ureg.Utxos(wl.Addr) {
			s := spendable{u.TransactionId(), u.OutputIndex(), u.Value(w.next(), w.set.HalfLife, w.set.Base, w.set.ILimit), wl}
			if s.value <= w.set.Fee+2 {
				continue
			}
			if u.IsYielding() && y == nil {
				c := s
				y = &c
			} else if !u.IsYielding() && p == nil {
				c := s
				p = &c
			}
		}
		if y == nil || p == nil {
			continue
		}
		t1 := w.build(&txPlan{ins: []spendable{*y}, outs: []*JOutput{{wl.Addr, false, y.value - w.set.Fee - 1}}, ts: w.now})
		t2 := w.build(&txPlan{ins: []spendable{*p}, outs: []*JOutput{{wl.Addr, true, p.value - w.set.Fee - 1}}, ts: w.now})
		r1 := w.rec.Admit(t1)
		r2 := w.rec.Admit(t2)
		w.stats.Count("admit/yield-swap=" + r1 + "," + r2)
		for _, h := range w.helpers {
			h.Pool.AddTransaction(t1, "x", "y")
			h.Pool.AddTransaction(t2, "x", "y")
			h.Log.Take()
		}
		return
	}
	// nobody holds both kinds yet: give one wallet a yielding and a plain output
	for _, src := range w.wallets {
		conf := w.confirmed(w.host, src)
		for _, u := range conf {
			if u.value > 4*w.set.Fee+100 {
				dst := w.wallets[1+w.r.Intn(len(w.wallets)-1)]
				half := (u.value - w.set.Fee) / 2
				tx := w.build(&txPlan{ins: []spendable{u}, outs: []*JOutput{{dst.Addr, true, half}, {dst.Addr, false, u.value - w.set.Fee - half}}, ts: w.now})
				res := w.rec.Admit(tx)
				w.stats.Count("admit/yield-swap-setup=" + res)
				for _, h := range w.helpers {
					h.Pool.AddTransaction(tx, "x", "y")
					h.Log.Take()
				}
				return
			}
		}
	}
	w.stats.Count("admit/yield-swap=unavailable")
}

// busyRefs: the outputs that the pool or the last block of node n already consume
func (w *World) busyRefs(n *Node) map[string]bool {
	busy := map[string]bool{}
	for _, l := range [][]*ledger.Transaction{n.Pool.Transactions(), n.Chain.LastBlockTransactions()} {
		for _, t := range l {
			for _, in := range t.Inputs() {
				busy[fmt.Sprintf("%s/%d", in.TransactionId(), in.OutputIndex())] = true
			}
		}
	}
	return busy
}

// hostTick: an aligned production tick of the host, the helpers follow
func (w *World) hostTick() {
	w.tickAll()
	res := w.rec.Validate(w.now)
	w.stats.Count("validate/aligned=" + res[:7])
	for _, h := range w.helpers {
		helperSync(h, w.now, []*Peer{honestPeer("10.0.0.1:10600", w.host)})
	}
}

// swapStep (mode swap): drive the node towards order-dependent pooled pairs. When a wallet holds,
// confirmed and not yet spent by the pool or the last block, a yielding output Y and a plain
// output P: T1 turns Y into a plain output, T2 turns P into a yielding one; admitted in that order
// both are pooled, and the tick that follows produces both or - when the shuffle tries T2 first,
// whose fee computes but which cannot be applied (two incomes) - only T1. Otherwise a wallet is
// given the two kinds of output and two ticks confirm them.
func (w *World) swapStep() {
	busy := w.busyRefs(w.host)
	free := func(u *ledger.Utxo) bool { return !busy[fmt.Sprintf("%s/%d", u.TransactionId(), u.OutputIndex())] }
	hasYield := map[string]bool{}
	type ready struct{ y, p *spendable }
	var readies []ready
	for _, wl := range w.wallets {
		var y, p *spendable
		for _, u := range w.host.Ureg.Utxos(wl.Addr) {
			s := spendable{u.TransactionId(), u.OutputIndex(), u.Value(w.next(), w.set.HalfLife, w.set.Base, w.set.ILimit), wl}
			if s.value <= w.set.Fee+2 || !free(u) {
				continue
			}
			if u.IsYielding() && y == nil {
				c := s
				y = &c
			} else if !u.IsYielding() && p == nil {
				c := s
				p = &c
			}
		}
		if y != nil && p != nil {
			readies = append(readies, ready{y, p})
		}
	}
	if len(readies) >= 2 && w.r.Chance(2, 3) {
		// a triple over two wallets W and Z, each holding a yielding and a plain output: a) Z turns its
		// yielding output into a plain one, b) W hands its income to Z (W's yielding output spent, a
		// yielding output for Z), c) W's plain output becomes W's new yielding one. Admitted in that order
		// all three are pooled; the tick must keep exactly those an honest replay in shuffle order keeps.
		W, Z := readies[0], readies[1]
		ta := w.build(&txPlan{ins: []spendable{*Z.y}, outs: []*JOutput{{Z.y.owner.Addr, false, Z.y.value - w.set.Fee - 1}}, ts: w.now})
		tb := w.build(&txPlan{ins: []spendable{*W.y}, outs: []*JOutput{{Z.y.owner.Addr, true, W.y.value - w.set.Fee - 1}}, ts: w.now})
		tc := w.build(&txPlan{ins: []spendable{*W.p}, outs: []*JOutput{{W.y.owner.Addr, true, W.p.value - w.set.Fee - 1}}, ts: w.now})
		ra, rb, rc := w.rec.Admit(ta), w.rec.Admit(tb), w.rec.Admit(tc)
		w.stats.Count("admit/yield-triple=" + ra + "," + rb + "," + rc)
		for _, h := range w.helpers {
			for _, t := range []*ledger.Transaction{ta, tb, tc} {
				h.Pool.AddTransaction(t, "x", "y")
			}
			h.Log.Take()
		}
		w.hostTick()
		return
	}
	for _, wl := range w.wallets {
		var y, p *spendable
		for _, u := range w.host.Ureg.Utxos(wl.Addr) {
			if u.IsYielding() {
				hasYield[wl.Addr] = true
			}
			s := spendable{u.TransactionId(), u.OutputIndex(), u.Value(w.next(), w.set.HalfLife, w.set.Base, w.set.ILimit), wl}
			if s.value <= w.set.Fee+2 || !free(u) {
				continue
			}
			if u.IsYielding() && y == nil {
				c := s
				y = &c
			} else if !u.IsYielding() && p == nil {
				c := s
				p = &c
			}
		}
		if y == nil || p == nil {
			continue
		}
		if len(readies) == 1 && w.r.Chance(1, 2) && w.setupSwapWallet(busy, wl) {
			return // a second wallet is being given both kinds: the triple comes next
		}
		t1 := w.build(&txPlan{ins: []spendable{*y}, outs: []*JOutput{{wl.Addr, false, y.value - w.set.Fee - 1}}, ts: w.now})
		t2 := w.build(&txPlan{ins: []spendable{*p}, outs: []*JOutput{{wl.Addr, true, p.value - w.set.Fee - 1}}, ts: w.now})
		r1 := w.rec.Admit(t1)
		r2 := w.rec.Admit(t2)
		w.stats.Count("admit/yield-swap=" + r1 + "," + r2)
		for _, h := range w.helpers {
			h.Pool.AddTransaction(t1, "x", "y")
			h.Pool.AddTransaction(t2, "x", "y")
			h.Log.Take()
		}
		if w.r.Chance(1, 3) { // a third transaction in the same pool changes the shuffle
			tx, kind := w.genTx(w.host)
			w.stats.Count("admit/" + kind + "=" + w.rec.Admit(tx))
		}
		w.hostTick()
		return
	}
	// nobody holds both kinds: give a wallet without income a yielding and a plain output
	for _, t := range w.host.Pool.Transactions() {
		for _, o := range t.Outputs() {
			if o.IsYielding() {
				hasYield[o.Address()] = true
			}
		}
	}
	for _, t := range w.host.Chain.LastBlockTransactions() {
		for _, o := range t.Outputs() {
			if o.IsYielding() {
				hasYield[o.Address()] = true
			}
		}
	}
	for _, src := range w.wallets {
		for _, u := range w.host.Ureg.Utxos(src.Addr) {
			v := u.Value(w.next(), w.set.HalfLife, w.set.Base, w.set.ILimit)
			if !free(u) || v <= 6*w.set.Fee+100 {
				continue
			}
			var dst *Wallet
			for k := 0; k < len(w.wallets); k++ {
				c := w.wallets[(k+1+w.r.Intn(len(w.wallets)))%len(w.wallets)]
				if !hasYield[c.Addr] || (c == src && u.IsYielding()) {
					dst = c
					break
				}
			}
			if dst == nil {
				continue
			}
			half := (v - w.set.Fee) / 2
			tx := w.build(&txPlan{ins: []spendable{{u.TransactionId(), u.OutputIndex(), v, src}}, outs: []*JOutput{{dst.Addr, true, half}, {dst.Addr, false, v - w.set.Fee - half - 1}}, ts: w.now})
			res := w.rec.Admit(tx)
			w.stats.Count("admit/yield-swap-setup=" + res)
			for _, h := range w.helpers {
				h.Pool.AddTransaction(tx, "x", "y")
				h.Log.Take()
			}
			w.hostTick()
			w.hostTick()
			return
		}
	}
	w.stats.Count("admit/yield-swap=unavailable")
	w.hostTick()
}

// noteGoodSigs: the signatures of an admitted transaction (the node has verified them), per key
func (w *World) noteGoodSigs(tx *ledger.Transaction) {
	bs, err := json.Marshal(tx)
	if err != nil {
		return
	}
	var jt JTx
	if json.Unmarshal(bs, &jt) != nil {
		return
	}
	if w.goodSigs == nil {
		w.goodSigs = map[string][][2]string{}
	}
	for _, in := range jt.Inputs {
		w.goodSigs[in.PublicKey] = append(w.goodSigs[in.PublicKey], [2]string{in.Signature, fmt.Sprintf("%s/%d", in.TransactionId, in.OutputIndex)})
	}
}

// yieldRace: the host pools a transaction giving address A a yielding output; a neighbor confirms,
// in the block the host then adopts, another transaction that also gives A one. Only the
// production-time replay of the pooled transaction on the working copy (two incomes for one
// address) can keep it out of the host's next block.
// removedYield: an address registered by the chain is flagged by the proof-of-humanity service; the
// host's next block lists it as removed and the one after confirms that. A neighbor holding the same
// chain then extends it with a block in which an ordinary transaction gives that address a yielding
// output without listing it: the address is not registered any more, the block must be refused.
func (w *World) removedYield() {
	host := w.host
	var gone *Wallet
	for _, wl := range w.wallets {
		if !host.Areg.IsRegistered(wl.Addr) {
			continue
		}
		// a registered address that holds no yielding output at the moment (it spent it): a new
		// income output to it is then refused for one reason only - it is not registered any more
		holds := false
		for _, u := range host.Ureg.Utxos(wl.Addr) {
			holds = holds || u.IsYielding()
		}
		for _, l := range [][]*ledger.Transaction{host.Pool.Transactions(), host.Chain.LastBlockTransactions()} {
			for _, t := range l {
				for _, o := range t.Outputs() {
					holds = holds || (o.IsYielding() && o.Address() == wl.Addr)
				}
			}
		}
		if !holds || gone == nil {
			gone = wl
			if !holds {
				break
			}
		}
	}
	if gone == nil || len(host.AllBlocks()) < 2 {
		w.stats.Count("removed-yield=no registered address")
		return
	}
	ans := map[string]int{gone.Addr: 0}
	w.rec.RegSync(ans)
	w.tickAll()
	w.rec.Validate(w.now)
	w.tickAll()
	w.rec.Validate(w.now)
	h := NewNode(w.set, w.helpers[0].Validator)
	h.Humans.answer = ans
	h.Pool.Validate(host.Chain.FirstBlockTimestamp())
	helperSync(h, w.now, []*Peer{honestPeer("10.0.0.1:10600", host)})
	hb, nb := host.AllBlocks(), h.AllBlocks()
	if len(hb) != len(nb) || blockHashHex(hb[len(hb)-1]) != blockHashHex(nb[len(nb)-1]) || host.Areg.IsRegistered(gone.Addr) {
		w.stats.Count("removed-yield=not set up")
		return
	}
	w.tickAll()
	paid := false
	for _, wl := range w.wallets {
		for _, u := range w.confirmed(h, wl) {
			if !paid && u.value > 3*w.set.Fee+30 {
				tx := w.build(&txPlan{ins: []spendable{u}, outs: []*JOutput{{w.wallets[2].Addr, false, (u.value - w.set.Fee) / 2}, {wl.Addr, false, u.value - w.set.Fee - (u.value-w.set.Fee)/2 - 1}}, ts: w.now - 1})
				before := len(h.Pool.Transactions())
				h.Pool.AddTransaction(tx, "x", "y")
				w.rec.noteTx(tx)
				paid = len(h.Pool.Transactions()) > before
			}
		}
	}
	h.Pool.Validate(w.now)
	h.Log.Take()
	mut, kind := w.mutateChain(MirrorBlocks(h.AllBlocks()), "yield-removed")
	res := w.rec.Update(w.now, []*Peer{staticPeer("10.7.7.7:10600", mut, w.set.Limit)})
	w.stats.Count(fmt.Sprintf("removed-yield=%s/%s", kind[:indexOrLen(kind, '@')], res[:indexOrLen(res, ':')]))
}

// bigConfirmed: a confirmed output of some wallet worth spending in two steps
func (w *World) bigConfirmed() *spendable {
	busy := w.busyRefs(w.host)
	for _, k := range w.r.Perm(len(w.wallets)) {
		for _, u := range w.confirmed(w.host, w.wallets[k]) {
			if u.value > 20*w.set.Fee+64 && !busy[fmt.Sprintf("%s/%d", u.txid, u.idx)] {
				c := u
				return &c
			}
		}
	}
	return nil
}

// respellScenario: a payment to another spelling of wallet Y's address (the same 20 bytes in lower case,
// upper case, without prefix or left-padded) gets confirmed; Y's key then tries to spend it. The recipient
// of an output is a string: Y's address is another string, so Y's key is not the owner's.
func (w *World) respellScenario() {
	u := w.bigConfirmed()
	if u == nil || len(w.host.AllBlocks()) < 2 {
		w.stats.Count("respell=nothing to spend")
		return
	}
	y := w.wallets[w.r.Intn(len(w.wallets))]
	a := []string{strings.ToLower(y.Addr), "0x" + strings.ToUpper(y.Addr[2:]), y.Addr[2:], "0x000000000000000000000000" + y.Addr[2:]}[w.r.Intn(4)]
	if a == y.Addr {
		a = y.Addr[2:]
	}
	half := (u.value - w.set.Fee) / 2
	tx1 := w.build(&txPlan{ins: []spendable{*u}, outs: []*JOutput{{a, false, half}, {u.owner.Addr, false, u.value - w.set.Fee - half - 1}}, ts: w.now})
	r1 := w.rec.Admit(tx1)
	w.tickAll()
	w.rec.Validate(w.now)
	w.tickAll()
	w.rec.Validate(w.now)
	got := false
	for _, x := range w.host.Ureg.Utxos(a) {
		got = got || x.TransactionId() == tx1.Id()
	}
	if !got {
		w.stats.Count("respell=payment not confirmed (" + r1[:indexOrLen(r1, ':')] + ")")
		return
	}
	v := w.host.Ureg.Utxos(a)[0].Value(w.next(), w.set.HalfLife, w.set.Base, w.set.ILimit)
	tx2 := w.build(&txPlan{ins: []spendable{{tx1.Id(), 0, v, y}}, outs: []*JOutput{{y.Addr, false, v / 2}}, ts: w.now})
	r2 := w.rec.Admit(tx2)
	w.tickAll()
	w.rec.Validate(w.now)
	w.stats.Count("respell=spend by the respelled wallet's key: " + r2[:indexOrLen(r2, ':')])
}

// zeroLateScenario: a transaction creates an empty plain output beside a full one (both to X); X then spends
// the full one and, after it, the empty one, paying out one and a half times what the full one is worth.
func (w *World) zeroLateScenario() {
	u := w.bigConfirmed()
	if u == nil || len(w.host.AllBlocks()) < 2 {
		w.stats.Count("zero-late=nothing to spend")
		return
	}
	x := u.owner
	half := (u.value - w.set.Fee) / 2
	tx1 := w.build(&txPlan{ins: []spendable{*u}, outs: []*JOutput{{x.Addr, false, 0}, {x.Addr, false, half}, {w.wallets[w.r.Intn(len(w.wallets))].Addr, false, u.value - w.set.Fee - half - 1}}, ts: w.now})
	w.rec.Admit(tx1)
	w.tickAll()
	w.rec.Validate(w.now)
	w.tickAll()
	w.rec.Validate(w.now)
	var full *spendable
	for _, c := range w.confirmed(w.host, x) {
		if c.txid == tx1.Id() && c.idx == 1 {
			cc := c
			full = &cc
		}
	}
	if full == nil || full.value <= 2*w.set.Fee {
		w.stats.Count("zero-late=payment not confirmed")
		return
	}
	pay := full.value + full.value/2 - w.set.Fee
	if w.r.Chance(1, 4) {
		pay = full.value - w.set.Fee // the honest variant: the empty input adds nothing and is consumed
	}
	tx2 := w.build(&txPlan{ins: []spendable{*full, {tx1.Id(), 0, 0, x}}, outs: []*JOutput{{w.wallets[2].Addr, false, pay}}, ts: w.now})
	r2 := w.rec.Admit(tx2)
	w.tickAll()
	w.rec.Validate(w.now)
	w.stats.Count(fmt.Sprintf("zero-late=overpay %v: %s", pay > full.value, r2[:indexOrLen(r2, ':')]))
}

// forkDepthScenario: the host and a neighbor hold the same chain, then each produces on its own - the host
// d blocks (the first with a payment that registers an address), the neighbor d+1 - and the host re-syncs
// onto the neighbor's chain. Whatever the depth of the fork, the host's outputs and registered addresses
// must afterwards be the replay of the adopted chain (nothing of the abandoned blocks may stay).
func (w *World) forkDepthScenario() {
	host := w.host
	h := NewNode(w.set, w.helpers[0].Validator)
	h.Humans.answer = host.Humans.answer
	if len(host.AllBlocks()) < 2 {
		w.stats.Count("fork-depth=host too short")
		return
	}
	h.Pool.Validate(host.Chain.FirstBlockTimestamp())
	helperSync(h, w.now, []*Peer{honestPeer("10.0.0.1:10600", host)})
	hb, nb := host.AllBlocks(), h.AllBlocks()
	if len(hb) != len(nb) || blockHashHex(hb[len(hb)-1]) != blockHashHex(nb[len(nb)-1]) {
		w.stats.Count("fork-depth=not in sync")
		return
	}
	d := w.r.Pick(1, 2, 2, 2, 3)
	paid := "none"
	if u := w.bigConfirmed(); u != nil {
		half := (u.value - w.set.Fee) / 2
		var target *Wallet
		for _, wl := range w.wallets {
			if !host.Areg.IsRegistered(wl.Addr) && wl != u.owner {
				target = wl
			}
		}
		yielding := target != nil
		if target == nil {
			target = w.wallets[2]
		}
		tx := w.build(&txPlan{ins: []spendable{*u}, outs: []*JOutput{{target.Addr, yielding, half}, {u.owner.Addr, false, u.value - w.set.Fee - half - 1}}, ts: w.now})
		paid = w.rec.Admit(tx)
	}
	for k := 0; k < d; k++ {
		w.tickAll()
		w.rec.Validate(w.now)
		h.Pool.Validate(w.now)
	}
	w.tickAll()
	h.Pool.Validate(w.now)
	h.Log.Take()
	res := w.rec.Update(w.now, []*Peer{honestPeer("10.6.6.6:10600", h)})
	w.stats.Count(fmt.Sprintf("fork-depth=%d payment %s: %s", d, paid[:indexOrLen(paid, ':')], res[:indexOrLen(res, ':')]))
}

// wrongKeyLateScenario: wallet X owns two confirmed outputs (made here if need be). A transaction spends
// both: the first input carries X's key and signature, the second a foreign key with that key's own valid
// signature. Every input is checked against the owner of the output it names, not only the first.
func (w *World) wrongKeyLateScenario() {
	host := w.host
	if len(host.AllBlocks()) < 2 {
		return
	}
	var x *Wallet
	var pair []spendable
	busy := w.busyRefs(host)
	for _, k := range w.r.Perm(len(w.wallets)) {
		var free []spendable
		for _, u := range w.confirmed(host, w.wallets[k]) {
			if u.value > 2*w.set.Fee+8 && !busy[fmt.Sprintf("%s/%d", u.txid, u.idx)] {
				free = append(free, u)
			}
		}
		if len(free) >= 2 {
			x, pair = w.wallets[k], free[:2]
			break
		}
	}
	if x == nil {
		u := w.bigConfirmed()
		if u == nil {
			w.stats.Count("wrong-key-late=nothing to spend")
			return
		}
		x = u.owner
		third := (u.value - w.set.Fee) / 3
		tx := w.build(&txPlan{ins: []spendable{*u}, outs: []*JOutput{{x.Addr, false, third}, {x.Addr, false, third}, {x.Addr, false, u.value - w.set.Fee - 2*third - 1}}, ts: w.now})
		w.rec.Admit(tx)
		w.tickAll()
		w.rec.Validate(w.now)
		w.tickAll()
		w.rec.Validate(w.now)
		for _, c := range w.confirmed(host, x) {
			if c.txid == tx.Id() && len(pair) < 2 && c.value > 2*w.set.Fee+8 {
				pair = append(pair, c)
			}
		}
		if len(pair) < 2 {
			w.stats.Count("wrong-key-late=split not confirmed")
			return
		}
	}
	other := w.wallets[(indexOf(w.wallets, x)+1+w.r.Intn(len(w.wallets)-1))%len(w.wallets)]
	total := pair[0].value + pair[1].value
	p := &txPlan{ins: pair, ts: w.now, outs: []*JOutput{{other.Addr, false, total/2 - w.set.Fee}, {x.Addr, false, total - total/2 - 1}}}
	p.signers = []*Wallet{nil, other}
	res := w.rec.Admit(w.build(p))
	w.tickAll()
	w.rec.Validate(w.now)
	w.stats.Count("wrong-key-late=second of two inputs of one address signed by a foreign key: " + res[:indexOrLen(res, ':')])
}

func (w *World) yieldRace() {
	host, h := w.host, w.helpers[0]
	hb, nb := host.AllBlocks(), h.AllBlocks()
	if len(hb) >= 2 && (len(hb) != len(nb) || blockHashHex(hb[len(hb)-1]) != blockHashHex(nb[len(nb)-1])) {
		// bring the neighbor onto the host's chain first
		h = NewNode(w.set, h.Validator)
		h.Pool.Validate(host.Chain.FirstBlockTimestamp())
		helperSync(h, w.now, []*Peer{honestPeer("10.0.0.1:10600", host)})
		w.helpers[0] = h
		nb = h.AllBlocks()
	}
	if len(hb) < 2 || len(hb) != len(nb) || blockHashHex(hb[len(hb)-1]) != blockHashHex(nb[len(nb)-1]) {
		w.stats.Count("yield-race=not-in-sync")
		return
	}
	busy := w.busyRefs(host)
	for k, v := range w.busyRefs(h) {
		busy[k] = v
	}
	hasYield := map[string]bool{}
	var free []spendable
	for _, wl := range w.wallets {
		for _, u := range host.Ureg.Utxos(wl.Addr) {
			if u.IsYielding() {
				hasYield[wl.Addr] = true
				continue
			}
			v := u.Value(w.next()+w.set.Interval, w.set.HalfLife, w.set.Base, w.set.ILimit)
			if v > w.set.Fee+2 && !busy[fmt.Sprintf("%s/%d", u.TransactionId(), u.OutputIndex())] {
				free = append(free, spendable{u.TransactionId(), u.OutputIndex(), v, wl})
			}
		}
	}
	for _, n := range []*Node{host, h} {
		for _, l := range [][]*ledger.Transaction{n.Pool.Transactions(), n.Chain.LastBlockTransactions()} {
			for _, t := range l {
				for _, o := range t.Outputs() {
					if o.IsYielding() {
						hasYield[o.Address()] = true
					}
				}
			}
		}
	}
	var target *Wallet
	for _, wl := range w.wallets {
		if !hasYield[wl.Addr] {
			target = wl
			break
		}
	}
	if target != nil && len(free) == 1 && free[0].value > 4*w.set.Fee+100 {
		// one plain output only: split it in two and confirm them (two host ticks)
		u := free[0]
		half := (u.value - w.set.Fee) / 2
		tx := w.build(&txPlan{ins: []spendable{u}, outs: []*JOutput{{u.owner.Addr, false, half}, {w.wallets[w.r.Intn(5)].Addr, false, u.value - w.set.Fee - half - 1}}, ts: w.now})
		w.stats.Count("yield-race-setup=" + w.rec.Admit(tx))
		w.hostTick()
		w.hostTick()
		return
	}
	if target == nil || len(free) < 2 {
		w.stats.Count("yield-race=unavailable")
		return
	}
	u1, u2 := free[0], free[len(free)-1]
	tx1 := w.build(&txPlan{ins: []spendable{u1}, outs: []*JOutput{{target.Addr, true, u1.value - w.set.Fee - 1}}, ts: w.now})
	tx2 := w.build(&txPlan{ins: []spendable{u2}, outs: []*JOutput{{target.Addr, true, u2.value - w.set.Fee - 1}}, ts: w.next()})
	h.Pool.AddTransaction(tx1, "x", "y")
	h.Log.Take()
	res := w.rec.Admit(tx2)
	w.tickAll()
	h.Pool.Validate(w.now)
	h.Log.Take()
	ur := w.rec.Update(w.now, []*Peer{honestPeer("10.4.0.1:10600", h)})
	w.tickAll()
	vr := w.rec.Validate(w.now)
	w.stats.Count(fmt.Sprintf("yield-race=%s/%s/%s", res, ur[:indexOrLen(ur, ':')], vr[:indexOrLen(vr, ':')]))
	for _, o := range w.helpers {
		helperSync(o, w.now, []*Peer{honestPeer("10.0.0.1:10600", host)})
	}
}

func (w *World) walletOfKey(pubHex string) *Wallet {
	for _, wl := range w.wallets {
		if strings.EqualFold(wl.PubHex, pubHex) {
			return wl
		}
	}
	return nil
}

// setupSwapWallet: give a wallet other than [except] that has no income a yielding and a plain
// output, from a free plain output of anybody; two host ticks confirm them
func (w *World) setupSwapWallet(busy map[string]bool, except *Wallet) bool {
	hasYield := map[string]bool{}
	for _, wl := range w.wallets {
		for _, u := range w.host.Ureg.Utxos(wl.Addr) {
			if u.IsYielding() {
				hasYield[wl.Addr] = true
			}
		}
	}
	for _, l := range [][]*ledger.Transaction{w.host.Pool.Transactions(), w.host.Chain.LastBlockTransactions()} {
		for _, t := range l {
			for _, o := range t.Outputs() {
				if o.IsYielding() {
					hasYield[o.Address()] = true
				}
			}
		}
	}
	var dst *Wallet
	for _, c := range w.wallets {
		if c != except && !hasYield[c.Addr] {
			dst = c
			break
		}
	}
	if dst == nil {
		return false
	}
	for _, src := range w.wallets {
		for _, u := range w.host.Ureg.Utxos(src.Addr) {
			v := u.Value(w.next(), w.set.HalfLife, w.set.Base, w.set.ILimit)
			if u.IsYielding() || busy[fmt.Sprintf("%s/%d", u.TransactionId(), u.OutputIndex())] || v <= 6*w.set.Fee+100 {
				continue
			}
			half := (v - w.set.Fee) / 2
			tx := w.build(&txPlan{ins: []spendable{{u.TransactionId(), u.OutputIndex(), v, src}}, outs: []*JOutput{{dst.Addr, true, half}, {dst.Addr, false, v - w.set.Fee - half - 1}}, ts: w.now})
			w.stats.Count("admit/yield-swap-setup2=" + w.rec.Admit(tx))
			for _, h := range w.helpers {
				h.Pool.AddTransaction(tx, "x", "y")
				h.Log.Take()
			}
			w.hostTick()
			w.hostTick()
			return true
		}
	}
	return false
}
