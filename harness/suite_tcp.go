package main

import (
	"encoding/json"
	"fmt"
	"net"
	"time"

	"github.com/my-cloud/ruthenium/validatornode/infrastructure/p2p"
	"github.com/my-cloud/ruthenium/validatornode/presentation"
	"github.com/my-cloud/ruthenium/validatornode/presentation/api"
)

func freePort() string {
	l, err := net.Listen("tcp", "127.0.0.1:0")
	if err != nil {
		return "0"
	}
	defer l.Close()
	return fmt.Sprint(l.Addr().(*net.TCPAddr).Port)
}

// tcpRound serves the node v through the real Host (golang-p2p over loopback TCP) and asks each
// of the seven endpoints through the real client: every endpoint answers the request it is
// named for, with the bytes the node itself would marshal.
func tcpRound(id string, w *World, v *Node, out *Out, stats *Stats) {
	port := freePort()
	settingsBytes := []byte(`{"marker":"settings-of-` + id + `"}`)
	host, err := api.NewHost(v.Chain, v.Senders, v.Pool, v.Ureg, port, settingsBytes, 2*time.Second)
	if err != nil {
		stats.Count("tcp/unavailable")
		return
	}
	node := presentation.NewNode(host)
	go func() { _ = node.Run() }()
	time.Sleep(30 * time.Millisecond)
	nb, err := p2p.NewNeighbor("127.0.0.1", port, 2*time.Second, &CapLogger{})
	if err != nil {
		stats.Count("tcp/unavailable")
		return
	}
	viol := func(key, what string) { out.Violation("C15", id, key+"\t"+what) }
	addr := w.wallets[1].Addr
	if got, err := nb.GetBlocks(0); err != nil || string(got) != string(mustJSON(v.Chain.Blocks(0))) {
		viol("endpoint:blocks", fmt.Sprintf("GetBlocks(0) over TCP: err=%v, %d bytes, expected %d", err, len(got), len(mustJSON(v.Chain.Blocks(0)))))
	}
	if got, err := nb.GetBlocks(1); err != nil || string(got) != string(mustJSON(v.Chain.Blocks(1))) {
		viol("endpoint:blocks", "GetBlocks(1) over TCP differs from Blocks(1)")
	}
	if got, err := nb.GetFirstBlockTimestamp(); err != nil || got != v.Chain.FirstBlockTimestamp() {
		viol("endpoint:first-block-timestamp", fmt.Sprintf("got %d err %v, expected %d", got, err, v.Chain.FirstBlockTimestamp()))
	}
	if got, err := nb.GetSettings(); err != nil || string(got) != string(settingsBytes) {
		viol("endpoint:settings", fmt.Sprintf("got %q err %v", got, err))
	}
	if got, err := nb.GetUtxos(addr); err != nil || string(got) != string(mustJSON(v.Ureg.Utxos(addr))) {
		viol("endpoint:utxos", fmt.Sprintf("got %q err %v", truncate(string(got), 200), err))
	}
	// a transaction through the transaction endpoint reaches the pool; the transactions endpoint lists it
	conf := w.confirmed(v, w.wallets[0])
	if len(conf) > 0 && conf[0].value > w.set.Fee+1 {
		tx := w.build(&txPlan{ins: []spendable{conf[0]}, outs: []*JOutput{{addr, false, conf[0].value - w.set.Fee - 1}}, ts: w.now})
		req := mustJSON(map[string]interface{}{"Transaction": json.RawMessage(mustJSON(tx)), "TransactionBroadcasterTarget": "10.9.9.9:10600"})
		before := len(v.Pool.Transactions())
		if err := nb.AddTransaction(req); err != nil {
			viol("endpoint:transaction", fmt.Sprintf("AddTransaction over TCP: %v", err))
		}
		deadline := time.Now().Add(time.Second)
		for len(v.Pool.Transactions()) == before && time.Now().Before(deadline) {
			time.Sleep(2 * time.Millisecond)
		}
		if len(v.Pool.Transactions()) != before+1 {
			// not pooled: is the transaction itself acceptable? submit it directly
			v.Pool.AddTransaction(tx, "10.9.9.9:10600", "h")
			if len(v.Pool.Transactions()) == before+1 {
				viol("endpoint:transaction", "a transaction the pool accepts did not reach the pool through the transaction endpoint")
			}
		}
		if got, err := nb.GetTransactions(); err != nil || string(got) != string(mustJSON(v.Pool.Transactions())) {
			viol("endpoint:transactions", fmt.Sprintf("got %q err %v", truncate(string(got), 200), err))
		}
	}
	if err := nb.SendTargets([]string{"10.1.2.3:10600"}); err != nil {
		viol("endpoint:targets", fmt.Sprintf("SendTargets over TCP: %v", err))
	}
	stats.Count("tcp/round")
	stats.Ops += 8
}

// realSender: the node served by the repository's own Host over loopback TCP, and the repository's
// own client (p2p.Neighbor, what the access node and the neighbors really hold) connected to it
func realSender(n *Node) (*p2p.Neighbor, bool) {
	port := freePort()
	host, err := api.NewHost(n.Chain, n.Senders, n.Pool, n.Ureg, port, []byte(`{}`), 2*time.Second)
	if err != nil {
		return nil, false
	}
	node := presentation.NewNode(host)
	go func() { _ = node.Run() }()
	time.Sleep(30 * time.Millisecond)
	nb, err := p2p.NewNeighbor("127.0.0.1", port, 2*time.Second, &CapLogger{})
	if err != nil {
		return nil, false
	}
	return nb, true
}
