package main

import (
	"fmt"
	"strings"
	"time"

	"github.com/my-cloud/ruthenium/validatornode/domain/clock"
	"github.com/my-cloud/ruthenium/validatornode/domain/ledger"
)

// C06: fork choice among up to eight neighbors serving chains that are equal to, shorter
// than, longer than or diverging from the host's at any height. Three to four real nodes share
// a prefix and then produce on their own for different numbers of ticks; the host's sync round
// is recorded and compared with the model (membership among the admissible tie-breaks).
func runForkSuite(seed uint64, n int, out *Out, stats *Stats) {
	for i := 0; i < n; i++ {
		id := fmt.Sprintf("fk%d_%d", seed, i)
		w := NewWorld(id, seed*3010349+uint64(i), "honest", stats, out)
		r := w.r
		w.set.Limit = 1440
		if i%8 == 5 {
			layoutCase(w, id, i, out, stats)
			out.Case(w.rec.Emit())
			for k, d := range w.rec.Digests {
				out.Digest(id, k, w.rec.OpKinds[k], d)
			}
			stats.Cases++
			stats.Ops += len(w.rec.Ops)
			continue
		}
		if i%4 == 3 {
			isolationCase(w, id, i, out, stats)
			out.Case(w.rec.Emit())
			for k, d := range w.rec.Digests {
				out.Digest(id, k, w.rec.OpKinds[k], d)
			}
			stats.Cases++
			stats.Ops += len(w.rec.Ops)
			continue
		}
		// more sources: four independent producers besides the host
		for len(w.helpers) < 4 {
			w.helpers = append(w.helpers, NewNode(w.set, w.wallets[1+len(w.helpers)%4].Addr))
		}
		// a shared prefix of 1..4 blocks produced by the host
		shared := 1 + r.Intn(4)
		for k := 0; k < shared; k++ {
			w.tickAll()
			if k > 0 && r.Chance(1, 2) {
				tx, _ := w.genTx(w.host)
				w.rec.Admit(tx)
			}
			w.rec.Validate(w.now)
			if k == 0 {
				for _, h := range w.helpers {
					h.Pool.Validate(w.now)
				}
			}
		}
		if shared >= 2 {
			for _, h := range w.helpers {
				helperSync(h, w.now, []*Peer{honestPeer("10.0.0.1:10600", w.host)})
			}
		}
		// branches: helper 1 follows helper 0 (same branch), helper 3 follows helper 2
		base := w.now
		hostExtra := r.Intn(4)
		extra := []int{r.Intn(5), 0, r.Intn(5), 0}
		maxExtra := hostExtra
		for _, e := range extra {
			if e > maxExtra {
				maxExtra = e
			}
		}
		for k := 1; k <= maxExtra; k++ {
			ts := base + int64(k)*w.set.Interval
			if k <= hostExtra {
				w.now = ts
				w.rec.Validate(ts)
			}
			for hi := 0; hi < 4; hi += 2 {
				if k <= extra[hi] {
					// branch blocks often carry a wallet transaction spending an output the branch's
					// producer sees as confirmed (so candidates consume outputs of the host's registry)
					if r.Chance(2, 3) {
						h := w.helpers[hi]
						var all []spendable
						for _, wl := range w.wallets {
							for _, u := range h.Ureg.Utxos(wl.Addr) {
								v := u.Value(ts, w.set.HalfLife, w.set.Base, w.set.ILimit)
								if v > 3*w.set.Fee+30 {
									all = append(all, spendable{u.TransactionId(), u.OutputIndex(), v, wl})
								}
							}
						}
						if len(all) > 0 {
							u := all[r.Intn(len(all))]
							third := (u.value - w.set.Fee) / 3
							tx := w.build(&txPlan{ins: []spendable{u}, outs: []*JOutput{{w.wallets[r.Intn(5)].Addr, false, third}, {w.wallets[r.Intn(5)].Addr, false, third}, {u.owner.Addr, false, u.value - w.set.Fee - 2*third - 1}}, ts: ts - 1})
							h.Pool.AddTransaction(tx, "x", "y")
							w.rec.noteTx(tx)
							stats.Count("forks/branch block with a wallet transaction")
						}
					}
					w.helpers[hi].Pool.Validate(ts)
					w.helpers[hi].Log.Take()
				}
			}
		}
		w.now = base + int64(maxExtra)*w.set.Interval
		helperSync(w.helpers[1], w.now, []*Peer{honestPeer("10.0.0.2:10600", w.helpers[0])})
		helperSync(w.helpers[3], w.now, []*Peer{honestPeer("10.0.0.3:10600", w.helpers[2])})
		follower := NewNode(w.set, w.wallets[4].Addr) // a node holding the host's own chain
		follower.Pool.Validate(base - int64(shared-1)*w.set.Interval)
		helperSync(follower, w.now, []*Peer{honestPeer("10.0.0.1:10600", w.host)})
		// the round: 1..8 neighbors drawn from the sources (several may serve the same branch)
		np := 1 + r.Intn(8)
		var peers []*Peer
		var kinds []string
		hostLen := len(w.host.AllBlocks())
		for k := 0; k < np; k++ {
			tgt := fmt.Sprintf("10.5.%d.%d:10600", i%250, k)
			c := r.Intn(12)
			var src *Node
			name := ""
			switch {
			case c < 4:
				src, name = w.helpers[0+r.Intn(2)], "A"
			case c < 8:
				src, name = w.helpers[2+r.Intn(2)], "B"
			case c < 9:
				src, name = follower, "host"
			case c < 10:
				peers = append(peers, failingPeer(tgt, r.Intn(4)))
				kinds = append(kinds, "F")
				continue
			default:
				hn := w.helpers[r.Intn(4)]
				mut, _ := w.mutateChain(MirrorBlocks(hn.AllBlocks()))
				peers = append(peers, staticPeer(tgt, mut, w.set.Limit))
				kinds = append(kinds, "M")
				continue
			}
			l := len(src.AllBlocks())
			rel := "="
			if l < hostLen {
				rel = "<"
			} else if l > hostLen {
				rel = ">"
			}
			peers = append(peers, honestPeer(tgt, src))
			kinds = append(kinds, name+rel)
		}
		before := w.host.AllBlocks()
		roundNow, trueNow := w.now, w.now
		if i%8 == 1 && w.set.Interval == int64(time.Second) {
			// the round is driven as in main.go: a real Engine (period and sub-periods from the decoded
			// settings) stamps it, the clock reads three quarters into the validation interval, and one
			// more neighbor - its clock runs ahead - already serves the block of the next tick
			early := NewNode(w.set, w.wallets[4].Addr)
			early.Pool.Validate(before[0].Timestamp())
			helperSync(early, w.now, []*Peer{honestPeer("10.0.0.1:10600", w.host)})
			early.Pool.Validate(w.now + w.set.Interval)
			if len(early.AllBlocks()) == len(before)+1 {
				peers = append(peers, honestPeer(fmt.Sprintf("10.5.%d.99:10600", i%250), early))
				kinds = append(kinds, "early>")
				trueNow = w.now + 3*w.set.Interval/4
				roundNow = engineStamp(w.set, w.now, trueNow)
				stats.Count("forks/round stamped by a real engine, a neighbor one tick ahead")
			}
		}
		res := w.rec.Update(roundNow, peers)
		after := w.host.AllBlocks()
		if len(after) > 0 && after[len(after)-1].Timestamp() > trueNow {
			out.Violation("C04", id, fmt.Sprintf("future-adopted\tthe node's clock reads %d and it adopted a chain whose tip is dated %d (the round was stamped %d)", trueNow, after[len(after)-1].Timestamp(), roundNow))
			out.Violation("C06", id, fmt.Sprintf("unverified\tthe node's clock reads %d and it adopted a chain whose tip is dated %d, which no verification at that time accepts", trueNow, after[len(after)-1].Timestamp()))
		}
		// the answer of an honest node (a chain produced by real nodes from wallet transactions that
		// spend confirmed outputs only) may be set aside as a fork or as too short, never for its content
		for k, p := range peers {
			if !(strings.HasPrefix(kinds[k], "A") || strings.HasPrefix(kinds[k], "B") || strings.HasPrefix(kinds[k], "host")) {
				continue
			}
			for _, stage := range []string{"inc|", "full|"} {
				reason, ok := w.rec.Rejections[stage+p.Target]
				if !ok {
					continue
				}
				cl := classify(reason)
				if cl != "fork" && cl != "short" {
					out.Violation("C06", id, fmt.Sprintf("honest-candidate-rejected	the %s answer of honest neighbor %s (%s) was rejected: %s", strings.TrimSuffix(stage, "|"), p.Target, kinds[k], reason))
				}
			}
		}
		replaced := strings.HasPrefix(res, "replaced")
		stats.Count(fmt.Sprintf("forks/host%d/peers%d=%s", minInt(hostLen, 6), np, res[:indexOrLen(res, ':')]))
		stats.Mark(fmt.Sprintf("%d/%s/%s", hostLen, strings.Join(kinds, ","), res[:indexOrLen(res, ':')]))
		stats.Sample(fmt.Sprintf("%s: host of %d blocks (%d shared), neighbors %s -> %s, now %d blocks", id, hostLen, shared, strings.Join(kinds, " "), res[:indexOrLen(res, ':')], len(after)))
		// monitors: the property's clauses on the implementation's outcome
		if replaced {
			if len(after) < len(before) {
				out.Violation("C06", id, fmt.Sprintf("shorter\tthe sync round replaced a chain of %d blocks by a shorter chain of %d blocks (neighbors %s)", len(before), len(after), strings.Join(kinds, " ")))
			}
			// the adopted chain must be one that a neighbor serves (fully) — and the longest of those accepted
			served := false
			longest := 0
			for k, p := range peers {
				if !accepted(res, p.Target) {
					continue
				}
				_ = k
				bs, err := p.Serve(0)
				if err != nil {
					continue
				}
				var got []struct{}
				_ = got
				l := countBlocks(bs)
				if l > longest {
					longest = l
				}
				if l == len(after) {
					served = true
				}
			}
			if !served {
				out.Violation("C06", id, fmt.Sprintf("unverified\tthe adopted chain of %d blocks is not the full chain of any neighbor whose answer passed verification", len(after)))
			}
			if len(after) < longest {
				out.Violation("C06", id, fmt.Sprintf("not-longest\tadopted %d blocks although a verified candidate has %d", len(after), longest))
			}
		} else if len(after) != len(before) || (len(after) > 0 && blockHashHex(after[len(after)-1]) != blockHashHex(before[len(before)-1])) {
			out.Violation("C06", id, "kept-but-changed\tthe round reports the chain kept but the chain differs")
		}
		// a full re-sync offer in which one block is replaced by a valid sibling while the blocks
		// above it are the host's own (so they do not link to the substitute), plus one new block
		if r.Chance(1, 3) {
			hostNow := w.host.AllBlocks()
			sib := w.helpers[0].AllBlocks()
			if r.Chance(1, 2) {
				sib = w.helpers[2].AllBlocks()
			}
			if len(hostNow) >= 3 {
				ext := NewNode(w.set, w.wallets[4].Addr)
				ext.Pool.Validate(hostNow[0].Timestamp())
				helperSync(ext, w.now, []*Peer{honestPeer("10.0.0.1:10600", w.host)})
				ext.Pool.Validate(hostNow[len(hostNow)-1].Timestamp() + w.set.Interval)
				extChain := MirrorBlocks(ext.AllBlocks())
				j := 0
				if r.Chance(2, 3) {
					j = 1 + r.Intn(len(hostNow)-2)
				}
				if len(extChain) == len(hostNow)+1 && j < len(sib) && blockHashHex(sib[j]) != blockHashHex(hostNow[j]) {
					cand := cloneJBlocks(extChain)
					cand[j] = MirrorBlock(sib[j])
					var sp []*Peer
					for k := 0; k < 1+r.Intn(3); k++ {
						page := cand
						sp = append(sp, &Peer{Target: fmt.Sprintf("10.6.%d.%d:10600", i%250, k), Serve: func(h uint64) ([]byte, error) {
							if h != 0 {
								return nil, fmt.Errorf("no incremental answer")
							}
							return mustJSON(page), nil
						}})
					}
					before2 := w.host.AllBlocks()
					res2 := w.rec.Update(w.now+w.set.Interval, sp)
					stats.Count(fmt.Sprintf("forks/substitute@%d=%s", minInt(j, 3), res2[:indexOrLen(res2, ':')]))
					if strings.HasPrefix(res2, "replaced") {
						out.Violation("C06", id, fmt.Sprintf("unverified	a chain whose block %d does not link to its predecessor was adopted in a full re-sync (host had %d blocks)", j+1, len(before2)))
					}
				}
			}
		}
		// a second round and a tick keep the case going
		if r.Chance(1, 2) {
			w.rec.Update(w.now, peers[:1+r.Intn(len(peers))])
		}
		out.Case(w.rec.Emit())
		for k, d := range w.rec.Digests {
			out.Digest(id, k, w.rec.OpKinds[k], d)
		}
		stats.Cases++
		stats.Ops += len(w.rec.Ops)
	}
}

func countBlocks(bs []byte) int {
	depth, n := 0, 0
	inStr, esc := false, false
	for _, c := range bs {
		if inStr {
			if esc {
				esc = false
			} else if c == '\\' {
				esc = true
			} else if c == '"' {
				inStr = false
			}
			continue
		}
		switch c {
		case '"':
			inStr = true
		case '{':
			if depth == 1 {
				n++
			}
			depth++
		case '[':
			depth++
		case '}', ']':
			depth--
		}
	}
	return n
}

// isolationCase: candidates of one round must not influence each other. The host holds a chain of
// L blocks (L over the lengths at which a cloned prefix has spare capacity, long chains included);
// the neighbors, in order: one in sync with the host or one block ahead, then one that offers a
// different block at the host's tip height - a competing tip of another producer, or the host's own
// tip with one transaction doubled (every per-transaction check passes, only the final replay of
// the candidate refuses it) - and sometimes a third. Whatever is rejected or not selected must
// leave the others as their neighbors serve them.
func isolationCase(w *World, id string, i int, out *Out, stats *Stats) {
	r := w.r
	L := []int{4, 5, 6, 7, 8, 9, 10, 11, 12, 13, 34, 35, 36, 38, 39, 40}[r.Intn(16)]
	if r.Chance(1, 2) {
		L = 4 + r.Intn(10)
	}
	competitor := NewNode(w.set, w.wallets[2].Addr)
	for k := 0; k < L; k++ {
		w.tickAll()
		if k == 2 {
			if conf := w.confirmed(w.host, w.wallets[0]); len(conf) > 0 && conf[0].value > 100*w.set.Fee+1000 {
				var outs []*JOutput
				share := (conf[0].value - w.set.Fee) / 6
				for j := 0; j < 6; j++ {
					outs = append(outs, &JOutput{w.wallets[j%5].Addr, false, share})
				}
				w.rec.Admit(w.build(&txPlan{ins: []spendable{conf[0]}, outs: outs, ts: w.now}))
			}
		}
		if k == L-1 {
			// the competitor leaves here: it holds the host's chain but the tip, and makes its own
			competitor.Pool.Validate(w.host.Chain.FirstBlockTimestamp())
			helperSync(competitor, w.now-w.set.Interval, []*Peer{honestPeer("10.0.0.1:10600", w.host)})
			// the host's tip carries a wallet transaction
			var all []spendable
			for _, wl := range w.wallets {
				for _, u := range w.confirmed(w.host, wl) {
					if u.value > 3*w.set.Fee+30 {
						all = append(all, u)
					}
				}
			}
			if len(all) > 0 {
				u := all[r.Intn(len(all))]
				w.rec.Admit(w.build(&txPlan{ins: []spendable{u}, outs: []*JOutput{{w.wallets[r.Intn(5)].Addr, false, u.value - w.set.Fee - 1}}, ts: w.now}))
			}
			competitor.Pool.Validate(w.now)
		}
		w.rec.Validate(w.now)
	}
	hostBlocks := w.host.AllBlocks()
	follower := NewNode(w.set, w.wallets[4].Addr)
	follower.Pool.Validate(w.host.Chain.FirstBlockTimestamp())
	helperSync(follower, w.now, []*Peer{honestPeer("10.0.0.1:10600", w.host)})
	ahead := NewNode(w.set, w.wallets[3].Addr)
	ahead.Pool.Validate(w.host.Chain.FirstBlockTimestamp())
	helperSync(ahead, w.now, []*Peer{honestPeer("10.0.0.1:10600", w.host)})
	ahead.Pool.Validate(w.now + w.set.Interval)
	// the host's tip with its first ordinary transaction doubled
	dup := MirrorBlocks(hostBlocks)
	hasDup := false
	if len(dup) > 0 {
		tip := dup[len(dup)-1]
		for _, t := range tip.Transactions {
			if len(t.Inputs) != 0 {
				tip.Transactions = append([]*JTx{t}, tip.Transactions...)
				hasDup = true
				break
			}
		}
	}
	type src struct {
		name string
		peer func(string) *Peer
	}
	first := []src{{"in-sync", func(t string) *Peer { return honestPeer(t, follower) }}, {"one-ahead", func(t string) *Peer { return honestPeer(t, ahead) }}}[r.Intn(2)]
	seconds := []src{{"competing-tip", func(t string) *Peer { return honestPeer(t, competitor) }}}
	if hasDup {
		seconds = append(seconds, src{"doubled-transaction-tip", func(t string) *Peer { return staticPeer(t, dup, w.set.Limit) }}, src{"doubled-transaction-tip", func(t string) *Peer { return staticPeer(t, dup, w.set.Limit) }})
	}
	second := seconds[r.Intn(len(seconds))]
	order := []src{first, second}
	if r.Chance(1, 3) {
		order = append(order, []src{{"in-sync", func(t string) *Peer { return honestPeer(t, follower) }}, {"one-ahead", func(t string) *Peer { return honestPeer(t, ahead) }}}[r.Intn(2)])
	}
	if r.Chance(1, 5) {
		order[0], order[1] = order[1], order[0]
	}
	var peers []*Peer
	var names []string
	for k, o := range order {
		peers = append(peers, o.peer(fmt.Sprintf("10.8.%d.%d:10600", i%250, k)))
		names = append(names, o.name)
	}
	now := w.now + w.set.Interval
	res := w.rec.Update(now, peers)
	after := w.host.AllBlocks()
	stats.Count(fmt.Sprintf("forks/isolation host%d %s=%s", L, strings.Join(names, ","), res[:indexOrLen(res, ':')]))
	stats.Mark(fmt.Sprintf("iso/%d/%s/%s", L, strings.Join(names, ","), res[:indexOrLen(res, ':')]))
	// the held chain is, block for block, the host's old chain or what one accepted neighbor serves
	same := func(a []*ledger.Block, b []*ledger.Block) bool {
		if len(a) != len(b) {
			return false
		}
		for k := range a {
			if blockHashHex(a[k]) != blockHashHex(b[k]) {
				return false
			}
		}
		return true
	}
	ok := same(after, hostBlocks)
	for k, o := range order {
		var served []*ledger.Block
		switch o.name {
		case "in-sync":
			served = follower.AllBlocks()
		case "one-ahead":
			served = ahead.AllBlocks()
		case "competing-tip":
			served = competitor.AllBlocks()
		}
		if served != nil && accepted(res, peers[k].Target) && same(after, served) {
			ok = true
		}
	}
	if !ok {
		out.Violation("C06", id, fmt.Sprintf("unverified\tafter a round with neighbors [%s] the host (chain of %d blocks before) holds a chain of %d blocks that is neither its old chain nor the chain of an accepted honest neighbor", strings.Join(names, ", "), len(hostBlocks), len(after)))
		out.Violation("C13", id, fmt.Sprintf("refused-offer-kept\tafter a round with neighbors [%s] the host (chain of %d blocks before) holds a chain of %d blocks that is neither its old chain nor the chain of an accepted honest neighbor", strings.Join(names, ", "), len(hostBlocks), len(after)))
	}
	if w.rec.Mon != nil {
		w.rec.Mon.CheckChain(after, "after the isolation round")
	}
}

// engineStamp: the timestamp a verification engine wired as in main.go (period ValidationTimer(),
// VerificationsCountPerValidation() occurrences, the first skipped) hands to Blockchain.Update when
// the clock reads trueNow; boundary is the last validation instant.
func engineStamp(set *Settings, boundary, trueNow int64) int64 {
	watch := &ScriptWatch{readings: []int64{boundary - int64(2*time.Millisecond), trueNow}, fallback: func() int64 { return trueNow }}
	got := make(chan int64, 4)
	var e *clock.Engine
	e = clock.NewEngine(func(ts int64) {
		select {
		case got <- ts:
		default:
		}
	}, watch, set.ValidationTimer(), set.VerificationsCountPerValidation(), 1)
	go e.Start()
	var ts int64
	select {
	case ts = <-got:
	case <-time.After(5 * time.Second):
		ts = trueNow
	}
	e.Stop()
	return ts
}

// layoutCase: the place of the reward inside a block is free (verification does not look at it; only
// the pool puts it last). Three validators A (the host), B and C take turns on one chain; C's block,
// which also carries a payment, is served with the reward moved to the front (a different but equally
// valid block). After everybody holds it, C and B each produce the next block on the same tick: the
// host must prefer the one whose validator waited longer, counting through the re-laid-out block.
func layoutCase(w *World, id string, i int, out *Out, stats *Stats) {
	r := w.r
	mk := func(wl int) *Node {
		n := NewNode(w.set, w.wallets[wl].Addr)
		n.Pool.Validate(w.host.Chain.FirstBlockTimestamp())
		return n
	}
	// A, A
	w.tickAll()
	w.rec.Validate(w.now)
	w.tickAll()
	w.rec.Validate(w.now)
	B, C := mk(1), mk(2)
	helperSync(B, w.now, []*Peer{honestPeer("10.0.0.1:10600", w.host)})
	helperSync(C, w.now, []*Peer{honestPeer("10.0.0.1:10600", w.host)})
	// a run of turns before C's block; who is last before C decides the ages
	turns := [][]byte{[]byte("BA"), []byte("AB"), []byte("BAB"), []byte("B"), []byte("ABA")}[r.Intn(5)]
	for _, t := range turns {
		w.tickAll()
		if t == 'A' {
			w.rec.Validate(w.now)
			helperSync(B, w.now, []*Peer{honestPeer("10.0.0.1:10600", w.host)})
			helperSync(C, w.now, []*Peer{honestPeer("10.0.0.1:10600", w.host)})
		} else {
			B.Pool.Validate(w.now)
			B.Log.Take()
			w.rec.Update(w.now, []*Peer{honestPeer("10.0.0.2:10600", B)})
			helperSync(C, w.now, []*Peer{honestPeer("10.0.0.2:10600", B)})
		}
	}
	// C's block with a payment
	w.tickAll()
	var all []spendable
	for _, wl := range w.wallets {
		for _, u := range C.Ureg.Utxos(wl.Addr) {
			v := u.Value(w.now, w.set.HalfLife, w.set.Base, w.set.ILimit)
			if v > 3*w.set.Fee+30 {
				all = append(all, spendable{u.TransactionId(), u.OutputIndex(), v, wl})
			}
		}
	}
	if len(all) > 0 {
		u := all[r.Intn(len(all))]
		tx := w.build(&txPlan{ins: []spendable{u}, outs: []*JOutput{{w.wallets[3].Addr, false, (u.value - w.set.Fee) / 2}, {u.owner.Addr, false, u.value - w.set.Fee - (u.value-w.set.Fee)/2 - 1}}, ts: w.now - 1})
		C.Pool.AddTransaction(tx, "x", "y")
		w.rec.noteTx(tx)
	}
	C.Pool.Validate(w.now)
	C.Log.Take()
	laid := MirrorBlocks(C.AllBlocks())
	tip := laid[len(laid)-1]
	moved := false
	if n := len(tip.Transactions); n >= 2 && len(tip.Transactions[n-1].Inputs) == 0 {
		tip.Transactions = append([]*JTx{tip.Transactions[n-1]}, tip.Transactions[:n-1]...)
		moved = true
	}
	stats.Count(fmt.Sprintf("forks/layout reward-first=%v turns=%s", moved, string(turns)))
	w.rec.Update(w.now, []*Peer{staticPeer("10.0.0.3:10600", laid, w.set.Limit)})
	B2, C2 := mk(1), mk(2)
	helperSync(B2, w.now, []*Peer{staticPeer("10.0.0.3:10600", laid, w.set.Limit)})
	helperSync(C2, w.now, []*Peer{staticPeer("10.0.0.3:10600", laid, w.set.Limit)})
	// the same tick: C again, and B
	w.tickAll()
	C2.Pool.Validate(w.now)
	B2.Pool.Validate(w.now)
	C2.Log.Take()
	B2.Log.Take()
	peers := []*Peer{honestPeer(fmt.Sprintf("10.9.%d.1:10600", i%250), C2), honestPeer(fmt.Sprintf("10.9.%d.2:10600", i%250), B2)}
	if r.Chance(1, 2) {
		peers[0], peers[1] = peers[1], peers[0]
	}
	res := w.rec.Update(w.now, peers)
	stats.Mark(fmt.Sprintf("layout/%s/%v/%s", string(turns), moved, res[:indexOrLen(res, ':')]))
	// model-free: both candidates are verified, equally long and on branches of one neighbor each; the
	// host must end on the one whose validator waited at least as long (wherever the rewards sit)
	waited := func(bs []*ledger.Block) int {
		recipient := func(b *ledger.Block) string {
			for _, t := range b.Transactions() {
				if t.HasReward() {
					return t.RewardRecipientAddress()
				}
			}
			return ""
		}
		last := recipient(bs[len(bs)-1])
		age := 0
		for k := len(bs) - 2; k >= 0; k-- {
			age++
			if recipient(bs[k]) == last {
				break
			}
		}
		return age
	}
	cb, bb, after := C2.AllBlocks(), B2.AllBlocks(), w.host.AllBlocks()
	if len(cb) == len(bb) && len(after) == len(cb) && len(cb) >= 3 {
		wc, wb := waited(cb), waited(bb)
		tipHash := blockHashHex(after[len(after)-1])
		lo, hi := wc, wb
		if lo > hi {
			lo, hi = hi, lo
		}
		if (tipHash == blockHashHex(cb[len(cb)-1]) && wc < wb) || (tipHash == blockHashHex(bb[len(bb)-1]) && wb < wc) {
			out.Violation("C06", id, fmt.Sprintf("not-longest-waiting\tof two verified candidates of %d blocks the host adopted the one whose validator waited %d blocks although the other's waited %d (turns %s, reward moved to the front of an earlier block: %v)", len(cb), lo, hi, string(turns), moved))
		}
	}
	if w.rec.Mon != nil {
		w.rec.Mon.CheckChain(w.host.AllBlocks(), "after the layout round")
	}
}
