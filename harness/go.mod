module rvharness

go 1.19

require (
	github.com/ethereum/go-ethereum v1.13.15
	github.com/leprosus/golang-p2p v1.3.11
	github.com/my-cloud/ruthenium v0.0.0
)

require (
	github.com/btcsuite/btcd v0.24.0 // indirect
	github.com/btcsuite/btcd/btcec/v2 v2.2.0 // indirect
	github.com/btcsuite/btcd/btcutil v1.1.5 // indirect
	github.com/btcsuite/btcd/chaincfg/chainhash v1.1.0 // indirect
	github.com/decred/dcrd/dcrec/secp256k1/v4 v4.0.1 // indirect
	github.com/holiman/uint256 v1.2.4 // indirect
	github.com/tyler-smith/go-bip39 v1.1.0 // indirect
	golang.org/x/crypto v0.21.0 // indirect
)

replace github.com/my-cloud/ruthenium => /repo
