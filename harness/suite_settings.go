package main

import (
	"encoding/json"
	"fmt"
	"math"
	"strings"
	"time"

	"github.com/my-cloud/ruthenium/validatornode/infrastructure/configuration"
)

// settings suite: protocol settings documents (well-formed ones with every spelling encoding/json
// accepts for a key, duplicated keys, nulls, boundary numbers; and a malformed stream) go through
// the repository's decoder; every getter is recorded and the model's decoder (model/Settings.v)
// must give the same values. Model-free monitors: the engine period equals the block spacing, and
// both are the document's seconds times 10^9.

var settingsKeys = []string{"blocksCountLimit", "coinDigitsCount", "genesisAmount", "halfLifeInDays", "incomeBase", "incomeLimit",
	"minimalTransactionFee", "validationIntervalInSeconds", "validationTimeoutInSeconds", "verificationsCountPerValidation"}

func spellKey(r *Rng, k string) string {
	switch r.Intn(6) {
	case 0:
		return strings.ToUpper(k)
	case 1:
		return strings.ToLower(k)
	case 2:
		return strings.ToUpper(k[:1]) + k[1:]
	case 3:
		// U+017F folds to S, U+212A folds to K
		return strings.Replace(strings.Replace(k, "s", "ſ", 1), "k", "K", 1)
	}
	return k
}

func runSettingsSuite(seed uint64, n int, out *Out, stats *Stats) {
	r := NewRng(seed)
	for i := 0; i < n; i++ {
		id := fmt.Sprintf("st%d_%d", seed, i)
		malformed := r.Chance(1, 5)
		vals := map[string]string{}
		// intended values
		secs := []int64{1, 2, 3, 5, 60, 3600, 86400, 9223372036, 9223372037, 0, -1, -60}[r.Intn(12)]
		if r.Chance(1, 2) {
			secs = int64(1 + r.Intn(600))
		}
		tsecs := []int64{1, 3, 10, 60, 0, -5, 9223372036, 9223372037}[r.Intn(8)]
		if r.Chance(1, 2) {
			tsecs = int64(1 + r.Intn(600))
		}
		digits := r.Intn(20)
		if r.Chance(1, 10) {
			digits = 20 + r.Intn(236)
		}
		days := fmt.Sprint(1 + r.Intn(100000))
		switch r.Intn(6) {
		case 0:
			days = "373.59"
		case 1:
			days = "1e2"
		case 2:
			days = "0.5"
		}
		vals["blocksCountLimit"] = fmt.Sprint(r.U64n(3000))
		vals["coinDigitsCount"] = fmt.Sprint(digits)
		vals["genesisAmount"] = fmt.Sprint(r.U64n(1 << 62))
		vals["halfLifeInDays"] = days
		vals["incomeBase"] = fmt.Sprint(r.U64n(1 << 50))
		vals["incomeLimit"] = fmt.Sprint(r.U64n(1 << 60))
		vals["minimalTransactionFee"] = fmt.Sprint(r.U64n(100000))
		vals["validationIntervalInSeconds"] = fmt.Sprint(secs)
		vals["validationTimeoutInSeconds"] = fmt.Sprint(tsecs)
		vals["verificationsCountPerValidation"] = fmt.Sprint(int64(r.Intn(20)) - 2)
		if r.Chance(1, 6) {
			vals[settingsKeys[r.Intn(len(settingsKeys))]] = []string{"18446744073709551615", "18446744073709551616", "9223372036854775807", "9223372036854775808", "-9223372036854775808", "-9223372036854775809", "255", "256", "-0", "null"}[r.Intn(10)]
		}
		var parts []string
		order := append([]string{}, settingsKeys...)
		for k := len(order) - 1; k > 0; k-- {
			j := r.Intn(k + 1)
			order[k], order[j] = order[j], order[k]
		}
		for _, k := range order {
			if r.Chance(1, 12) {
				continue // absent
			}
			if r.Chance(1, 10) {
				// an earlier occurrence the last one overrides
				parts = append(parts, fmt.Sprintf("%q:%s", spellKey(r, k), []string{"7", "null", "1"}[r.Intn(3)]))
			}
			parts = append(parts, fmt.Sprintf("%q:%s", spellKey(r, k), vals[k]))
		}
		if r.Chance(1, 4) {
			parts = append(parts, `"unknown":{"a":[1,2,null]}`)
		}
		text := "{" + strings.Join(parts, ",") + "}"
		if malformed {
			switch r.Intn(8) {
			case 0:
				text = "null"
			case 1:
				text = "[]"
			case 2:
				text = `"x"`
			case 3:
				text = "{" + strings.Join(append(parts, `"incomeBase":"5"`), ",") + "}"
			case 4:
				text = "{" + strings.Join(append(parts, `"validationIntervalInSeconds":1.5`), ",") + "}"
			case 5:
				text = "{" + strings.Join(append(parts, `"coinDigitsCount":-1`), ",") + "}"
			case 6:
				text = "{" + strings.Join(append(parts, `"halfLifeInDays":"1"`), ",") + "}"
			case 7:
				text = "{" + strings.Join(append(parts, `"blocksCountLimit":true`), ",") + "}"
			}
		}
		got := decodeSettingsReal(id, text, out, stats)
		stats.Count("settings/" + got[:indexOrLen(got, ':')])
		stats.Mark(md5hex(text)[:10])
		stats.Ops++
		stats.Cases++
		out.Case(sx("settingscase", id, "$"+hexOf([]byte(text)), atom(got)))
		if i < 3 {
			stats.Sample(fmt.Sprintf("%s: %s -> %s", id, truncate(text, 200), truncate(got, 120)))
		}
	}
}

func hexOf(b []byte) string { return fmt.Sprintf("%x", b) }

func decodeSettingsReal(id, text string, out *Out, stats *Stats) (got string) {
	defer func() {
		if e := recover(); e != nil {
			got = "panic"
		}
	}()
	ps := new(configuration.ProtocolSettings)
	if err := json.Unmarshal([]byte(text), ps); err != nil {
		return "err"
	}
	// model-free monitors on the getters (the statement of C04_settings_timer_is_spacing)
	if int64(ps.ValidationTimer()) != ps.ValidationTimestamp() {
		out.Violation("C04", id, fmt.Sprintf("settings-timer\tthe production period ValidationTimer()=%d ns differs from the block spacing ValidationTimestamp()=%d ns for the document %s", int64(ps.ValidationTimer()), ps.ValidationTimestamp(), truncate(text, 300)))
		out.Violation("C20", id, fmt.Sprintf("settings-timer\tthe production period ValidationTimer()=%d ns differs from the block spacing ValidationTimestamp()=%d ns for the document %s", int64(ps.ValidationTimer()), ps.ValidationTimestamp(), truncate(text, 300)))
	}
	var doc map[string]json.RawMessage
	if json.Unmarshal([]byte(text), &doc) == nil {
		if raw, ok := doc["validationIntervalInSeconds"]; ok {
			var s int64
			if json.Unmarshal(raw, &s) == nil && s > 0 && s <= 9223372036 && countKeyFold(text, "validationintervalinseconds") == 1 {
				if ps.ValidationTimestamp() != s*int64(time.Second) {
					out.Violation("C04", id, fmt.Sprintf("settings-interval\ta document asking for %d s between blocks gives ValidationTimestamp()=%d: %s", s, ps.ValidationTimestamp(), truncate(text, 300)))
				}
			}
		}
	}
	hl := "-"
	if d := ps.HalfLifeInNanoseconds(); d == math.Trunc(d) && math.Abs(d) < 9007199254740992 {
		hl = fmt.Sprintf("%d", int64(d))
	}
	return fmt.Sprintf("ok:%d,%d,%s,%d,%d,%d,%d,%d,%d,%d,%d", ps.BlocksCountLimit(), ps.GenesisAmount(), hl, ps.IncomeBase(), ps.IncomeLimit(),
		ps.MinimalTransactionFee(), ps.SmallestUnitsPerCoin(), int64(ps.ValidationTimeout()), int64(ps.ValidationTimer()), ps.ValidationTimestamp(), ps.VerificationsCountPerValidation())
}

func countKeyFold(text, lowerKey string) int {
	// every spelling encoding/json folds to the key: ASCII case, U+017F for s, U+212A for k
	t := strings.ToLower(strings.NewReplacer("ſ", "s", "K", "k").Replace(text))
	return strings.Count(t, `"`+lowerKey+`"`)
}
