package main

import (
	"bytes"
	"context"
	"encoding/hex"
	"encoding/json"
	"fmt"
	"strings"

	gp2p "github.com/leprosus/golang-p2p"
	"github.com/my-cloud/ruthenium/validatornode/domain/ledger"
)

// C15: wire fidelity. (a) what a node serves, byte for byte and hash for hash, against the
// model's printer and SHA-256; (b) what the real decoders accept, reject and normalise, against
// the model's decoders run on the same JSON text; (c) monitors: re-encoding a decoded value is
// byte-stable, ids and hashes survive the round trip, a wrong id is rejected, a decoded
// transaction "has a reward" exactly when it has no input.

var oddAddresses = []string{"", "0xABCdef", "0xabcdefabcdefabcdefabcdefabcdefabcdefabcd", "0XABCDEFABCDEFABCDEFABCDEFABCDEFABCDEFABCD", "abcdef0123456789abcdef0123456789abcdef01", "0x000000000000000000000000abcdefabcdefabcdefabcdefabcdefabcdefabcdefabcd", "addr<script>&\"q\"\\", "ünïcödé-адрес-住所", "line\nbreak\ttab", " sep ", "a\x7fb", "nul\x00byte", "emoji😀"}

func decodeTxs(text []byte) ([]*ledger.Transaction, error) {
	var l []*ledger.Transaction
	err := json.Unmarshal(text, &l)
	return l, err
}

func classifyDecodeErr(err error) string {
	if err == nil {
		return "ok"
	}
	s := err.Error()
	switch {
	case strings.Contains(s, "wrong transaction ID"):
		return "wrong-id"
	case strings.Contains(s, "is null"):
		return "null-elem"
	case strings.Contains(s, "has no output"):
		return "no-output"
	case strings.Contains(s, "multiple rewards"):
		return "multi-reward"
	case strings.Contains(s, "reward not found"):
		return "no-reward"
	case strings.Contains(s, "public key"):
		return "key"
	case strings.Contains(s, "signature"):
		return "sig"
	case strings.Contains(s, "cannot unmarshal number") && (strings.Contains(s, "overflow") || strings.Contains(s, " -") || true) && strings.Contains(s, "into Go"):
		return "type-or-range"
	case strings.Contains(s, "cannot unmarshal"):
		return "type-or-range"
	default:
		return "other:" + truncate(s, 60)
	}
}

func runWireSuite(seed uint64, n int, out *Out, stats *Stats) {
	for i := 0; i < n; i++ {
		id := fmt.Sprintf("wr%d_%d", seed, i)
		r := NewRng(seed*53471161 + uint64(i))
		set := pickSettings(r)
		set.Limit = 1440
		w := &World{r: r, set: set, stats: NewStats(), mode: "mixed"}
		for k := 0; k < 5; k++ {
			w.wallets = append(w.wallets, NewWallet(k))
		}
		v := NewNode(set, w.wallets[0].Addr)
		w.host = v
		w.now = t0 - (t0 % set.Interval)
		// a real chain with real transactions (up to a few blocks), registry removals included
		for k := 0; k < 3+r.Intn(4); k++ {
			w.now += set.Interval
			for j := 0; j < r.Intn(3); j++ {
				tx, _ := w.genTx(v)
				v.Pool.AddTransaction(tx, "a", "b")
			}
			if k == 2 && r.Chance(1, 2) {
				v.Humans.answer = map[string]int{w.wallets[0].Addr: 0, w.wallets[1].Addr: 0}
				v.Areg.Synchronize(0)
			}
			v.Pool.Validate(w.now)
		}
		v.Log.Take()
		blocks := v.AllBlocks()
		// (0) an answer of the "blocks" handler stays what it was while later requests are answered
		// (the p2p server writes the response after the handler has returned)
		if len(blocks) >= 2 {
			v.controllers()
			r1, err1 := v.blkCtl.HandleBlocksRequest(context.TODO(), gp2p.Data{Bytes: []byte("0")})
			if err1 == nil {
				held := r1.GetBytes()
				keep := append([]byte(nil), held...)
				_, _ = v.blkCtl.HandleBlocksRequest(context.TODO(), gp2p.Data{Bytes: []byte(fmt.Sprint(len(blocks) - 1))})
				_, _ = v.blkCtl.HandleFirstBlockTimestampRequest(context.TODO(), gp2p.Data{})
				if !bytes.Equal(held, keep) {
					out.Violation("C15", id, "answer-overwritten\tthe bytes answered to a blocks request changed while a later request was answered")
				}
				want := mustJSON(v.Chain.Blocks(0))
				if !bytes.Equal(keep, want) {
					out.Violation("C15", id, "answer-differs\tthe blocks handler does not answer the encoding of the served blocks")
				}
			}
			stats.Count("served/two answers in flight")
		}
		// (a) served blocks: bytes and hashes
		for k, b := range blocks {
			bs := mustJSON(b)
			h, _ := b.Hash()
			out.Case(sx("wirecase", fmt.Sprintf("%s_b%d", id, k), "block", sxBlock(b), "$"+hex.EncodeToString(bs), hex.EncodeToString(h[:])))
			stats.Ops++
			stats.Count("encode/block")
			// through the wire and back: same fields, same ids, same hash, byte-stable
			var back *ledger.Block
			if err := json.Unmarshal(bs, &back); err != nil {
				out.Violation("C15", id, fmt.Sprintf("served-undecodable\tblock %d served by the node is rejected by the decoder: %v", k, err))
				continue
			}
			bs2 := mustJSON(back)
			h2, _ := back.Hash()
			if string(bs2) != string(bs) || h2 != h {
				out.Violation("C15", id, fmt.Sprintf("round-trip\tblock %d changes through decode/encode: %s vs %s", k, truncate(string(bs), 300), truncate(string(bs2), 300)))
			}
			for _, t := range back.Transactions() {
				if t.HasReward() != (len(t.Inputs()) == 0) {
					out.Violation("C15", id, "stale-reward\ta decoded transaction with inputs claims to be a reward (or the reverse)")
				}
			}
		}
		// a receiver that reuses its page variable: decode one page, hash it, decode the next page over it
		if len(blocks) >= 4 {
			var page []*ledger.Block
			_ = json.Unmarshal(mustJSON(blocks[:2]), &page)
			for _, b := range page {
				_, _ = b.Hash()
			}
			_ = json.Unmarshal(mustJSON(blocks[2:4]), &page)
			for k, b := range page {
				h, _ := b.Hash()
				want, _ := blocks[2+k].Hash()
				if h != want {
					out.Violation("C15", id, fmt.Sprintf("stale-hash	a block decoded over a previously decoded (and hashed) block reports hash %x, its content hashes to %x", h[:6], want[:6]))
				}
				for ti, t := range b.Transactions() {
					if t.Id() != blocks[2+k].Transactions()[ti].Id() {
						out.Violation("C15", id, "stale-id	a transaction decoded over a previously decoded one keeps the old id")
					}
				}
			}
		}
		// synthetic values with odd field contents, through the mirror structs and the real decoder
		for k := 0; k < 4; k++ {
			jt := &JTx{Timestamp: []int64{0, 1, -1, 1 << 62, -(1 << 63), (1 << 63) - 1, w.now}[r.Intn(7)]}
			no := 1 + r.Intn(3)
			for j := 0; j < no; j++ {
				val := []uint64{0, 1, 1 << 63, ^uint64(0), uint64(r.Next())}[r.Intn(5)]
				jt.Outputs = append(jt.Outputs, &JOutput{oddAddresses[r.Intn(len(oddAddresses))], r.Chance(1, 2), val})
			}
			if r.Chance(2, 3) {
				wl := w.wallets[r.Intn(5)]
				jt.Inputs = []*JInput{wl.SignInput(uint16(r.Intn(70000)), strings.Repeat("ab", r.Intn(40)))}
				if r.Chance(1, 3) {
					jt.Inputs[0].Signature = strings.ToUpper(jt.Inputs[0].Signature)
					jt.Inputs[0].PublicKey = "0x" + strings.ToUpper(jt.Inputs[0].PublicKey[2:])
				}
				if r.Chance(1, 4) {
					jt.Inputs[0].Signature = strings.Repeat("0", 64) + jt.Inputs[0].Signature[64:]
				}
			} else {
				switch r.Intn(3) {
				case 0:
					jt.Inputs = nil
				case 1:
					jt.Inputs = []*JInput{}
				}
				// a reward has one output, however its absent inputs are written (null, [] or no key at all)
				if r.Chance(1, 2) {
					jt.Outputs = jt.Outputs[:1]
				}
			}
			canon := *jt
			canon.Inputs = nil
			for _, in := range jt.Inputs {
				c := *in
				c.Signature = strings.ToLower(c.Signature)
				c.PublicKey = strings.ToLower(c.PublicKey)
				canon.Inputs = append(canon.Inputs, &c)
			}
			if jt.Inputs != nil && canon.Inputs == nil {
				canon.Inputs = []*JInput{}
			}
			jt.Id = canon.ComputeId()
			if r.Chance(1, 6) {
				jt.Id = strings.Repeat("0", 64) // a wrong id must be rejected
			}
			text := mustJSON(jt)
			// key order, unknown keys, case of keys, duplicates
			switch r.Intn(6) {
			case 0:
				text = []byte(strings.Replace(string(text), `{"id":`, `{"unknown":[1,{"a":null}],"ID":`, 1))
			case 1:
				text = []byte(strings.Replace(string(text), `"timestamp":`, `"TimeStamp":`, 1))
			case 2:
				text = []byte(`{"timestamp":` + i64(jt.Timestamp) + `,` + string(text[1:len(text)-1]) + `}`)
			}
			emitDecodeCase(out, stats, id, fmt.Sprintf("t%d", k), "tx", text)
		}
		// (b) decoder side: mutated block lists (the sync answer schema) incl. duplicate keys
		base := mustJSON(blocks)
		tree := parseAny(base)
		var paths []path
		walkPaths(tree, nil, func(p path) { paths = append(paths, append(path{}, p...)) })
		for k := 0; k < 6; k++ {
			p := paths[r.Intn(len(paths))]
			fk := faultKinds[r.Intn(len(faultKinds))]
			mt := setAt(deepCopy(tree), p, fk.val, fk.rm)
			if r.Chance(2, 3) {
				fixIds(mt)
			}
			emitDecodeCase(out, stats, id, fmt.Sprintf("m%d", k), "blocks", mustJSON(mt))
			stats.Count("mutation/" + fk.name)
		}
		// duplicate "transactions" key: the second list is decoded over the first
		if len(blocks) >= 3 {
			var ord, rew string
			for _, b := range blocks {
				for _, t := range b.Transactions() {
					if t.HasReward() {
						rew = string(mustJSON(t))
					} else {
						ord = string(mustJSON(t))
					}
				}
			}
			if ord != "" && rew != "" {
				text := fmt.Sprintf(`[{"previous_hash":[],"timestamp":5,"transactions":[%s],"transactions":[%s]}]`, rew, ord)
				emitDecodeCase(out, stats, id, "dup", "blocks", []byte(text))
				req := fmt.Sprintf(`{"Transaction":%s,"Transaction":%s,"TransactionBroadcasterTarget":"x"}`, rew, ord)
				var tr *ledger.TransactionRequest
				if err := json.Unmarshal([]byte(req), &tr); err == nil && tr != nil && tr.Transaction() != nil {
					t := tr.Transaction()
					if t.HasReward() != (len(t.Inputs()) == 0) {
						out.Violation("C15", id, "stale-reward\ta request with a duplicated Transaction key decodes to a transaction with inputs that claims to be a reward: "+truncate(req, 300))
					}
				}
			}
		}
		if i%8 == 0 {
			tcpRound(id, w, v, out, stats)
		}
		stats.Cases++
		stats.Sample(fmt.Sprintf("%s: %d served blocks compared byte for byte and hash for hash; synthetic transactions with odd addresses / extreme numbers / upper-case hex; mutated block lists", id, len(blocks)))
	}
}

// one decoder-side case: the JSON text, what the real decoder did with it
func emitDecodeCase(out *Out, stats *Stats, id, tag, kind string, text []byte) {
	var got string
	switch kind {
	case "tx":
		var t *ledger.Transaction
		err := json.Unmarshal(text, &t)
		if err != nil || t == nil {
			got = "err:" + classifyDecodeErr(err)
		} else {
			got = "ok:" + hex.EncodeToString(mustJSON(t))
			// decoded into a value with the same id as the one that was sent
			var sent struct {
				Id string `json:"id"`
			}
			if json.Unmarshal(text, &sent) == nil && sent.Id != "" && !strings.Contains(string(text), `"ID":`) && t.Id() != sent.Id {
				out.Violation("C15", id, fmt.Sprintf("id-changed	a transaction sent with id %s is decoded with id %s: %s", sent.Id, t.Id(), truncate(string(text), 300)))
			}
			if t.HasReward() != (len(t.Inputs()) == 0) {
				out.Violation("C15", id, "stale-reward\tdecoded transaction with inputs claims to be a reward: "+truncate(string(text), 300))
			}
			// re-encoding a decoded value is byte-stable
			var t2 *ledger.Transaction
			if err := json.Unmarshal(mustJSON(t), &t2); err != nil || string(mustJSON(t2)) != string(mustJSON(t)) || t2.Id() != t.Id() {
				out.Violation("C15", id, "unstable\tre-encoding a decoded transaction is not byte-stable: "+truncate(string(text), 300))
			}
		}
	default:
		var bl []*ledger.Block
		err := json.Unmarshal(text, &bl)
		if err != nil {
			got = "err:" + classifyDecodeErr(err)
		} else {
			got = "ok:" + hex.EncodeToString(mustJSON(bl))
			for _, b := range bl {
				if b == nil {
					continue
				}
				for _, t := range b.Transactions() {
					if t != nil && t.HasReward() != (len(t.Inputs()) == 0) {
						out.Violation("C15", id, "stale-reward\ta decoded block holds a transaction with inputs that claims to be a reward: "+truncate(string(text), 400))
					}
				}
			}
		}
	}
	stats.Count("decode/" + kind + "/" + got[:indexOrLen(got, ':')])
	stats.Mark(kind + "/" + md5hex(string(text))[:8])
	stats.Ops++
	out.Case(sx("decodecase", id+"_"+tag, kind, "$"+hex.EncodeToString(text), atom(got)))
}
