package main

import (
	"crypto/ecdsa"
	"crypto/rand"
	"crypto/sha256"
	"encoding/hex"
	"encoding/json"
	"fmt"
	"math/big"
	"sync"

	"github.com/ethereum/go-ethereum/common/hexutil"
	ethcrypto "github.com/ethereum/go-ethereum/crypto"

	"github.com/my-cloud/ruthenium/validatornode/domain/encryption"
	"github.com/my-cloud/ruthenium/validatornode/domain/ledger"
)

// ---- wallets with real secp256k1 keys ---------------------------------------
type Wallet struct {
	Priv   *encryption.PrivateKey
	Pub    *encryption.PublicKey
	PubHex string
	Addr   string
}

var walletKeys = []string{
	"0x48913790c2bebc48417491f96a7e07ec94c76ccd0fe1562dc1749479d9715afd",
	"0x1111111111111111111111111111111111111111111111111111111111111111",
	"0x2222222222222222222222222222222222222222222222222222222222222222",
	"0x3333333333333333333333333333333333333333333333333333333333333333",
	"0x4444444444444444444444444444444444444444444444444444444444444444",
	"0x5555555555555555555555555555555555555555555555555555555555555555",
}

// leadingZeroKey: a private key whose public point has a coordinate starting with a zero byte
// (about one key in 128): encoders that drop leading zeros show on it
var leadingZeroKeyOnce sync.Once
var leadingZeroKeyHex string

func leadingZeroKey() string {
	leadingZeroKeyOnce.Do(func() {
		for k := int64(7); k < 100000; k++ {
			h := fmt.Sprintf("0x%064x", k)
			priv, err := ethcrypto.HexToECDSA(h[2:])
			if err != nil {
				continue
			}
			if len(priv.PublicKey.X.Bytes()) < 32 || len(priv.PublicKey.Y.Bytes()) < 32 {
				leadingZeroKeyHex = h
				return
			}
		}
		leadingZeroKeyHex = walletKeys[4]
	})
	return leadingZeroKeyHex
}

func NewWallet(i int) *Wallet {
	key := walletKeys[i%len(walletKeys)]
	if i%len(walletKeys) == 4 {
		key = leadingZeroKey()
	}
	priv, err := encryption.NewPrivateKeyFromHex(key)
	if err != nil {
		panic(err)
	}
	pub := encryption.NewPublicKey(priv)
	// the hexadecimal form and the address are computed with go-ethereum directly, not with the
	// repository's PublicKey.String / Address (they are what the node is compared against)
	pubHex := hexutil.Encode(ethcrypto.FromECDSAPub(pub.PublicKey))
	addr := ethcrypto.PubkeyToAddress(*pub.PublicKey).Hex()
	return &Wallet{priv, pub, pubHex, addr}
}

// ---- mirror structs: same JSON as the ledger types, but with exported fields ---
type JInput struct {
	OutputIndex   uint16 `json:"output_index"`
	TransactionId string `json:"transaction_id"`
	PublicKey     string `json:"public_key"`
	Signature     string `json:"signature"`
}
type JOutput struct {
	Address    string `json:"address"`
	IsYielding bool   `json:"is_yielding"`
	Value      uint64 `json:"value"`
}
type JTx struct {
	Id        string     `json:"id"`
	Inputs    []*JInput  `json:"inputs"`
	Outputs   []*JOutput `json:"outputs"`
	Timestamp int64      `json:"timestamp"`
}
type JBlock struct {
	PreviousHash               [32]byte `json:"previous_hash"`
	AddedRegisteredAddresses   []string `json:"added_registered_addresses"`
	RemovedRegisteredAddresses []string `json:"removed_registered_addresses"`
	Timestamp                  int64    `json:"timestamp"`
	Transactions               []*JTx   `json:"transactions"`
}

func (t *JTx) ComputeId() string {
	b, err := json.Marshal(struct {
		Inputs    []*JInput  `json:"inputs"`
		Outputs   []*JOutput `json:"outputs"`
		Timestamp int64      `json:"timestamp"`
	}{t.Inputs, t.Outputs, t.Timestamp})
	if err != nil {
		panic(err)
	}
	h := sha256.Sum256(b)
	return fmt.Sprintf("%x", h)
}
func (b *JBlock) Hash() [32]byte {
	bs, err := json.Marshal(b)
	if err != nil {
		panic(err)
	}
	return sha256.Sum256(bs)
}

func mustJSON(v interface{}) []byte {
	b, err := json.Marshal(v)
	if err != nil {
		panic(err)
	}
	return b
}

// SignInput signs the output reference the way the web wallet does.
func (w *Wallet) SignInput(idx uint16, txid string) *JInput {
	// signed with crypto/ecdsa directly, as a wallet that is not this repository would: the message
	// is the JSON of (output_index, transaction_id); half of the signatures are given in their
	// upper-S form (s and N-s are both valid ECDSA signatures)
	msg, err := json.Marshal(struct {
		OutputIndex   uint16 `json:"output_index"`
		TransactionId string `json:"transaction_id"`
	}{idx, txid})
	if err != nil {
		panic(err)
	}
	h := sha256.Sum256(msg)
	r, sgn, err := ecdsa.Sign(rand.Reader, w.Priv.PrivateKey, h[:])
	if err != nil {
		panic(err)
	}
	n := ethcrypto.S256().Params().N
	half := new(big.Int).Rsh(n, 1)
	wantUpper := h[0]&1 == 1
	if (sgn.Cmp(half) > 0) != wantUpper {
		sgn = new(big.Int).Sub(n, sgn)
	}
	return &JInput{idx, txid, w.PubHex, fmt.Sprintf("%064x%064x", r, sgn)}
}

// Decode a mirror transaction through the real decoder.
func (t *JTx) Real() (*ledger.Transaction, error) {
	var tx *ledger.Transaction
	err := json.Unmarshal(mustJSON(t), &tx)
	return tx, err
}
func (b *JBlock) Real() (*ledger.Block, error) {
	var blk *ledger.Block
	err := json.Unmarshal(mustJSON(b), &blk)
	return blk, err
}

// Mirror of a real block/transaction (through its own marshaling).
func MirrorBlock(b *ledger.Block) *JBlock {
	var j *JBlock
	if err := json.Unmarshal(mustJSON(b), &j); err != nil {
		panic(err)
	}
	return j
}
func MirrorTx(t *ledger.Transaction) *JTx {
	var j *JTx
	if err := json.Unmarshal(mustJSON(t), &j); err != nil {
		panic(err)
	}
	return j
}
func MirrorBlocks(bs []*ledger.Block) []*JBlock {
	out := make([]*JBlock, len(bs))
	for i, b := range bs {
		out[i] = MirrorBlock(b)
	}
	return out
}

// Relink: recompute previous_hash of blocks[from+1:] after blocks[from] was edited.
func Relink(bs []*JBlock, from int) {
	for i := from + 1; i < len(bs); i++ {
		bs[i].PreviousHash = bs[i-1].Hash()
	}
}

func cloneJBlocks(bs []*JBlock) []*JBlock {
	var out []*JBlock
	if err := json.Unmarshal(mustJSON(bs), &out); err != nil {
		panic(err)
	}
	return out
}

// ---- S-expression forms of ledger values (what the model is fed) -------------
func sxOutput(a string, y bool, v uint64) string { return sx(atom(a), b01(y), u64(v)) }

func sxTx(t *ledger.Transaction) string {
	ins := "nil"
	if t.Inputs() != nil {
		var l []string
		for _, in := range t.Inputs() {
			j := struct {
				OutputIndex   uint16 `json:"output_index"`
				TransactionId string `json:"transaction_id"`
				PublicKey     string `json:"public_key"`
				Signature     string `json:"signature"`
			}{}
			if err := json.Unmarshal(mustJSON(in), &j); err != nil {
				panic(err)
			}
			l = append(l, sx(u64(uint64(j.OutputIndex)), atom(j.TransactionId), atom(j.PublicKey), atom(j.Signature)))
		}
		ins = plist(l)
	}
	outs := "nil"
	if t.Outputs() != nil {
		var l []string
		for _, o := range t.Outputs() {
			l = append(l, sxOutput(o.Address(), o.IsYielding(), o.InitialValue()))
		}
		outs = plist(l)
	}
	return sx("tx", atom(t.Id()), ins, outs, i64(t.Timestamp()))
}

func plist(l []string) string {
	s := "("
	for i, x := range l {
		if i > 0 {
			s += " "
		}
		s += x
	}
	return s + ")"
}

func sxStrSlice(l []string) string {
	if l == nil {
		return "nil"
	}
	var a []string
	for _, x := range l {
		a = append(a, atom(x))
	}
	return plist(a)
}

func sxBlock(b *ledger.Block) string {
	ph := b.PreviousHash()
	txs := "nil"
	if b.Transactions() != nil {
		var l []string
		for _, t := range b.Transactions() {
			l = append(l, sxTx(t))
		}
		txs = plist(l)
	}
	return sx("block", fmt.Sprintf("%x", ph[:]), sxStrSlice(b.AddedRegisteredAddresses()),
		sxStrSlice(b.RemovedRegisteredAddresses()), i64(b.Timestamp()), txs)
}

// SigValid: does the signature of this input verify, under its public key, over the JSON
// rendering of (output_index, transaction_id)? Computed with crypto/ecdsa directly, not through
// ledger.Input.VerifySignature: it is the oracle the model's sig_ok table is filled from and what
// the monitors judge admissions by, so it must not depend on the code under test.
func SigValid(j *JInput) bool {
	if len(j.Signature) != 128 {
		return false
	}
	rb, err1 := hex.DecodeString(j.Signature[:64])
	sb, err2 := hex.DecodeString(j.Signature[64:])
	if err1 != nil || err2 != nil {
		return false
	}
	kb, err := hexutil.Decode(j.PublicKey)
	if err != nil {
		return false
	}
	pub, err := ethcrypto.UnmarshalPubkey(kb)
	if err != nil {
		return false
	}
	msg, err := json.Marshal(struct {
		OutputIndex   uint16 `json:"output_index"`
		TransactionId string `json:"transaction_id"`
	}{j.OutputIndex, j.TransactionId})
	if err != nil {
		return false
	}
	h := sha256.Sum256(msg)
	return ecdsa.Verify(pub, h[:], new(big.Int).SetBytes(rb), new(big.Int).SetBytes(sb))
}

// AddrOf: the address of a public key (Keccak of the uncompressed point, EIP-55 rendering),
// computed with go-ethereum directly rather than through ledger.Input.Address
func AddrOf(pubHex string) (string, bool) {
	kb, err := hexutil.Decode(pubHex)
	if err != nil {
		return "", false
	}
	pub, err := ethcrypto.UnmarshalPubkey(kb)
	if err != nil {
		return "", false
	}
	return ethcrypto.PubkeyToAddress(*pub).Hex(), true
}
