package main

import (
	"bytes"
	"encoding/json"
	"errors"
	"fmt"
	"math/big"
	"net/http"
	"net/http/httptest"
	"strings"
	"sync"
	"time"

	apayment "github.com/my-cloud/ruthenium/accessnode/presentation/api/payment"
	awallet "github.com/my-cloud/ruthenium/accessnode/presentation/api/wallet"
	"github.com/my-cloud/ruthenium/validatornode/application"
	"github.com/my-cloud/ruthenium/validatornode/domain/ledger"
)

// C18 / C19: the real access-node controllers over httptest, their Sender backed by a real
// validator node (or by a scripted one that injects an error at a chosen step).

func backedSender(n *Node) *FakeSender {
	return &FakeSender{target: "10.7.0.1:10600",
		utxos:     func(a string) ([]byte, error) { return n.ServedUtxosBytes(a) },
		firstTs:   func() (int64, error) { return n.ServedFirstTimestamp() },
		txs:       func() ([]byte, error) { return n.ServedPoolBytes() },
		getBlocks: func(h uint64) ([]byte, error) { return n.ServedBlocksBytes(h) },
	}
}

type infoAnswer struct {
	Inputs []struct {
		OutputIndex   uint16 `json:"output_index"`
		TransactionId string `json:"transaction_id"`
	} `json:"inputs"`
	Rest      uint64 `json:"rest"`
	Timestamp int64  `json:"timestamp"`
}

// a validator whose wallet w1 holds many outputs of chosen values
func walletWorld(r *Rng, set *Settings, values []uint64, yieldingFirst bool) (*World, *Wallet) {
	w := &World{r: r, set: set, stats: NewStats(), mode: "honest"}
	for k := 0; k < 5; k++ {
		w.wallets = append(w.wallets, NewWallet(k))
	}
	v := NewNode(set, w.wallets[0].Addr)
	w.host = v
	w.now = t0 - (t0 % set.Interval)
	w.now += set.Interval
	v.Pool.Validate(w.now)
	w.now += set.Interval
	v.Pool.Validate(w.now) // the genesis reward is now confirmed
	owner := w.wallets[1]
	// one transaction from the validator's wallet creating the holdings
	conf := w.confirmed(v, w.wallets[0])
	if len(conf) == 0 {
		return w, owner
	}
	var outs []*JOutput
	var total uint64
	for k, val := range values {
		outs = append(outs, &JOutput{owner.Addr, yieldingFirst && k == 0, val})
		total += val
	}
	if conf[0].value < total+set.Fee {
		return w, owner
	}
	if rest := conf[0].value - total - set.Fee; rest > 0 {
		outs = append(outs, &JOutput{w.wallets[0].Addr, false, rest})
	}
	tx := w.build(&txPlan{ins: []spendable{conf[0]}, outs: outs, ts: w.now})
	v.Pool.AddTransaction(tx, "a", "b")
	pooled := len(v.Pool.Transactions()) == 1
	w.now += set.Interval
	v.Pool.Validate(w.now)
	included := false
	for _, t := range v.Chain.LastBlockTransactions() {
		if t.Id() == tx.Id() {
			included = true
		}
	}
	// the transaction that creates the holdings is itself a wallet payment (dated at the tip's own
	// timestamp): admitted, it must be in the next block
	w.setupLost = pooled && !included
	w.now += set.Interval
	v.Pool.Validate(w.now) // holdings confirmed
	v.Log.Take()
	return w, owner
}

// postProbe: two wallets post a transaction each to one access node at the same moment; the
// transport of the first is slow to read the bytes it was handed. The validator must be sent both
// transactions, each with its own content.
func postProbe(id string, out *Out, stats *Stats) {
	r := NewRng(99)
	set := pickSettings(r)
	w := &World{r: r, set: set, stats: NewStats(), mode: "honest"}
	for k := 0; k < 5; k++ {
		w.wallets = append(w.wallets, NewWallet(k))
	}
	w.now = t0 - (t0 % set.Interval)
	// (the first is the longer one: a transport that still holds its bytes would see them overwritten)
	tx1 := w.build(&txPlan{ins: []spendable{{"aa", 0, 10, w.wallets[1]}}, outs: []*JOutput{{w.wallets[2].Addr, false, 1}, {w.wallets[1].Addr, false, 4}, {w.wallets[3].Addr, true, 5}}, ts: w.now})
	tx2 := w.build(&txPlan{ins: []spendable{{"bb", 1, 10, w.wallets[2]}}, outs: []*JOutput{{w.wallets[3].Addr, false, 2}}, ts: w.now + 1})
	firstHeld := make(chan struct{})
	release := make(chan struct{})
	var mu sync.Mutex
	var got []string
	calls := 0
	sender := &FakeSender{target: "10.7.0.1:10600"}
	sender.addTx = func(b []byte) error {
		mu.Lock()
		calls++
		first := calls == 1
		mu.Unlock()
		if first {
			close(firstHeld)
			<-release // a slow connection: the bytes are read only now
		}
		mu.Lock()
		got = append(got, string(b))
		mu.Unlock()
		return nil
	}
	ctl := apayment.NewTransactionController(sender, &CapLogger{})
	done := make(chan int, 2)
	go func() {
		rec := httptest.NewRecorder()
		ctl.PostTransaction(rec, httptest.NewRequest("POST", "/transaction", bytes.NewReader(mustJSON(tx1))))
		done <- rec.Code
	}()
	select {
	case <-firstHeld:
	case <-time.After(2 * time.Second):
		stats.Count("post-probe/unavailable")
		return
	}
	go func() {
		rec := httptest.NewRecorder()
		ctl.PostTransaction(rec, httptest.NewRequest("POST", "/transaction", bytes.NewReader(mustJSON(tx2))))
		done <- rec.Code
	}()
	select {
	case <-done: // the second post went through while the first is still being sent
	case <-time.After(300 * time.Millisecond): // or it waits for the first: let the first go on
	}
	close(release)
	for k := 0; k < 2; k++ {
		select {
		case <-done:
		case <-time.After(2 * time.Second):
		}
		if len(done) == 0 && k == 0 {
			continue
		}
	}
	time.Sleep(5 * time.Millisecond)
	mu.Lock()
	defer mu.Unlock()
	has := func(t *ledger.Transaction) bool {
		for _, g := range got {
			if strings.Contains(g, t.Id()) && strings.Contains(g, string(mustJSON(t))) {
				return true
			}
		}
		return false
	}
	if len(got) != 2 || !has(tx1) || !has(tx2) {
		out.Violation("C16", id, fmt.Sprintf("post-lost\ttwo transactions posted to the access node at the same moment: the validator was sent %d messages; first transaction sent intact: %v, second: %v", len(got), has(tx1), has(tx2)))
		out.Violation("C18", id, fmt.Sprintf("post-lost\ta posted transaction answered 201 did not reach the validator with its own content (concurrent posts)"))
	}
	stats.Count("post-probe")
}

func runWalletSuite(seed uint64, n int, out *Out, stats *Stats) {
	watchProbe("C18", fmt.Sprintf("wl%d_watch", seed), out, stats)
	postProbe(fmt.Sprintf("wl%d_post", seed), out, stats)
	for i := 0; i < n; i++ {
		id := fmt.Sprintf("wl%d_%d", seed, i)
		r := NewRng(seed*32452843 + uint64(i))
		set := pickSettings(r)
		set.Genesis = 5_000_000_000_000
		set.Limit = 1440
		if i%10 == 3 {
			incomeOnlyCase(id, r, set, out, stats)
			continue
		}
		// holdings: equal values, zero-valued, a few or hundreds
		nh := r.Pick(1, 2, 3, 5, 8, 20, 60)
		if r.Chance(1, 12) {
			nh = 150 + r.Intn(150)
		}
		var values []uint64
		basev := uint64(1000 + r.Intn(100000))
		for k := 0; k < nh; k++ {
			switch r.Intn(6) {
			case 0:
				values = append(values, 0)
			case 1, 2:
				values = append(values, basev)
			case 3:
				values = append(values, basev*uint64(1+r.Intn(4)))
			default:
				values = append(values, uint64(1+r.Intn(3_000_000)))
			}
		}
		w, owner := walletWorld(r, set, values, r.Chance(1, 3))
		v := w.host
		if w.setupLost {
			out.Violation("C18", id, "not-included\tthe payment that creates the wallet's holdings (dated at the tip's timestamp) was admitted by the pool but is not in the next block")
		}
		sender := backedSender(v)
		// one to three payments in a row on the same validator: the later ones see what the earlier
		// ones left (outputs of one transaction spent one by one, a wallet paying itself)
		rounds := 1
		if i%3 == 0 {
			rounds = 3
		}
		for round := 0; round < rounds; round++ {
			rid := id
			if round > 0 {
				rid = fmt.Sprintf("%sr%d", id, round)
				// the previous payment gets confirmed
				w.now = v.Chain.LastBlockTimestamp() + set.Interval
				v.Pool.Validate(w.now)
				v.Log.Take()
			}
			selfPay := r.Chance(1, 3)
			// the clock reading: anywhere inside the current slot, often exactly on its first or last instant
			now := w.now + int64(r.U64n(uint64(set.Interval)))
			switch r.Intn(6) {
			case 0:
				now = w.now
			case 1:
				now = w.now + set.Interval - 1
			}
			watch := &ScriptWatch{fallback: func() int64 { return now }}
			if r.Chance(1, 3) {
				// the clock goes on while the request is served: whatever the controller reads after its
				// first reading lies beyond the next block boundary. One request has one "now": the answer
				// (selection, rest and the timestamp the client dates its transaction with) must hang together.
				later := w.now + set.Interval + int64(r.U64n(uint64(set.Interval)))
				watch = &ScriptWatch{readings: []int64{now}, fallback: func() int64 { return later }}
				stats.Count("info/clock crosses a block boundary during the request")
			}
			ctl := apayment.NewInfoController(sender, set, watch, &CapLogger{})
			// what the wallet holds, valued at the next block time (the controller's own valuation time)
			utxos := v.Ureg.Utxos(owner.Addr)
			first := v.Chain.FirstBlockTimestamp()
			nextTs := first + ((now-first)/set.Interval+1)*set.Interval
			var hold []string
			balance := new(big.Int)
			var maxv uint64
			for _, u := range utxos {
				val := u.Value(nextTs, set.HalfLife, set.Base, set.ILimit)
				hold = append(hold, sx(atom(u.TransactionId()), u64(uint64(u.OutputIndex())), u64(val)))
				balance.Add(balance, new(big.Int).SetUint64(val))
				if val > maxv {
					maxv = val
				}
			}
			bal := balance.Uint64()
			var amount uint64
			akind := ""
			switch r.Intn(9) {
			case 8:
				// an exact multiple of a repeated value
				exact := basev
				if len(utxos) > 0 {
					exact = utxos[r.Intn(len(utxos))].Value(nextTs, set.HalfLife, set.Base, set.ILimit)
				}
				amount, akind = 2*exact-minU(2*exact, set.Fee), "two-exact"
			case 0:
				amount, akind = 0, "zero"
			case 1:
				if bal > set.Fee {
					amount = bal - set.Fee
				}
				akind = "all"
			case 2:
				amount, akind = bal-minU(bal, set.Fee)+1, "just-above"
			case 3:
				// amount + fee exactly equal to one holding's value at the next block time
				exact := basev
				if len(utxos) > 0 {
					exact = utxos[r.Intn(len(utxos))].Value(nextTs, set.HalfLife, set.Base, set.ILimit)
				}
				amount, akind = exact-minU(exact, set.Fee), "one-exact"
			case 4:
				amount, akind = bal+uint64(r.Intn(1000)), "beyond"
			default:
				amount, akind = r.U64n(bal+1), "random"
			}
			consolidate := r.Chance(1, 3)
			url := fmt.Sprintf("/transaction/info?address=%s&value=%d&consolidation=%v", owner.Addr, amount, consolidate)
			rec := httptest.NewRecorder()
			ctl.GetTransactionInfo(rec, httptest.NewRequest("GET", url, nil))
			got := fmt.Sprintf("(status %d)", rec.Code)
			var ans infoAnswer
			if rec.Code == http.StatusOK {
				if err := json.Unmarshal(rec.Body.Bytes(), &ans); err != nil {
					got = "(status 200 undecodable)"
				} else {
					var ins []string
					for _, in := range ans.Inputs {
						ins = append(ins, sx(atom(in.TransactionId), u64(uint64(in.OutputIndex))))
					}
					got = sx("ok", u64(ans.Rest), plist(ins))
				}
			} else if rec.Code == http.StatusMethodNotAllowed {
				got = "405"
			}
			out.Case(sx("walletcase", rid, u64(set.Fee), b01(consolidate), u64(amount), plist(hold), got))
			stats.Count(fmt.Sprintf("info/%s/consolidate=%v/holdings=%s/status=%d", akind, consolidate, sizeClass(len(utxos)), rec.Code))
			stats.Mark(fmt.Sprintf("%s/%v/%d/%d", akind, consolidate, len(utxos), rec.Code))
			stats.Sample(fmt.Sprintf("%s: %d holdings, balance %d, amount %d (%s), consolidation %v -> %s", id, len(utxos), bal, amount, akind, consolidate, got))
			stats.Cases++
			stats.Ops++
			// ---- monitors: the property on the implementation's answer ----
			target := new(big.Int).Add(new(big.Int).SetUint64(amount), new(big.Int).SetUint64(set.Fee))
			afford := balance.Cmp(target) >= 0
			viol := func(key, what string) {
				out.Violation("C18", rid, fmt.Sprintf("%s\t%d holdings, balance %s, amount %d, fee %d, consolidation %v: %s (answer %s)", key, len(utxos), balance, amount, set.Fee, consolidate, what, got))
			}
			if !afford {
				if rec.Code != http.StatusMethodNotAllowed {
					viol("unaffordable-not-405", "the wallet cannot afford the amount but the answer is not 405")
				}
				continue
			}
			if rec.Code != http.StatusOK {
				viol("affordable-refused", "the wallet can afford the amount but the answer is not 200")
				continue
			}
			seen := map[string]bool{}
			sum := new(big.Int)
			nonzero := 0
			for _, u := range utxos {
				if u.Value(nextTs, set.HalfLife, set.Base, set.ILimit) > 0 {
					nonzero++
				}
			}
			for _, in := range ans.Inputs {
				k := fmt.Sprintf("%s/%d", in.TransactionId, in.OutputIndex)
				if seen[k] {
					viol("duplicate-input", "an output is listed twice")
				}
				seen[k] = true
				found := false
				for _, u := range utxos {
					if u.TransactionId() == in.TransactionId && u.OutputIndex() == in.OutputIndex {
						found = true
						val := u.Value(nextTs, set.HalfLife, set.Base, set.ILimit)
						if val == 0 {
							viol("zero-input", "a zero-valued output is listed")
						}
						sum.Add(sum, new(big.Int).SetUint64(val))
					}
				}
				if !found {
					viol("foreign-input", "an output that the wallet does not hold is listed")
				}
			}
			want := new(big.Int).Add(target, new(big.Int).SetUint64(ans.Rest))
			if sum.Cmp(want) != 0 {
				viol("inexact", fmt.Sprintf("inputs total %s but amount + fee + rest = %s", sum, want))
			}
			if consolidate && len(ans.Inputs) != nonzero {
				viol("consolidation", fmt.Sprintf("%d inputs listed, the wallet has %d non-zero outputs", len(ans.Inputs), nonzero))
			}
			if !consolidate && target.Sign() > 0 && new(big.Int).SetUint64(maxv).Cmp(target) >= 0 && len(ans.Inputs) != 1 {
				viol("not-single", fmt.Sprintf("one output alone (%d) suffices but %d are listed", maxv, len(ans.Inputs)))
			}
			// a transaction built from the answer (amount to the recipient, rest to the sender) is
			// admitted by the validator's pool and included in its next block
			if len(ans.Inputs) > 0 {
				jt := &JTx{Timestamp: ans.Timestamp}
				jt.Inputs = []*JInput{}
				for _, in := range ans.Inputs {
					jt.Inputs = append(jt.Inputs, owner.SignInput(in.OutputIndex, in.TransactionId))
				}
				recipient := w.wallets[2].Addr
				if selfPay {
					recipient = owner.Addr // the wallet pays itself: two outputs of one transaction to one address
				}
				jt.Outputs = []*JOutput{{recipient, false, amount}, {owner.Addr, false, ans.Rest}}
				jt.Id = jt.ComputeId()
				tx, err := jt.Real()
				if err != nil {
					viol("undecodable-tx", err.Error())
					continue
				}
				before := len(v.Pool.Transactions())
				v.Pool.AddTransaction(tx, "a", "b")
				lines := v.Log.Take()
				if len(v.Pool.Transactions()) != before+1 {
					viol("not-admitted", "the transaction built from the answer is refused by the pool: "+strings.Join(lines, " | "))
					continue
				}
				v.Pool.Validate(w.now + set.Interval)
				included := false
				for _, t := range v.Chain.LastBlockTransactions() {
					if t.Id() == tx.Id() {
						included = true
					}
				}
				offs := "inside"
				if now == w.now {
					offs = "first-instant"
				} else if now == w.now+set.Interval-1 {
					offs = "last-instant"
				}
				stats.Count(fmt.Sprintf("payment/clock %s of the slot/included=%v", offs, included))
				if !included {
					viol("not-included", "the transaction built from the answer is not in the next block: "+strings.Join(v.Log.Take(), " | "))
				}
			}
		}
	}
}

func minU(a, b uint64) uint64 {
	if a < b {
		return a
	}
	return b
}
func sizeClass(n int) string {
	switch {
	case n <= 1:
		return fmt.Sprint(n)
	case n <= 5:
		return "2-5"
	case n <= 20:
		return "6-20"
	case n <= 100:
		return "21-100"
	default:
		return ">100"
	}
}

// ---- C19 ----------------------------------------------------------------------------
func runViewsSuite(seed uint64, n int, out *Out, stats *Stats) {
	for i := 0; i < n; i++ {
		id := fmt.Sprintf("vw%d_%d", seed, i)
		r := NewRng(seed*49979687 + uint64(i))
		set := pickSettings(r)
		set.Genesis = 5_000_000_000_000
		set.Limit = 1440
		var values []uint64
		for k := 0; k < 1+r.Intn(6); k++ {
			values = append(values, uint64(1+r.Intn(5_000_000)))
		}
		yieldingFirst := r.Chance(1, 3)
		if r.Chance(1, 4) {
			// an income-only holding: a yielding output created with value 0 (worth more with time)
			values[0] = 0
			yieldingFirst = true
		}
		w, owner := walletWorld(r, set, values, yieldingFirst)
		v := w.host
		now := w.now + int64(r.U64n(uint64(set.Interval)))
		if r.Chance(1, 2) {
			now += int64(r.Pick(1, 10, 1000, 100000)) * set.Interval // the balance is asked for much later
		}
		watch := &ScriptWatch{fallback: func() int64 { return now }}
		// -- balance --
		{
			sender := backedSender(v)
			fail := r.Chance(1, 8)
			if fail {
				sender.utxos = func(string) ([]byte, error) { return nil, errors.New("down") }
			}
			ctl := awallet.NewAmountController(sender, set, watch, &CapLogger{})
			rec := httptest.NewRecorder()
			ctl.GetWalletAmount(rec, httptest.NewRequest("GET", "/wallet/amount?address="+owner.Addr, nil))
			var vals []string
			var sum uint64
			exact := new(big.Int)
			for _, u := range v.Ureg.Utxos(owner.Addr) {
				val := u.Value(now, set.HalfLife, set.Base, set.ILimit)
				vals = append(vals, u64(val))
				sum += val
				exact.Add(exact, new(big.Int).SetUint64(val))
			}
			out.Case(sx("amountcase", id+"a", plist(vals), u64(sum)))
			stats.Count(fmt.Sprintf("amount/fail=%v/status=%d", fail, rec.Code))
			stats.Ops++
			if fail {
				if rec.Code != http.StatusInternalServerError {
					out.Violation("C19", id, fmt.Sprintf("amount-error\tvalidator error answered with %d", rec.Code))
				}
			} else {
				var got float64
				if rec.Code != 200 || json.Unmarshal(rec.Body.Bytes(), &got) != nil {
					out.Violation("C19", id, fmt.Sprintf("amount-status\tbalance request answered with %d %s", rec.Code, rec.Body.String()))
				} else {
					ef, _ := new(big.Float).SetInt(exact).Float64()
					want := ef / float64(set.Units)
					if got != want {
						out.Violation("C19", id, fmt.Sprintf("amount-value\tbalance reported %v, the validator's outputs sum to %s units = %v", got, exact, want))
						if values[0] == 0 && yieldingFirst {
							// the wallet holds an income-only output: the displayed balance must show its growth (C09)
							out.Violation("C09", id, fmt.Sprintf("income-not-displayed\ta wallet whose yielding output was created with value 0 is shown %v although its outputs are worth %v", got, want))
						}
					}
				}
			}
		}
		// -- progress: walk a transaction through its life, or inject an error at one step --
		conf := w.confirmed(v, owner)
		if len(conf) == 0 {
			continue
		}
		u := conf[0]
		if u.value <= set.Fee {
			continue
		}
		// a payment with two outputs to the same address (payment and rest): they share the transaction id
		half := (u.value - set.Fee) / 2
		tx := w.build(&txPlan{ins: []spendable{u}, outs: []*JOutput{{w.wallets[3].Addr, false, half}, {w.wallets[3].Addr, false, u.value - set.Fee - half}}, ts: w.now})
		searchIdx := uint16(r.Intn(2))
		stage := r.Intn(5) // 0 unknown, 1 pooled, 2 in the tip block, 3 confirmed, 4 one of the two outputs spent again
		if stage >= 1 {
			v.Pool.AddTransaction(tx, "a", "b")
		}
		if stage >= 2 {
			w.now += set.Interval
			v.Pool.Validate(w.now)
		}
		if stage >= 3 {
			w.now += set.Interval
			v.Pool.Validate(w.now)
		}
		if stage >= 4 {
			spendIdx := uint16(r.Intn(2))
			c2 := w.confirmed(v, w.wallets[3])
			for _, s := range c2 {
				if s.txid == tx.Id() && s.idx == spendIdx && s.value > set.Fee {
					t2 := w.build(&txPlan{ins: []spendable{s}, outs: []*JOutput{{w.wallets[4].Addr, false, s.value - set.Fee}}, ts: w.now})
					v.Pool.AddTransaction(t2, "a", "b")
					w.now += set.Interval
					v.Pool.Validate(w.now)
					w.now += set.Interval
					v.Pool.Validate(w.now)
				}
			}
		}
		v.Log.Take()
		now2 := w.now + int64(r.U64n(uint64(set.Interval)))
		if r.Chance(1, 4) && len(v.AllBlocks()) >= 3 {
			// the access node's clock is a little behind its validator's (or the validator produced a block
			// while the request was on its way): the height the access node asks for is the one below the
			// validator's tip and the answered page holds two blocks - "the block at the current height" is the first
			now2 = w.now - 1 - int64(r.U64n(uint64(set.Interval)-1))
			stats.Count("progress/validator one block ahead of the access node's clock")
		}
		watch2 := &ScriptWatch{fallback: func() int64 { return now2 }}
		sender := backedSender(v)
		inject := r.Intn(7) // 0..3 none; 4 utxos, 5 blocks, 6 pool fail; plus first-ts below
		switch inject {
		case 4:
			sender.utxos = func(string) ([]byte, error) { return nil, errors.New("down") }
		case 5:
			sender.getBlocks = func(uint64) ([]byte, error) { return nil, errors.New("down") }
		case 6:
			sender.txs = func() ([]byte, error) { return nil, errors.New("down") }
		}
		failFirst := r.Chance(1, 8)
		if failFirst {
			sender.firstTs = func() (int64, error) { return 0, errors.New("down") }
		}
		body := mustJSON(ledger.NewUtxo(ledger.NewInputInfo(searchIdx, tx.Id()), ledger.NewOutput(w.wallets[3].Addr, false, 0), 0))
		badBody := r.Chance(1, 12)
		if badBody {
			body = []byte("{not json")
		}
		ctl := apayment.NewProgressController(sender, set, watch2, &CapLogger{})
		if inject < 4 && !failFirst && !badBody && (r.Chance(1, 3) || i%5 == 2) {
			// the access node's controller and its validator have both served a request before, when
			// the validator was still on a private chain with a younger genesis; the validator has
			// re-synced onto the network chain since (one node, one set of handlers, throughout)
			young := NewNode(set, w.wallets[2].Addr)
			young.Pool.Validate(w.now - set.Interval)
			var ys application.Sender = backedSender(young)
			if i%2 == 0 {
				// through the repository's own host, transport and client
				if nb, ok := realSender(young); ok {
					ys = nb
					stats.Count("progress/asked through the real client over TCP")
				}
			}
			ctl = apayment.NewProgressController(ys, set, watch2, &CapLogger{})
			ctl.GetTransactionProgress(httptest.NewRecorder(), httptest.NewRequest("PUT", "/transaction/output/progress", bytes.NewReader(body)))
			helperSync(young, now2, []*Peer{honestPeer("10.7.0.9:10600", v)})
			for _, t := range v.Pool.Transactions() {
				young.Pool.AddTransaction(t, "a", "b")
			}
			young.Log.Take()
			if len(young.AllBlocks()) == len(v.AllBlocks()) {
				v = young
				stats.Count("progress/validator re-synced onto an older chain between two requests")
			} else {
				ctl = apayment.NewProgressController(sender, set, watch2, &CapLogger{})
			}
		}
		rec := httptest.NewRecorder()
		ctl.GetTransactionProgress(rec, httptest.NewRequest("PUT", "/transaction/output/progress", bytes.NewReader(body)))
		got := fmt.Sprintf("error%d", rec.Code)
		if rec.Code == 200 {
			var p struct {
				TransactionStatus string `json:"transaction_status"`
			}
			_ = json.Unmarshal(rec.Body.Bytes(), &p)
			got = p.TransactionStatus
		}
		// the validator's answers as the model sees them
		opt := func(ok bool, s string) string {
			if !ok {
				return "none"
			}
			return s
		}
		var ul []string
		for _, x := range v.Ureg.Utxos(w.wallets[3].Addr) {
			ul = append(ul, sx(atom(x.TransactionId()), u64(uint64(x.OutputIndex()))))
		}
		first := v.Chain.FirstBlockTimestamp()
		height := uint64(0)
		if !failFirst {
			height = uint64((now2 - first) / set.Interval)
		} else {
			height = uint64(now2 / set.Interval)
		}
		var bl []string
		for _, b := range v.Chain.Blocks(height) {
			var ids []string
			for _, t := range b.Transactions() {
				ids = append(ids, atom(t.Id()))
			}
			bl = append(bl, plist(ids))
		}
		var pl []string
		for _, t := range v.Pool.Transactions() {
			pl = append(pl, atom(t.Id()))
		}
		out.Case(sx("progresscase", id+"p",
			opt(!badBody, sx(atom(tx.Id()), fmt.Sprint(searchIdx))),
			opt(inject != 4, plist(ul)),
			opt(!failFirst, i64(first)),
			opt(inject != 5, plist(bl)),
			opt(inject != 6, plist(pl)),
			atom(got)))
		stats.Count(fmt.Sprintf("progress/stage%d/inject%d/failFirst=%v/bad=%v=%s", stage, inject, failFirst, badBody, got))
		stats.Mark(fmt.Sprintf("p/%d/%d/%v/%v/%s", stage, inject, failFirst, badBody, got))
		stats.Sample(fmt.Sprintf("%s: transaction at stage %d, injected fault %d, first-ts fails %v -> %s", id, stage, inject, failFirst, got))
		stats.Cases++
		stats.Ops++
		// monitor: with no injected fault the status follows the cascade of the property
		if inject < 4 && !failFirst && !badBody {
			want := "rejected"
			listed := false
			for _, x := range v.Ureg.Utxos(w.wallets[3].Addr) {
				if x.TransactionId() == tx.Id() && x.OutputIndex() == searchIdx {
					listed = true
				}
			}
			inTip, inPool := false, false
			if pg := v.Chain.Blocks(height); len(pg) > 0 {
				for _, t := range pg[0].Transactions() {
					if t.Id() == tx.Id() {
						inTip = true
					}
				}
			}
			for _, t := range v.Pool.Transactions() {
				if t.Id() == tx.Id() {
					inPool = true
				}
			}
			switch {
			case listed:
				want = "confirmed"
			case inTip:
				want = "validated"
			case inPool:
				want = "sent"
			}
			if len(v.Chain.Blocks(height)) == 0 && !listed {
				want = "error500"
			}
			if got != want {
				out.Violation("C19", id, fmt.Sprintf("progress\tstage %d: reported %q, the validator's state says %q", stage, got, want))
			}
		}
	}
}

// incomeOnlyCase: a wallet sends everything it owns (the rest output that comes back is a yielding output of
// value 0), the recipient spends its share, time passes and income accrues on the empty output. The wallet
// then asks the access node for a payment out of that income: what the answer lists must be admitted by the
// validator and included in its next block (the outputs of one transaction are independent of each other).
func incomeOnlyCase(id string, r *Rng, set *Settings, out *Out, stats *Stats) {
	set.HalfLife = 600e9
	set.Interval = 60 * int64(time.Second)
	w, owner := walletWorld(r, set, []uint64{uint64(200000 + r.Intn(100000))}, false)
	v := w.host
	tick := func() {
		w.now = v.Chain.LastBlockTimestamp() + set.Interval
		v.Pool.Validate(w.now)
		v.Log.Take()
	}
	viol := func(key, what string) { out.Violation("C18", id, key+"\tincome-only holding: "+what) }
	conf := w.confirmed(v, owner)
	if len(conf) != 1 || conf[0].value <= 3*set.Fee {
		stats.Count("info/income-only: set-up did not go through")
		return
	}
	rcpt := w.wallets[2]
	sendAll := w.build(&txPlan{ins: []spendable{conf[0]}, outs: []*JOutput{{rcpt.Addr, false, conf[0].value - set.Fee}, {owner.Addr, true, 0}}, ts: w.now})
	v.Pool.AddTransaction(sendAll, "a", "b")
	tick()
	tick()
	shares := w.confirmed(v, rcpt)
	if len(shares) != 1 {
		stats.Count("info/income-only: the send-all was not confirmed")
		return
	}
	spendShare := w.build(&txPlan{ins: []spendable{shares[0]}, outs: []*JOutput{{w.wallets[3].Addr, false, shares[0].value - set.Fee}}, ts: w.now})
	if r.Chance(3, 4) {
		v.Pool.AddTransaction(spendShare, "a", "b")
	}
	for k := 0; k < 6+r.Intn(10); k++ {
		tick()
	}
	// the request
	now := w.now + int64(r.U64n(uint64(set.Interval)))
	watch := &ScriptWatch{fallback: func() int64 { return now }}
	ctl := apayment.NewInfoController(backedSender(v), set, watch, &CapLogger{})
	held := v.Ureg.Utxos(owner.Addr)
	first := v.Chain.FirstBlockTimestamp()
	nextTs := first + ((now-first)/set.Interval+1)*set.Interval
	var bal uint64
	for _, u := range held {
		bal += u.Value(nextTs, set.HalfLife, set.Base, set.ILimit)
	}
	if bal <= set.Fee+2 {
		stats.Count("info/income-only: no income yet")
		return
	}
	amount := (bal - set.Fee) / 2
	rec := httptest.NewRecorder()
	ctl.GetTransactionInfo(rec, httptest.NewRequest("GET", fmt.Sprintf("/transaction/info?address=%s&value=%d&consolidation=false", owner.Addr, amount), nil))
	stats.Count(fmt.Sprintf("info/income-only/status=%d", rec.Code))
	stats.Cases++
	stats.Ops++
	if rec.Code != http.StatusOK {
		viol("affordable-refused", fmt.Sprintf("balance %d at the next block time, amount %d, fee %d: status %d", bal, amount, set.Fee, rec.Code))
		return
	}
	var ans infoAnswer
	if err := json.Unmarshal(rec.Body.Bytes(), &ans); err != nil || len(ans.Inputs) == 0 {
		viol("undecodable-answer", rec.Body.String())
		return
	}
	jt := &JTx{Timestamp: ans.Timestamp}
	jt.Inputs = []*JInput{}
	for _, in := range ans.Inputs {
		jt.Inputs = append(jt.Inputs, owner.SignInput(in.OutputIndex, in.TransactionId))
	}
	jt.Outputs = []*JOutput{{w.wallets[4].Addr, false, amount}, {owner.Addr, false, ans.Rest}}
	jt.Id = jt.ComputeId()
	tx, err := jt.Real()
	if err != nil {
		viol("undecodable-tx", err.Error())
		return
	}
	before := len(v.Pool.Transactions())
	v.Pool.AddTransaction(tx, "a", "b")
	lines := v.Log.Take()
	if len(v.Pool.Transactions()) != before+1 {
		viol("not-admitted", fmt.Sprintf("the access node lists %d output(s) of the wallet (balance %d) for amount %d, rest %d; the transaction built from the answer is refused by the pool: %s", len(ans.Inputs), bal, amount, ans.Rest, strings.Join(lines, " | ")))
		return
	}
	w.now = v.Chain.LastBlockTimestamp() + set.Interval
	v.Pool.Validate(w.now)
	included := false
	for _, t := range v.Chain.LastBlockTransactions() {
		included = included || t.Id() == tx.Id()
	}
	if !included {
		viol("not-included", "the transaction built from the answer is not in the next block: "+strings.Join(v.Log.Take(), " | "))
	}
}
