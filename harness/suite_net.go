package main

import (
	"encoding/json"
	"errors"
	"fmt"
	"net"
	"sort"
	"strings"
	"sync"
	"time"

	"github.com/my-cloud/ruthenium/validatornode/application"
	"github.com/my-cloud/ruthenium/validatornode/application/network"
	"github.com/my-cloud/ruthenium/validatornode/infrastructure/configuration"
	"github.com/my-cloud/ruthenium/validatornode/infrastructure/p2p"
)

// C17: the real Neighborhood with a scripted SenderCreator (unreachable subsets, DNS names
// resolving to other strings) and recording senders, over repeated refresh rounds.

type scriptCreator struct {
	mu      sync.Mutex
	resolve map[string]string // "ip|port" -> target of the created sender, "" = unreachable
	made    []*FakeSender
	during  func() // run once, inside the round, when the first sender of a round is asked for
}

func (c *scriptCreator) CreateSender(ip, port string) (application.Sender, error) {
	c.mu.Lock()
	d := c.during
	c.during = nil
	c.mu.Unlock()
	if d != nil {
		d() // an announcement or an incentive that arrives while the round is creating its senders
	}
	c.mu.Lock()
	defer c.mu.Unlock()
	t, ok := c.resolve[ip+"|"+port]
	if !ok || t == "" {
		return nil, errors.New("unreachable")
	}
	s := &FakeSender{target: t}
	c.made = append(c.made, s)
	return s, nil
}

type stubIpFinder struct {
	mu   sync.Mutex
	down map[string]bool
}

func (f *stubIpFinder) LookupIP(ip string) (string, error) {
	f.mu.Lock()
	defer f.mu.Unlock()
	if f.down[ip] {
		return "", errors.New("no such host")
	}
	return ip, nil
}

// factoryProbe: the real Neighborhood with the repository's own NeighborFactory (only the name
// look-up is a stub). Two peers are known and reachable in the first round; before the second one
// of them stops resolving: it must not be among the outbound peers any more.
func factoryProbe(id string, out *Out, stats *Stats) {
	finder := &stubIpFinder{down: map[string]bool{}}
	factory := p2p.NewNeighborFactory(finder, 200*time.Millisecond, &CapLogger{})
	nb := network.NewNeighborhood(factory, "127.0.0.1", "10600", 2, map[string]int{}, &ScriptWatch{fallback: func() int64 { return time.Now().UnixNano() }})
	a, b := "127.0.0.2:10600", "127.0.0.3:10600"
	nb.AddTargets([]string{a, b})
	nb.Synchronize(0)
	first := map[string]bool{}
	for _, s := range nb.Senders() {
		first[s.Target()] = true
	}
	if !first[a] || !first[b] {
		out.Violation("C17", id, fmt.Sprintf("factory-round\twith the real sender factory two known reachable peers are not both selected: %v", first))
	}
	finder.mu.Lock()
	finder.down["127.0.0.2"] = true
	finder.mu.Unlock()
	nb.AddTargets([]string{a, b})
	nb.Synchronize(0)
	for _, s := range nb.Senders() {
		if s.Target() == a {
			out.Violation("C17", id, "unreachable-selected\ta peer whose name no longer resolves is still among the outbound peers (real sender factory)")
		}
	}
	stats.Count("factory-probe")
	time.Sleep(50 * time.Millisecond) // the announcements to the two closed ports fail in their goroutines
}

func runNetSuite(seed uint64, n int, out *Out, stats *Stats) {
	factoryProbe(fmt.Sprintf("nb%d_factory", seed), out, stats)
	for i := 0; i < n; i++ {
		id := fmt.Sprintf("nb%d_%d", seed, i)
		r := NewRng(seed*15485863 + uint64(i))
		hostIp, hostPort := "10.0.0.1", "10600"
		if r.Chance(1, 3) {
			hostPort = "10610"
		}
		if i%5 == 4 {
			hostIp = "::1" // an IPv6 host: its target is written [::1]:port
		}
		host := net.JoinHostPort(hostIp, hostPort)
		max := r.Pick(0, 1, 2, 3, 3, 5, 8)
		// the universe of target strings
		var pool []string
		for k := 2; k < 12; k++ {
			pool = append(pool, fmt.Sprintf("10.0.0.%d:%s", k, hostPort))
		}
		pool = append(pool, host, "10.0.0.50:10699", "10.0.0.51:80", "10.0.0.52:10600", "10.0.0.53:10610",
			"10.0.0.54:1060", "10.0.0.55:106", "10.0.0.56:106000", "no-port", "[::1]:"+hostPort, "seed.example.org:"+hostPort, "alias.example.org:"+hostPort, "self.example.org:"+hostPort, ":"+hostPort, "10.0.0.9:106ab")
		aliasing := r.Chance(1, 6)
		creator := &scriptCreator{resolve: map[string]string{}}
		splitTab := map[string][2]string{}
		var splitSx, resSx []string
		for _, tv := range pool {
			ip, port, err := net.SplitHostPort(tv)
			if err != nil {
				splitSx = append(splitSx, sx(atom(tv), "fail"))
				continue
			}
			splitTab[tv] = [2]string{ip, port}
			splitSx = append(splitSx, sx(atom(tv), atom(ip), atom(port)))
			tgt := net.JoinHostPort(ip, port)
			if strings.Contains(ip, "example.org") {
				tgt = net.JoinHostPort("10.0.0."+fmt.Sprint(20+len(creator.resolve)), port)
				if aliasing && strings.HasPrefix(ip, "alias") {
					tgt = net.JoinHostPort("10.0.0.2", port) // a second name of peer .2
				}
				if aliasing && strings.HasPrefix(ip, "self") {
					tgt = host // a name of the host itself
				}
			}
			if r.Chance(1, 4) {
				tgt = ""
			}
			creator.resolve[ip+"|"+port] = tgt
			if tgt == "" {
				resSx = append(resSx, sx(atom(ip), atom(port), "fail"))
			} else {
				resSx = append(resSx, sx(atom(ip), atom(port), atom(tgt)))
			}
		}
		seeds := map[string]int{}
		var seedSx []string
		seedOnly := r.Chance(1, 3) // a node that learns nothing: every round draws from the seeds
		ns := r.Intn(4)
		if seedOnly {
			ns = 2 + r.Intn(4)
		}
		for k := 0; k < ns; k++ {
			tv := pool[r.Intn(len(pool))]
			if seedOnly {
				tv = pool[r.Intn(10)]
			}
			if _, ok := seeds[tv]; !ok {
				sc := 0
				if seedOnly {
					sc = r.Intn(3)
				}
				seeds[tv] = sc
				seedSx = append(seedSx, sx(atom(tv), fmt.Sprint(sc)))
			}
		}
		// the bound and the seeds reach the neighborhood as main.go hands them over: decoded by the
		// repository's NetworkSettings from a settings document
		var seedList []string
		for tv := range seeds {
			seedList = append(seedList, tv)
		}
		sort.Strings(seedList)
		var netSet configuration.NetworkSettings
		if err := json.Unmarshal(mustJSON(map[string]interface{}{"connectionTimeoutInSeconds": 3, "maxOutboundsCount": max, "seeds": seedList, "synchronizationIntervalInSeconds": 6}), &netSet); err != nil {
			panic(err)
		}
		if !seedOnly {
			// (seed scores other than 0 exist only in the seed-only cases, which keep their scripted map)
			decoded := map[string]int{}
			for _, tv := range netSet.Seeds() {
				decoded[tv] = 0
			}
			seeds = decoded
		}
		nb := network.NewNeighborhood(creator, hostIp, hostPort, netSet.MaxOutboundsCount(), seeds, &ScriptWatch{fallback: func() int64 { return time.Now().UnixNano() }})
		// independent bookkeeping of what the node should know (for the monitors)
		known := map[string]int{}
		var ops []string
		rounds := 0
		for step := 0; step < 4+r.Intn(10); step++ {
			// reachability changes between rounds: one target goes down or comes back
			if r.Chance(1, 3) {
				tv := pool[r.Intn(len(pool))]
				if sp, ok := splitTab[tv]; ok {
					key := sp[0] + "|" + sp[1]
					creator.mu.Lock()
					if creator.resolve[key] == "" {
						creator.resolve[key] = net.JoinHostPort(sp[0], sp[1])
						if strings.Contains(sp[0], "example.org") {
							// every name comes back at an address of its own (two names of one machine
							// are the aliasing cases, generated separately)
							creator.resolve[key] = net.JoinHostPort(map[string]string{"seed.example.org": "10.0.0.71", "alias.example.org": "10.0.0.72", "self.example.org": "10.0.0.73"}[sp[0]], sp[1])
						}
						ops = append(ops, sx("setres", atom(sp[0]), atom(sp[1]), atom(creator.resolve[key])))
					} else {
						creator.resolve[key] = ""
						ops = append(ops, sx("setres", atom(sp[0]), atom(sp[1]), "fail"))
					}
					creator.mu.Unlock()
				}
			}
			k := r.Intn(10)
			if seedOnly {
				k = 9
			}
			switch {
			case k < 4:
				var ts []string
				for j := 0; j < 1+r.Intn(5); j++ {
					ts = append(ts, pool[r.Intn(len(pool))])
				}
				// a peer that has earned a score is often announced again by somebody else
				if scored := scoredKeys(known); len(scored) > 0 && r.Chance(1, 2) {
					ts = append(ts, scored[r.Intn(len(scored))])
					stats.Count("add-targets/with an already scored target")
				}
				nb.AddTargets(ts)
				var a []string
				for _, t := range ts {
					a = append(a, atom(t))
					if _, ok := known[t]; !ok {
						if sp, ok2 := splitTab[t]; ok2 && netId(sp[1]) == netId(hostPort) {
							known[t] = 0
						}
					}
				}
				ops = append(ops, sx("add", plist(a)))
				stats.Count("add-targets")
			case k < 7:
				t := pool[r.Intn(len(pool))]
				if ks := sortedKeys(known); len(ks) > 0 && r.Chance(2, 3) {
					t = ks[r.Intn(len(ks))] // usually a peer the node already knows
				}
				nb.Incentive(t)
				known[t]++
				ops = append(ops, sx("inc", atom(t)))
				stats.Count("incentive")
			default:
				creator.mu.Lock()
				creator.made = nil
				creator.mu.Unlock()
				// one round in three: a peer's message lands while the round is under way (after it took
				// its view of the known targets): it belongs to the next round, like a message that
				// arrives just after the round
				var late func()
				var lateOp string
				var lateBook func()
				if r.Chance(1, 3) {
					if r.Chance(1, 2) {
						ts := []string{pool[r.Intn(len(pool))], pool[r.Intn(10)]}
						late = func() { nb.AddTargets(ts) }
						lateOp = sx("add", plist([]string{atom(ts[0]), atom(ts[1])}))
						lateBook = func() {
							for _, t := range ts {
								if _, ok := known[t]; !ok {
									if sp, ok2 := splitTab[t]; ok2 && netId(sp[1]) == netId(hostPort) {
										known[t] = 0
									}
								}
							}
						}
						stats.Count("add-targets/inside a round")
					} else {
						t := pool[r.Intn(10)]
						late = func() { nb.Incentive(t) }
						lateOp = sx("inc", atom(t))
						lateBook = func() { known[t]++ }
						stats.Count("incentive/inside a round")
					}
					creator.mu.Lock()
					creator.during = late
					creator.mu.Unlock()
				}
				nb.Synchronize(0)
				if late != nil {
					creator.mu.Lock()
					pending := creator.during != nil
					creator.during = nil
					creator.mu.Unlock()
					if pending {
						late() // the round asked for no sender: the message arrives right after it
					}
				}
				rounds++
				senders := nb.Senders()
				// SendTargets runs in goroutines: wait for every selected sender to be told
				deadline := time.Now().Add(2 * time.Second)
				for time.Now().Before(deadline) {
					done := true
					for _, s := range senders {
						fs := s.(*FakeSender)
						fs.mu.Lock()
						if len(fs.sentTgts) == 0 {
							done = false
						}
						fs.mu.Unlock()
					}
					if done {
						break
					}
					time.Sleep(time.Millisecond)
				}
				var outT, fan []string
				src := known
				if len(known) == 0 {
					src = seeds
				}
				for _, s := range senders {
					fs := s.(*FakeSender)
					outT = append(outT, atom(fs.target))
					fs.mu.Lock()
					var sent []string
					if len(fs.sentTgts) > 0 {
						sent = append(sent, fs.sentTgts[0]...)
					}
					fs.mu.Unlock()
					sort.Strings(sent)
					var a []string
					for _, t := range sent {
						a = append(a, atom(t))
					}
					fan = append(fan, sx(atom(fs.target), plist(a)))
				}
				ops = append(ops, sx("sync", plist(outT), plist(fan)))
				stats.Count(fmt.Sprintf("sync/known%d/max%d/selected%d", minInt(len(src), 9), max, len(senders)))
				monitorNet(out, id, host, max, src, splitTab, creator, senders, aliasing)
				known = map[string]int{}
				if late != nil {
					lateBook()
					ops = append(ops, lateOp)
				}
			}
		}
		stats.Cases++
		stats.Ops += len(ops)
		stats.Mark(fmt.Sprintf("%d/%d/%v/%s", max, len(seeds), aliasing, strings.Join(opKinds(ops), "")))
		stats.Sample(fmt.Sprintf("%s: host %s max %d seeds %d aliasing %v ops %s", id, host, max, len(seeds), aliasing, strings.Join(opKinds(ops), "")))
		out.Case(sx("nbcase", id, sx("env", atom(host), atom(hostPort), fmt.Sprint(max), plist(seedSx)),
			sxl("split", splitSx), sxl("resolve", resSx), sxl("ops", ops)))
	}
}

func opKinds(ops []string) []string {
	var l []string
	for _, o := range ops {
		if strings.HasPrefix(o, "(setres") {
			l = append(l, "r")
		} else {
			l = append(l, o[1:2])
		}
	}
	return l
}

func minInt(a, b int) int {
	if a < b {
		return a
	}
	return b
}

func netId(port string) int {
	if port == "10600" {
		return 0
	}
	if len(port) == 5 && port[:3] == "106" {
		return 1
	}
	return 2
}

// the property's own clauses on what the real Neighborhood selected and sent
func monitorNet(out *Out, id, host string, max int, src map[string]int, splitTab map[string][2]string, creator *scriptCreator, senders []application.Sender, aliasing bool) {
	sfx := ""
	if aliasing {
		sfx = ":alias"
	}
	if len(senders) > max {
		out.Violation("C17", id, fmt.Sprintf("bound\t%d outbounds selected with a maximum of %d", len(senders), max))
	}
	// reachable peers by sender target, with the best score under which each is known
	reach := map[string]int{}
	var reachTv []string
	for tv, sc := range src {
		if tv == host {
			continue
		}
		sp, ok := splitTab[tv]
		if !ok {
			continue
		}
		t := creator.resolve[sp[0]+"|"+sp[1]]
		if t == "" {
			continue
		}
		reachTv = append(reachTv, tv)
		if old, ok := reach[t]; !ok || sc > old {
			reach[t] = sc
		}
	}
	seen := map[string]bool{}
	minSel := 1 << 30
	for _, s := range senders {
		t := s.Target()
		if t == host {
			out.Violation("C17", id, "self"+sfx+"\tthe node selected itself as an outbound peer")
		}
		if seen[t] {
			out.Violation("C17", id, "duplicate"+sfx+"\tpeer "+t+" selected twice")
		}
		seen[t] = true
		sc, ok := reach[t]
		if !ok {
			out.Violation("C17", id, "source\tselected peer "+t+" is not a reachable known target (or seed)")
			continue
		}
		if sc < minSel {
			minSel = sc
		}
	}
	want := minInt(minInt(len(src), max), len(reachTv))
	if !aliasing && len(senders) != want && max >= 0 {
		out.Violation("C17", id, fmt.Sprintf("size\t%d outbounds selected, expected min(known %d, max %d, reachable %d)", len(senders), len(src), max, len(reachTv)))
	}
	for t, sc := range reach {
		if !seen[t] && len(senders) > 0 && sc > minSel {
			out.Violation("C17", id, fmt.Sprintf("best"+sfx+"\treachable peer %s with score %d left out in favour of a peer with score %d", t, sc, minSel))
		}
	}
	for _, s := range senders {
		fs := s.(*FakeSender)
		fs.mu.Lock()
		var sent []string
		if len(fs.sentTgts) > 0 {
			sent = fs.sentTgts[0]
		}
		fs.mu.Unlock()
		has := map[string]bool{}
		for _, t := range sent {
			has[t] = true
		}
		if fs.target != host && !has[host] {
			out.Violation("C17", id, "fanout-host\tpeer "+fs.target+" was not sent the host's own target")
		}
		if has[fs.target] {
			out.Violation("C17", id, "fanout-own\tpeer "+fs.target+" was sent its own target")
		}
		for _, tv := range reachTv {
			if tv != fs.target && !has[tv] {
				out.Violation("C17", id, "fanout-missing\tpeer "+fs.target+" was not sent reachable target "+tv)
			}
		}
	}
}

func sortedKeys(m map[string]int) []string {
	var ks []string
	for k := range m {
		ks = append(ks, k)
	}
	sort.Strings(ks)
	return ks
}

func scoredKeys(m map[string]int) []string {
	var ks []string
	for _, k := range sortedKeys(m) {
		if m[k] > 0 {
			ks = append(ks, k)
		}
	}
	return ks
}
