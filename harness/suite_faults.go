package main

import (
	"errors"
	"fmt"
	"runtime"
	"strings"
	"time"
)

// C13: any assignment of fault kinds to up to eight neighbors over consecutive rounds, for
// host chains of length 0, 1, 2 and more. Every round is recorded (and compared with the
// model); the monitors check that a round that keeps the chain leaves chain, outputs,
// registered and pending-removal addresses exactly as they were, that every round returns
// within the per-neighbor timeout budget, and that no goroutine is left behind.
func runFaultSuite(seed uint64, n int, out *Out, stats *Stats) {
	for i := 0; i < n; i++ {
		id := fmt.Sprintf("ft%d_%d", seed, i)
		w := NewWorld(id, seed*2750159+uint64(i), "mixed", stats, out)
		w.rec.Mon.AfterSync = true
		r := w.r
		w.set.Timeout = 120 * time.Millisecond
		hostLen := r.Pick(0, 1, 2, 3, 4, 6)
		// bring host and helpers to the wanted length (helpers one or two blocks ahead)
		if hostLen > 0 {
			w.tickAll()
			w.rec.Validate(w.now)
			for _, h := range w.helpers {
				h.Pool.Validate(w.now)
			}
			seeded := false
			for len(w.host.AllBlocks()) < hostLen {
				w.tickAll()
				if !seeded && len(w.host.AllBlocks()) >= 2 {
					// register several addresses: yielding outputs to three wallets
					if conf := w.confirmed(w.host, w.wallets[0]); len(conf) > 0 && conf[0].value > 10*w.set.Fee+100 {
						share := (conf[0].value - w.set.Fee) / 4
						outs := []*JOutput{{w.wallets[1].Addr, true, share}, {w.wallets[2].Addr, true, share}, {w.wallets[3].Addr, true, share}, {w.wallets[0].Addr, false, share}}
						w.rec.Admit(w.build(&txPlan{ins: []spendable{conf[0]}, outs: outs, ts: w.now - w.set.Interval}))
						seeded = true
					}
				} else if r.Chance(1, 2) {
					tx, _ := w.genTx(w.host)
					w.rec.Admit(tx)
				}
				w.rec.Validate(w.now)
			}
			for _, h := range w.helpers {
				helperSync(h, w.now, []*Peer{honestPeer("10.0.0.1:10600", w.host)})
			}
			// pending removals on every node (same proof-of-humanity answers), so that the
			// candidates' blocks list addresses that are pending on the host too
			ans := map[string]int{}
			if r.Chance(3, 4) {
				for _, wl := range w.wallets {
					if r.Chance(2, 3) {
						ans[wl.Addr] = 0
					}
				}
				w.rec.RegSync(ans)
			}
			for _, h := range w.helpers {
				h.Humans.answer = ans
				h.Areg.Synchronize(0)
				for k := 0; k < 1+r.Intn(3); k++ {
					// the neighbors' own blocks carry wallet transactions that spend one output of a
					// transaction and leave its others (what the rule-breaking candidates then twist)
					var all []spendable
					for _, wl := range w.wallets {
						for _, u := range h.Ureg.Utxos(wl.Addr) {
							v := u.Value(w.now+int64(k+1)*w.set.Interval, w.set.HalfLife, w.set.Base, w.set.ILimit)
							if v > 3*w.set.Fee+30 {
								all = append(all, spendable{u.TransactionId(), u.OutputIndex(), v, wl})
							}
						}
					}
					if len(all) > 0 && r.Chance(3, 4) {
						u := all[r.Intn(len(all))]
						third := (u.value - w.set.Fee) / 3
						tx := w.build(&txPlan{ins: []spendable{u}, outs: []*JOutput{{w.wallets[r.Intn(5)].Addr, false, third}, {w.wallets[r.Intn(5)].Addr, false, third}, {u.owner.Addr, false, u.value - w.set.Fee - 2*third - 1}}, ts: w.now + int64(k)*w.set.Interval})
						h.Pool.AddTransaction(tx, "x", "y")
						w.rec.noteTx(tx)
					}
					h.Pool.Validate(w.now + int64(k+1)*w.set.Interval)
				}
			}
			w.now += 3 * w.set.Interval
		}
		time.Sleep(w.set.Timeout + 10*time.Millisecond)
		baseline := runtime.NumGoroutine()
		rounds := 5 + r.Intn(3)
		for round := 0; round < rounds; round++ {
			np := 1 + r.Intn(3)
			if r.Chance(1, 5) {
				np = 4 + r.Intn(5)
			}
			var peers []*Peer
			var kinds []string
			slow := 0
			for k := 0; k < np; k++ {
				tgt := fmt.Sprintf("10.4.%d.%d:10600", round, k)
				hn := w.helpers[r.Intn(len(w.helpers))]
				fk := r.Intn(12)
				switch fk {
				case 0:
					peers = append(peers, failingPeer(tgt, 0))
					kinds = append(kinds, "error")
				case 1:
					if slow < 2 { // silence: answers after the timeout
						slow++
						p := &Peer{Target: tgt, Slow: true, Serve: func(uint64) ([]byte, error) {
							time.Sleep(w.set.Timeout + 25*time.Millisecond)
							return nil, errors.New("too late")
						}}
						peers = append(peers, p)
						kinds = append(kinds, "silence")
					} else {
						peers = append(peers, failingPeer(tgt, 0))
						kinds = append(kinds, "error")
					}
				case 2:
					peers = append(peers, failingPeer(tgt, 1))
					kinds = append(kinds, "garbage")
				case 3:
					peers = append(peers, failingPeer(tgt, 2))
					kinds = append(kinds, "empty")
				case 4, 5, 6, 7:
					var mut []*JBlock
					var kind string
					if w.r.Chance(1, 3) {
						// rule-breaking in a way only the application of the block notices
						mut, kind = w.mutateChain(MirrorBlocks(hn.AllBlocks()), "double-spend")
					} else {
						mut, kind = w.mutateChain(MirrorBlocks(hn.AllBlocks()))
					}
					peers = append(peers, staticPeer(tgt, mut, w.set.Limit))
					kinds = append(kinds, kind[:indexOrLen(kind, '@')])
				case 8:
					// answers that change between the two requests: honest increment, garbage in full
					hp := honestPeer(tgt, hn)
					peers = append(peers, &Peer{Target: tgt, Serve: func(h uint64) ([]byte, error) {
						if h == 0 {
							return []byte("[{"), nil
						}
						return hp.Serve(h)
					}})
					kinds = append(kinds, "changing")
				default:
					peers = append(peers, honestPeer(tgt, hn))
					kinds = append(kinds, "honest")
				}
			}
			univ := w.rec.Universe
			before := w.host.Digest(univ)
			start := time.Now()
			res := w.rec.Update(w.now, peers)
			el := time.Since(start)
			after := w.host.Digest(univ)
			stats.Count(fmt.Sprintf("round/host%s/%s", lenClass(len(w.host.AllBlocks())), res[:indexOrLen(res, ':')]))
			for _, k := range kinds {
				stats.Count("fault/" + k)
			}
			stats.Mark(fmt.Sprintf("%d/%s/%s", hostLen, strings.Join(kinds, ","), res[:indexOrLen(res, ':')]))
			if strings.HasPrefix(res, "kept") && before != after {
				out.Violation("C13", id, fmt.Sprintf("side-effect\tround %d (%s) kept the chain but the state changed: before %s after %s", round, strings.Join(kinds, ","), truncate(before, 400), truncate(after, 400)))
			}
			budget := time.Duration(2*np)*w.set.Timeout + time.Second
			if el > budget {
				out.Violation("C13", id, fmt.Sprintf("slow-round\tround %d with %d neighbors (%s) took %v, budget %v", round, np, strings.Join(kinds, ","), el, budget))
			}
		}
		// no background work left behind
		time.Sleep(w.set.Timeout + 60*time.Millisecond)
		leaked := runtime.NumGoroutine() - baseline
		if leaked > 0 {
			time.Sleep(200 * time.Millisecond)
			leaked = runtime.NumGoroutine() - baseline
		}
		if leaked > 0 {
			out.Violation("C13", id, fmt.Sprintf("goroutine-leak\t%d goroutines above the baseline after %d rounds (host of %d blocks)", leaked, rounds, hostLen))
		}
		for k := 0; k < w.rec.LateAnswers; k++ {
			stats.Count("late answer of a well-behaved neighbor (arrived after the timeout: a failed fetch for the node and for the model)")
		}
		out.Case(w.rec.Emit())
		for k, d := range w.rec.Digests {
			out.Digest(id, k, w.rec.OpKinds[k], d)
		}
		stats.Cases++
		stats.Ops += len(w.rec.Ops)
		stats.Sample(fmt.Sprintf("%s: host of %d blocks, %d rounds of faulty neighbors", id, hostLen, rounds))
	}
}
