package main

import (
	"bytes"
	"context"
	"encoding/json"
	"fmt"
	"net/http/httptest"
	"os"
	"path/filepath"
	"sort"
	"strings"
	"time"
	"unicode/utf8"

	gp2p "github.com/leprosus/golang-p2p"
	apayment "github.com/my-cloud/ruthenium/accessnode/presentation/api/payment"
	awallet "github.com/my-cloud/ruthenium/accessnode/presentation/api/wallet"
	"github.com/my-cloud/ruthenium/validatornode/presentation/api/history"
	"github.com/my-cloud/ruthenium/validatornode/presentation/api/network"
	"github.com/my-cloud/ruthenium/validatornode/presentation/api/payment"
	"github.com/my-cloud/ruthenium/validatornode/presentation/api/wallet"
)

// C14: every position of every message schema crossed with every fault kind, with ids
// recomputed so that the message passes the integrity checks, fed to the real handlers (and as
// a neighbor's sync answer, and as what a validator answers to the access node), followed by
// the operations that later touch the stored data. A panic in a goroutine the handler started
// kills this process: the input being tried is written to <out>/<name>.current first, so the
// orchestrator can report it as the replay.

// ---- generic JSON mutation ------------------------------------------------------------
type path []interface{} // string keys and int indexes

func walkPaths(v interface{}, p path, visit func(path)) {
	visit(p)
	switch x := v.(type) {
	case map[string]interface{}:
		// sorted: the mutation matrix must not depend on Go's map iteration order
		keys := make([]string, 0, len(x))
		for k := range x {
			keys = append(keys, k)
		}
		sort.Strings(keys)
		for _, k := range keys {
			walkPaths(x[k], append(append(path{}, p...), k), visit)
		}
	case []interface{}:
		for i, c := range x {
			walkPaths(c, append(append(path{}, p...), i), visit)
		}
	}
}

func setAt(root interface{}, p path, val interface{}, remove bool) interface{} {
	if len(p) == 0 {
		return val
	}
	switch x := root.(type) {
	case map[string]interface{}:
		k := p[0].(string)
		if len(p) == 1 && remove {
			delete(x, k)
			return x
		}
		x[k] = setAt(x[k], p[1:], val, remove)
		return x
	case []interface{}:
		i := p[0].(int)
		if len(p) == 1 && remove {
			return append(x[:i:i], x[i+1:]...)
		}
		x[i] = setAt(x[i], p[1:], val, remove)
		return x
	}
	return root
}

var faultKinds = []struct {
	name string
	val  interface{}
	rm   bool
}{
	{"null", nil, false}, {"absent", nil, true}, {"empty-list", []interface{}{}, false}, {"empty-object", map[string]interface{}{}, false},
	{"string", "x", false}, {"number", json.Number("7"), false}, {"negative", json.Number("-1"), false}, {"huge", json.Number("18446744073709551616"), false},
	{"max-u64", json.Number("18446744073709551615"), false}, {"min-i64", json.Number("-9223372036854775808"), false},
	{"float", json.Number("1.5"), false}, {"bool", true, false}, {"list-of-null", []interface{}{nil}, false}, {"nested-null", []interface{}{[]interface{}{nil}}, false},
}

func deepCopy(v interface{}) interface{} {
	var out interface{}
	d := json.NewDecoder(bytes.NewReader(mustJSON(v)))
	d.UseNumber()
	_ = d.Decode(&out)
	return out
}

func parseAny(b []byte) interface{} {
	var out interface{}
	d := json.NewDecoder(bytes.NewReader(b))
	d.UseNumber()
	if err := d.Decode(&out); err != nil {
		panic(err)
	}
	return out
}

// recompute "id" of every transaction-shaped object so that integrity checks pass
func fixIds(v interface{}) {
	switch x := v.(type) {
	case map[string]interface{}:
		for _, c := range x {
			fixIds(c)
		}
		_, hasIn := x["inputs"]
		_, hasOut := x["outputs"]
		_, hasTs := x["timestamp"]
		if _, hasId := x["id"]; hasId && (hasIn || hasOut || hasTs) {
			// decode through the mirror (what the real decoder would re-encode), then hash
			var jt JTx
			if err := json.Unmarshal(mustJSON(x), &jt); err == nil {
				x["id"] = jt.ComputeId()
			}
		}
	case []interface{}:
		for _, c := range x {
			fixIds(c)
		}
	}
}

// recompute previous_hash of every block of a block list after the block before it was edited
func fixLinks(v interface{}) {
	l, ok := v.([]interface{})
	if !ok {
		return
	}
	for i := 1; i < len(l); i++ {
		prev, ok1 := l[i-1].(map[string]interface{})
		cur, ok2 := l[i].(map[string]interface{})
		if !ok1 || !ok2 {
			continue
		}
		if _, isBlock := cur["previous_hash"]; !isBlock {
			continue
		}
		// hash what the decoder would re-encode: through the mirror with null transactions kept as null
		bs := mustJSON(prev)
		var jb JBlock
		if err := json.Unmarshal(bs, &jb); err != nil {
			continue
		}
		h := jb.Hash()
		arr := make([]interface{}, 32)
		for k := range arr {
			arr[k] = json.Number(fmt.Sprint(h[k]))
		}
		cur["previous_hash"] = arr
	}
}

func pathString(p path) string {
	var s []string
	for _, e := range p {
		s = append(s, fmt.Sprint(e))
	}
	return "/" + strings.Join(s, "/")
}

type crashCtx struct {
	out     *Out
	stats   *Stats
	current string
	id      string
}

func (c *crashCtx) trying(what string, payload []byte) {
	_ = os.WriteFile(c.current, []byte(what+"\n"+string(payload)+"\n"), 0o644)
}

// guard runs f and converts a panic in THIS goroutine into a violation (panics in goroutines
// started by the code under test cannot be caught: they end the process, see above)
func (c *crashCtx) guard(key, what string, payload []byte, f func()) {
	c.trying(what, payload)
	defer func() {
		if r := recover(); r != nil {
			c.out.Violation("C14", c.id, fmt.Sprintf("%s\t%s: panic: %v; input: %s", key, what, r, truncate(string(payload), 600)))
		}
	}()
	f()
}

func truncate(s string, n int) string {
	if len(s) <= n {
		return s
	}
	// cut on a rune boundary: what is written to the violations file stays valid UTF-8
	for n > 0 && !utf8.RuneStart(s[n]) {
		n--
	}
	return s[:n] + "…"
}

func runCrashSuite(seed uint64, n int, out *Out, stats *Stats) {
	cur := filepath.Join(out.dir, out.name+".current")
	for i := 0; i < n; i++ {
		id := fmt.Sprintf("cr%d_%d", seed, i)
		c := &crashCtx{out: out, stats: stats, current: cur, id: id}
		r := NewRng(seed*67867967 + uint64(i))
		set := pickSettings(r)
		set.Limit = 1440
		set.Timeout = 2 * time.Second
		w := &World{r: r, set: set, stats: NewStats(), mode: "honest"}
		for k := 0; k < 5; k++ {
			w.wallets = append(w.wallets, NewWallet(k))
		}
		v := NewNode(set, w.wallets[0].Addr)
		w.host = v
		w.now = t0 - (t0 % set.Interval)
		for k := 0; k < 3; k++ {
			w.now += set.Interval
			v.Pool.Validate(w.now)
		}
		// a valid request and a valid chain to mutate
		conf := w.confirmed(v, w.wallets[0])
		if len(conf) == 0 {
			continue
		}
		u := conf[0]
		tx := w.build(&txPlan{ins: []spendable{u}, outs: []*JOutput{{w.wallets[1].Addr, false, u.value / 2}, {w.wallets[0].Addr, true, u.value/2 - set.Fee}}, ts: w.now})
		reqBytes := mustJSON(map[string]interface{}{"Transaction": json.RawMessage(mustJSON(tx)), "TransactionBroadcasterTarget": "10.1.1.1:10600"})
		helper := NewNode(set, w.wallets[0].Addr)
		helperSync(helper, w.now, []*Peer{honestPeer("10.2.2.2:10600", v)})
		helper.Pool.AddTransaction(tx, "a", "b")
		helper.Pool.Validate(w.now + set.Interval)
		helper.Pool.Validate(w.now + 2*set.Interval)
		chainBytes := mustJSON(helper.AllBlocks())
		utxosBytes := mustJSON(helper.Ureg.Utxos(w.wallets[1].Addr))

		txCtl := payment.NewTransactionsController(v.Senders, v.Pool)
		blkCtl := history.NewBlocksController(v.Chain)
		sndCtl := network.NewSendersController(v.Senders)
		utxCtl := wallet.NewUtxosController(v.Ureg)
		digestBefore := v.Digest([]string{w.wallets[0].Addr, w.wallets[1].Addr})

		later := func(tag string, payload []byte) {
			// the operations that later touch whatever was stored
			c.guard("later-validate", tag+" then Validate", payload, func() { v.Pool.Validate(w.now + set.Interval) })
			c.guard("later-admit", tag+" then AddTransaction", payload, func() { v.Pool.AddTransaction(tx, "a", "b"); time.Sleep(time.Millisecond) })
			c.guard("later-queries", tag+" then queries", payload, func() {
				_, _ = txCtl.HandleTransactionsRequest(context.TODO(), gp2p.Data{})
				_, _ = blkCtl.HandleBlocksRequest(context.TODO(), gp2p.Data{Bytes: []byte("0")})
				_, _ = utxCtl.HandleUtxosRequest(context.TODO(), gp2p.Data{Bytes: mustJSON(w.wallets[1].Addr)})
			})
		}

		// which mutations this case tries (the whole matrix is spread over the cases)
		type mut struct {
			target string
			p      path
			fk     int
		}
		var muts []mut
		collect := func(target string, base []byte) {
			walkPaths(parseAny(base), nil, func(p path) {
				for fk := range faultKinds {
					muts = append(muts, mut{target, append(path{}, p...), fk})
				}
			})
		}
		collect("transaction-endpoint", reqBytes)
		collect("sync-answer", chainBytes)
		collect("utxos-answer", utxosBytes)
		// the list fields the code walks later (and their elements) crossed with the faults that leave a
		// hole in them: a second stream, so that every case tries some of them
		var prio []mut
		for _, m := range muts {
			if len(m.p) == 0 {
				continue
			}
			last := m.p[len(m.p)-1]
			if _, isIdx := last.(int); isIdx && len(m.p) > 1 {
				last = m.p[len(m.p)-2]
			}
			switch faultKinds[m.fk].name {
			case "null", "absent", "empty-list", "list-of-null":
				switch last {
				case "transactions", "inputs", "outputs", "Transaction":
					prio = append(prio, m)
				}
			}
		}
		per, perPrio := 60, 20
		// where a shard starts in the matrix depends on its seed: shards do not repeat each other
		base := int(NewRng(seed*977+13).Intn(len(muts)))
		basePrio := int(NewRng(seed*977+14).Intn(len(prio) + 1))
		stats.Count(fmt.Sprintf("matrix-size/%d", len(muts)/500*500))
		for k := 0; k < per+perPrio; k++ {
			var m mut
			if k < per || len(prio) == 0 {
				m = muts[(base+(i*per+k)*7919)%len(muts)]
			} else {
				m = prio[(basePrio+(i*perPrio+k-per)*7)%len(prio)]
			}
			fk := faultKinds[m.fk]
			var base []byte
			switch m.target {
			case "transaction-endpoint":
				base = reqBytes
			case "sync-answer":
				base = chainBytes
			default:
				base = utxosBytes
			}
			tree := setAt(deepCopy(parseAny(base)), m.p, fk.val, fk.rm)
			if m.target == "transaction-endpoint" {
				// keep the request inside the admission window of the chain as it is now (blocks are
				// produced between the mutations), unless the timestamp itself is what is being mutated
				if top, ok := tree.(map[string]interface{}); ok {
					if txo, ok := top["Transaction"].(map[string]interface{}); ok {
						if _, isNum := txo["timestamp"].(json.Number); isNum && !(len(m.p) > 0 && fmt.Sprint(m.p[len(m.p)-1]) == "timestamp") {
							txo["timestamp"] = json.Number(fmt.Sprint(v.Chain.LastBlockTimestamp()))
						}
					}
				}
			}
			if r.Chance(4, 5) {
				fixIds(tree)
				if m.target == "sync-answer" {
					fixLinks(tree)
				}
			}
			payload := mustJSON(tree)
			what := fmt.Sprintf("%s %s := %s", m.target, pathString(m.p), fk.name)
			stats.Count(m.target + "/" + fk.name)
			stats.Mark(what)
			stats.Ops++
			switch m.target {
			case "transaction-endpoint":
				if top, ok := tree.(map[string]interface{}); ok {
					if txo, has := top["Transaction"]; has {
						emitDecodeCase(c.out, stats, id, fmt.Sprintf("m%d", k), "tx", mustJSON(txo))
					}
				}
				poolBefore := len(v.Pool.Transactions())
				var herr error
				c.guard("handler:transaction", what, payload, func() {
					_, herr = txCtl.HandleTransactionRequest(context.TODO(), gp2p.Data{Bytes: payload})
				})
				time.Sleep(2 * time.Millisecond) // AddTransaction runs in its own goroutine
				later(what, payload)
				_ = herr
				_ = poolBefore
				v.Pool.Validate(w.now + set.Interval) // drain
			case "sync-answer":
				// the model's decoder judges the same bytes (accept/reject and the re-encoded value)
				emitDecodeCase(c.out, stats, id, fmt.Sprintf("m%d", k), "blocks", payload)
				peer := &Peer{Target: "10.3.3.3:10600", Serve: func(uint64) ([]byte, error) { return payload, nil }}
				before := v.Digest([]string{w.wallets[0].Addr})
				c.guard("sync", what, payload, func() { helperSync(v, w.now+3*set.Interval, []*Peer{peer}) })
				time.Sleep(time.Millisecond)
				later(what, payload)
				_ = before
				// the same list as what a validator answers to the access node's blocks request (progress route):
				// the whole page, and every tail of it (a page of one or two entries is what the route expects)
				{
					snd := backedSender(v)
					pages := [][]byte{payload}
					if l, ok := tree.([]interface{}); ok {
						for cut := len(l) - 1; cut >= 1 && cut >= len(l)-2; cut-- {
							pages = append(pages, mustJSON(l[cut:]))
						}
						if len(l) >= 1 {
							pages = append(pages, mustJSON([]interface{}{l[len(l)-1], nil}), mustJSON([]interface{}{l[0], nil, l[len(l)-1]}))
						}
					}
					watch := &ScriptWatch{fallback: func() int64 { return w.now }}
					for _, pg := range pages {
						pg := pg
						snd.getBlocks = func(uint64) ([]byte, error) { return pg, nil }
						c.guard("accessnode:progress-blocks", "access node progress with the validator's blocks answer "+what, pg, func() {
							ctl := apayment.NewProgressController(snd, set, watch, &CapLogger{})
							// an output that is not (yet) spendable: the route goes on to the blocks
							ctl.GetTransactionProgress(httptest.NewRecorder(), httptest.NewRequest("PUT", "/transaction/output/progress", bytes.NewReader(mustJSON(map[string]interface{}{"address": w.wallets[1].Addr, "transaction_id": tx.Id(), "output_index": 7}))))
						})
						stats.Ops++
					}
				}
			default:
				snd := backedSender(v)
				snd.utxos = func(string) ([]byte, error) { return payload, nil }
				watch := &ScriptWatch{fallback: func() int64 { return w.now }}
				c.guard("accessnode:info", "access node /transaction/info with validator "+what, payload, func() {
					ctl := apayment.NewInfoController(snd, set, watch, &CapLogger{})
					ctl.GetTransactionInfo(httptest.NewRecorder(), httptest.NewRequest("GET", "/transaction/info?address="+w.wallets[1].Addr+"&value=5&consolidation=false", nil))
				})
				c.guard("accessnode:amount", "access node /wallet/amount with validator "+what, payload, func() {
					ctl := awallet.NewAmountController(snd, set, watch, &CapLogger{})
					ctl.GetWalletAmount(httptest.NewRecorder(), httptest.NewRequest("GET", "/wallet/amount?address="+w.wallets[1].Addr, nil))
				})
				c.guard("accessnode:progress", "access node progress with validator "+what, payload, func() {
					ctl := apayment.NewProgressController(snd, set, watch, &CapLogger{})
					ctl.GetTransactionProgress(httptest.NewRecorder(), httptest.NewRequest("PUT", "/transaction/output/progress", bytes.NewReader(mustJSON(map[string]interface{}{"address": w.wallets[1].Addr, "transaction_id": tx.Id(), "output_index": 0}))))
				})
				// the same bytes as request bodies of the access node
				c.guard("accessnode:progress-body", "access node progress body "+what, payload, func() {
					ctl := apayment.NewProgressController(backedSender(v), set, watch, &CapLogger{})
					ctl.GetTransactionProgress(httptest.NewRecorder(), httptest.NewRequest("PUT", "/transaction/output/progress", bytes.NewReader(payload)))
				})
				c.guard("accessnode:transaction-body", "access node POST /transaction body "+what, payload, func() {
					ctl := apayment.NewTransactionController(backedSender(v), &CapLogger{})
					ctl.PostTransaction(httptest.NewRecorder(), httptest.NewRequest("POST", "/transaction", bytes.NewReader(payload)))
				})
			}
		}
		// fixed probes: the semantically empty messages
		for _, probe := range []string{"null", "{}", "[]", `""`, "0", `{"Transaction":null}`, `{"Transaction":{}}`, `{"Transaction":{"id":"","inputs":[null],"outputs":[null],"timestamp":0}}`,
			// extreme numbers where a block height (uint64) is expected
			"18446744073709551615", "18446744073709551614", "18446744073709551616", "9223372036854775807", "9223372036854775808", "4294967296", "-1", "1e30", "1.5",
			fmt.Sprintf("%d", len(v.AllBlocks())), fmt.Sprintf("%d", len(v.AllBlocks())-1), fmt.Sprintf("%d", uint64(len(v.AllBlocks()))+^uint64(0)-set.Limit+1)} {
			pb := []byte(probe)
			c.guard("handler:transaction", "transaction endpoint body "+probe, pb, func() {
				_, _ = txCtl.HandleTransactionRequest(context.TODO(), gp2p.Data{Bytes: pb})
			})
			c.guard("handler:blocks", "blocks endpoint body "+probe, pb, func() { _, _ = blkCtl.HandleBlocksRequest(context.TODO(), gp2p.Data{Bytes: pb}) })
			c.guard("handler:targets", "targets endpoint body "+probe, pb, func() { _, _ = sndCtl.HandleTargetsRequest(context.TODO(), gp2p.Data{Bytes: pb}) })
			c.guard("handler:utxos", "utxos endpoint body "+probe, pb, func() { _, _ = utxCtl.HandleUtxosRequest(context.TODO(), gp2p.Data{Bytes: pb}) })
			peer := &Peer{Target: "10.3.3.4:10600", Serve: func(uint64) ([]byte, error) { return pb, nil }}
			c.guard("sync", "sync answer "+probe, pb, func() { helperSync(v, w.now+3*set.Interval, []*Peer{peer}) })
			time.Sleep(time.Millisecond)
			stats.Ops += 5
		}
		_ = digestBefore
		stats.Cases++
		stats.Sample(fmt.Sprintf("%s: %d mutations of a valid request / chain / utxo list (position x fault kind, ids recomputed) + fixed probes", id, per+perPrio))
	}
	_ = os.Remove(cur)
}
