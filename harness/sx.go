package main

import (
	"encoding/hex"
	"fmt"
	"strings"
)

// S-expression emitter. Atoms are either plain ([A-Za-z0-9_.+-]+, not starting with '$')
// or "$" followed by the hex of the bytes.
func atom(s string) string {
	ok := len(s) > 0
	for i := 0; i < len(s) && ok; i++ {
		c := s[i]
		if !(c >= 'a' && c <= 'z' || c >= 'A' && c <= 'Z' || c >= '0' && c <= '9' || c == '_' || c == '.' || c == '-' || c == '+') {
			ok = false
		}
	}
	if ok {
		return s
	}
	return "$" + hex.EncodeToString([]byte(s))
}

func sx(parts ...string) string { return "(" + strings.Join(parts, " ") + ")" }
func sxl(head string, items []string) string {
	if len(items) == 0 {
		return "(" + head + ")"
	}
	return "(" + head + " " + strings.Join(items, " ") + ")"
}
func i64(v int64) string  { return fmt.Sprintf("%d", v) }
func u64(v uint64) string { return fmt.Sprintf("%d", v) }
func b01(b bool) string {
	if b {
		return "1"
	}
	return "0"
}
