package main

import (
	"fmt"
	"github.com/my-cloud/ruthenium/validatornode/domain/clock"
	"strings"
	"time"

	"github.com/my-cloud/ruthenium/validatornode/domain/ledger"
)

// C05: whatever an honest node's pool contains, the block it produces is accepted by every
// honest node holding the same chain — as an extension, as a competitor, in a full re-sync.
// Producer A is a real node; the peers are real nodes whose whole life is recorded (and so
// also compared with the model).

func classifyBlockSpends(blocks []*ledger.Block) string {
	if len(blocks) < 2 {
		return "plain"
	}
	last := blocks[len(blocks)-1]
	prev := blocks[len(blocks)-2]
	prevIds, sameIds := map[string]bool{}, map[string]bool{}
	for _, t := range prev.Transactions() {
		prevIds[t.Id()] = true
	}
	for _, t := range last.Transactions() {
		sameIds[t.Id()] = true
	}
	kind := "plain"
	// a yielding output to an address that the previous block removes (and does not re-add)
	removed := map[string]bool{}
	for _, a := range prev.RemovedRegisteredAddresses() {
		removed[a] = true
	}
	for _, a := range prev.AddedRegisteredAddresses() {
		delete(removed, a)
	}
	for _, t := range last.Transactions() {
		if t.HasReward() {
			continue
		}
		for _, o := range t.Outputs() {
			if o.IsYielding() && removed[o.Address()] {
				kind = "just-removed-yield"
			}
		}
	}
	for _, t := range last.Transactions() {
		for _, in := range t.Inputs() {
			if sameIds[in.TransactionId()] {
				return "same-block-spend"
			}
			if prevIds[in.TransactionId()] {
				kind = "last-block-spend"
			}
		}
	}
	return kind
}

func accepted(res string, target string) bool {
	i := strings.Index(res, ":")
	if i < 0 {
		return false
	}
	for _, t := range strings.Split(res[i+1:], ",") {
		if t == showStr(target) {
			return true
		}
	}
	return false
}

func runAcceptSuite(seed uint64, n int, out *Out, stats *Stats) {
	for i := 0; i < n; i++ {
		base := fmt.Sprintf("ac%d_%d", seed, i)
		r := NewRng(seed*104729 + uint64(i))
		set := pickSettings(r)
		set.Limit = 1440
		engineTick := i%16 == 5
		if engineTick {
			// the block under test is produced at the tick a real Engine delivers, its period wired as
			// in main.go from the decoded settings (interval 2 s, timeout 1 s)
			set.Interval = int64(2 * time.Second)
			set.Timeout = time.Second
		}
		w := &World{r: r, set: set, stats: stats, mode: "honest"}
		for k := 0; k < 5; k++ {
			w.wallets = append(w.wallets, NewWallet(k))
		}
		var univ []string
		for _, wl := range w.wallets {
			univ = append(univ, wl.Addr)
		}
		A := NewNode(set, w.wallets[0].Addr)
		w.host = A
		w.now = t0 - (t0 % set.Interval)
		mk := func(tag string, key int) *CaseRec {
			nd := NewNode(set, w.wallets[key].Addr)
			rec := NewCaseRec(base+tag, nd, univ)
			rec.Mon = NewChainMonitor(set, out, base+tag)
			return rec
		}
		b1, b2 := mk("e", 1), mk("c", 2)
		followers := []*CaseRec{b1, b2}
		peerA := func() *Peer { return honestPeer("10.5.0.1:10600", A) }
		// genesis everywhere, then the followers adopt A's chain
		w.now += set.Interval
		first := w.now
		A.Pool.Validate(w.now)
		for _, f := range followers {
			f.Validate(w.now)
		}
		w.now += set.Interval
		A.Pool.Validate(w.now)
		for _, f := range followers {
			f.Update(w.now, []*Peer{peerA()})
		}
		// warm-up rounds: wallet-style transactions only (spending confirmed outputs)
		rounds := 1 + r.Intn(4)
		for k := 0; k < rounds; k++ {
			for j := 0; j < r.Intn(3); j++ {
				snd := w.wallets[r.Intn(5)]
				conf := w.confirmed(A, snd)
				if len(conf) == 0 {
					continue
				}
				u := conf[r.Intn(len(conf))]
				if u.value <= set.Fee {
					continue
				}
				amount := r.U64n(u.value - set.Fee + 1)
				rc := w.wallets[r.Intn(5)]
				outs := []*JOutput{{rc.Addr, r.Chance(1, 2), amount / 2}, {rc.Addr, false, amount - amount/2}}
				if rest := u.value - set.Fee - amount; rest > 0 {
					outs = append(outs, &JOutput{snd.Addr, false, rest})
				}
				tx := w.build(&txPlan{ins: []spendable{u}, outs: outs, ts: w.now + int64(r.U64n(uint64(set.Interval)))})
				A.Pool.AddTransaction(tx, "a", "b")
			}
			if r.Chance(1, 3) {
				ans := map[string]int{}
				for _, wl := range w.wallets {
					if r.Chance(1, 3) {
						ans[wl.Addr] = 0
					}
				}
				A.Humans.answer = ans
				A.Areg.Synchronize(0)
			}
			w.now += set.Interval
			A.Pool.Validate(w.now)
			for _, f := range followers {
				f.Update(w.now, []*Peer{peerA()})
			}
		}
		inSync := func(f *CaseRec) bool {
			a, b := A.AllBlocks(), f.Node.AllBlocks()
			return len(a) == len(b) && len(a) > 0 && blockHashHex(a[len(a)-1]) == blockHashHex(b[len(b)-1])
		}
		// the block under test: the pool holds anything an honest pool may hold
		var kinds []string
		if r.Chance(1, 4) {
			// a pool that outlived a block it did not go into: A admits payments, another validator wins
			// the slot, A adopts that block by sync (its own tick for the slot comes too late). The pooled
			// payments are now dated before the tip: the next production must drop every one of them.
			stale := 0
			for _, wl := range w.wallets {
				for _, u := range w.confirmed(A, wl) {
					if stale < 2+r.Intn(3) && u.value > 3*set.Fee+30 {
						tx := w.build(&txPlan{ins: []spendable{u}, outs: []*JOutput{{w.wallets[r.Intn(5)].Addr, false, (u.value - set.Fee) / 2}, {wl.Addr, false, u.value - set.Fee - (u.value-set.Fee)/2 - 1}}, ts: w.now})
						before := len(A.Pool.Transactions())
						A.Pool.AddTransaction(tx, "a", "b")
						if len(A.Pool.Transactions()) > before {
							stale++
						}
						break
					}
				}
			}
			other := NewNode(set, w.wallets[3].Addr)
			other.Pool.Validate(first)
			helperSync(other, w.now, []*Peer{peerA()})
			w.now += set.Interval
			other.Pool.Validate(w.now)
			other.Log.Take()
			po := func() *Peer { return honestPeer("10.5.0.9:10600", other) }
			helperSync(A, w.now, []*Peer{po()})
			A.Pool.Validate(w.now) // too late: the slot is taken
			A.Log.Take()
			for _, f := range followers {
				f.Update(w.now, []*Peer{po()})
			}
			if stale > 0 && len(A.Pool.Transactions()) >= stale {
				kinds = append(kinds, fmt.Sprintf("stale-pool-%d", stale))
				stats.Count("accept/pool outlived an adopted block")
			}
		}
		if r.Chance(1, 3) {
			// an order-dependent pair: both pooled, only one order can be produced
			w.rec = nil
			if y, p2 := w.findSwapPair(A); y != nil {
				t1 := w.build(&txPlan{ins: []spendable{*y}, outs: []*JOutput{{y.owner.Addr, false, y.value - set.Fee - 1}}, ts: w.now})
				t2 := w.build(&txPlan{ins: []spendable{*p2}, outs: []*JOutput{{p2.owner.Addr, true, p2.value - set.Fee - 1}}, ts: w.now})
				A.Pool.AddTransaction(t1, "a", "b")
				A.Pool.AddTransaction(t2, "a", "b")
				kinds = append(kinds, "yield-swap-pair")
			}
		}
		for j := 0; j < 1+r.Intn(4); j++ {
			tx, kind := w.genTx(A)
			before := len(A.Pool.Transactions())
			A.Pool.AddTransaction(tx, "a", "b")
			if len(A.Pool.Transactions()) > before {
				kinds = append(kinds, kind)
			}
		}
		A.Log.Take()
		lenBefore := len(A.AllBlocks())
		sync1, sync2 := inSync(b1), inSync(b2)
		w.now += set.Interval
		tick := w.now
		if engineTick {
			// the clock reads one second and two milliseconds before the tick: an engine of period 2 s
			// waits for the tick, one of period 1 s (timer decoded from the timeout) fires a second early
			watch := &ScriptWatch{readings: []int64{w.now - int64(time.Second) - int64(2*time.Millisecond)}}
			var stamps []int64
			e := clock.NewEngine(func(ts int64) { stamps = append(stamps, ts) }, watch, set.ValidationTimer(), 1, 0)
			e.Pulse()
			if len(stamps) == 1 {
				tick = stamps[0]
			}
			kinds = append(kinds, "engine-tick")
			stats.Count("accept/engine-driven tick")
		}
		A.Pool.Validate(tick)
		A.Log.Take()
		if len(A.AllBlocks()) == lenBefore {
			stats.Count("accept/no-block")
			continue
		}
		spend := classifyBlockSpends(A.AllBlocks())
		report := func(ctx string, rec *CaseRec, res string) {
			ok := accepted(res, "10.5.0.1:10600")
			stats.Count(fmt.Sprintf("accept/%s/%s=%v", ctx, spend, ok))
			stats.Mark(fmt.Sprintf("%s/%s/%v/%s", ctx, spend, ok, strings.Join(kinds, ",")))
			if !ok {
				key := spend
				if key == "plain" {
					key = "honest-block-rejected"
				}
				out.Violation("C05", rec.Id, fmt.Sprintf("%s\tcontext %s: the honest producer's block (pool: %s; %s) was not accepted by an honest peer holding the same chain: %s",
					key, ctx, strings.Join(kinds, ","), spend, res))
			}
		}
		// (a) extension of the peer's tip
		if sync1 {
			report("extension", b1, b1.Update(w.now, []*Peer{peerA()}))
		}
		// (b) competitor to the peer's own tip
		if sync2 {
			b2.Validate(w.now)
			report("competitor", b2, b2.Update(w.now, []*Peer{peerA()}))
		}
		// (c) full re-sync of a node holding an unrelated short chain
		b3 := mk("f", 3)
		b3.Validate(first)
		report("resync", b3, b3.Update(w.now, []*Peer{peerA()}))
		for _, rec := range []*CaseRec{b1, b2, b3} {
			out.Case(rec.Emit())
			for k, d := range rec.Digests {
				out.Digest(rec.Id, k, rec.OpKinds[k], d)
			}
			stats.Cases++
			stats.Ops += len(rec.Ops)
		}
		stats.Sample(fmt.Sprintf("%s: %d warm-up rounds, pool of the tested block: %s (%s)", base, rounds, strings.Join(kinds, ","), spend))
	}
}
