package main

import (
	"fmt"
	"runtime"
	"sort"
	"strconv"
	"strings"
	"time"

	"github.com/my-cloud/ruthenium/validatornode/application"
	"github.com/my-cloud/ruthenium/validatornode/application/validation"
	"github.com/my-cloud/ruthenium/validatornode/application/verification"
	"github.com/my-cloud/ruthenium/validatornode/domain/ledger"
)

// C16, schedules: two operations of one real node run in two goroutines under a scheduler that
// decides, at every collaborator call (the injected interfaces are wrapped by decorators), which
// of the two goes on. A schedule is a list of segments "thread t passes n calls"; what is left
// runs to completion. A thread that waits for a mutex held by the paused one is detected by a
// timeout and the other is let on until it releases.
//
// Every run ends with the model-free monitors on the quiescent state. Runs whose switches fall
// on the call boundaries the Gallina machine of model/Interleave.v has (V1..V4, A1..A4, U1..U3)
// are also written out as phase-level histories and compared with that machine.

type swEvent struct {
	t    int
	kind string // arrive, done
	name string
}

type sched struct {
	active bool
	gids   [2]int64
	events chan swEvent
	grant  [2]chan struct{}
}

func goid() int64 {
	var buf [64]byte
	n := runtime.Stack(buf[:], false)
	f := strings.Fields(string(buf[:n]))
	if len(f) < 2 {
		return -1
	}
	id, _ := strconv.ParseInt(f[1], 10, 64)
	return id
}

func (s *sched) point(name string) {
	if s == nil || !s.active {
		return
	}
	g := goid()
	t := -1
	for i := 0; i < 2; i++ {
		if s.gids[i] == g {
			t = i
		}
	}
	if t < 0 {
		return
	}
	s.events <- swEvent{t, "arrive", name}
	<-s.grant[t]
}

// ret reports that the call let through at the point of that name has returned
func (s *sched) ret(name string) {
	if s == nil || !s.active {
		return
	}
	g := goid()
	for i := 0; i < 2; i++ {
		if s.gids[i] == g {
			s.events <- swEvent{i, "returned", name}
		}
	}
}

type swBlocks struct {
	inner application.BlocksManager
	s     *sched
}

func (h *swBlocks) AddBlock(ts int64, txs []*ledger.Transaction, addrs []string) error {
	h.s.point("Blocks.AddBlock")
	defer h.s.ret("Blocks.AddBlock")
	return h.inner.AddBlock(ts, txs, addrs)
}
func (h *swBlocks) Blocks(x uint64) []*ledger.Block {
	h.s.point("Blocks.Blocks")
	defer h.s.ret("Blocks.Blocks")
	return h.inner.Blocks(x)
}
func (h *swBlocks) FirstBlockTimestamp() int64 {
	h.s.point("Blocks.FirstBlockTimestamp")
	defer h.s.ret("Blocks.FirstBlockTimestamp")
	return h.inner.FirstBlockTimestamp()
}
func (h *swBlocks) LastBlockTimestamp() int64 {
	h.s.point("Blocks.LastBlockTimestamp")
	defer h.s.ret("Blocks.LastBlockTimestamp")
	return h.inner.LastBlockTimestamp()
}
func (h *swBlocks) LastBlockTransactions() []*ledger.Transaction {
	h.s.point("Blocks.LastBlockTransactions")
	defer h.s.ret("Blocks.LastBlockTransactions")
	return h.inner.LastBlockTransactions()
}

type swUtxos struct {
	inner application.UtxosManager
	s     *sched
}

func (h *swUtxos) CalculateFee(t *ledger.Transaction, ts int64) (uint64, error) {
	h.s.point("Utxos.CalculateFee")
	defer h.s.ret("Utxos.CalculateFee")
	return h.inner.CalculateFee(t, ts)
}
func (h *swUtxos) Clear() { h.s.point("Utxos.Clear"); defer h.s.ret("Utxos.Clear"); h.inner.Clear() }
func (h *swUtxos) Copy() application.UtxosManager {
	h.s.point("Utxos.Copy")
	defer h.s.ret("Utxos.Copy")
	return h.inner.Copy()
}
func (h *swUtxos) UpdateUtxos(txs []*ledger.Transaction, ts int64) error {
	h.s.point("Utxos.UpdateUtxos")
	defer h.s.ret("Utxos.UpdateUtxos")
	return h.inner.UpdateUtxos(txs, ts)
}
func (h *swUtxos) Utxos(a string) []*ledger.Utxo {
	h.s.point("Utxos.Utxos")
	defer h.s.ret("Utxos.Utxos")
	return h.inner.Utxos(a)
}

type swAddrs struct {
	inner application.AddressesManager
	s     *sched
}

func (h *swAddrs) Clear() {
	h.s.point("Addresses.Clear")
	defer h.s.ret("Addresses.Clear")
	h.inner.Clear()
}
func (h *swAddrs) Copy() application.AddressesManager {
	h.s.point("Addresses.Copy")
	defer h.s.ret("Addresses.Copy")
	return h.inner.Copy()
}
func (h *swAddrs) Filter(a []string) []string {
	h.s.point("Addresses.Filter")
	defer h.s.ret("Addresses.Filter")
	return h.inner.Filter(a)
}
func (h *swAddrs) IsRegistered(a string) bool {
	h.s.point("Addresses.IsRegistered")
	defer h.s.ret("Addresses.IsRegistered")
	return h.inner.IsRegistered(a)
}
func (h *swAddrs) RemovedAddresses() []string {
	h.s.point("Addresses.RemovedAddresses")
	defer h.s.ret("Addresses.RemovedAddresses")
	return h.inner.RemovedAddresses()
}
func (h *swAddrs) Update(a []string, r []string) {
	h.s.point("Addresses.Update")
	defer h.s.ret("Addresses.Update")
	h.inner.Update(a, r)
}

type swSenders struct {
	inner *FakeSenders
	s     *sched
}

func (h *swSenders) AddTargets(t []string) { h.inner.AddTargets(t) }
func (h *swSenders) HostTarget() string    { return h.inner.HostTarget() }
func (h *swSenders) Incentive(t string)    { h.inner.Incentive(t) }
func (h *swSenders) Senders() []application.Sender {
	h.s.point("Senders.Senders")
	defer h.s.ret("Senders.Senders")
	return h.inner.Senders()
}

func newSweepNode(set *Settings, validator string, s *sched) *Node {
	n := &Node{Set: set, Validator: validator}
	n.Log = &CapLogger{}
	n.Humans = &ScriptHumans{answer: map[string]int{}}
	n.Areg = verification.NewAddressesRegistry(n.Humans, n.Log)
	n.Ureg = verification.NewUtxosRegistry(set)
	n.Senders = &FakeSenders{host: "127.0.0.1:10600"}
	hu := &swUtxos{inner: n.Ureg, s: s}
	n.Chain = verification.NewBlockchain(&swAddrs{inner: n.Areg, s: s}, set, &swSenders{inner: n.Senders, s: s}, hu, n.Log)
	n.Pool = validation.NewTransactionsPool(&swBlocks{inner: n.Chain, s: s}, set, n.Senders, hu, validator, n.Log)
	return n
}

type swSeg struct{ t, n int }

type swTrace struct {
	t        int
	name     string // a point name, or "done"
	returned bool
	blocked  bool // the call waited for a lock held by the paused thread: it took effect when it returned
}

// run the two functions under the plan; returns the order in which calls were let through
func (s *sched) run(fns [2]func(), plan []swSeg) (trace []swTrace, blocked int, deadlock bool) {
	s.events = make(chan swEvent, 1024)
	s.grant = [2]chan struct{}{make(chan struct{}, 1), make(chan struct{}, 1)}
	s.gids = [2]int64{-1, -1}
	const (
		notStarted = iota
		running
		waiting
		done
	)
	st := [2]int{notStarted, notStarted}
	pending := [2]string{}
	s.active = true
	defer func() { s.active = false }()
	pi := 0
	left := 0
	if len(plan) > 0 {
		left = plan[0].n
	}
	override := -1
	deadline := time.Now().Add(3 * time.Second)
	handle := func(e swEvent) {
		switch e.kind {
		case "arrive":
			st[e.t] = waiting
			pending[e.t] = e.name
		case "returned":
			for i := len(trace) - 1; i >= 0; i-- {
				if trace[i].t == e.t && trace[i].name == e.name && !trace[i].returned {
					trace[i].returned = true
					if trace[i].blocked {
						x := trace[i]
						trace = append(append(trace[:i:i], trace[i+1:]...), x)
					}
					break
				}
			}
		default:
			st[e.t] = done
			trace = append(trace, swTrace{t: e.t, name: "done", returned: true})
		}
	}
	for st[0] != done || st[1] != done {
		if time.Now().After(deadline) {
			return trace, blocked, true
		}
		// drain what has happened meanwhile
		for drained := false; !drained; {
			select {
			case e := <-s.events:
				handle(e)
			default:
				drained = true
			}
		}
		if st[0] == done && st[1] == done {
			break
		}
		for pi < len(plan) && (left <= 0 || st[plan[pi].t] == done) {
			pi++
			if pi < len(plan) {
				left = plan[pi].n
			}
		}
		t := 0
		if pi < len(plan) {
			t = plan[pi].t
		} else if st[0] == done {
			t = 1
		}
		if override >= 0 {
			if st[1-override] == running && st[override] != done {
				t = override
			} else {
				override = -1
			}
		}
		if st[t] == done {
			t = 1 - t
		}
		switch st[t] {
		case notStarted:
			st[t] = running
			tt := t
			ready := make(chan struct{})
			go func() {
				s.gids[tt] = goid()
				close(ready)
				fns[tt]()
				s.events <- swEvent{tt, "done", ""}
			}()
			<-ready
		case waiting:
			if pi < len(plan) && plan[pi].t == t && override < 0 {
				left--
			}
			trace = append(trace, swTrace{t: t, name: pending[t]})
			st[t] = running
			s.grant[t] <- struct{}{}
		}
		// wait until t arrives somewhere or finishes; if it is stuck on a lock, let the other on
		o := 1 - t
		canSwitch := st[o] == waiting || st[o] == notStarted
		waitingFor := true
		for waitingFor {
			var timeout <-chan time.Time
			if canSwitch {
				timeout = time.After(80 * time.Millisecond)
			} else {
				timeout = time.After(3 * time.Second)
			}
			select {
			case e := <-s.events:
				handle(e)
				if e.t == t && e.kind != "returned" {
					waitingFor = false
				}
			case <-timeout:
				if !canSwitch {
					return trace, blocked, true
				}
				// slow is not blocked: only a goroutine that is parked on a lock is given up on
				if !parkedOnLock(s.gids[t]) && time.Now().Before(deadline) {
					continue
				}
				blocked++
				for i := len(trace) - 1; i >= 0; i-- {
					if trace[i].t == t {
						if !trace[i].returned && trace[i].name != "done" {
							trace[i].blocked = true
						}
						break
					}
				}
				override = o
				waitingFor = false
			}
		}
	}
	return trace, blocked, false
}

// ---- worlds -----------------------------------------------------------------------

type sweepCase struct {
	w      *World
	nd     *Node
	helper *Node
	rec    *CaseRec
	s      *sched
	tick   int64 // the production tick of the race
	newTx  *ledger.Transaction
	peers  []*Peer
	kind   int
	desc   string
}

var sweepWorldNames = []string{"neighbor-extends", "competing-tip", "fresh-node-older-chain", "deeper-fork"}

// buildSweepCase is deterministic in (seed, kind): the same world is rebuilt for every schedule
func buildSweepCase(id string, seed uint64, kind int, out *Out, stats *Stats) *sweepCase {
	r := NewRng(seed*7919 + 13)
	set := pickSettings(r)
	set.Limit = 1440
	set.Timeout = 2 * time.Second
	w := &World{r: r, set: set, stats: stats, mode: "honest"}
	for k := 0; k < 5; k++ {
		w.wallets = append(w.wallets, NewWallet(k))
	}
	s := &sched{}
	nd := newSweepNode(set, w.wallets[0].Addr, s)
	w.host = nd
	var univ []string
	for _, wl := range w.wallets {
		univ = append(univ, wl.Addr)
	}
	rec := NewCaseRec(id, nd, univ)
	w.rec = rec
	w.now = t0 - (t0 % set.Interval)
	c := &sweepCase{w: w, nd: nd, rec: rec, s: s, kind: kind}
	helper := NewNode(set, w.wallets[1].Addr)
	c.helper = helper
	hostPeer := func() []*Peer { return []*Peer{honestPeer("10.7.0.1:10600", nd)} }
	split := func() {
		// the genesis coin split into several plain outputs, confirmed two blocks later
		if conf := w.confirmed(nd, w.wallets[0]); len(conf) > 0 && conf[0].value > 100*set.Fee+1000 {
			var outs []*JOutput
			share := (conf[0].value - set.Fee) / 6
			for j := 0; j < 6; j++ {
				outs = append(outs, &JOutput{w.wallets[j%5].Addr, false, share})
			}
			rec.Admit(w.build(&txPlan{ins: []spendable{conf[0]}, outs: outs, ts: w.now}))
		}
	}
	step := func() { w.now += set.Interval; rec.Validate(w.now) }
	spend := func(n *Node, k int) *ledger.Transaction {
		// the k-th confirmed plain output of some wallet, spent to another wallet
		var all []spendable
		for _, wl := range w.wallets {
			for _, u := range w.confirmed(n, wl) {
				if u.value > set.Fee+10 {
					all = append(all, u)
				}
			}
		}
		if len(all) == 0 {
			return nil
		}
		u := all[k%len(all)]
		return w.build(&txPlan{ins: []spendable{u}, outs: []*JOutput{{w.wallets[(k+2)%5].Addr, false, u.value - set.Fee - 1}}, ts: w.now + 1 + int64(k)})
	}
	switch kind {
	case 0, 1, 3:
		step()
		step()
		split()
		step()
		step()
		if kind == 3 {
			step()
		}
		// the helper follows the host up to here
		helper.Pool.Validate(nd.Chain.FirstBlockTimestamp())
		helperSync(helper, w.now, hostPeer())
		if kind == 3 {
			// the helper left two blocks ago and went on alone, one block further than the host
			hb := nd.AllBlocks()
			jb := blocksToJ(hb[:len(hb)-2])
			helper = NewNode(set, w.wallets[1].Addr)
			c.helper = helper
			helper.Pool.Validate(nd.Chain.FirstBlockTimestamp())
			helperSync(helper, w.now-2*set.Interval, []*Peer{staticPeer("10.7.0.3:10600", jb, 1440)})
			helper.Pool.Validate(w.now - set.Interval)
			helper.Pool.Validate(w.now)
		}
		var zs []*ledger.Transaction
		for k := 0; k < 3; k++ {
			if t := spend(nd, k*2+int(r.Intn(2))); t != nil {
				zs = append(zs, t)
			}
		}
		if kind == 1 {
			// both produce the next block; the helper has one transaction more in its pool
			if len(zs) > 0 {
				helper.Pool.AddTransaction(zs[0], "a", "b")
			}
			w.now += set.Interval
			helper.Pool.Validate(w.now)
			if len(zs) > 1 && r.Chance(1, 2) {
				rec.Admit(zs[1])
			}
			rec.Validate(w.now)
			if len(zs) > 0 {
				rec.Admit(zs[0]) // arrives late at the host: pending there, confirmed by the helper's tip
			}
			if t := spend(nd, 7); t != nil && r.Chance(1, 2) {
				rec.Admit(t)
			}
			// a transaction spending what the host's own tip has just created
			if fr := w.fresh(nd.Chain.LastBlockTransactions()); len(fr) > 0 && fr[0].value > set.Fee+10 && r.Chance(2, 3) {
				rec.Admit(w.build(&txPlan{ins: []spendable{fr[0]}, outs: []*JOutput{{w.wallets[3].Addr, false, fr[0].value - set.Fee - 1}}, ts: w.now + 2}))
			}
		} else {
			if len(zs) > 0 {
				helper.Pool.AddTransaction(zs[0], "a", "b")
				rec.Admit(zs[0])
			}
			if len(zs) > 1 {
				rec.Admit(zs[1])
			}
			helper.Pool.Validate(w.now + set.Interval)
			if kind == 3 && r.Chance(1, 2) {
				helper.Pool.Validate(w.now + 2*set.Interval)
			}
		}
		if len(zs) > 2 {
			c.newTx = zs[2]
		}
	case 2:
		// the helper started two intervals before the host did
		helper.Pool.Validate(w.now + set.Interval)
		helper.Pool.Validate(w.now + 2*set.Interval)
		helper.Pool.Validate(w.now + 3*set.Interval)
		w.now += 3 * set.Interval
		rec.Validate(w.now)
		if fr := w.fresh(nd.Chain.LastBlockTransactions()); len(fr) > 0 {
			rec.Admit(w.build(&txPlan{ins: []spendable{fr[0]}, outs: []*JOutput{{w.wallets[2].Addr, false, fr[0].value / 2}}, ts: w.now + 1}))
			c.newTx = w.build(&txPlan{ins: []spendable{fr[0]}, outs: []*JOutput{{w.wallets[3].Addr, false, fr[0].value / 3}}, ts: w.now + 2})
		}
	}
	c.tick = w.now + set.Interval
	c.peers = []*Peer{honestPeer("10.7.0.2:10600", c.helper)}
	c.desc = sweepWorldNames[kind]
	return c
}

func blocksToJ(bs []*ledger.Block) []*JBlock { return MirrorBlocks(bs) }

// ---- one scheduled run ------------------------------------------------------------

var sweepPairs = [][2]string{{"V", "U"}, {"V", "A"}, {"A", "U"}, {"U", "V"}, {"A", "V"}, {"U", "A"}, {"V", "R"}, {"U", "R"}}

func runSweepSuite(seed uint64, n int, out *Out, stats *Stats) {
	for i := 0; i < n; i++ {
		r := NewRng(seed*104729 + uint64(i)*31 + 5)
		kind := i % 4
		pair := sweepPairs[(i/4)%len(sweepPairs)]
		wseed := seed*1000 + uint64(i/32)
		id := fmt.Sprintf("sw%d_%d", seed, i)
		c := buildSweepCase(id, wseed, kind, out, stats)
		if (pair[0] == "A" || pair[1] == "A") && c.newTx == nil {
			stats.Count("sweep/no-transaction-to-submit")
			continue
		}
		// the schedule: up to three segments
		var plan []swSeg
		switch r.Intn(4) {
		case 0: // B entirely inside A
			plan = []swSeg{{0, r.Intn(7)}, {1, 1000}}
		case 1: // A starts, B runs some calls, A finishes, B finishes
			plan = []swSeg{{0, r.Intn(6)}, {1, 1 + r.Intn(4)}, {0, 1000}}
		case 2: // three switches
			plan = []swSeg{{0, r.Intn(5)}, {1, 1 + r.Intn(3)}, {0, 1 + r.Intn(3)}, {1, 1000}}
		default:
			plan = []swSeg{{0, 1 + r.Intn(4)}, {1, 1 + r.Intn(3)}, {0, 1 + r.Intn(2)}, {1, 1 + r.Intn(2)}, {0, 1000}}
		}
		runSweepOne(c, pair, plan, out, stats)
	}
}

func planString(plan []swSeg) string {
	var s []string
	for _, p := range plan {
		n := fmt.Sprintf("%d", p.n)
		if p.n >= 1000 {
			n = "*"
		}
		s = append(s, fmt.Sprintf("%d:%s", p.t, n))
	}
	return strings.Join(s, ",")
}

func runSweepOne(c *sweepCase, pair [2]string, plan []swSeg, out *Out, stats *Stats) {
	nd, rec, set := c.nd, c.rec, c.nd.Set
	id := rec.Id
	now := c.tick
	if c.kind == 3 {
		now = c.tick + set.Interval
	}
	rec.stamps[c.tick] = true
	rec.stamps[now] = true
	poolBefore := append([]*ledger.Transaction(nil), nd.Pool.Transactions()...)
	lenBefore := len(nd.AllBlocks())
	admitted := map[string]bool{}
	for k := range rec.admitted {
		admitted[k] = true
	}
	// the neighbor's answers, as the model's update reads them
	var nbs []string
	var senders []application.Sender
	for _, p := range c.peers {
		p := p
		senders = append(senders, &FakeSender{target: p.Target, getBlocks: p.Serve})
		inc := "(fail fetch)"
		if lenBefore > 0 {
			inc = respSx(rec, p, uint64(lenBefore-1))
		}
		nbs = append(nbs, sx(atom(p.Target), inc, respSx(rec, p, 0)))
	}
	if c.newTx != nil {
		rec.noteTx(c.newTx)
	}
	// answers handed out before the schedule (what a handler is still encoding while the operations
	// run): the slices the registries and the pool returned, and what they held
	type heldAnswer struct {
		what string
		ids  func() string
		was  string
	}
	var held []*heldAnswer
	for _, a := range rec.Universe {
		us := nd.Ureg.Utxos(a)
		h := &heldAnswer{what: "outputs of " + a, ids: func() string {
			var l []string
			for _, u := range us {
				if u == nil {
					l = append(l, "nil")
				} else {
					l = append(l, fmt.Sprintf("%s/%d", u.TransactionId(), u.OutputIndex()))
				}
			}
			return strings.Join(l, ",")
		}}
		h.was = h.ids()
		held = append(held, h)
	}
	{
		ts := nd.Pool.Transactions()
		h := &heldAnswer{what: "pool", ids: func() string {
			var l []string
			for _, t := range ts {
				if t == nil {
					l = append(l, "nil")
				} else {
					l = append(l, t.Id())
				}
			}
			return strings.Join(l, ",")
		}}
		h.was = h.ids()
		held = append(held, h)
		bs := nd.Chain.Blocks(0)
		hb := &heldAnswer{what: "blocks", ids: func() string {
			var l []string
			for _, b := range bs {
				l = append(l, blockHashHex(b))
			}
			return strings.Join(l, ",")
		}}
		hb.was = hb.ids()
		held = append(held, hb)
	}
	nd.Senders.Set(senders)
	nd.Log.Take()
	mk := func(kind string) func() {
		switch kind {
		case "V":
			return func() { nd.Pool.Validate(c.tick) }
		case "A":
			return func() { nd.Pool.AddTransaction(c.newTx, "127.0.0.1:10601", nd.Senders.host) }
		case "U":
			return func() { nd.Chain.Update(now) }
		default:
			return func() {
				nd.Humans.answer = map[string]int{c.w.wallets[0].Addr: 0, c.w.wallets[2].Addr: 0}
				nd.Areg.Synchronize(0)
			}
		}
	}
	trace, blocked, deadlock := c.s.run([2]func(){mk(pair[0]), mk(pair[1])}, plan)
	nd.Senders.Set(nil)
	lines := nd.Log.Take()
	tag := pair[0] + "|" + pair[1]
	stats.Count("sweep/pair " + tag)
	stats.Count("sweep/world " + c.desc)
	if blocked > 0 {
		stats.Count("sweep/runs in which a thread waited for a lock held by the paused one")
	}
	if deadlock {
		out.Violation("C16", id, fmt.Sprintf("sweep-deadlock:%s\tworld %s, schedule %s: the two operations did not finish within 3 s", tag, c.desc, planString(plan)))
		stats.Cases++
		return
	}
	// results of the three kinds, from the log
	vres, ares, ures := "", "", ""
	var drops []string
	for _, l := range lines {
		switch {
		case strings.HasPrefix(l, "W:") && strings.Contains(l, "transaction removed from the transactions pool"):
			switch {
			case strings.Contains(l, "too far in the future"):
				drops = append(drops, "future")
			case strings.Contains(l, "too old"):
				drops = append(drops, "old")
			case strings.Contains(l, "failed to verify signature"):
				drops = append(drops, "sig")
			case strings.Contains(l, "failed to calculate fee"):
				drops = append(drops, "fee")
			case strings.Contains(l, "failed to update UTXOs"):
				drops = append(drops, "update")
			default:
				drops = append(drops, "other")
			}
		case strings.HasPrefix(l, "D:reward: "):
			vres = "produced"
		case strings.Contains(l, "failed to add transaction"):
			ares = "err:" + classify(l)
		case strings.Contains(l, "blockchain replaced"):
			ures = "replaced"
		case strings.Contains(l, "verification done: blockchain"):
			if ures == "" {
				ures = "kept"
			}
		}
	}
	if vres == "produced" {
		vres = "produced:" + strings.Join(drops, ",")
	} else {
		vres = "refused"
	}
	if ares == "" {
		ares = "ok"
		if c.newTx != nil && (pair[0] == "A" || pair[1] == "A") {
			admitted[c.newTx.Id()] = true
		}
	}
	if ures == "" {
		ures = "kept"
	}
	// ---- monitors on the quiescent state
	mon := NewChainMonitor(set, out, id)
	before := out.Violations
	blocks := nd.AllBlocks()
	mon.CheckChain(blocks, "after the schedule")
	mon.CheckDerived(nd, blocks, rec.Universe, "after the schedule")
	mon.CheckPool(nd.Pool.Transactions(), admitted, "after the schedule")
	// without a sync round in the schedule nothing but a tick moves the tip, and a tick empties the pool:
	// whatever is pooled afterwards was admitted against the new tip and is dated at or after it. A pooled
	// transaction dated before the tip was judged against a tip that was already gone when it entered the
	// pool; the next tick drops it as too old - an admitted transaction is lost.
	if pair[0] != "U" && pair[1] != "U" && pair[0] != "R" && pair[1] != "R" {
		tip := nd.Chain.LastBlockTimestamp()
		for _, t := range nd.Pool.Transactions() {
			if t.Timestamp() < tip {
				mon.hit("C16", "admitted-into-the-past", fmt.Sprintf("after the schedule: the pooled transaction %s is dated %d, before the last block (%d): it was admitted against a tip that a tick had already replaced and will be dropped as too old", t.Id(), t.Timestamp(), tip))
			}
		}
	}
	for _, h := range held {
		if now := h.ids(); now != h.was {
			mon.hit("C16", "held-answer-changed", fmt.Sprintf("after the schedule: the %s handed out before it read [%s], now [%s] (a handler encoding it meanwhile sends a state that never existed)", h.what, h.was, now))
		}
	}
	// an admitted transaction is never confirmed twice (a pooled transaction that an adopted chain
	// has confirmed stays pooled until the next tick drops it: that is so sequentially too)
	count := map[string]int{}
	for _, b := range blocks {
		for _, t := range b.Transactions() {
			count[t.Id()]++
		}
	}
	for idt := range admitted {
		if count[idt] > 1 {
			mon.hit("C16", "confirmed-twice", fmt.Sprintf("after the schedule: transaction %s is found %d times in the chain", idt, count[idt]))
		}
	}
	// was the tick's view stale? a sync round replaced the chain between V1 and V4
	stale := ""
	{
		vOpen, aOpen := false, false
		for _, e := range trace {
			k := pair[e.t]
			switch {
			case k == "V" && e.name == "Blocks.LastBlockTimestamp":
				vOpen = true
			case k == "V" && (e.name == "Blocks.AddBlock" || e.name == "done"):
				if e.name == "done" {
					vOpen = false
				}
			case k == "A" && e.name == "Blocks.LastBlockTimestamp":
				aOpen = true
			case k == "A" && e.name == "done":
				aOpen = false
			case k == "U" && e.name == "done" && ures == "replaced":
				if vOpen {
					stale = "stale-tick-view"
				} else if aOpen {
					stale = "stale-submission-view"
				}
			}
		}
	}
	if out.Violations > before {
		key := "schedule:" + tag
		if stale != "" {
			key = stale
		}
		var names []string
		for _, e := range trace {
			names = append(names, fmt.Sprintf("%s.%s", pair[e.t], e.name))
		}
		out.Violation("C16", id, fmt.Sprintf("%s:%s\tworld %s, operations %s, schedule %s (calls let through: %s): the quiescent state violates C01-C07 (see the lines above for this case)",
			key, strings.Join(mon.HitKeys(), "+"), c.desc, tag, planString(plan), strings.Join(names, " ")))
	}
	// ---- the phase-level history for the Gallina machine
	modelled := pair[0] != "R" && pair[1] != "R"
	// the machine takes V4 (the AddBlock call) and U3 (the commit) as single steps: a run in which a
	// call of the other operation took effect inside one of them is finer than the machine, and is
	// judged by the monitors only
	{
		inside := -1 // the thread that is inside its atomic step
		for _, e := range trace {
			k := pair[e.t]
			commitPoint := e.name == "Addresses.Clear" || e.name == "Utxos.Clear" || e.name == "Utxos.UpdateUtxos" || e.name == "Addresses.Update"
			switch {
			case inside >= 0 && e.t != inside && !e.blocked && e.name != "done":
				if modelled {
					stats.Count("sweep/runs finer than the machine (a call took effect inside AddBlock or inside the commit): monitors only")
				}
				modelled = false
			case e.t == inside && e.name == "done":
				inside = -1
			case inside < 0 && k == "V" && e.name == "Blocks.AddBlock":
				inside = e.t
			case inside < 0 && k == "U" && commitPoint:
				inside = e.t
			}
		}
	}
	poolLen := len(poolBefore)
	aDone := false
	var ops []string
	seenU2, seenU3 := false, false
	permOf := func() string {
		n := poolLen
		if aDone && ares == "ok" {
			n++
		}
		var ps []string
		for _, p := range ShufflePerm(c.tick, n) {
			ps = append(ps, fmt.Sprintf("%d", p))
		}
		return plist(ps)
	}
	for _, e := range trace {
		if !modelled {
			break
		}
		switch pair[e.t] {
		case "V":
			switch e.name {
			case "Blocks.LastBlockTimestamp":
				ops = append(ops, "(iv1 "+i64(c.tick)+" _)")
			case "Blocks.LastBlockTransactions":
				ops = append(ops, "(iv2 _)")
			case "Utxos.Copy":
				ops = append(ops, "(iv3 _)")
			case "Blocks.AddBlock":
				ops = append(ops, "(iv4 "+i64(c.tick)+" "+permOf()+" _)")
			case "done":
				ops = append(ops, "(vdone "+i64(c.tick)+" "+permOf()+" "+atom("r:"+vres)+")")
			}
		case "A":
			switch e.name {
			case "Blocks.LastBlockTimestamp":
				ops = append(ops, "(ia1 "+sxTx(c.newTx)+" _)")
			case "Utxos.Copy":
				ops = append(ops, "(ia2 _)")
			case "Blocks.LastBlockTransactions":
				ops = append(ops, "(ia3 _)")
			case "done":
				ops = append(ops, "(adone "+atom("r:"+ares)+")")
				aDone = true
			}
		case "U":
			switch e.name {
			case "Senders.Senders":
				ops = append(ops, "(iu1 _)")
			case "Utxos.Copy":
				if !seenU2 {
					seenU2 = true
					ops = append(ops, "(iu2 _)")
				}
			case "Addresses.Clear", "Utxos.Clear", "Utxos.UpdateUtxos", "Addresses.Update":
				if !seenU3 {
					seenU3 = true
					ops = append(ops, "(iu3 "+i64(now)+" "+plist(nbs)+" "+atom("r:"+ures)+")")
				}
			case "done":
				ops = append(ops, "(udone "+i64(now)+" "+plist(nbs)+" "+atom("r:"+ures)+")")
			}
		}
	}
	if modelled {
		rec.noteChain()
		d := "R=final#" + nd.Digest(rec.Universe)
		ops = append(ops, "(final "+md5hex(d)+")")
		rec.Ops = append(rec.Ops, ops...)
		for range ops {
			rec.Digests = append(rec.Digests, d)
			rec.OpKinds = append(rec.OpKinds, "phase")
		}
		out.Case(rec.Emit())
		for k, dg := range rec.Digests {
			out.Digest(id, k, rec.OpKinds[k], dg)
		}
		stats.Count("sweep/runs compared with the Gallina machine")
	}
	var names []string
	for _, e := range trace {
		names = append(names, pair[e.t]+"."+e.name)
	}
	sort.Strings(drops)
	stats.Mark(fmt.Sprintf("%s/%s/%s/%s/%s", c.desc, tag, strings.Join(names, ","), vres, ures))
	stats.Count(fmt.Sprintf("sweep/outcome %s V=%s A=%s U=%s %s", tag, strings.SplitN(vres, ":", 2)[0], strings.SplitN(ares, ":", 2)[0], ures, stale))
	if stats.Cases < 3 {
		stats.Sample(fmt.Sprintf("%s: world %s, %s, schedule %s: %s", id, c.desc, tag, planString(plan), strings.Join(names, " ")))
	}
	stats.Cases++
	stats.Ops += len(trace)
}

// parkedOnLock: is goroutine gid waiting for a mutex (as opposed to running, runnable or slow)?
func parkedOnLock(gid int64) bool {
	buf := make([]byte, 1<<20)
	n := runtime.Stack(buf, true)
	head := fmt.Sprintf("goroutine %d [", gid)
	for _, g := range strings.Split(string(buf[:n]), "\n\n") {
		if strings.HasPrefix(g, head) {
			line := g[:strings.Index(g+"\n", "\n")]
			return strings.Contains(line, "semacquire") || strings.Contains(line, "sync.Mutex") || strings.Contains(line, "sync.RWMutex")
		}
	}
	return false
}
