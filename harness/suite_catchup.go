package main

import (
	"fmt"
	"time"

	"github.com/my-cloud/ruthenium/validatornode/domain/ledger"
)

// C08: a real serving node with a chain built from wallet-style transactions, and a real
// catching-up node (recorded, compared with the model) that starts from a prefix or from a
// short private chain. Rounds are counted against the bound of the property.

func buildServer(r *Rng, set *Settings, wallets []*Wallet, length int, stats *Stats) (*Node, int64) {
	s := NewNode(set, wallets[0].Addr)
	now := t0 - (t0 % set.Interval)
	w := &World{r: r, set: set, wallets: wallets, host: s, stats: stats, mode: "honest", now: now}
	for len(s.AllBlocks()) < length {
		w.now += set.Interval
		// wallet-style: spend confirmed outputs only
		for k := 0; k < r.Intn(3); k++ {
			snd := wallets[r.Intn(len(wallets))]
			conf := w.confirmed(s, snd)
			if len(conf) == 0 {
				continue
			}
			u := conf[r.Intn(len(conf))]
			if u.value <= set.Fee {
				continue
			}
			amount := r.U64n(u.value - set.Fee + 1)
			rc := wallets[r.Intn(len(wallets))]
			outs := []*JOutput{{rc.Addr, r.Chance(1, 2), amount}}
			if rest := u.value - set.Fee - amount; rest > 0 {
				outs = append(outs, &JOutput{snd.Addr, false, rest})
			}
			w.now -= set.Interval // transactions are dated inside the current slot
			tx := w.build(&txPlan{ins: []spendable{u}, outs: outs, ts: w.now + int64(r.U64n(uint64(set.Interval)))})
			w.now += set.Interval
			s.Pool.AddTransaction(tx, "a", "b")
		}
		// proof-of-humanity refreshes on the serving node: addresses registered by earlier blocks are
		// flagged and the next block lists them as removed (registration and removal inside one page)
		if r.Chance(1, 3) {
			ans := map[string]int{}
			for _, wl := range wallets {
				if r.Chance(1, 2) {
					ans[wl.Addr] = 0
				}
			}
			s.Humans.answer = ans
			s.Areg.Synchronize(0)
		}
		s.Pool.Validate(w.now)
		s.Log.Take()
	}
	return s, w.now
}

func runCatchupSuite(seed uint64, n int, out *Out, stats *Stats) {
	for i := 0; i < n; i++ {
		id := fmt.Sprintf("cu%d_%d", seed, i)
		r := NewRng(seed*7919 + uint64(i))
		set := pickSettings(r)
		set.Limit = uint64(r.Pick(3, 3, 4, 5, 8, 12))
		set.Timeout = 2 * time.Second
		var wallets []*Wallet
		for k := 0; k < 5; k++ {
			wallets = append(wallets, NewWallet(k))
		}
		length := 2 + r.Intn(24)
		// the catching-up node
		start := r.Intn(4)
		if start == 3 {
			// a partitioned node needs room: a shared prefix of two blocks or more and two own blocks or more, below the page size
			set.Limit = uint64(r.Pick(5, 6, 8, 12))
			length = 6 + r.Intn(20)
		}
		server, now := buildServer(r, set, wallets, length, stats)
		served := server.AllBlocks()
		var univ []string
		for _, wl := range wallets {
			univ = append(univ, wl.Addr)
		}
		var host *Node
		startKind := ""
		switch start {
		case 0: // identical genesis (same validator key, same first tick): a prefix of length 1
			host = NewNode(set, wallets[0].Addr)
			startKind = "prefix1"
		case 1: // a private chain, shorter than the served chain and than the page
			host = NewNode(set, wallets[1+r.Intn(4)].Addr)
			startKind = "private"
		case 3: // a node that followed the served chain, was cut off and went on alone: shares a prefix, diverges before its tip
			host = NewNode(set, wallets[1+r.Intn(4)].Addr)
			startKind = "partitioned"
		default: // a longer prefix, obtained by an earlier sync
			host = NewNode(set, wallets[0].Addr)
			startKind = "prefixN"
		}
		rec := NewCaseRec(id, host, univ)
		rec.Mon = NewChainMonitor(set, out, id)
		first := served[0].Timestamp()
		rec.Validate(first)
		if start == 1 {
			extra := r.Intn(int(set.Limit))
			for k := 0; k < extra && len(host.AllBlocks())+1 < len(served) && uint64(len(host.AllBlocks())+1) < set.Limit; k++ {
				rec.Validate(first + int64(k+1)*set.Interval)
			}
		}
		if start == 2 && len(served) > 3 {
			p := 2 + r.Intn(len(served)-2)
			pre := MirrorBlocks(served[:p])
			rec.Update(served[p-1].Timestamp(), []*Peer{staticPeer("10.9.9.9:10600", pre, set.Limit)})
			for len(host.AllBlocks()) < p {
				before := len(host.AllBlocks())
				rec.Update(served[p-1].Timestamp(), []*Peer{staticPeer("10.9.9.9:10600", pre, set.Limit)})
				if len(host.AllBlocks()) == before {
					break
				}
			}
		}
		if start == 3 && len(served) > 4 {
			maxTotal := int(set.Limit) - 1
			if len(served)-1 < maxTotal {
				maxTotal = len(served) - 1
			}
			p := 2 + r.Intn(maxTotal-3) // 2 <= p <= maxTotal-2
			pre := MirrorBlocks(served[:p])
			rec.Update(served[p-1].Timestamp(), []*Peer{staticPeer("10.9.9.9:10600", pre, set.Limit)})
			own := 2 + r.Intn(maxTotal-p-1)
			for k := 1; k <= own && len(host.AllBlocks()) == p+k-1; k++ {
				rec.Validate(served[p-1].Timestamp() + int64(k)*set.Interval)
			}
			stats.Count(fmt.Sprintf("catchup/partitioned shared=%d own=%d", p, len(host.AllBlocks())-p))
		}
		startLen := len(host.AllBlocks())
		// rounds against 1..3 honest neighbors all holding the served chain
		np := 1 + r.Intn(3)
		bound := 1 + (len(served)+int(set.Limit)-2)/(int(set.Limit)-1)
		rounds := 0
		same := func() bool {
			a, b := host.AllBlocks(), served
			if len(a) != len(b) {
				return false
			}
			for k := range a {
				if blockHashHex(a[k]) != blockHashHex(b[k]) {
					return false
				}
			}
			return true
		}
		for !same() && rounds < bound+3 {
			var peers []*Peer
			for k := 0; k < np; k++ {
				peers = append(peers, honestPeer(fmt.Sprintf("10.8.%d.%d:10600", rounds, k), server))
			}
			rec.Update(now, peers)
			rounds++
		}
		stats.Count(fmt.Sprintf("catchup/%s/limit%d", startKind, set.Limit))
		stats.Mark(fmt.Sprintf("%s/%d/%d/%d", startKind, set.Limit, len(served), startLen))
		stats.Sample(fmt.Sprintf("%s: served %d blocks, page %d, start %s with %d blocks, %d neighbors: %d rounds (bound %d)", id, len(served), set.Limit, startKind, startLen, np, rounds, bound))
		if !same() || rounds > bound {
			out.Violation("C08", id, fmt.Sprintf("converge\tserved %d blocks, page size %d, start %s (%d blocks): after %d rounds (bound %d) chains equal=%v", len(served), set.Limit, startKind, startLen, rounds, bound, same()))
		} else {
			// same spendable outputs and registered addresses as the serving node
			for _, a := range univ {
				if string(mustJSON(host.Ureg.Utxos(a))) != string(mustJSON(server.Ureg.Utxos(a))) || host.Areg.IsRegistered(a) != server.Areg.IsRegistered(a) {
					out.Violation("C08", id, fmt.Sprintf("state\tafter convergence Utxos(%s)/IsRegistered differ from the serving node", a))
				}
			}
		}
		// paging sweep on the serving node
		checkPaging(server, served, set, out, id, stats)
		out.Case(rec.Emit())
		for k, d := range rec.Digests {
			out.Digest(id, k, rec.OpKinds[k], d)
		}
		stats.Cases++
		stats.Ops += len(rec.Ops)
	}
}

func checkPaging(server *Node, served []*ledger.Block, set *Settings, out *Out, id string, stats *Stats) {
	n := uint64(len(served))
	hs := []uint64{1 << 63, ^uint64(0), ^uint64(0) - set.Limit, ^uint64(0) - set.Limit + 1}
	for h := uint64(0); h <= n+2; h++ {
		hs = append(hs, h)
	}
	for _, h := range hs {
		page := server.Chain.Blocks(h)
		start, cnt := int64(-1), len(page)
		if cnt > 0 {
			for k, b := range served {
				if b == page[0] {
					start = int64(k)
				}
			}
		}
		out.Case(sx("pagecase", fmt.Sprintf("%s_h%d", id, h), u64(set.Limit), u64(n), u64(h), i64(start), fmt.Sprintf("%d", cnt)))
		stats.Ops++
		// monitor: contiguous slice [h, min(h+limit, n))
		want := 0
		if h < n {
			want = int(n - h)
			if uint64(want) > set.Limit {
				want = int(set.Limit)
			}
		}
		ok := cnt == want
		for k := 0; ok && k < cnt; k++ {
			ok = page[k] == served[int(h)+k]
		}
		if !ok {
			out.Violation("C08", id, fmt.Sprintf("paging\tBlocks(%d) on a chain of %d with page %d returned %d blocks starting at %d", h, n, set.Limit, cnt, start))
		}
	}
}
