package main

import (
	"encoding/json"
	"os"
	"sort"
	"sync"
)

// Stats: the input distribution of a run (what kinds of cases were generated and what
// happened), written next to the case file and copied into the evidence.
type Stats struct {
	mu       sync.Mutex
	Counts   map[string]int    `json:"counts"`
	Cases    int               `json:"cases"`
	Ops      int               `json:"ops"`
	Samples  []string          `json:"samples"`
	Distinct map[string]bool   `json:"-"`
	Notes    map[string]string `json:"notes,omitempty"`
}

func NewStats() *Stats {
	return &Stats{Counts: map[string]int{}, Distinct: map[string]bool{}, Notes: map[string]string{}}
}
func (s *Stats) Count(k string) {
	s.mu.Lock()
	s.Counts[k]++
	s.mu.Unlock()
}
func (s *Stats) Sample(x string) {
	s.mu.Lock()
	if len(s.Samples) < 3 {
		if len(x) > 1500 {
			x = x[:1500] + "…"
		}
		s.Samples = append(s.Samples, x)
	}
	s.mu.Unlock()
}
func (s *Stats) Mark(k string) {
	s.mu.Lock()
	s.Distinct[k] = true
	s.mu.Unlock()
}
func (s *Stats) Write(path string) {
	type kv struct {
		K string `json:"k"`
		N int    `json:"n"`
	}
	var l []kv
	for k, n := range s.Counts {
		l = append(l, kv{k, n})
	}
	sort.Slice(l, func(i, j int) bool { return l[i].K < l[j].K })
	out := map[string]interface{}{"cases": s.Cases, "ops": s.Ops, "histogram": l, "samples": s.Samples,
		"distinct_nontrivial": len(s.Distinct), "notes": s.Notes}
	b, _ := json.MarshalIndent(out, "", " ")
	_ = os.WriteFile(path, b, 0o644)
}
