package main

import (
	"bytes"
	"encoding/hex"
	"encoding/json"
	"fmt"
	"strings"
	"unicode/utf8"
)

// lex suite: the bytes -> tree step. The model's parser (model/JsonParse.v, parse_json) stands for
// encoding/json's scanner, number grammar and string unquoting; it is tied to them here: generated
// texts (documents served by a node with syntactic mutations, string literals with every escape
// form, number literals around the grammar's edges) are judged by Go and by the model.
//   lexcase doc    <text>  valid|invalid                       (json.Valid)
//   lexcase string <text>  err | ok:<hex of json.Marshal(decoded string)>
//   lexcase number <text>  err | ok:<literal>                   (decoded into json.Number)
// Texts are kept valid UTF-8: Go replaces invalid UTF-8 by U+FFFD, which the model does not represent.

var lexStringPieces = []string{
	"a", "Z", " ", "\\\"", "\\\\", "\\/", "\\b", "\\f", "\\n", "\\r", "\\t", "\\u0041", "\\u00e9", "\\u00E9", "\\u20ac", "\\u2028", "\\u2029", "\\u0000", "\\u001f", "\\ud83d\\ude00", "\\uD83D\\uDE00", "\\ud83d", "\\ude00", "\\ud83d\\u0041", "\\ud83dx", "\\ud83d\\ud83d\\ude00", "\\uffff", "\\ufffd", "\u00e9", "\u20ac", "\U0001f600", "\u2028", "<", ">", "&", "'", "/", "\\u003c", "\\u12", "\\u12g4", "\\x", "\\", "\\u", "\x09", "\x0a", "\x01", "\x1f", "\x7f", "\"", "\\a", "\\0", "\\U0041",
}

var lexNumbers = []string{
	"0", "-0", "1", "-1", "10", "01", "-01", "00", "1.5", "1.", ".5", "-.5", "1.0", "1e3", "1E3", "1e+3", "1e-3", "1e", "1e+", "1.5e3", "1.e3", "+1", "--1", "-", "1-", "1e3.5",
	"18446744073709551615", "18446744073709551616", "-9223372036854775808", "123456789012345678901234567890", "0.0", "-0.0", "0e0", "0x10", "1_000", "1 2", "Infinity", "NaN", "1e999", "9007199254740993",
}

func lexDocMutations(r *Rng, doc string) []string {
	var out []string
	b := []byte(doc)
	pick := func() int { return r.Intn(len(b)) }
	for k := 0; k < 10 && len(b) > 2; k++ {
		i := pick()
		switch r.Intn(9) {
		case 0: // drop a byte
			out = append(out, string(append(append([]byte{}, b[:i]...), b[i+1:]...)))
		case 1: // duplicate a byte
			out = append(out, string(append(append(append([]byte{}, b[:i+1]...), b[i]), b[i+1:]...)))
		case 2: // insert whitespace
			ws := []string{" ", "\n", "\t", "\r", " \n\t"}[r.Intn(5)]
			out = append(out, doc[:i]+ws+doc[i:])
		case 3: // insert a structural character
			c := []string{",", ":", "[", "]", "{", "}", `"`, "\\", "0", "-", ".", "e", "n", "t", "\x00", "\x0b"}[r.Intn(16)]
			out = append(out, doc[:i]+c+doc[i:])
		case 4: // truncate
			out = append(out, doc[:i])
		case 5: // trailing data
			out = append(out, doc+[]string{" ", "x", "null", ",", "]", "\n\n"}[r.Intn(6)])
		case 6: // literal spelling
			l := []string{"null", "true", "false"}[r.Intn(3)]
			out = append(out, strings.Replace(doc, l, l[:len(l)-1]+"x", 1), strings.Replace(doc, l, strings.ToUpper(l), 1), strings.Replace(doc, l, l[:len(l)-1], 1))
		case 7: // leading data
			out = append(out, []string{" ", "\ufeff", "x", ",", "\n"}[r.Intn(5)]+doc)
		case 8: // swap two bytes
			j := pick()
			c := append([]byte{}, b...)
			c[i], c[j] = c[j], c[i]
			out = append(out, string(c))
		}
	}
	return out
}

func emitLexCases(r *Rng, id string, docs []string, out *Out, stats *Stats) {
	n := 0
	emit := func(kind, text, got string) {
		if !utf8.ValidString(text) {
			return
		}
		n++
		stats.Count("lex/" + kind + "/" + got[:indexOrLen(got, ':')])
		stats.Mark("lex/" + md5hex(kind + text)[:10])
		stats.Ops++
		out.Case(sx("lexcase", fmt.Sprintf("%s_x%d", id, n), kind, "$"+hex.EncodeToString([]byte(text)), atom(got)))
	}
	verdict := func(t string) string {
		if json.Valid([]byte(t)) {
			return "valid"
		}
		return "invalid"
	}
	for _, d := range docs {
		emit("doc", d, verdict(d))
		var ind bytes.Buffer
		if json.Indent(&ind, []byte(d), " ", "\t") == nil {
			emit("doc", ind.String(), verdict(ind.String()))
		}
		for _, m := range lexDocMutations(r, d) {
			emit("doc", m, verdict(m))
		}
	}
	for k := 0; k < 24; k++ {
		var sb strings.Builder
		sb.WriteByte('"')
		for j := r.Intn(5); j >= 0; j-- {
			sb.WriteString(lexStringPieces[r.Intn(len(lexStringPieces))])
		}
		sb.WriteByte('"')
		text := sb.String()
		var s string
		if err := json.Unmarshal([]byte(text), &s); err != nil {
			emit("string", text, "err")
		} else {
			emit("string", text, "ok:"+hex.EncodeToString(mustJSON(s)))
		}
	}
	for k := 0; k < 12; k++ {
		text := lexNumbers[r.Intn(len(lexNumbers))]
		if r.Chance(1, 4) {
			text = fmt.Sprintf("%d", int64(r.Next()))
		}
		var num json.Number
		d := json.NewDecoder(strings.NewReader(text))
		d.UseNumber()
		var v interface{}
		if err := d.Decode(&v); err != nil || d.More() || !json.Valid([]byte(text)) {
			emit("number", text, "err")
		} else if nn, ok := v.(json.Number); ok {
			num = nn
			emit("number", text, "ok:"+num.String())
		} else {
			emit("number", text, "err")
		}
	}
}

func runLexSuite(seed uint64, n int, out *Out, stats *Stats) {
	for i := 0; i < n; i++ {
		id := fmt.Sprintf("lx%d_%d", seed, i)
		r := NewRng(seed*7919 + uint64(i))
		set := pickSettings(r)
		w := &World{r: r, set: set, stats: NewStats(), mode: "mixed"}
		for k := 0; k < 4; k++ {
			w.wallets = append(w.wallets, NewWallet(k))
		}
		v := NewNode(set, w.wallets[0].Addr)
		w.host = v
		w.now = t0 - (t0 % set.Interval)
		for k := 0; k < 3; k++ {
			w.now += set.Interval
			if tx, _ := w.genTx(v); tx != nil {
				v.Pool.AddTransaction(tx, "a", "b")
			}
			v.Pool.Validate(w.now)
		}
		docs := []string{string(mustJSON(v.AllBlocks())), string(mustJSON(v.Ureg.Utxos(w.wallets[0].Addr))), `{"a":[1,2.5e-3,{"b":null,"c":[true,false,"xé\n"]}],"":"","k":-0}`, "[]", "{}", `""`, "0", "null", " [ ] ", "{ }"}
		emitLexCases(r, id, docs, out, stats)
		stats.Cases++
		if i < 2 {
			stats.Sample(fmt.Sprintf("%s: %d documents with syntactic mutations, 24 string literals, 12 number literals", id, len(docs)))
		}
	}
}
