#!/bin/bash
# confirm_mut.sh <root> <id>: re-confirm a seeded change in its scratch worktree <root>/wt_<id> with outputs in <root>/out_<id>:
# the existing suite passes with the change, the demonstration fails with it and passes without it.
export GOFLAGS=-mod=mod GOPROXY=off GOSUMDB=off GOTOOLCHAIN=local
R=$1; P=$2; WT=$R/wt_$P; OUT=$R/out_$P
cd $WT || exit 1
demo=$(git status --porcelain | grep '^??' | awk '{print $2}' | tr '\n' ' ')
pkgs=""
for d in $demo; do if [ -d "$d" ]; then pkgs="$pkgs ./$d..."; else pkgs="$pkgs ./$(dirname $d)/"; fi; done
mkdir -p /tmp/mutstash_$P; for d in $demo; do mkdir -p /tmp/mutstash_$P/$(dirname $d); mv $d /tmp/mutstash_$P/$d; done
echo "[$P] existing suite with the change (demo moved aside):"
go build ./... 2>&1 | grep -v WARNING | head -3
go test -vet=off -count=1 ./... 2>&1 | grep -v WARNING | grep -v "no test files" | grep -vE "^ok" | head -5
for d in $demo; do mv /tmp/mutstash_$P/$d $d; done; rm -rf /tmp/mutstash_$P
echo "[$P] demo with the change (expected FAIL): $(go test -vet=off -count=1 $pkgs 2>&1 | grep -E '^(ok|FAIL|---)' | head -3 | tr '\n' ' ')"
git apply -R $OUT/patch.diff || echo "cannot reverse patch"
echo "[$P] demo without the change (expected ok): $(go test -vet=off -count=1 $pkgs 2>&1 | grep -E '^(ok|FAIL|---)' | head -3 | tr '\n' ' ')"
git apply $OUT/patch.diff
echo "[$P] patch: $(grep -c '^[+-][^+-]' $OUT/patch.diff) changed lines in $(grep -c '^diff' $OUT/patch.diff) file(s)"
