#!/bin/bash
# regress_seeded.sh [tier] — development tool, not a registered check: applies every seeded change of
# /verif/seeded in turn to /repo's working tree, runs the quick (or given) check of its property,
# and reverts. Prints one line per change: caught / MISSED / PATCH DOES NOT APPLY. /repo must be clean.
export GOFLAGS=-mod=mod GOPROXY=off GOSUMDB=off GOTOOLCHAIN=local
cd "$(dirname "$0")"
tier="${1:-quick}"
if [ -n "$(git -C /repo status --porcelain)" ]; then echo "/repo is not clean"; exit 2; fi
for d in seeded/*/; do
  n=$(basename "$d")
  p=$(python3 -c "import json;print(json.load(open('$d/meta.json'))['property'])")
  if ! git -C /repo apply --check "$PWD/$d/patch.diff" 2>/dev/null; then echo "$n ($p): PATCH DOES NOT APPLY"; continue; fi
  git -C /repo apply "$PWD/$d/patch.diff"
  r=$(python3 run.py "$p" "$tier" 2>&1 | grep -E "VIOLATION|$tier:" | cut -c1-200 | head -3 | tr '\n' '|')
  git -C /repo checkout -- .
  if echo "$r" | grep -q VIOLATION; then echo "$n ($p): caught  $(echo "$r" | grep -o 'VIOLATION[^|]*' | head -1 | cut -c1-150)"; else echo "$n ($p): MISSED $r"; fi
done
./build.sh go >/dev/null 2>&1
echo REGRESS-DONE
