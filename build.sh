#!/bin/bash
# build.sh — builds everything the checks need, from files on disk only (offline).
#   coq: full .vo build of the development (never -vos)
#   ocaml: extraction of the executable model + driver
#   go: the correspondence harness, against /repo's current working tree
set -e
cd "$(dirname "$0")"
export GOFLAGS=-mod=mod GOPROXY=off GOSUMDB=off GOTOOLCHAIN=local
what="${1:-all}"
mkdir -p bin work
(
  flock 9
  if [ "$what" = all ] || [ "$what" = coq ] || [ "$what" = gen ]; then
    # translators: regenerate the table-shaped parts of the model from /repo's current source
    ( cd tools/genlockset && timeout 600 go build -o ../../bin/genlockset . ) > work/tools_build.log 2>&1 || { tail -20 work/tools_build.log; echo "TOOLS BUILD FAILED"; exit 3; }
    ( cd tools/genendpoints && timeout 600 go build -o ../../bin/genendpoints . ) >> work/tools_build.log 2>&1 || { tail -20 work/tools_build.log; echo "TOOLS BUILD FAILED"; exit 3; }
    ./bin/genlockset /repo coq/gen/Lockset_gen.v > work/gen.log 2>&1 || { cat work/gen.log; echo "TRANSLATOR FAILED"; exit 5; }
    ./bin/genendpoints /repo coq/gen/Endpoints_gen.v >> work/gen.log 2>&1 || { cat work/gen.log; echo "TRANSLATOR FAILED"; exit 5; }
    python3 mkknown.py
  fi
  if [ "$what" = all ] || [ "$what" = coq ]; then
    ( cd coq && { [ -f Makefile ] && [ Makefile -nt _CoqProject ] || coq_makefile -f _CoqProject -o Makefile >/dev/null; } && timeout 3000 make -j16 2>&1 | grep -v "WARNING: overwriting environment" ) > work/coq_build.log 2>&1 || { cat work/coq_build.log | tail -40; echo "COQ BUILD FAILED"; exit 3; }
  fi
  if [ "$what" = all ] || [ "$what" = ocaml ]; then
    if [ ! -x bin/modelrun ] || [ -n "$(find coq/model coq/extract ocaml/sx.ml ocaml/driver.ml -newer bin/modelrun -name '*.v' -o -newer bin/modelrun -name '*.ml' | head -1)" ]; then
      ( cd ocaml && timeout 600 coqc -Q ../coq RV ../coq/extract/Extract.v && timeout 600 ocamlfind ocamlopt -O2 -package zarith -linkpkg -w -a Model.mli Model.ml sx.ml driver.ml -o ../bin/modelrun ) > work/ocaml_build.log 2>&1 || { tail -40 work/ocaml_build.log; echo "OCAML BUILD FAILED"; exit 3; }
    fi
  fi
  if [ "$what" = race ]; then
    ( cd harness && cp /repo/go.sum . && timeout 1200 go build -race -o ../bin/rvharness_race . ) > work/go_race_build.log 2>&1 || { tail -40 work/go_race_build.log; echo "GO BUILD FAILED"; exit 4; }
  fi
  if [ "$what" = all ] || [ "$what" = go ]; then
    ( cd harness && cp /repo/go.sum . && timeout 900 go build -o ../bin/rvharness . ) > work/go_build.log 2>&1 || { tail -40 work/go_build.log; echo "GO BUILD FAILED"; exit 4; }
  fi
) 9> work/.build.lock
