module genendpoints

go 1.19
