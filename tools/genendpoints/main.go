// genendpoints — translator from /repo's Go source to the endpoint table of C15:
// endpoint constants, which constant each Node setter call passes, which handler each Host
// setter binds, and which constant and request encoding each client method uses.
package main

import (
	"fmt"
	"go/ast"
	"go/parser"
	"go/printer"
	"go/token"
	"os"
	"path/filepath"
	"sort"
	"strings"
)

func q(s string) string { return "\"" + s + "\"" }

func sel(e ast.Expr) string {
	switch x := e.(type) {
	case *ast.Ident:
		return x.Name
	case *ast.SelectorExpr:
		return sel(x.X) + "." + x.Sel.Name
	}
	return "?"
}

func main() {
	repo, outPath := "/repo", "/verif/coq/gen/Endpoints_gen.v"
	if len(os.Args) > 1 {
		repo = os.Args[1]
	}
	if len(os.Args) > 2 {
		outPath = os.Args[2]
	}
	fset := token.NewFileSet()
	parse := func(rel string) *ast.File {
		f, err := parser.ParseFile(fset, filepath.Join(repo, rel), nil, 0)
		if err != nil {
			fmt.Fprintln(os.Stderr, err)
			os.Exit(1)
		}
		return f
	}
	// 1. constants and client methods (infrastructure/p2p/neighbor.go)
	nf := parse("validatornode/infrastructure/p2p/neighbor.go")
	var consts, client []string
	for _, d := range nf.Decls {
		if gd, ok := d.(*ast.GenDecl); ok && gd.Tok == token.CONST {
			for _, sp := range gd.Specs {
				vs := sp.(*ast.ValueSpec)
				for i, n := range vs.Names {
					if i < len(vs.Values) {
						if bl, ok := vs.Values[i].(*ast.BasicLit); ok {
							consts = append(consts, fmt.Sprintf("  (%s, %s)", q(n.Name), bl.Value))
						}
					}
				}
			}
		}
		if fd, ok := d.(*ast.FuncDecl); ok && fd.Recv != nil && fd.Body != nil {
			ast.Inspect(fd.Body, func(n ast.Node) bool {
				if c, ok := n.(*ast.CallExpr); ok {
					name := sel(c.Fun)
					if (strings.HasSuffix(name, ".sendRequest") || strings.HasSuffix(name, ".sendRequestBytes")) && len(c.Args) >= 1 {
						if id, ok := c.Args[0].(*ast.Ident); ok && fd.Name.Name != "sendRequest" {
							kind := "json"
							if strings.HasSuffix(name, "Bytes") {
								kind = "bytes"
							}
							client = append(client, fmt.Sprintf("  (%s, %s, %s)", q(fd.Name.Name), q(id.Name), q(kind)))
						}
					}
				}
				return true
			})
		}
	}
	// 2. Node: server.SetHandleXRequest(p2p.Const)
	nd := parse("validatornode/presentation/node.go")
	var node []string
	ast.Inspect(nd, func(n ast.Node) bool {
		if c, ok := n.(*ast.CallExpr); ok {
			name := sel(c.Fun)
			if strings.HasPrefix(name, "server.SetHandle") && len(c.Args) == 1 {
				arg := sel(c.Args[0])
				node = append(node, fmt.Sprintf("  (%s, %s)", q(strings.TrimPrefix(name, "server.")), q(strings.TrimPrefix(arg, "p2p."))))
			}
		}
		return true
	})
	// 3. Host: func (host *Host) SetHandleX(endpoint) { host.SetHandle(endpoint, host.ctrl.Handler) }
	hf := parse("validatornode/presentation/api/host.go")
	var host []string
	for _, d := range hf.Decls {
		if fd, ok := d.(*ast.FuncDecl); ok && fd.Recv != nil && fd.Body != nil && strings.HasPrefix(fd.Name.Name, "SetHandle") {
			ast.Inspect(fd.Body, func(n ast.Node) bool {
				if c, ok := n.(*ast.CallExpr); ok && sel(c.Fun) == "host.SetHandle" && len(c.Args) == 2 {
					first := sel(c.Args[0])
					param := "?"
					if fd.Type.Params != nil && len(fd.Type.Params.List) > 0 && len(fd.Type.Params.List[0].Names) > 0 {
						param = fd.Type.Params.List[0].Names[0].Name
					}
					passes := "param"
					if first != param {
						passes = first
					}
					host = append(host, fmt.Sprintf("  (%s, %s, %s)", q(fd.Name.Name), q(strings.TrimPrefix(sel(c.Args[1]), "host.")), q(passes)))
				}
				return true
			})
		}
	}
	sort.Strings(client)
	sort.Strings(node)
	sort.Strings(host)
	// 4. composition (validatornode/main.go, presentation/api/host.go, accessnode/presentation/node.go):
	// which function, period, occurrences each engine gets; which timeouts the server is given;
	// which sender each access-node controller gets
	text := func(e ast.Expr) string {
		var sb strings.Builder
		_ = printer.Fprint(&sb, fset, e)
		return strings.Join(strings.Fields(sb.String()), " ")
	}
	var engines, hostSets, access []string
	mf := parse("validatornode/main.go")
	ast.Inspect(mf, func(n ast.Node) bool {
		as, ok := n.(*ast.AssignStmt)
		if !ok || len(as.Lhs) != 1 || len(as.Rhs) != 1 {
			return true
		}
		c, ok := as.Rhs[0].(*ast.CallExpr)
		if !ok || sel(c.Fun) != "clock.NewEngine" || len(c.Args) != 5 {
			return true
		}
		engines = append(engines, fmt.Sprintf("  (%s, %s, %s, %s, %s)", q(text(as.Lhs[0])), q(text(c.Args[0])), q(text(c.Args[2])), q(text(c.Args[3])), q(text(c.Args[4]))))
		return true
	})
	var nodeArgs []string
	ast.Inspect(mf, func(n ast.Node) bool {
		c, ok := n.(*ast.CallExpr)
		if !ok {
			return true
		}
		switch sel(c.Fun) {
		case "presentation.NewNode":
			for _, a := range c.Args {
				nodeArgs = append(nodeArgs, q(text(a)))
			}
		case "api.NewHost":
			for i, a := range c.Args {
				hostSets = append(hostSets, fmt.Sprintf("  (%s, %s)", q(fmt.Sprintf("NewHost.arg%d", i)), q(text(a))))
			}
		}
		return true
	})
	ast.Inspect(hf, func(n ast.Node) bool {
		c, ok := n.(*ast.CallExpr)
		if !ok {
			return true
		}
		if se, ok := c.Fun.(*ast.SelectorExpr); ok && sel(se.X) == "serverSettings" && len(c.Args) == 1 {
			hostSets = append(hostSets, fmt.Sprintf("  (%s, %s)", q("serverSettings."+se.Sel.Name), q(text(c.Args[0]))))
		}
		return true
	})
	af := parse("accessnode/presentation/node.go")
	senderParam := "?"
	for _, d := range af.Decls {
		fd, ok := d.(*ast.FuncDecl)
		if !ok || fd.Name.Name != "NewNode" {
			continue
		}
		for _, fl := range fd.Type.Params.List {
			if text(fl.Type) == "application.Sender" && len(fl.Names) > 0 {
				senderParam = fl.Names[0].Name
			}
		}
		ast.Inspect(fd, func(n ast.Node) bool {
			c, ok := n.(*ast.CallExpr)
			if !ok {
				return true
			}
			name := sel(c.Fun)
			if strings.Contains(name, ".New") && strings.HasSuffix(name, "Controller") {
				first := "-"
				if len(c.Args) > 0 {
					first = text(c.Args[0])
				}
				if first == senderParam {
					first = "sender-parameter"
				}
				access = append(access, fmt.Sprintf("  (%s, %s)", q(name), q(first)))
			}
			return true
		})
	}
	sort.Strings(access)
	// 6. clock readings of the access-node controllers: per exported handler, how many `watch.Now()`
	// call sites it reaches (its own body plus the methods of the same receiver it calls, call sites
	// counted with multiplicity) and how many of them sit inside a loop
	var clockReads []string
	for _, rel := range []string{"accessnode/presentation/api/payment/info_controller.go", "accessnode/presentation/api/payment/progress_controller.go", "accessnode/presentation/api/wallet/amount_controller.go"} {
		cf := parse(rel)
		type minfo struct {
			direct, inLoop int
			calls          []string
			exported       bool
			recv           string
		}
		methods := map[string]*minfo{}
		for _, d := range cf.Decls {
			fd, ok := d.(*ast.FuncDecl)
			if !ok || fd.Recv == nil || fd.Body == nil || len(fd.Recv.List) == 0 || len(fd.Recv.List[0].Names) == 0 {
				continue
			}
			recvName := fd.Recv.List[0].Names[0].Name
			mi := &minfo{exported: ast.IsExported(fd.Name.Name), recv: strings.TrimPrefix(text(fd.Recv.List[0].Type), "*")}
			var walk func(n ast.Node, loop bool)
			walk = func(n ast.Node, loop bool) {
				ast.Inspect(n, func(x ast.Node) bool {
					switch v := x.(type) {
					case *ast.ForStmt:
						if v != n {
							walk(v.Body, true)
							return false
						}
					case *ast.RangeStmt:
						if v != n {
							walk(v.Body, true)
							return false
						}
					case *ast.CallExpr:
						name := sel(v.Fun)
						if strings.HasSuffix(name, ".watch.Now") || name == "watch.Now" {
							mi.direct++
							if loop {
								mi.inLoop++
							}
						} else if strings.HasPrefix(name, recvName+".") && strings.Count(name, ".") == 1 {
							mi.calls = append(mi.calls, strings.TrimPrefix(name, recvName+"."))
						}
					}
					return true
				})
			}
			walk(fd.Body, false)
			methods[fd.Name.Name] = mi
		}
		var total func(name string, depth int) (int, int)
		total = func(name string, depth int) (int, int) {
			mi := methods[name]
			if mi == nil || depth > 8 {
				return 0, 0
			}
			t, l := mi.direct, mi.inLoop
			for _, c := range mi.calls {
				ct, cl := total(c, depth+1)
				t, l = t+ct, l+cl
			}
			return t, l
		}
		var names []string
		for n := range methods {
			names = append(names, n)
		}
		sort.Strings(names)
		for _, n := range names {
			if methods[n].exported {
				t, l := total(n, 0)
				clockReads = append(clockReads, fmt.Sprintf("  (%s, %d, %d)", q(methods[n].recv+"."+n), t, l))
			}
		}
	}
	var b strings.Builder
	b.WriteString("(* GENERATED by /verif/tools/genendpoints from /repo's current source. Do not edit. *)\n")
	b.WriteString("From RV Require Import model.Base.\nLocal Open Scope string_scope.\n\n")
	b.WriteString("(* endpoint constant name, its string value *)\nDefinition endpoint_consts : list (string * string) := [\n" + strings.Join(consts, ";\n") + "\n].\n\n")
	b.WriteString("(* Node.NewNode: server setter called, constant passed *)\nDefinition node_bind : list (string * string) := [\n" + strings.Join(node, ";\n") + "\n].\n\n")
	b.WriteString("(* Host setter, handler it binds, what it passes as the endpoint (\"param\" = its own argument) *)\nDefinition host_bind : list (string * string * string) := [\n" + strings.Join(host, ";\n") + "\n].\n\n")
	b.WriteString("(* client method of Neighbor, constant it sends to, request encoding *)\nDefinition client_bind : list (string * string * string) := [\n" + strings.Join(client, ";\n") + "\n].\n")
	b.WriteString("\n(* validatornode/main.go: engine variable, function, period, occurrences, skipped occurrences *)\nDefinition engine_wiring : list (string * string * string * string * string) := [\n" + strings.Join(engines, ";\n") + "\n].\n\n")
	b.WriteString("(* validatornode/main.go: the engines handed to presentation.NewNode after the host *)\nDefinition node_engines : list string := [" + strings.Join(nodeArgs, "; ") + "].\n\n")
	b.WriteString("(* api.NewHost arguments in main.go and the server settings set in host.go *)\nDefinition host_wiring : list (string * string) := [\n" + strings.Join(hostSets, ";\n") + "\n].\n\n")
	b.WriteString("(* accessnode/presentation/node.go: controller constructor, its first argument (sender-parameter = NewNode's own sender) *)\nDefinition access_wiring : list (string * string) := [\n" + strings.Join(access, ";\n") + "\n].\n")
	b.WriteString("\n(* access-node handlers: handler, watch.Now() call sites it reaches (with multiplicity), how many of them inside a loop *)\nDefinition clock_reads : list (string * nat * nat) := [\n" + strings.Join(clockReads, ";\n") + "\n].\n")
	old, _ := os.ReadFile(outPath)
	if string(old) != b.String() {
		if err := os.WriteFile(outPath, []byte(b.String()), 0o644); err != nil {
			fmt.Fprintln(os.Stderr, err)
			os.Exit(1)
		}
	}
	fmt.Printf("genendpoints: %d constants, %d node bindings, %d host bindings, %d client methods\n", len(consts), len(node), len(host), len(client))
}
