module genlockset

go 1.19
