// genlockset — translator from /repo's Go source to the table-shaped part of the C16 model.
// For every method of the node's shared components it lists the receiver-field accesses
// (read / write) with the locks held at that point, inlining calls on the receiver and on the
// receiver's collaborator fields, and the lock-acquisition order edges. Purely syntactic
// (go/ast); its rules are listed in DESIGN.md section 3.13.
package main

import (
	"fmt"
	"go/ast"
	"go/parser"
	"go/token"
	"os"
	"path/filepath"
	"sort"
	"strings"
)

var files = map[string]string{
	"Blockchain":        "validatornode/application/verification/blockchain.go",
	"UtxosRegistry":     "validatornode/application/verification/utxos_registry.go",
	"AddressesRegistry": "validatornode/application/verification/addresses_registry.go",
	"TransactionsPool":  "validatornode/application/validation/transactions_pool.go",
	"Neighborhood":      "validatornode/application/network/neighborhood.go",
	"Engine":            "validatornode/domain/clock/engine.go",
}

type access struct {
	typ, method, field, rw string
	locks                  []string // "Type.lock:W:section" / ":R:section"
	via                    string
}
type method struct {
	typ, name string
	decl      *ast.FuncDecl
	recv      string
}

var methods = map[string]*method{}       // "Type.name"
var byName = map[string][]*method{}      // name -> methods of analysed types
var fieldTypes = map[string]string{}     // "Type.field" -> declared type text
var mutexFields = map[string]bool{}      // "Type.field"
var ifaceImpl = map[string]string{       // interface (or pointer) type of a collaborator field -> analysed type
	"application.UtxosManager": "UtxosRegistry", "application.AddressesManager": "AddressesRegistry",
	"application.BlocksManager": "Blockchain", "application.SendersManager": "Neighborhood",
	"application.TransactionsManager": "TransactionsPool",
}

func exprText(e ast.Expr) string {
	switch x := e.(type) {
	case *ast.Ident:
		return x.Name
	case *ast.SelectorExpr:
		return exprText(x.X) + "." + x.Sel.Name
	case *ast.StarExpr:
		return "*" + exprText(x.X)
	case *ast.ArrayType:
		return "[]" + exprText(x.Elt)
	case *ast.MapType:
		return "map[" + exprText(x.Key) + "]" + exprText(x.Value)
	case *ast.FuncType:
		return "func"
	}
	return "?"
}

var sectionCounter int

type walker struct {
	m        *method
	held     []string
	aliases  map[string]string // local variable -> receiver field it aliases
	detached map[string]bool   // alias whose field has since been given a fresh value: it is the only holder of the old one
	out      *[]access
	edges    *map[string]bool
	stack    map[string]bool
	viaPath  string
	rootType string
	rootMeth string
}

func (w *walker) record(field, rw string) {
	key := w.m.typ + "." + field
	if mutexFields[key] {
		return
	}
	l := append([]string(nil), w.held...)
	sort.Strings(l)
	*w.out = append(*w.out, access{w.m.typ, w.rootMeth, field, rw, l, w.viaPath})
}

func (w *walker) recvField(e ast.Expr) (string, bool) {
	if s, ok := e.(*ast.SelectorExpr); ok {
		if id, ok := s.X.(*ast.Ident); ok && id.Name == w.m.recv {
			if _, isField := fieldTypes[w.m.typ+"."+s.Sel.Name]; isField {
				return s.Sel.Name, true
			}
		}
	}
	return "", false
}

// base field of an lvalue like recv.F, recv.F[i], alias[i]
func (w *walker) lvalueField(e ast.Expr) (string, bool) {
	switch x := e.(type) {
	case *ast.SelectorExpr:
		return w.recvField(x)
	case *ast.IndexExpr:
		if f, ok := w.recvField(x.X); ok {
			return f, true
		}
		if id, ok := x.X.(*ast.Ident); ok {
			if f, ok := w.aliases[id.Name]; ok {
				return f, true
			}
		}
		if ix, ok := x.X.(*ast.IndexExpr); ok { // m[k][i] = ...
			return w.lvalueField(ix)
		}
	case *ast.Ident:
		// plain re-assignment of an alias does not touch the field
	}
	return "", false
}

func (w *walker) lock(name, mode string) {
	full := w.m.typ + "." + name
	for _, h := range w.held {
		hn := strings.Split(h, ":")[0]
		if hn != full {
			(*w.edges)[hn+" -> "+full] = true
		}
	}
	// an episode = a maximal period during which some lock of this component is held
	episode := 0
	for _, h := range w.held {
		p := strings.Split(h, ":")
		if strings.HasPrefix(p[0], w.m.typ+".") {
			fmt.Sscanf(p[2], "%d", &episode)
		}
	}
	if episode == 0 {
		sectionCounter++
		episode = sectionCounter
	}
	w.held = append(w.held, fmt.Sprintf("%s:%s:%d", full, mode, episode))
}
func (w *walker) unlock(name string) {
	full := w.m.typ + "." + name
	for i := len(w.held) - 1; i >= 0; i-- {
		if strings.HasPrefix(w.held[i], full+":") {
			w.held = append(w.held[:i:i], w.held[i+1:]...)
			return
		}
	}
}

func (w *walker) inline(target *method) {
	key := target.typ + "." + target.name
	if w.stack[key] {
		return
	}
	sub := &walker{m: target, aliases: map[string]string{}, out: w.out, edges: w.edges, stack: w.stack,
		viaPath: w.viaPath + ">" + key, rootType: w.rootType, rootMeth: w.rootMeth}
	// locks held by the caller protect the callee too; they keep the caller's qualified names
	sub.held = append([]string(nil), w.held...)
	w.stack[key] = true
	sub.walkBody(target.decl.Body)
	delete(w.stack, key)
}

func (w *walker) walkBody(b *ast.BlockStmt) {
	if b == nil {
		return
	}
	for _, s := range b.List {
		w.stmt(s)
	}
}

func (w *walker) stmt(s ast.Stmt) {
	switch x := s.(type) {
	case *ast.ExprStmt:
		w.expr(x.X, false)
	case *ast.DeferStmt:
		// defer recv.mu.Unlock(): the lock stays held to the end; other deferred calls are walked
		if name, op, ok := w.lockCall(x.Call); ok && (op == "Unlock" || op == "RUnlock") {
			_ = name
			return
		}
		w.expr(x.Call, false)
	case *ast.GoStmt:
		// a goroutine runs without the caller's locks
		saved := w.held
		w.held = nil
		w.expr(x.Call, false)
		w.held = saved
	case *ast.AssignStmt:
		for _, r := range x.Rhs {
			w.expr(r, false)
		}
		for i, l := range x.Lhs {
			if f, ok := w.lvalueField(l); ok {
				w.record(f, "W")
				if _, whole := l.(*ast.SelectorExpr); whole {
					// recv.F = <something else>: a local that aliased the old value now owns it alone
					for a, af := range w.aliases {
						if af == f {
							if w.detached == nil {
								w.detached = map[string]bool{}
							}
							w.detached[a] = true
						}
					}
				}
			} else {
				w.expr(l, true)
			}
			// alias: x := recv.F   /  x = recv.F
			if id, ok := l.(*ast.Ident); ok && i < len(x.Rhs) {
				if f, ok := w.recvField(x.Rhs[i]); ok {
					w.aliases[id.Name] = f
					delete(w.detached, id.Name)
				} else if call, ok := x.Rhs[i].(*ast.CallExpr); ok {
					// x = append(x[:i], ...) on an alias edits the shared backing array in place
					if fn, ok := call.Fun.(*ast.Ident); ok && fn.Name == "append" && len(call.Args) > 0 {
						if sl, ok := call.Args[0].(*ast.SliceExpr); ok {
							if aid, ok := sl.X.(*ast.Ident); ok {
								if f, ok := w.aliases[aid.Name]; ok {
									w.record(f, "W")
								}
							}
						}
					}
				}
			}
		}
	case *ast.IncDecStmt:
		if f, ok := w.lvalueField(x.X); ok {
			w.record(f, "W")
		}
	case *ast.IfStmt:
		if x.Init != nil {
			w.stmt(x.Init)
		}
		w.expr(x.Cond, false)
		w.walkBody(x.Body)
		if x.Else != nil {
			w.stmt(x.Else)
		}
	case *ast.BlockStmt:
		w.walkBody(x)
	case *ast.ForStmt:
		if x.Init != nil {
			w.stmt(x.Init)
		}
		if x.Cond != nil {
			w.expr(x.Cond, false)
		}
		w.walkBody(x.Body)
		if x.Post != nil {
			w.stmt(x.Post)
		}
	case *ast.RangeStmt:
		w.expr(x.X, false)
		if id, ok := x.X.(*ast.Ident); ok {
			// ranging over a local that still aliases a map field reads that map for the whole loop
			// (maps, unlike slices, may not be read while another goroutine writes them)
			if f, ok := w.aliases[id.Name]; ok && !w.detached[id.Name] && strings.HasPrefix(fieldTypes[w.m.typ+"."+f], "map[") {
				w.record(f, "R")
			}
		}
		w.walkBody(x.Body)
	case *ast.ReturnStmt:
		for _, r := range x.Results {
			w.expr(r, false)
		}
	case *ast.SwitchStmt:
		if x.Tag != nil {
			w.expr(x.Tag, false)
		}
		w.walkBody(x.Body)
	case *ast.CaseClause:
		for _, e := range x.List {
			w.expr(e, false)
		}
		for _, st := range x.Body {
			w.stmt(st)
		}
	case *ast.SelectStmt:
		w.walkBody(x.Body)
	case *ast.CommClause:
		if x.Comm != nil {
			w.stmt(x.Comm)
		}
		for _, st := range x.Body {
			w.stmt(st)
		}
	case *ast.DeclStmt:
		if gd, ok := x.Decl.(*ast.GenDecl); ok {
			for _, sp := range gd.Specs {
				if vs, ok := sp.(*ast.ValueSpec); ok {
					for i, v := range vs.Values {
						w.expr(v, false)
						if i < len(vs.Names) {
							if f, ok := w.recvField(v); ok {
								w.aliases[vs.Names[i].Name] = f
							}
						}
					}
				}
			}
		}
	case *ast.SendStmt:
		w.expr(x.Value, false)
	}
}

// recv.mu.Lock() etc.
func (w *walker) lockCall(c *ast.CallExpr) (string, string, bool) {
	sel, ok := c.Fun.(*ast.SelectorExpr)
	if !ok {
		return "", "", false
	}
	f, ok := w.recvField(sel.X)
	if !ok || !mutexFields[w.m.typ+"."+f] {
		return "", "", false
	}
	return f, sel.Sel.Name, true
}

func (w *walker) expr(e ast.Expr, lhs bool) {
	switch x := e.(type) {
	case nil:
	case *ast.CallExpr:
		if name, op, ok := w.lockCall(x); ok {
			switch op {
			case "Lock":
				w.lock(name, "W")
			case "RLock":
				w.lock(name, "R")
			case "Unlock", "RUnlock":
				w.unlock(name)
			}
			return
		}
		// delete(recv.F, k) / delete(alias, k)
		if fn, ok := x.Fun.(*ast.Ident); ok && fn.Name == "delete" && len(x.Args) > 0 {
			if f, ok := w.recvField(x.Args[0]); ok {
				w.record(f, "W")
			} else if id, ok := x.Args[0].(*ast.Ident); ok {
				if f, ok := w.aliases[id.Name]; ok {
					w.record(f, "W")
				}
			}
			for _, a := range x.Args[1:] {
				w.expr(a, false)
			}
			return
		}
		for _, a := range x.Args {
			w.expr(a, false)
			// an alias handed to a helper that edits slices in place (removeX, Shuffle closures are walked)
			if id, ok := a.(*ast.Ident); ok {
				if f, ok := w.aliases[id.Name]; ok {
					if fn, ok := x.Fun.(*ast.Ident); ok && strings.HasPrefix(fn.Name, "remove") {
						w.record(f, "W")
					}
				}
			}
		}
		if sel, ok := x.Fun.(*ast.SelectorExpr); ok {
			// recv.method(...)
			if id, ok := sel.X.(*ast.Ident); ok && id.Name == w.m.recv {
				if t, ok := methods[w.m.typ+"."+sel.Sel.Name]; ok {
					w.inline(t)
					return
				}
			}
			// recv.field.method(...): a collaborator
			if f, ok := w.recvField(sel.X); ok {
				w.record(f, "R")
				ft := strings.TrimPrefix(fieldTypes[w.m.typ+"."+f], "*")
				impl, ok := ifaceImpl[ft]
				if !ok {
					impl = ft
				}
				if t, ok := methods[impl+"."+sel.Sel.Name]; ok {
					w.inline(t)
				}
				return
			}
			w.expr(sel.X, false)
		} else {
			w.expr(x.Fun, false)
		}
	case *ast.FuncLit:
		w.walkBody(x.Body)
	case *ast.SelectorExpr:
		if f, ok := w.recvField(x); ok {
			if !lhs {
				w.record(f, "R")
			}
			return
		}
		w.expr(x.X, false)
	case *ast.IndexExpr:
		w.expr(x.X, false)
		w.expr(x.Index, false)
	case *ast.SliceExpr:
		w.expr(x.X, false)
		w.expr(x.Low, false)
		w.expr(x.High, false)
	case *ast.BinaryExpr:
		w.expr(x.X, false)
		w.expr(x.Y, false)
	case *ast.UnaryExpr:
		w.expr(x.X, false)
	case *ast.ParenExpr:
		w.expr(x.X, false)
	case *ast.StarExpr:
		w.expr(x.X, false)
	case *ast.CompositeLit:
		for _, el := range x.Elts {
			w.expr(el, false)
		}
	case *ast.KeyValueExpr:
		w.expr(x.Value, false)
	case *ast.TypeAssertExpr:
		w.expr(x.X, false)
	}
}

func q(s string) string { return "\"" + s + "\"" }

func main() {
	repo := "/repo"
	outPath := "/verif/coq/gen/Lockset_gen.v"
	if len(os.Args) > 1 {
		repo = os.Args[1]
	}
	if len(os.Args) > 2 {
		outPath = os.Args[2]
	}
	fset := token.NewFileSet()
	var typeNames []string
	for t := range files {
		typeNames = append(typeNames, t)
	}
	sort.Strings(typeNames)
	for _, t := range typeNames {
		f, err := parser.ParseFile(fset, filepath.Join(repo, files[t]), nil, 0)
		if err != nil {
			fmt.Fprintln(os.Stderr, "parse error:", err)
			os.Exit(1)
		}
		for _, d := range f.Decls {
			switch x := d.(type) {
			case *ast.GenDecl:
				for _, sp := range x.Specs {
					ts, ok := sp.(*ast.TypeSpec)
					if !ok || ts.Name.Name != t {
						continue
					}
					st, ok := ts.Type.(*ast.StructType)
					if !ok {
						continue
					}
					for _, fl := range st.Fields.List {
						ft := exprText(fl.Type)
						for _, n := range fl.Names {
							fieldTypes[t+"."+n.Name] = ft
							if ft == "sync.RWMutex" || ft == "sync.Mutex" {
								mutexFields[t+"."+n.Name] = true
							}
						}
					}
				}
			case *ast.FuncDecl:
				if x.Recv == nil || len(x.Recv.List) == 0 {
					continue
				}
				rt := strings.TrimPrefix(exprText(x.Recv.List[0].Type), "*")
				if rt != t {
					continue
				}
				recv := "_"
				if len(x.Recv.List[0].Names) > 0 {
					recv = x.Recv.List[0].Names[0].Name
				}
				m := &method{t, x.Name.Name, x, recv}
				methods[t+"."+x.Name.Name] = m
				byName[x.Name.Name] = append(byName[x.Name.Name], m)
			}
		}
	}
	var all []access
	edges := map[string]bool{}
	var keys []string
	for k := range methods {
		keys = append(keys, k)
	}
	sort.Strings(keys)
	var entries []string
	for _, k := range keys {
		m := methods[k]
		if !ast.IsExported(m.name) {
			continue
		}
		entries = append(entries, k)
		w := &walker{m: m, aliases: map[string]string{}, out: &all, edges: &edges, stack: map[string]bool{k: true},
			viaPath: k, rootType: m.typ, rootMeth: m.name}
		w.walkBody(m.decl.Body)
	}
	// de-duplicate; the entry point is recorded as "RootType.RootMethod"
	seen := map[string]bool{}
	secs := map[string]map[string]bool{}
	var lines []string
	for _, a := range all {
		root := strings.Split(a.via, ">")[0]
		// critical sections of the field's own component in which this entry point touches the field
		sk := root + "|" + a.typ + "." + a.field
		if secs[sk] == nil {
			secs[sk] = map[string]bool{}
		}
		own := false
		for _, l := range a.locks {
			p := strings.Split(l, ":")
			if strings.HasPrefix(p[0], a.typ+".") {
				secs[sk][p[2]] = true
				own = true
			}
		}
		if !own {
			secs[sk]["unlocked"] = true
		}
		var plain []string
		for _, l := range a.locks {
			p := strings.Split(l, ":")
			plain = append(plain, p[0]+":"+p[1])
		}
		key := fmt.Sprintf("%s|%s|%s|%s|%s", root, a.typ, a.field, a.rw, strings.Join(plain, ","))
		if seen[key] {
			continue
		}
		seen[key] = true
		var ls []string
		for _, l := range plain {
			p := strings.Split(l, ":")
			mode := "LW"
			if p[1] == "R" {
				mode = "LR"
			}
			ls = append(ls, fmt.Sprintf("(%s, %s)", q(p[0]), mode))
		}
		lines = append(lines, fmt.Sprintf("  mkAcc %s %s %s %s [%s]", q(root), q(a.typ), q(a.field), a.rw, strings.Join(ls, "; ")))
	}
	sort.Strings(lines)
	var el []string
	for e := range edges {
		p := strings.Split(e, " -> ")
		el = append(el, fmt.Sprintf("  (%s, %s)", q(p[0]), q(p[1])))
	}
	sort.Strings(el)
	var en []string
	for _, e := range entries {
		en = append(en, "  "+q(e))
	}
	var b strings.Builder
	b.WriteString("(* GENERATED by /verif/tools/genlockset from /repo's current source. Do not edit. *)\n")
	b.WriteString("From RV Require Import model.Base model.Lockset.\nLocal Open Scope string_scope.\n\n")
	b.WriteString("Definition table : list access := [\n" + strings.Join(lines, ";\n") + "\n].\n\n")
	b.WriteString("Definition lock_edges : list (string * string) := [\n" + strings.Join(el, ";\n") + "\n].\n\n")
	b.WriteString("Definition entry_points : list string := [\n" + strings.Join(en, ";\n") + "\n].\n\n")
	var sl []string
	for k, v := range secs {
		p := strings.Split(k, "|")
		n := len(v)
		un := "false"
		if v["unlocked"] {
			un = "true"
		}
		sl = append(sl, fmt.Sprintf("  (%s, %s, %d%%nat, %s)", q(p[0]), q(p[1]), n, un))
	}
	sort.Strings(sl)
	b.WriteString("(* entry point, field, number of distinct critical sections (of the field's own component) in which\n   the entry point touches the field (an unlocked access counts as one more), any unlocked access *)\n")
	b.WriteString("Definition field_sections : list (string * string * nat * bool) := [\n" + strings.Join(sl, ";\n") + "\n].\n")
	old, _ := os.ReadFile(outPath)
	if string(old) != b.String() {
		if err := os.WriteFile(outPath, []byte(b.String()), 0o644); err != nil {
			fmt.Fprintln(os.Stderr, err)
			os.Exit(1)
		}
	}
	fmt.Printf("genlockset: %d entry points, %d accesses, %d lock-order edges\n", len(entries), len(lines), len(el))
}
