(* Json.v — the JSON tree and Go's encoding/json printer (compact, HTML-escaping). *)
From RV Require Import model.Base.
Local Open Scope string_scope.

Inductive json :=
  | JNull
  | JBool (b : bool)
  | JNum (z : Z)
  | JNumF (lit : string)   (* a number literal that is not a plain integer: 1.5, 1e3, -0 ... *)
  | JStr (s : string)
  | JArr (l : list json)
  | JObj (l : list (string * json)).

(* ---- decimal printing ---- *)
Definition digit_char (n : N) : ascii := ascii_of_N (48 + n).

Fixpoint pos_digits (fuel : nat) (n : N) (acc : string) : string :=
  match fuel with
  | O => acc
  | S f => let acc' := String (digit_char (n mod 10)) acc in
           if (n / 10 =? 0)%N then acc' else pos_digits f (n / 10) acc'
  end.
(* a number below 2^k has at most k decimal digits: N.size_nat is enough fuel *)
Definition N_to_dec (n : N) : string := pos_digits (S (N.size_nat n)) n "".
Definition Z_to_dec (z : Z) : string :=
  match z with
  | Z0 => "0"
  | Zpos p => N_to_dec (Npos p)
  | Zneg p => String "-" (N_to_dec (Npos p))
  end.

(* ---- string escaping: encoding/json appendString with escapeHTML = true ---- *)
Definition hex_digit (n : N) : ascii :=
  if (n <? 10)%N then ascii_of_N (48 + n) else ascii_of_N (87 + n).

Definition esc_u00 (b : N) : string :=
  String "\" (String "u" (String "0" (String "0" (String (hex_digit (b / 16)) (String (hex_digit (b mod 16)) ""))))).

Fixpoint escape (s : string) : string :=
  match s with
  | EmptyString => ""
  | String c r =>
    let b := N_of_ascii c in
    (* U+2028 / U+2029 = E2 80 A8 / E2 80 A9 *)
    match (b =? 226)%N, r with
    | true, String c1 (String c2 r2) =>
      if (N_of_ascii c1 =? 128)%N && ((N_of_ascii c2 =? 168)%N || (N_of_ascii c2 =? 169)%N)
      then "\u202" ++ String (hex_digit (N_of_ascii c2 - 160)) (escape r2)
      else String c (escape r)
    | _, _ =>
      if (b =? 34)%N then String "\" (String c (escape r))            (* quote *)
      else if (b =? 92)%N then String "\" (String c (escape r))       (* backslash *)
      else if (b =? 8)%N then "\b" ++ escape r
      else if (b =? 12)%N then "\f" ++ escape r
      else if (b =? 10)%N then "\n" ++ escape r
      else if (b =? 13)%N then "\r" ++ escape r
      else if (b =? 9)%N then "\t" ++ escape r
      else if (b <? 32)%N || (b =? 60)%N || (b =? 62)%N || (b =? 38)%N then esc_u00 b ++ escape r
      else String c (escape r)
    end
  end.

Definition quote (s : string) : string := String """" (escape s ++ """").

Fixpoint join (sep : string) (l : list string) : string :=
  match l with
  | [] => ""
  | [x] => x
  | x :: r => x ++ sep ++ join sep r
  end.

Fixpoint render (j : json) : string :=
  match j with
  | JNull => "null"
  | JBool true => "true"
  | JBool false => "false"
  | JNum z => Z_to_dec z
  | JNumF lit => lit
  | JStr s => quote s
  | JArr l => "[" ++ join "," (map render l) ++ "]"
  | JObj l => "{" ++ join "," (map (fun p => quote (fst p) ++ ":" ++ render (snd p)) l) ++ "}"
  end.

Fixpoint bytes_of_string (s : string) : list N :=
  match s with EmptyString => [] | String c r => N_of_ascii c :: bytes_of_string r end.

Definition jslice {A} (f : A -> json) (s : slice A) : json :=
  match s with None => JNull | Some l => JArr (map f l) end.
