(* DecayR — [Utxo.Value] of validatornode/domain/ledger/utxo.go over the real numbers.
   Definitions only.  y = initial value, x = elapsed nanoseconds, h = half-life in
   nanoseconds, B = income base, L = income limit.  Binary64 evaluation is not modelled. *)
From Coq Require Import Reals ZArith.
Local Open Scope R_scope.

(* func (utxo *Utxo) f(h, x):  uint64( y * exp(-x*ln2/h) )  -- before the truncation *)
Definition F (y x h : R) : R := y * exp (- x * ln 2 / h).

(* math.Pow restricted to a base >= 0: Pow(0, p) = 0 for p > 0, whereas [Rpower 0 p] would
   be 1 because Coq's [ln 0] is 0. *)
Definition pow0 (a b : R) : R := if Req_EM_T a 0 then 0 else exp (b * ln a).

(* func k1(incomeBase, incomeLimit) *)
Definition k1 (B L : R) : R :=
  if Rlt_dec B L then 3 - 2 * ln (2 * B) / ln L else 1.

(* func k2(incomeBase, incomeLimit, k1) *)
Definition k2 (B L : R) : R :=
  if Rlt_dec B L then ln 2 / pow0 (- ln (1 - B / L)) (1 / k1 B L) else 1.

(* the local variable [exp] of the branch y < L of g *)
Definition Gexp (y x h B L : R) : R :=
  - pow0 (x * ln 2 / (k2 B L * h) + pow0 (- ln ((L - y) / L)) (1 / k1 B L)) (k1 B L).

(* func (utxo *Utxo) g(h, B, L, x) without the Floor *)
Definition G (y x h B L : R) : R :=
  if Rlt_dec y L then - L * exp (Gexp y x h B L) + L
  else if Rlt_dec L y then (y - L) * exp (- x * ln 2 / h) + L
  else L.

(* floor; for r >= 0 it is also Go's uint64(r) conversion (truncation toward zero) *)
Definition Rfloor (r : R) : R := IZR (Int_part r).

(* f with the code's truncation *)
Definition Fz (y x h : R) : R := Rfloor (F y x h).

(* g with the code's math.Floor placements.  The outer uint64() of the code is the identity
   on the result: it is an integer when L is (lemma [Gz_integer]) and it is >= 0
   (lemma [Gz_bounds_int]). *)
Definition Gz (y x h B L : R) : R :=
  if Rlt_dec y L then Rfloor (- L * exp (Gexp y x h B L)) + L
  else if Rlt_dec L y then Rfloor ((y - L) * exp (- x * ln 2 / h)) + L
  else L.

(* func (utxo *Utxo) Value(currentTimestamp, h, B, L): t0 = utxo.timestamp, t = currentTimestamp.
   (The int64 -> float64 conversion of t - t0 is taken exact.) *)
Definition value_at (yielding : bool) (y : R) (t0 t : Z) (h B L : R) : R :=
  if Z.eq_dec t t0 then y
  else if yielding then Gz y (IZR (t - t0)) h B L else Fz y (IZR (t - t0)) h.

(* the side conditions on the settings under which the income curve is well defined:
   positive half-life, 0 < base < limit, and a positive exponent k1.  [k1_pos_iff] shows
   0 < k1 is 4*B^2 < L^3 (for L > 1), and [params_ok_int] that it holds for all integer
   settings with 1 <= B < L. *)
Definition params_ok (h B L : R) : Prop := 0 < h /\ 0 < B /\ B < L /\ 0 < k1 B L.
