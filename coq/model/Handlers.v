(* Handlers.v — the entry points that turn bytes from the network into operations (C14):
   validatornode/presentation/api/payment/transactions_controller.go  HandleTransactionRequest
   validatornode/application/verification/blockchain.go:372-405        verifyNeighborBlockchain
   validatornode/presentation/api/history/blocks_controller.go        HandleBlocksRequest
   validatornode/presentation/api/wallet/utxos_controller.go          HandleUtxosRequest
   validatornode/presentation/api/network/senders_controller.go       HandleTargetsRequest
   The bytes -> tree step is Go's scanner (json.Unmarshal starts with checkValid: a byte string
   that is not JSON is refused before any repository code runs); every function here starts
   from an arbitrary [json] tree. Definitions only. *)
From RV Require Import model.Base model.Json model.Ledger model.Registry model.Chain
     model.Sync model.Pool model.Reach model.WireDec.

Section Handlers.
  Variable value_fn : N -> bool -> Z -> N.
  Variable addr_of : string -> string.
  Variable sig_ok : input -> bool.
  Variable H : block -> hash.
  Variable gen_id : slice input -> slice output -> Z -> string.
  Variable S : settings.
  Variable validator : string.
  (* the two oracles of the decoders (model/WireDec.v) *)
  Variable on_curve : string -> bool.
  Variable Hb : list N -> list N.

  (* go: transactions_controller.go:23-35 then transactions_pool.go:40-49.
     - the tree does not decode (this includes the JSON value null: the request pointer stays
       nil and line 30 answers "the transaction request is null"): error, nothing happens;
     - the request decodes but holds no transaction ("Transaction": null or no such key):
       AddTransaction returns at line 41-44, nothing happens;
     - otherwise addTransaction decides. *)
  Definition handle_transaction_result (n : node) (j : json) : res err node :=
    match unmarshal_request on_curve Hb j with
    | Err _ => Err EDecode
    | Ok (None, _) => Err EDecode
    | Ok (Some t, _) => pool_add value_fn addr_of sig_ok S n t
    end.

  (* (new node, accepted?) *)
  Definition handle_transaction (n : node) (j : json) : node * bool :=
    match unmarshal_request on_curve Hb j with
    | Err _ => (n, false)
    | Ok (None, _) => (n, false)
    | Ok (Some t, _) =>
      match pool_add value_fn addr_of sig_ok S n t with
      | Ok n' => (n', true)
      | Err _ => (n, false)
      end
    end.

  (* go: blockchain.go:284-289, the first loop of verify: a null block anywhere in the list *)
  Fixpoint all_blocks (l : list (option block)) : option (list block) :=
    match l with
    | [] => Some []
    | None :: _ => None
    | Some b :: r => match all_blocks r with Some bs => Some (b :: bs) | None => None end
    end.

  (* go: blockchain.go:385-391 then 284-289: what the answer of a neighbor is for [update].
     A list with a null block is refused by verify before anything else is looked at, which
     for update is the same as an answer that did not decode (the neighbor is skipped). *)
  Definition response_of_answer (j : json) : response :=
    match unmarshal_blocks on_curve Hb j with
    | Err _ => RFail EDecode
    | Ok l => match all_blocks l with None => RFail EDecode | Some bs => RBlocks bs end
    end.

  (* (target, answer to the incremental request, answer to the full request) *)
  Definition neighbor_of_answer (a : string * json * json) : neighbor :=
    mkNb (fst (fst a)) (response_of_answer (snd (fst a))) (response_of_answer (snd a)).

  (* one sync round whose neighbors answered arbitrary trees *)
  Definition sync_with (n : node) (now : Z) (answers : list (string * json * json)) (pref : string)
    : node :=
    step value_fn addr_of sig_ok H gen_id S validator n
         (OpUpdate now (map neighbor_of_answer answers) pref).

  (* go: blocks_controller.go:19-33. `var h uint64`: null leaves 0, an integer literal in range
     is taken, anything else is an error. Then Blocks(h). *)
  Definition handle_blocks (n : node) (j : json) : res derr (res err (list block)) :=
    match dec_uint u64_bound 0%N j with
    | Err e => Err e
    | Ok h => Ok (blocks_page S (chain (n_c n)) h)
    end.

  (* go: utxos_controller.go:19-33. `var address string`: null leaves "", then Utxos(address) *)
  Definition handle_utxos (n : node) (j : json) : res derr (list utxo) :=
    match dec_str EmptyString j with
    | Err e => Err e
    | Ok a => Ok (utxos_of (ur (n_c n)) a)
    end.

  (* go: senders_controller.go:19-28. `var targets []string`: null gives nil, null elements
     give "", anything else but strings is an error. The decoded list goes to
     Neighborhood.AddTargets (model/Neighborhood.v add_targets, total). *)
  Definition handle_targets (j : json) : res derr (list string) :=
    match dec_strs None j with
    | Err e => Err e
    | Ok s => Ok (elems s)
    end.
End Handlers.
