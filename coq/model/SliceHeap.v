(* SliceHeap.v — a small heap model of Go slices, in which slice aliasing is expressible.

   The functional model (Registry.v, Chain.v) uses immutable lists, so "a chained block never
   changes" (C12) and "verifying a rejected candidate leaves the pending-removal list as it
   was" (C13) hold there by construction.  In Go the pending-removal list is a slice that is
   edited IN PLACE (addresses_registry.go:126-133 removeAddress: append(addresses[:i],
   addresses[i+1:]...)) and appended to (addresses_registry.go:90).  Whoever holds a second
   header onto the same backing array sees those edits.

   Here: backing arrays live in a store, a slice is a header (array id, offset, length), and
   every registry operation exists in two variants selected by [copying]:
     copying = true   the current tree: RemovedAddresses() and Copy() hand over a copy made by
                      copyAddresses (addresses_registry.go:75, :49, :109-116)
     copying = false  the pinned tree: RemovedAddresses() returned the live slice and Copy()
                      shared it.
   Definitions only; the proofs are in proofs/SliceHeap_lemmas.v. *)
From RV Require Import model.Base model.Ledger model.Registry.

(* ---- the store of backing arrays: array id = position; arrays are never freed ---- *)
Definition heap := list (list string).
(* a Go slice header: None = nil, Some (array id, offset, length);
   capacity = length of the array - offset *)
Definition gslice := option (nat * nat * nat).

Definition arr (h : heap) (id : nat) : list string := nth id h [].

(* overwrite the cells off .. off+|w|-1 of an array by w (everything else untouched) *)
Definition splice (a : list string) (off : nat) (w : list string) : list string :=
  firstn off a ++ w ++ skipn (off + length w) a.

Definition sl_len (s : gslice) : nat := match s with Some (_, _, len) => len | None => 0 end.
Definition sl_id (s : gslice) : option nat := match s with Some (id, _, _) => Some id | None => None end.

(* the elements seen through a header *)
Definition sl_read (h : heap) (s : gslice) : list string :=
  match s with
  | None => []
  | Some (id, off, len) => firstn len (skipn off (arr h id))
  end.
(* s[i], read from the array as it is NOW *)
Definition sl_get (h : heap) (s : gslice) (i : nat) : string := nth i (sl_read h s) EmptyString.

(* a new array holding exactly l: make([]string, len(l)) + copy, or a decoded JSON array *)
Definition sl_alloc (h : heap) (l : list string) : heap * gslice :=
  (h ++ [l], Some (length h, 0, length l)).

(* go: runtime.growslice for one appended 16-byte element: capacity 0 -> 1, otherwise doubled
   (exact for capacities below 256, where every doubled size is a malloc size class; beyond
   that Go grows by 1.25x + 192 — immaterial here, only "a NEW array" matters) *)
Definition grow_cap (cap : nat) : nat := match cap with O => 1 | _ => 2 * cap end.

(* go: append(s, x).  Spare capacity: the cell just after the window is WRITTEN in the same
   array and the header only gets longer.  No spare capacity (or nil): the elements move to a
   new array of the grown capacity, padded with "" (the zero value). *)
Definition sl_append (h : heap) (s : gslice) (x : string) : heap * gslice :=
  match s with
  | None => sl_alloc h [x]
  | Some (id, off, len) =>
      let a := arr h id in
      if off + len <? length a
      then (set_nth id (splice a (off + len) [x]) h, Some (id, off, len + 1))
      else let l := sl_read h s in
           (h ++ [l ++ x :: repeat EmptyString (grow_cap (length a - off) - (length l + 1))],
            Some (length h, 0, length l + 1))
  end.

(* go: copy(w[0:], w[1:]) on a window: every cell takes its right neighbour's value,
   the last cell keeps its (now stale) value *)
Fixpoint shift_left (w : list string) : list string :=
  match w with
  | [] => []
  | x :: r => match r with [] => [x] | y :: _ => y :: shift_left r end
  end.
(* removeAddress on the window: None = not found; Some w' = the window after the in-place shift
   from the first occurrence on (same number of cells) *)
Fixpoint rm_in_place (a : string) (w : list string) : option (list string) :=
  match w with
  | [] => None
  | x :: r => if String.eqb a x then Some (shift_left w)
              else option_map (cons x) (rm_in_place a r)
  end.

(* go: addresses_registry.go:126-133 removeAddress.  Found at i: append(s[:i], s[i+1:]...)
   has capacity to spare, so it shifts the tail left IN the same array; the header keeps array
   and offset and gets one shorter.  Not found (or nil): s itself. *)
Definition sl_remove_first (h : heap) (s : gslice) (a : string) : heap * gslice :=
  match s with
  | None => (h, None)
  | Some (id, off, len) =>
      match rm_in_place a (sl_read h s) with
      | None => (h, s)
      | Some w' => (set_nth id (splice (arr h id) off w') h, Some (id, off, len - 1))
      end
  end.

(* go: addresses_registry.go:109-116 copyAddresses: nil stays nil, else a fresh array of
   exactly len elements *)
Definition sl_copy (h : heap) (s : gslice) : heap * gslice :=
  match s with
  | None => (h, None)
  | Some _ => sl_alloc h (sl_read h s)
  end.

(* ---- the registry on the heap ---- *)
Record hreg := mkHreg {
  h_registered : list string;   (* the map: a value here, Copy() always copied it *)
  h_pending : gslice            (* removedAddresses *)
}.
Definition hreg_empty : hreg := mkHreg [] None.

(* go: RemovedAddresses() *)
Definition h_removed_addresses (copying : bool) (h : heap) (r : hreg) : heap * gslice :=
  if copying then sl_copy h (h_pending r) else (h, h_pending r).

(* go: Copy() *)
Definition h_copy (copying : bool) (h : heap) (r : hreg) : heap * hreg :=
  if copying
  then let (h', p) := sl_copy h (h_pending r) in (h', mkHreg (h_registered r) p)
  else (h, r).

Definition h_remove_one (hr : heap * hreg) (a : string) : heap * hreg :=
  let (h, r) := hr in
  let (h', p) := sl_remove_first h (h_pending r) a in
  (h', mkHreg (set_remove a (h_registered r)) p).

(* go: Update(added, removed), addresses_registry.go:95-107.  [removed] is a slice header:
   "for _, address := range removed" fixes the length once and then reads removed[i] from the
   array as it is at iteration i — which matters exactly when removed aliases the pending list *)
Definition h_update (h : heap) (r : hreg) (added : list string) (removed : gslice) : heap * hreg :=
  let (h1, r1) := fold_left (fun hr i => h_remove_one hr (sl_get (fst hr) removed i))
                            (seq 0 (sl_len removed)) (h, r) in
  (h1, mkHreg (fold_left (fun l a => set_add a l) added (h_registered r1)) (h_pending r1)).

Definition h_append_one (hr : heap * hreg) (a : string) : heap * hreg :=
  let (h, r) := hr in
  let (h', p) := sl_append h (h_pending r) a in
  (h', mkHreg (h_registered r) p).

(* go: Synchronize, addresses_registry.go:85-92: one append per invalid address *)
Definition h_sync (h : heap) (r : hreg) (invalid : list string) : heap * hreg :=
  fold_left h_append_one invalid (h, r).

(* ---- a tiny node: the registry and, for every chained block, the header of its
        removed-addresses list ---- *)
Record hnode := mkHnode { hn_heap : heap; hn_reg : hreg; hn_blocks : list gslice }.
Definition hnode_empty : hnode := mkHnode [] hreg_empty [].

Fixpoint last_opt {A} (l : list A) : option A :=
  match l with [] => None | [x] => Some x | _ :: r => last_opt r end.

Definition hop_sync (n : hnode) (invalid : list string) : hnode :=
  let (h', r') := h_sync (hn_heap n) (hn_reg n) invalid in
  mkHnode h' r' (hn_blocks n).

(* go: blockchain.go:41-57 AddBlock + :276-286 addBlock: the new block gets what
   RemovedAddresses() returned (line 54); then the registry is updated with the PREVIOUS
   block's removed list (line 282: block k-1's removals are applied when block k is chained);
   then the block is appended (line 284) *)
Definition hop_produce (copying : bool) (n : hnode) : hnode :=
  let (h1, rs) := h_removed_addresses copying (hn_heap n) (hn_reg n) in
  let (h2, r2) := match last_opt (hn_blocks n) with
                  | None => (h1, hn_reg n)
                  | Some prev => h_update h1 (hn_reg n) [] prev
                  end in
  mkHnode h2 r2 (hn_blocks n ++ [rs]).

Definition h_apply_list (hr : heap * hreg) (l : list string) : heap * hreg :=
  let (h, r) := hr in
  let (h', s) := sl_alloc h l in       (* the candidate block's list, decoded into its own array *)
  h_update h' r [] s.

(* go: blockchain.go:292-... verify: works on registry.Copy() (line 304); the copy is updated
   with the candidate blocks' removed lists (addBlock, line 366 -> 282); here the candidate is
   rejected and the copy dropped: only the heap survives *)
Definition hop_verify_candidate (copying : bool) (n : hnode) (removed_lists : list (list string)) : hnode :=
  let (h1, rc) := h_copy copying (hn_heap n) (hn_reg n) in
  let hr := fold_left h_apply_list removed_lists (h1, rc) in
  mkHnode (fst hr) (hn_reg n) (hn_blocks n).

Inductive hop :=
| Hsync (invalid : list string)
| Hproduce
| Hverify (removed_lists : list (list string)).

Definition hstep (copying : bool) (n : hnode) (o : hop) : hnode :=
  match o with
  | Hsync invalid => hop_sync n invalid
  | Hproduce => hop_produce copying n
  | Hverify ls => hop_verify_candidate copying n ls
  end.
Definition run (copying : bool) (ops : list hop) : hnode := fold_left (hstep copying) ops hnode_empty.

(* ---- abstraction to the functional model ---- *)
(* a non-nil header of length 0 is Some [] (what remove_addr leaves after the only element
   went), nil is None *)
Definition abs_slice (h : heap) (s : gslice) : slice string :=
  match s with None => None | Some _ => Some (sl_read h s) end.
Definition abs_reg (h : heap) (r : hreg) : areg := mkAreg (h_registered r) (abs_slice h (h_pending r)).
Definition abs_blocks (n : hnode) : list (slice string) := map (abs_slice (hn_heap n)) (hn_blocks n).

(* the same node over immutable lists (the semantics Registry.v / Chain.v assume) *)
Record fnode := mkFnode { fn_reg : areg; fn_blocks : list (slice string) }.
Definition fnode_empty : fnode := mkFnode areg_empty [].
Definition fstep (n : fnode) (o : hop) : fnode :=
  match o with
  | Hsync invalid =>
      mkFnode (mkAreg (registered (fn_reg n)) (sl_appl (pending (fn_reg n)) invalid)) (fn_blocks n)
  | Hproduce =>
      mkFnode (match last_opt (fn_blocks n) with
               | None => fn_reg n
               | Some prev => reg_update (fn_reg n) [] (elems prev)
               end)
              (fn_blocks n ++ [removed_addresses (fn_reg n)])
  | Hverify _ => n
  end.
Definition frun (ops : list hop) : fnode := fold_left fstep ops fnode_empty.
Definition abs_node (n : hnode) : fnode := mkFnode (abs_reg (hn_heap n) (hn_reg n)) (abs_blocks n).
