(* Wallet.v — accessnode/presentation/api/payment/info_controller.go
   GetTransactionInfo (lines 74-131) and findClosestValueIndex (lines 134-158).
   Definitions only.

   The controller first values every utxo of the address at the next block timestamp
   (line 82).  The model starts after that step: [holdings] is the validator's list, in the
   order it was returned, of ((transaction id, output index), value at next block time). *)
From RV Require Import model.Base.
Local Open Scope N_scope.

Definition ref := (string * N)%type.          (* ledger.InputInfo: transaction id, output index *)
Definition holding := (ref * N)%type.          (* = string * N * N *)

(* ---- findClosestValueIndex, info_controller.go:134-158 ---------------------------------
   loop state: i (range index), idx (closestValueIndex), diff (closestDifference),
   gt (isAValueGreaterThanTarget) *)
Definition max64 : N := two64 - 1.              (* math.MaxUint64 *)

Fixpoint fc_loop (target : N) (values : list N) (i idx : nat) (diff : N) (gt : bool) : nat :=
  match values with
  | [] => idx                                                        (* line 157 *)
  | v :: r =>
    if gt && (v <? target) then fc_loop target r (S i) idx diff gt   (* lines 139-141 *)
    else
      let below := v <? target in
      (* lines 143-151 *)
      let d := if below then target - v else v - target in
      let diff0 := if below then diff else if gt then diff else max64 in   (* line 147 *)
      let gt' := if below then gt else true in
      (* lines 152-155 *)
      if d <? diff0 then fc_loop target r (S i) i d gt'
      else fc_loop target r (S i) idx diff0 gt'
  end.

Definition find_closest (target : N) (values : list N) : nat :=
  fc_loop target values 0 0 max64 false.

(* ---- the Go map utxosByValue : uint64 -> []*InputInfo, as an association list ---------- *)
Fixpoint nlookup (k : N) (m : list (N * list ref)) : option (list ref) :=
  match m with
  | [] => None
  | (k', g) :: r => if k =? k' then Some g else nlookup k r
  end.
(* m[k] = append(m[k], x) *)
Fixpoint nappend (k : N) (x : ref) (m : list (N * list ref)) : list (N * list ref) :=
  match m with
  | [] => [(k, [x])]
  | (k', g) :: r => if k =? k' then (k', g ++ [x]) :: r else (k', g) :: nappend k x r
  end.
(* m[k] read without the ok flag: nil when absent *)
Definition grp (k : N) (m : list (N * list ref)) : list ref :=
  match nlookup k m with Some g => g | None => [] end.

(* ---- first loop, lines 79-95 ---- *)
Record scan_st := mkScan {
  sc_bal : N;                        (* walletBalance *)
  sc_sel : list ref;                 (* selectedInputs *)
  sc_vals : list N;                  (* values *)
  sc_map : list (N * list ref)       (* utxosByValue *)
}.

Definition scan_step (consolidate : bool) (st : scan_st) (h : holding) : scan_st :=
  let '(r, v) := h in
  if v =? 0 then st                                                    (* lines 83-85 *)
  else
    let bal := add64 (sc_bal st) v in                                  (* line 86 *)
    if consolidate then mkScan bal (sc_sel st ++ [r]) (sc_vals st) (sc_map st)   (* line 88 *)
    else mkScan bal (sc_sel st)
           (match nlookup v (sc_map st) with                           (* lines 90-92 *)
            | None => sc_vals st ++ [v]
            | Some _ => sc_vals st
            end)
           (nappend v r (sc_map st)).                                  (* line 93 *)

Definition scan (consolidate : bool) (hs : list holding) : scan_st :=
  fold_left (scan_step consolidate) hs (mkScan 0 [] [] []).

(* ---- inner loop, lines 119-122: take outputs of value [cv] while inputsValue < target -- *)
Fixpoint take (target cv : N) (refs : list ref) (iv : N) (sel : list ref) : N * list ref :=
  match refs with
  | [] => (iv, sel)
  | r :: rs => if iv <? target then take target cv rs (add64 iv cv) (sel ++ [r]) else (iv, sel)
  end.

(* ---- outer loop, lines 109-123 ---- *)
Inductive sel_res :=
| SDone (inputsValue : N) (selected : list ref)
| SPanic        (* an index out of range in Go: values[0] on an empty slice (line 111) or
                   utxosByValue[closestValue][0] on an empty slice (line 114) *)
| SFuel.        (* the model's recursion bound was hit: proved impossible *)

(* values[:i] ++ values[i+1:] , line 117 *)
Definition remove_at (i : nat) (values : list N) : list N := firstn i values ++ skipn (S i) values.

Fixpoint select (fuel : nat) (target : N) (m : list (N * list ref)) (values : list N)
                (iv : N) (sel : list ref) : sel_res :=
  if iv <? target then                                          (* line 109 *)
    match fuel with
    | O => SFuel
    | S f =>
      let i := find_closest target values in                    (* line 110 *)
      match nth_error values i with                             (* line 111 *)
      | None => SPanic
      | Some cv =>
        if target <? cv then                                    (* line 112 *)
          match grp cv m with
          | r :: _ => SDone cv [r]                              (* lines 113-115 *)
          | [] => SPanic
          end
        else
          let values' := remove_at i values in                  (* line 117 *)
          let '(iv', sel') := take target cv (grp cv m) iv sel in   (* lines 118-122 *)
          select f target m values' iv' sel'
      end
    end
  else SDone iv sel.

(* ---- the answer ---- *)
Inductive info :=
| Info405                                        (* "insufficient wallet balance" *)
| InfoOk (rest : N) (inputs : list (string * N)) (* 200, TransactionInfo *)
| InfoPanic                                      (* Go would panic (index out of range) *)
| InfoFuel.                                      (* model artefact, unreachable *)

(* [amount] is uint64(parsedValue), i.e. already reduced mod 2^64 (line 96) *)
Definition tx_info (fee : N) (consolidate : bool) (amount : N)
                   (holdings : list (string * N * N)) : info :=
  let st := scan consolidate holdings in
  let target := add64 amount fee in                              (* line 97 *)
  if sc_bal st <? target then Info405                            (* lines 98-103 *)
  else if consolidate then
    InfoOk (sub64 (sc_bal st) target) (sc_sel st)                (* lines 106-107, 125 *)
  else
    match sc_vals st with
    | [] => InfoOk (sub64 0 target) (sc_sel st)                  (* line 108 false: loop skipped *)
    | _ :: _ =>
      match select (S (length (sc_vals st))) target (sc_map st) (sc_vals st) 0 [] with
      | SDone iv sel => InfoOk (sub64 iv target) sel             (* line 125 *)
      | SPanic => InfoPanic
      | SFuel => InfoFuel
      end
    end.
