(* Ledger.v — validatornode/application/verification/utxos_registry.go
   UtxosRegistry = two finite maps + CalculateFee + UpdateUtxos (all-or-nothing). *)
From RV Require Import model.Base.
Local Open Scope N_scope.

(* Everything that Go reports as an error, as a small enum. [EPanic] marks the places
   where the Go code does not return an error but panics (property C14). *)
Inductive panic_site :=
  | PsNoOutputs        (* utxos_registry.go:99  Outputs()[0] on an empty list *)
  | PsNilElem          (* nil *Input / *Output / *Transaction / *Block dereferenced *)
  | PsNilRequest       (* transactions_controller.go:29 nil request / nil transaction *)
  | PsSliceBounds      (* blockchain.go:72 slice bounds out of range *)
  | PsDivZero.         (* accessnode: division by ValidationTimestamp = 0 *)

Inductive err :=
  | EUnknownId | ENoIndex | EOwner | EOverflow | ENegFee | ELowFee | EDupId | ETwoIncomes
  | EShort | EFork | ELink | ETime | EFuture | EMultiReward | ETxFuture | ETxOld | ESig
  | EUnregistered | ENoReward | ERewardTooBig
  | EEmptyChain | EInPool | ESameTick | EMissedTick
  | ETimeout | EFetch | EDecode
  | EPanic (s : panic_site).

Record ureg := mkUreg {
  by_addr : list (string * list utxo);          (* utxosByAddress *)
  by_id : list (string * list (option utxo))    (* utxosById; None = consumed slot *)
}.
Definition ureg_empty : ureg := mkUreg [] [].

Definition lookup_l {V} (k : string) (m : list (string * list V)) : list V :=
  match alookup k m with Some l => l | None => [] end.

Fixpoint set_nth {A} (n : nat) (x : A) (l : list A) : list A :=
  match l, n with
  | [], _ => []
  | _ :: r, O => x :: r
  | y :: r, S n' => y :: set_nth n' x r
  end.

Fixpoint remove_first {A} (p : A -> bool) (l : list A) : list A :=
  match l with [] => [] | x :: r => if p x then r else x :: remove_first p r end.

Section Ledger.
  (* Utxo.f / Utxo.g (binary64) on (initial value, is yielding, elapsed ns): an oracle here;
     the function itself is the subject of C09 *)
  Variable value_fn : N -> bool -> Z -> N.
  (* PublicKey.Address(): go-ethereum address of a public key *)
  Variable addr_of : string -> string.

  (* go: utxo.go:50-60 *)
  Definition utxo_value (u : utxo) (t : Z) : N :=
    if Z.eqb t (u_ts u) then o_val (u_out u)
    else value_fn (o_val (u_out u)) (o_yield (u_out u)) (t - u_ts u)%Z.

  (* go: utxos_registry.go:41-51 / 109-119 *)
  Definition find_utxo (reg : ureg) (i : input) : res err utxo :=
    match alookup (i_ref i) (by_id reg) with
    | None => Err EUnknownId
    | Some us =>
      match nth_error us (N.to_nat (i_idx i)) with
      | Some (Some u) => Ok u
      | _ => Err ENoIndex
      end
    end.

  (* go: utxos_registry.go:40-59; inputsValue += value is uint64 *)
  Fixpoint inputs_value (reg : ureg) (l : list input) (t : Z) (acc : N) : res err N :=
    match l with
    | [] => Ok acc
    | i :: r =>
      match find_utxo reg i with
      | Err e => Err e
      | Ok u =>
        if String.eqb (o_addr (u_out u)) (addr_of (i_key i))
        then inputs_value reg r t (add64 acc (utxo_value u t))
        else Err EOwner
      end
    end.

  (* go: utxos_registry.go:60-65 (after the fix of D1: the sum is overflow-checked) *)
  Fixpoint outputs_value (l : list output) (acc : N) : option N :=
    match l with
    | [] => Some acc
    | o :: r => if two64 <=? acc + o_val o then None else outputs_value r (acc + o_val o)
    end.

  (* the pinned tree's wrapping sum, kept to state what was wrong with it (C01_wrap_refuted) *)
  Definition outputs_value_wrapping (l : list output) : N :=
    fold_left (fun acc o => add64 acc (o_val o)) l 0.

  (* go: utxos_registry.go:37-72 CalculateFee *)
  Definition calc_fee (fee : N) (reg : ureg) (t : tx) (ts : Z) : res err N :=
    match inputs_value reg (ins t) ts 0 with
    | Err e => Err e
    | Ok iv =>
      match outputs_value (outs t) 0 with
      | None => Err EOverflow
      | Some ov =>
        if iv <? ov then Err ENegFee
        else if iv - ov <? fee then Err ELowFee
        else Ok (iv - ov)
      end
    end.

  Definition calc_fee_wrapping (fee : N) (reg : ureg) (t : tx) (ts : Z) : res err N :=
    match inputs_value reg (ins t) ts 0 with
    | Err e => Err e
    | Ok iv =>
      let ov := outputs_value_wrapping (outs t) in
      if iv <? ov then Err ENegFee
      else if iv - ov <? fee then Err ELowFee
      else Ok (iv - ov)
    end.

  (* go: utxos_registry.go:99 *)
  Definition records_outputs (t : tx) : res err bool :=
    match outs t with
    | [] => Err (EPanic PsNoOutputs)
    | o :: r => Ok (match r with _ :: _ => true | [] => (0 <? o_val o) || o_yield o end)
    end.

  Fixpoint mk_utxos (id : string) (ts : Z) (j : nat) (l : list output) : list utxo :=
    match l with
    | [] => []
    | o :: r => mkUtxo id (N.of_nat j mod 65536) o ts :: mk_utxos id ts (S j) r
    end.

  (* go: utxos_registry.go:100-106 *)
  Definition add_outputs (reg : ureg) (t : tx) (ts : Z) : ureg :=
    let us := mk_utxos (t_id t) ts 0 (outs t) in
    mkUreg
      (fold_left (fun m u => aset (o_addr (u_out u)) (lookup_l (o_addr (u_out u)) m ++ [u]) m) us (by_addr reg))
      (match us with [] => by_id reg | _ => aset (t_id t) (map Some us) (by_id reg) end).

  Definition slot_live (o : option utxo) : bool :=
    match o with
    | None => false
    | Some v => (0 <? o_val (u_out v)) || o_yield (u_out v)
    end.

  (* go: utxos_registry.go:108-137 *)
  Definition consume (reg : ureg) (i : input) : res err ureg :=
    match alookup (i_ref i) (by_id reg) with
    | None => Err EUnknownId
    | Some us =>
      match nth_error us (N.to_nat (i_idx i)) with
      | Some (Some u) =>
        let a := o_addr (u_out u) in
        let la := remove_first (fun v => String.eqb (u_ref v) (i_ref i) && N.eqb (u_idx v) (i_idx i))
                               (lookup_l a (by_addr reg)) in
        let us' := set_nth (N.to_nat (i_idx i)) None us in
        Ok (mkUreg
              (match la with [] => aremove a (by_addr reg) | _ => aset a la (by_addr reg) end)
              (if existsb slot_live us' then aset (i_ref i) us' (by_id reg)
               else aremove (i_ref i) (by_id reg)))
      | _ => Err ENoIndex
      end
    end.

  Fixpoint consume_all (reg : ureg) (l : list input) : res err ureg :=
    match l with
    | [] => Ok reg
    | i :: r => match consume reg i with Err e => Err e | Ok reg' => consume_all reg' r end
    end.

  (* one transaction of UpdateUtxos: duplicate id, outputs first, then inputs *)
  Definition apply_tx (reg : ureg) (t : tx) (ts : Z) : res err ureg :=
    match alookup (t_id t) (by_id reg) with
    | Some _ => Err EDupId
    | None =>
      match records_outputs t with
      | Err e => Err e
      | Ok rec => consume_all (if rec then add_outputs reg t ts else reg) (ins t)
      end
    end.

  Fixpoint apply_txs (reg : ureg) (l : list tx) (ts : Z) : res err ureg :=
    match l with
    | [] => Ok reg
    | t :: r => match apply_tx reg t ts with Err e => Err e | Ok reg' => apply_txs reg' r ts end
    end.

  (* go: utxos_registry.go:178-191 *)
  Definition count_yielding (us : list utxo) : nat :=
    length (filter (fun u => o_yield (u_out u)) us).
  Definition incomes_ok (reg : ureg) : bool :=
    forallb (fun p => Nat.leb (count_yielding (snd p)) 1) (by_addr reg).

  (* go: utxos_registry.go:91-147 UpdateUtxos: either the whole list is applied or nothing *)
  Definition update_utxos (reg : ureg) (l : list tx) (ts : Z) : res err ureg :=
    match apply_txs reg l ts with
    | Err e => Err e
    | Ok reg' => if incomes_ok reg' then Ok reg' else Err ETwoIncomes
    end.

  (* go: utxos_registry.go:149-156 *)
  Definition utxos_of (reg : ureg) (a : string) : list utxo := lookup_l a (by_addr reg).
End Ledger.
