(* ClockWait.v — the stop protocol of validatornode/domain/clock/engine.go INCLUDING the part of
   Start that precedes the ticking loop (model/Clock.v's estate starts after it).

   go: engine.go:53-78
     53 func (engine *Engine) Start() {
     54   if engine.started { return }            -- WStart
     57   engine.started = true                   -- WStart  (the step that leaves WStart)
     58-61 read the clock, ticker.Reset(deadline) -- (no shared flag touched: part of the same step)
     62   <-engine.ticker.C                       -- WWait   (blocked on the first period boundary)
     63   engine.ticker.Reset(engine.subTimer)    -- (part of the step that leaves WWait)
     65-66 for { for i ... {
     68     if !engine.started {                  -- WCheck
     69-70    engine.ticker.Stop(); return }      -- WDone
     72-73  now := ...; engine.function(now)      -- WCall
     75     <-engine.ticker.C                     -- WTick   (blocked on the ticker between occurrences)
   go: engine.go:80-83
     81   engine.started = false                  -- WStop (any other goroutine)
     82   engine.ticker.Reset(time.Nanosecond)    -- makes the pending <-ticker.C return at once;
                                                     in the model the ticker firing is a WStep whose
                                                     moment the schedule chooses, so every delay is covered

   Slots with i < skippedOccurrences (engine.go:67) receive from the ticker without a check and
   without a call: they are further firings absorbed at WTick and are not represented (as in
   model/Clock.v's estate). The model assumes skippedOccurrences < occurrences, which holds for the
   four engines of validatornode/main.go:58-61. *)
From RV Require Import model.Base model.Clock.

Inductive wpc := WStart | WWait | WCheck | WCall | WTick | WDone.

Record wstate := mkW {
  w_pc : wpc;
  w_started : bool;              (* engine.started *)
  w_calls : nat;                 (* calls of engine.function made so far *)
  w_calls_after_stop : nat;      (* ... of which made after some Stop had been issued *)
  w_stopped : bool               (* some Stop has been issued *)
}.

(* WStep: the goroutine running Start makes its next move (at WWait / WTick: the ticker fired).
   WStop: another goroutine runs Stop. *)
Inductive wevent := WStep | WStop.

Definition wstep (s : wstate) (e : wevent) : wstate :=
  match e with
  | WStop => (* engine.go:81 *)
    mkW (w_pc s) false (w_calls s) (w_calls_after_stop s) true
  | WStep =>
    match w_pc s with
    | WStart => (* engine.go:54-61 *)
      if w_started s then mkW WDone (w_started s) (w_calls s) (w_calls_after_stop s) (w_stopped s)
      else mkW WWait true (w_calls s) (w_calls_after_stop s) (w_stopped s)
    | WWait => (* engine.go:62-63 *)
      mkW WCheck (w_started s) (w_calls s) (w_calls_after_stop s) (w_stopped s)
    | WCheck => (* engine.go:68-71 *)
      if w_started s then mkW WCall (w_started s) (w_calls s) (w_calls_after_stop s) (w_stopped s)
      else mkW WDone (w_started s) (w_calls s) (w_calls_after_stop s) (w_stopped s)
    | WCall => (* engine.go:72-73 *)
      mkW WTick (w_started s) (S (w_calls s))
          (if w_stopped s then S (w_calls_after_stop s) else w_calls_after_stop s)
          (w_stopped s)
    | WTick => (* engine.go:75 *)
      mkW WCheck (w_started s) (w_calls s) (w_calls_after_stop s) (w_stopped s)
    | WDone => s
    end
  end.

(* The slip (seeded change C20g): `engine.started = true` moved from line 57 to just after the
   receive of line 62. Everything else is unchanged. *)
Definition wstep_late (s : wstate) (e : wevent) : wstate :=
  match e with
  | WStop => mkW (w_pc s) false (w_calls s) (w_calls_after_stop s) true
  | WStep =>
    match w_pc s with
    | WStart =>
      if w_started s then mkW WDone (w_started s) (w_calls s) (w_calls_after_stop s) (w_stopped s)
      else mkW WWait (w_started s) (w_calls s) (w_calls_after_stop s) (w_stopped s)
    | WWait =>
      mkW WCheck true (w_calls s) (w_calls_after_stop s) (w_stopped s)
    | WCheck =>
      if w_started s then mkW WCall (w_started s) (w_calls s) (w_calls_after_stop s) (w_stopped s)
      else mkW WDone (w_started s) (w_calls s) (w_calls_after_stop s) (w_stopped s)
    | WCall =>
      mkW WTick (w_started s) (S (w_calls s))
          (if w_stopped s then S (w_calls_after_stop s) else w_calls_after_stop s)
          (w_stopped s)
    | WTick =>
      mkW WCheck (w_started s) (w_calls s) (w_calls_after_stop s) (w_stopped s)
    | WDone => s
    end
  end.

(* go: engine.go:29 NewEngine: started = false *)
Definition winit : wstate := mkW WStart false 0 0 false.

Definition wrun (evs : list wevent) (s : wstate) : wstate := fold_left wstep evs s.
Definition wrun_late (evs : list wevent) (s : wstate) : wstate := fold_left wstep_late evs s.

(* number of moves of the Start goroutine in a schedule *)
Fixpoint wsteps (evs : list wevent) : nat :=
  match evs with
  | [] => 0
  | WStep :: r => S (wsteps r)
  | WStop :: r => wsteps r
  end.

(* the calls a stopped engine may still make: the one whose started-check is already behind it *)
Definition wbudget (s : wstate) : nat := match w_pc s with WCall => 1 | _ => 0 end.

(* moves of the Start goroutine an engine whose flag is down needs to return (the value at
   WStart is never used: there the flag is about to be raised) *)
Definition wdist (s : wstate) : nat :=
  match w_pc s with
  | WDone => 0 | WCheck => 1 | WWait => 2 | WTick => 2 | WCall => 3 | WStart => 3
  end.

(* ---- projection onto the stop protocol of model/Clock.v (meaningful from WCheck on) ---- *)
Definition wpost (s : wstate) : Prop :=
  match w_pc s with WStart | WWait => False | _ => True end.

Definition wabs_pc (p : wpc) : epc :=
  match p with
  | WCheck => PcCheck | WCall => PcCall | WTick => PcWait | WDone => PcDone
  | WStart | WWait => PcCheck
  end.

Definition wabs (s : wstate) : estate :=
  mkE (wabs_pc (w_pc s)) (w_started s) (w_calls_after_stop s) (w_stopped s).

Definition wabs_ev (e : wevent) : eevent := match e with WStep => EvStep | WStop => EvStop end.
