(* Registry.v — validatornode/application/verification/addresses_registry.go
   AddressesRegistry = a set of registered addresses + the pending-removal list. *)
From RV Require Import model.Base model.Ledger.

Record areg := mkAreg {
  registered : list string;      (* registeredAddresses (a set; order = insertion, unobservable) *)
  pending : slice string         (* removedAddresses: nil and empty differ on the wire *)
}.
Definition areg_empty : areg := mkAreg [] None.   (* go: Clear(): map emptied, list = nil *)

(* go: addresses_registry.go:64-66 *)
Definition is_registered (ar : areg) (a : string) : bool := mem_str a (registered ar).

(* go: addresses_registry.go:54-62 Filter: "var newAddresses []string" stays nil if nothing is new *)
Definition filter_new (ar : areg) (addrs : list string) : slice string :=
  match filter (fun a => negb (is_registered ar a)) addrs with [] => None | l => Some l end.

(* go: addresses_registry.go:111-118 removeAddress: first occurrence; nil stays nil *)
Definition remove_addr (p : slice string) (a : string) : slice string :=
  match p with
  | None => None
  | Some l => Some (remove_first (String.eqb a) l)
  end.

Definition set_remove (a : string) (l : list string) : list string :=
  filter (fun x => negb (String.eqb a x)) l.
Definition set_add (a : string) (l : list string) : list string :=
  if mem_str a l then l else l ++ [a].

(* go: addresses_registry.go:89-101 Update: removals first, then additions *)
Definition reg_update (ar : areg) (added removed : list string) : areg :=
  let ar1 := fold_left (fun r a => mkAreg (set_remove a (registered r)) (remove_addr (pending r) a)) removed ar in
  mkAreg (fold_left (fun l a => set_add a l) added (registered ar1)) (pending ar1).

(* go: addresses_registry.go:72-87 Synchronize. [order] is the iteration order of the Go map
   (an input of the model); [poh a] is HumansManager.IsRegistered: None = the call failed. *)
Definition reg_sync (ar : areg) (poh : string -> option bool) (order : list string) : areg :=
  let invalid := filter (fun a => is_registered ar a &&
                                  match poh a with Some false => true | _ => false end) order in
  mkAreg (registered ar) (sl_appl (pending ar) invalid).

(* go: RemovedAddresses() — after the fix of D2 a copy is handed over, so the value
   semantics of this model is what the code does *)
Definition removed_addresses (ar : areg) : slice string := pending ar.
