(* JsonParse.v — JSON text -> the model's json tree: the step Go's encoding/json lexer performs
   (and that /verif/ocaml/jsonp.ml performed as trusted glue).
   Definitions only; the round trip with Json.render is proved in proofs/JsonParse_lemmas.v.

   Shape: every function takes the remaining text and returns the parsed item with the text
   that follows it.  The three value-level functions recurse on explicit fuel; the top level
   gives them 2*length+1: parse_elems hands its text to parse_val with one unit less, and
   otherwise every unit spent goes with at least one character consumed.  (Proved enough for
   every rendered text, with or without surrounding whitespace; more fuel never changes an
   answer: proofs/JsonParse_lemmas.v.) *)
From RV Require Import model.Base model.Json.
Local Open Scope string_scope.

(* ---- whitespace: space, \n, \t, \r ---- *)
Definition is_ws (c : ascii) : bool :=
  let n := N_of_ascii c in ((n =? 32) || (n =? 10) || (n =? 9) || (n =? 13))%N.

Fixpoint skip_ws (s : string) : string :=
  match s with
  | String c r => if is_ws c then skip_ws r else s
  | EmptyString => s
  end.

Fixpoint all_wsb (s : string) : bool :=
  match s with
  | EmptyString => true
  | String c r => is_ws c && all_wsb r
  end.
Definition all_ws (s : string) : Prop := all_wsb s = true.

(* ---- numbers ---- *)
Definition is_digit (c : ascii) : bool :=
  let n := N_of_ascii c in ((48 <=? n) && (n <=? 57))%N.

(* the characters a number token is made of: 0-9 - + . e E *)
Definition is_num_char (c : ascii) : bool :=
  let n := N_of_ascii c in
  (is_digit c || (n =? 45) || (n =? 43) || (n =? 46) || (n =? 101) || (n =? 69))%N.

(* the maximal run of number characters, and what follows it.  After a number Go's scanner
   accepts only whitespace , ] } — none of them a number character — so the text is accepted
   exactly when this maximal run is a literal of the grammar. *)
Fixpoint span_num (s : string) : string * string :=
  match s with
  | String c r => if is_num_char c then let (a, b) := span_num r in (String c a, b)
                  else (EmptyString, s)
  | EmptyString => (EmptyString, EmptyString)
  end.

Fixpoint skip_digits (s : string) : string :=
  match s with
  | String c r => if is_digit c then skip_digits r else s
  | EmptyString => s
  end.

(* [0-9]+ at the head: what follows it *)
Definition digits1 (s : string) : option string :=
  match s with
  | String c r => if is_digit c then Some (skip_digits r) else None
  | EmptyString => None
  end.

(* ([eE][+-]?[0-9]+)? up to the end of the literal *)
Definition num_exp (s : string) : bool :=
  match s with
  | EmptyString => true
  | String c r =>
    if ((N_of_ascii c =? 101) || (N_of_ascii c =? 69))%N then
      let r' := match r with
                | String c2 r2 => if ((N_of_ascii c2 =? 43) || (N_of_ascii c2 =? 45))%N then r2 else r
                | EmptyString => r
                end in
      match digits1 r' with
      | Some EmptyString => true
      | _ => false
      end
    else false
  end.

(* (\.[0-9]+)? then the exponent *)
Definition num_frac (s : string) : bool :=
  match s with
  | String c r =>
    if (N_of_ascii c =? 46)%N then
      match digits1 r with
      | Some r' => num_exp r'
      | None => false
      end
    else num_exp s
  | EmptyString => true
  end.

(* zero, or a non-zero digit followed by digits; then the rest *)
Definition num_int (s : string) : bool :=
  match s with
  | String c r =>
    if (N_of_ascii c =? 48)%N then num_frac r
    else if is_digit c then num_frac (skip_digits r)
    else false
  | EmptyString => false
  end.

(* Go's grammar: optional minus, integer part without leading zero, optional fraction, optional exponent *)
Definition valid_number (s : string) : bool :=
  match s with
  | String c r => if (N_of_ascii c =? 45)%N then num_int r else num_int s
  | EmptyString => false
  end.

Fixpoint all_digits (s : string) : bool :=
  match s with
  | EmptyString => true
  | String c r => is_digit c && all_digits r
  end.

Definition strip_minus (s : string) : string :=
  match s with
  | String c r => if (N_of_ascii c =? 45)%N then r else s
  | EmptyString => s
  end.

Definition is_minus_zero (s : string) : bool :=
  match s with
  | String a (String b EmptyString) => ((N_of_ascii a =? 45) && (N_of_ascii b =? 48))%N
  | _ => false
  end.

(* on a valid literal: a plain integer other than minus zero *)
Definition is_int_lit (s : string) : bool :=
  negb (is_minus_zero s) && all_digits (strip_minus s).

Fixpoint read_dec (s : string) (acc : N) : N :=
  match s with
  | String c r => read_dec r (acc * 10 + (N_of_ascii c - 48))%N
  | EmptyString => acc
  end.

Definition read_int (s : string) : Z :=
  match s with
  | String c r => if (N_of_ascii c =? 45)%N then Z.opp (Z.of_N (read_dec r 0%N))
                  else Z.of_N (read_dec s 0%N)
  | EmptyString => 0%Z
  end.

Definition parse_num (s : string) : option (json * string) :=
  let (lit, rest) := span_num s in
  if valid_number lit then
    if is_int_lit lit then Some (JNum (read_int lit), rest) else Some (JNumF lit, rest)
  else None.

(* ---- strings ---- *)
Definition hex_val (c : ascii) : option N :=
  let n := N_of_ascii c in
  if is_digit c then Some (n - 48)%N
  else if ((97 <=? n) && (n <=? 102))%N then Some (n - 87)%N
  else if ((65 <=? n) && (n <=? 70))%N then Some (n - 55)%N
  else None.

Definition hex4 (h1 h2 h3 h4 : ascii) : option N :=
  match hex_val h1, hex_val h2, hex_val h3, hex_val h4 with
  | Some a, Some b, Some c, Some d => Some (((a * 16 + b) * 16 + c) * 16 + d)%N
  | _, _, _, _ => None
  end.

(* the UTF-8 bytes of code point c (c < 0x110000), in front of tl *)
Definition utf8 (c : N) (tl : string) : string :=
  if (c <? 128)%N then String (ascii_of_N c) tl
  else if (c <? 2048)%N then
    String (ascii_of_N (192 + c / 64)) (String (ascii_of_N (128 + c mod 64)) tl)
  else if (c <? 65536)%N then
    String (ascii_of_N (224 + c / 4096))
      (String (ascii_of_N (128 + (c / 64) mod 64)) (String (ascii_of_N (128 + c mod 64)) tl))
  else
    String (ascii_of_N (240 + c / 262144))
      (String (ascii_of_N (128 + (c / 4096) mod 64))
        (String (ascii_of_N (128 + (c / 64) mod 64)) (String (ascii_of_N (128 + c mod 64)) tl))).

Definition on_fst (g : string -> string) (o : option (string * string)) : option (string * string) :=
  match o with
  | Some (a, r) => Some (g a, r)
  | None => None
  end.

(* the eight single-character escapes: quote, backslash, slash, b f n r t *)
Definition simple_esc (e : ascii) : option ascii :=
  let n := N_of_ascii e in
  if (n =? 34)%N then Some e
  else if (n =? 92)%N then Some e
  else if (n =? 47)%N then Some e
  else if (n =? 98)%N then Some (ascii_of_N 8)
  else if (n =? 102)%N then Some (ascii_of_N 12)
  else if (n =? 110)%N then Some (ascii_of_N 10)
  else if (n =? 114)%N then Some (ascii_of_N 13)
  else if (n =? 116)%N then Some (ascii_of_N 9)
  else None.

Definition is_hi_surr (c : N) : bool := ((55296 <=? c) && (c <? 56320))%N.   (* D800..DBFF *)
Definition is_lo_surr (c : N) : bool := ((56320 <=? c) && (c <? 57344))%N.   (* DC00..DFFF *)
Definition is_surr (c : N) : bool := ((55296 <=? c) && (c <? 57344))%N.
Definition surr_pair (c1 c2 : N) : N := (65536 + (c1 - 55296) * 1024 + (c2 - 56320))%N.
Definition repl_char : N := 65533%N.                                           (* U+FFFD *)

(* the text after an opening quote: the decoded content and what follows the closing quote.
   Structural on the text (every recursive call is on a tail reached by pattern matching). *)
Fixpoint unesc (s : string) : option (string * string) :=
  match s with
  | EmptyString => None
  | String c r =>
    let n := N_of_ascii c in
    if (n =? 34)%N then Some (EmptyString, r)
    else if (n =? 92)%N then
      match r with
      | EmptyString => None
      | String e r1 =>
        if (N_of_ascii e =? 117)%N then
          match r1 with
          | String h1 (String h2 (String h3 (String h4 r2))) =>
            match hex4 h1 h2 h3 h4 with
            | None => None
            | Some c1 =>
              if is_hi_surr c1 then
                match r2 with
                | String a (String b (String g1 (String g2 (String g3 (String g4 r3))))) =>
                  if ((N_of_ascii a =? 92) && (N_of_ascii b =? 117))%N then
                    match hex4 g1 g2 g3 g4 with
                    | None => None
                    | Some c2 =>
                      if is_lo_surr c2 then on_fst (utf8 (surr_pair c1 c2)) (unesc r3)
                      else on_fst (utf8 repl_char) (unesc r2)
                    end
                  else on_fst (utf8 repl_char) (unesc r2)
                | _ => on_fst (utf8 repl_char) (unesc r2)
                end
              else if is_surr c1 then on_fst (utf8 repl_char) (unesc r2)
              else on_fst (utf8 c1) (unesc r2)
            end
          | _ => None
          end
        else
          match simple_esc e with
          | Some b => on_fst (String b) (unesc r1)
          | None => None
          end
      end
    else if (n <? 32)%N then None
    else on_fst (String c) (unesc r)
  end.

(* ---- values ---- *)
Fixpoint strip_prefix (p s : string) : option string :=
  match p with
  | EmptyString => Some s
  | String a p' =>
    match s with
    | String b s' => if Ascii.eqb a b then strip_prefix p' s' else None
    | EmptyString => None
    end
  end.

Definition val_dispatch (pe : string -> option (list json * string))
                        (pm : string -> option (list (string * json) * string))
                        (c : ascii) (r : string) : option (json * string) :=
  let n := N_of_ascii c in
  if is_num_char c then parse_num (String c r)
  else if (n =? 34)%N then                                        (* quote *)
    match unesc r with
    | Some (k, r') => Some (JStr k, r')
    | None => None
    end
  else if (n =? 123)%N then                                       (* { *)
    match skip_ws r with
    | String c2 r2 =>
      if (N_of_ascii c2 =? 125)%N then Some (JObj [], r2)
      else match pm r with
           | Some (l, r') => Some (JObj l, r')
           | None => None
           end
    | EmptyString => None
    end
  else if (n =? 91)%N then                                        (* [ *)
    match skip_ws r with
    | String c2 r2 =>
      if (N_of_ascii c2 =? 93)%N then Some (JArr [], r2)
      else match pe r with
           | Some (l, r') => Some (JArr l, r')
           | None => None
           end
    | EmptyString => None
    end
  else if (n =? 116)%N then                                       (* true *)
    match strip_prefix "rue" r with
    | Some r' => Some (JBool true, r')
    | None => None
    end
  else if (n =? 102)%N then                                       (* false *)
    match strip_prefix "alse" r with
    | Some r' => Some (JBool false, r')
    | None => None
    end
  else if (n =? 110)%N then                                       (* null *)
    match strip_prefix "ull" r with
    | Some r' => Some (JNull, r')
    | None => None
    end
  else None.

Definition val_body pe pm (s : string) : option (json * string) :=
  match skip_ws s with
  | EmptyString => None
  | String c r => val_dispatch pe pm c r
  end.

(* value , ... ]   (at least one value; the opening bracket is already consumed) *)
Definition elems_body (pv : string -> option (json * string))
                      (pe : string -> option (list json * string))
                      (s : string) : option (list json * string) :=
  match pv s with
  | None => None
  | Some (v, r) =>
    match skip_ws r with
    | String c r' =>
      if (N_of_ascii c =? 44)%N then
        match pe r' with
        | Some (vs, r'') => Some (v :: vs, r'')
        | None => None
        end
      else if (N_of_ascii c =? 93)%N then Some ([v], r')
      else None
    | EmptyString => None
    end
  end.

(* key : value , ... }   (at least one member) *)
Definition members_body (pv : string -> option (json * string))
                        (pm : string -> option (list (string * json) * string))
                        (s : string) : option (list (string * json) * string) :=
  match skip_ws s with
  | String c r =>
    if (N_of_ascii c =? 34)%N then
      match unesc r with
      | None => None
      | Some (k, r1) =>
        match skip_ws r1 with
        | String c1 r2 =>
          if (N_of_ascii c1 =? 58)%N then
            match pv r2 with
            | None => None
            | Some (v, r3) =>
              match skip_ws r3 with
              | String c3 r4 =>
                if (N_of_ascii c3 =? 44)%N then
                  match pm r4 with
                  | Some (ms, r5) => Some ((k, v) :: ms, r5)
                  | None => None
                  end
                else if (N_of_ascii c3 =? 125)%N then Some ([(k, v)], r4)
                else None
              | EmptyString => None
              end
            end
          else None
        | EmptyString => None
        end
      end
    else None
  | EmptyString => None
  end.

Fixpoint parse_val (f : nat) (s : string) {struct f} : option (json * string) :=
  match f with
  | O => None
  | S f' => val_body (parse_elems f') (parse_members f') s
  end
with parse_elems (f : nat) (s : string) {struct f} : option (list json * string) :=
  match f with
  | O => None
  | S f' => elems_body (parse_val f') (parse_elems f') s
  end
with parse_members (f : nat) (s : string) {struct f} : option (list (string * json) * string) :=
  match f with
  | O => None
  | S f' => members_body (parse_val f') (parse_members f') s
  end.

Definition parse_fuel (s : string) : nat := S (String.length s + String.length s).

Definition parse_json (s : string) : option json :=
  match parse_val (parse_fuel s) s with
  | Some (j, r) =>
    match skip_ws r with
    | EmptyString => Some j
    | String _ _ => None
    end
  | None => None
  end.

Fixpoint string_of_bytes (l : list N) : string :=
  match l with
  | [] => EmptyString
  | b :: r => String (ascii_of_N b) (string_of_bytes r)
  end.
Definition parse_json_bytes (l : list N) : option json := parse_json (string_of_bytes l).

(* ---- the trees render/parse round-trip on: a JNumF carries a literal of Go's number grammar
   that is not a plain integer (or is "-0"); nothing is asked of strings and keys ---- *)
Fixpoint wf_jsonb (j : json) : bool :=
  match j with
  | JNumF lit => valid_number lit && negb (is_int_lit lit)
  | JArr l => forallb wf_jsonb l
  | JObj l => forallb (fun p => wf_jsonb (snd p)) l
  | _ => true
  end.
Definition wf_json (j : json) : Prop := wf_jsonb j = true.

(* ---- computation examples ---- *)
Example ex_ws : parse_json "  [ 1 , 2 ]  " = Some (JArr [JNum 1; JNum 2]).
Proof. vm_compute. reflexivity. Qed.
Example ex_ws_all : parse_json (String "009" (String "010" (String "013" " null"))) = Some JNull.
Proof. vm_compute. reflexivity. Qed.
Example ex_trailing : parse_json "1 2" = None.
Proof. vm_compute. reflexivity. Qed.
Example ex_lits : parse_json "[null,true,false]" = Some (JArr [JNull; JBool true; JBool false]).
Proof. vm_compute. reflexivity. Qed.
Example ex_lit_strict : parse_json "nulx" = None /\ parse_json "tru" = None /\ parse_json "falsy" = None.
Proof. vm_compute. repeat split; reflexivity. Qed.
Example ex_ints : parse_json "[0,-7,1234567890123456789012]" = Some (JArr [JNum 0; JNum (-7); JNum 1234567890123456789012]).
Proof. vm_compute. reflexivity. Qed.
Example ex_numf : parse_json "[-0,1.5e3,2E+7,0.25,1e-2]"
  = Some (JArr [JNumF "-0"; JNumF "1.5e3"; JNumF "2E+7"; JNumF "0.25"; JNumF "1e-2"]).
Proof. vm_compute. reflexivity. Qed.
Example ex_num_bad : parse_json "01" = None /\ parse_json "1." = None /\ parse_json ".5" = None
  /\ parse_json "+1" = None /\ parse_json "1e" = None /\ parse_json "-" = None /\ parse_json "1.5.2" = None
  /\ parse_json "--1" = None /\ parse_json "1e+" = None /\ parse_json "-01" = None.
Proof. vm_compute. repeat split; reflexivity. Qed.
Example ex_str_plain : parse_json """a<b/""" = Some (JStr "a<b/").
Proof. vm_compute. reflexivity. Qed.
Example ex_str_high : parse_json (String """" (String "226" (String "128" (String "168" (String "255" """")))))
  = Some (JStr (String "226" (String "128" (String "168" (String "255" ""))))).
Proof. vm_compute. reflexivity. Qed.
Example ex_str_ctrl : parse_json (String """" (String "010" """")) = None.
Proof. vm_compute. reflexivity. Qed.
Example ex_str_esc : parse_json """\""\\\/\b\f\n\r\t"""
  = Some (JStr (String """" (String "\" (String "/" (String "008" (String "012" (String "010" (String "013" (String "009" ""))))))))).
Proof. vm_compute. reflexivity. Qed.
Example ex_str_bad_esc : parse_json """\a""" = None /\ parse_json """\u12g4""" = None /\ parse_json """\u12""" = None
  /\ parse_json """abc" = None.
Proof. vm_compute. repeat split; reflexivity. Qed.
Example ex_str_u : parse_json """\u003c\u00e9\u2028\u20AC"""
  = Some (JStr (String "<" (String "195" (String "169" (String "226" (String "128" (String "168"
              (String "226" (String "130" (String "172" "")))))))))).
Proof. vm_compute. reflexivity. Qed.
(* U+1F600 = F0 9F 98 80 *)
Example ex_str_pair : parse_json """\ud83d\uDE00"""
  = Some (JStr (String "240" (String "159" (String "152" (String "128" ""))))).
Proof. vm_compute. reflexivity. Qed.
(* lone high, lone low, high followed by a non-low escape (which is then decoded on its own) *)
Example ex_str_lone : parse_json """\ud83dx""" = Some (JStr (String "239" (String "191" (String "189" "x"))))
  /\ parse_json """\ude00""" = Some (JStr (String "239" (String "191" (String "189" ""))))
  /\ parse_json """\ud83d\u0041""" = Some (JStr (String "239" (String "191" (String "189" "A")))).
Proof. vm_compute. repeat split; reflexivity. Qed.
Example ex_arr : parse_json "[ ]" = Some (JArr []) /\ parse_json "[[],[1]]" = Some (JArr [JArr []; JArr [JNum 1]])
  /\ parse_json "[1,]" = None /\ parse_json "[,1]" = None /\ parse_json "[1 2]" = None /\ parse_json "[1" = None.
Proof. vm_compute. repeat split; reflexivity. Qed.
Example ex_obj : parse_json "{ }" = Some (JObj [])
  /\ parse_json "{ ""a"" : 1 , ""b"":{""c"":[]} , ""a"":null }"
     = Some (JObj [("a", JNum 1); ("b", JObj [("c", JArr [])]); ("a", JNull)])
  /\ parse_json "{""a"":1,}" = None /\ parse_json "{""a"" 1}" = None /\ parse_json "{a:1}" = None
  /\ parse_json "{""a"":1" = None.
Proof. vm_compute. repeat split; reflexivity. Qed.
Example ex_empty : parse_json "" = None /\ parse_json "   " = None.
Proof. vm_compute. repeat split; reflexivity. Qed.
Example ex_wf : wf_jsonb (JArr [JNumF "1.5e3"; JNumF "-0"; JObj [("k", JNumF "1E2")]]) = true
  /\ wf_jsonb (JNumF "12") = false /\ wf_jsonb (JNumF "1.") = false /\ wf_jsonb (JNumF "") = false.
Proof. vm_compute. repeat split; reflexivity. Qed.
