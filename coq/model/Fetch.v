(* Fetch.v — one call of verifyNeighborBlockchain (blockchain.go:372-405) as a labelled
   transition system: the fetch goroutine, the result channel, the caller's select and the
   timer of time.After; and a sync round as a sequence of such calls (Update, blockchain.go:99-150:
   the loops over the neighbors are sequential).
   Definitions only. [fstep] is the current code (channel of capacity 1, return after reporting
   the GetBlocks error); [fstep_old] is the pinned tree (capacity 0, fall-through to a second send). *)
From RV Require Import model.Base model.Ledger model.Registry model.Chain model.Sync.

(* what the neighbor does with the GetBlocks request *)
Inductive behaviour :=
  | AnswerErr                       (* the peer call returns an error *)
  | AnswerGarbage                   (* bytes that json.Unmarshal rejects *)
  | AnswerBlocks (l : list block)   (* anything decodable *)
  | Never.                          (* the peer call does not return *)

(* the ChanResult the goroutine sends *)
Inductive result :=
  | ResFetchErr                     (* Err: GetBlocks failed *)
  | ResDecodeErr                    (* Err: Unmarshal failed *)
  | ResBlocks (l : list block).

Definition result_of (b : behaviour) : option result :=
  match b with
  | AnswerErr => Some ResFetchErr
  | AnswerGarbage => Some ResDecodeErr
  | AnswerBlocks l => Some (ResBlocks l)
  | Never => None
  end.

(* fetch goroutine: in GetBlocks / at a channel send / past its last send, the deferred close
   still to run / returned and channel closed *)
Inductive fpc := FCalling | FSending (v : result) | FClosing | FDone.

(* how the caller left the select. [ONilPanic]: a receive from a closed empty channel yields a
   nil *ChanResult whose .Err is then dereferenced *)
Inductive outcome := OGot (v : result) | OTimeout | ONilPanic.
Inductive cpc := CWaiting | CReturned (r : outcome).

Record fstate := mkF {
  f_pc : fpc;
  f_buf : option result;   (* the channel buffer, capacity 1 *)
  f_closed : bool;
  c_pc : cpc;
  f_timer : bool           (* time.After(timeout) has fired *)
}.

Definition finit : fstate := mkF FCalling None false CWaiting false.

Inductive fevent :=
  | EvAnswer         (* GetBlocks returns in the goroutine *)
  | EvTimer          (* the timeout elapses *)
  | EvFetcher        (* the goroutine takes its next step: a send, or the deferred close *)
  | EvCallerRecv     (* select takes the channel case *)
  | EvCallerTimeout. (* select takes the timer case *)

Definition all_events : list fevent := [EvAnswer; EvTimer; EvFetcher; EvCallerRecv; EvCallerTimeout].

Definition ev_answer (b : behaviour) (s : fstate) : option fstate :=
  match f_pc s, result_of b with
  | FCalling, Some v => Some (mkF (FSending v) (f_buf s) (f_closed s) (c_pc s) (f_timer s))
  | _, _ => None
  end.

Definition ev_timer (s : fstate) : option fstate :=
  if f_timer s then None else Some (mkF (f_pc s) (f_buf s) (f_closed s) (c_pc s) true).

(* a receive: a buffered value first; a closed empty channel yields nil at once *)
Definition ev_recv (s : fstate) : option fstate :=
  match c_pc s with
  | CWaiting =>
    match f_buf s with
    | Some v => Some (mkF (f_pc s) None (f_closed s) (CReturned (OGot v)) (f_timer s))
    | None => if f_closed s
              then Some (mkF (f_pc s) None true (CReturned ONilPanic) (f_timer s))
              else None
    end
  | CReturned _ => None
  end.

Definition ev_timeout (s : fstate) : option fstate :=
  match c_pc s with
  | CWaiting => if f_timer s
                then Some (mkF (f_pc s) (f_buf s) (f_closed s) (CReturned OTimeout) true)
                else None
  | CReturned _ => None
  end.

(* current code: one send into the buffer (blocks only if the buffer is full), then close *)
Definition ev_fetcher (s : fstate) : option fstate :=
  match f_pc s with
  | FSending v =>
    match f_buf s with
    | None => Some (mkF FClosing (Some v) (f_closed s) (c_pc s) (f_timer s))
    | Some _ => None
    end
  | FClosing => Some (mkF FDone (f_buf s) true (c_pc s) (f_timer s))
  | FCalling | FDone => None
  end.

(* None = the event is not enabled. When a value is buffered and the timer has fired both caller
   events are enabled: Go's select picks one at random. *)
Definition fstep (b : behaviour) (s : fstate) (e : fevent) : option fstate :=
  match e with
  | EvAnswer => ev_answer b s
  | EvTimer => ev_timer s
  | EvFetcher => ev_fetcher s
  | EvCallerRecv => ev_recv s
  | EvCallerTimeout => ev_timeout s
  end.

(* pinned tree: unbuffered channel, so a send is a rendezvous with a caller that is in the
   select; after sending the GetBlocks error the goroutine goes on to Unmarshal the nil bytes,
   which fails, and sends again *)
Definition ev_fetcher_old (s : fstate) : option fstate :=
  match f_pc s with
  | FSending v =>
    match c_pc s with
    | CWaiting =>
      Some (mkF (match v with ResFetchErr => FSending ResDecodeErr | _ => FClosing end)
                None (f_closed s) (CReturned (OGot v)) (f_timer s))
    | CReturned _ => None
    end
  | FClosing => Some (mkF FDone (f_buf s) true (c_pc s) (f_timer s))
  | FCalling | FDone => None
  end.

Definition fstep_old (b : behaviour) (s : fstate) (e : fevent) : option fstate :=
  match e with
  | EvAnswer => ev_answer b s
  | EvTimer => ev_timer s
  | EvFetcher => ev_fetcher_old s
  | EvCallerRecv => ev_recv s
  | EvCallerTimeout => ev_timeout s
  end.

Fixpoint run (step : fstate -> fevent -> option fstate) (s : fstate) (evs : list fevent)
  : option fstate :=
  match evs with
  | [] => Some s
  | e :: r => match step s e with None => None | Some s' => run step s' r end
  end.

Definition enabledb (step : fstate -> fevent -> option fstate) (s : fstate) (e : fevent) : bool :=
  match step s e with Some _ => true | None => false end.
Definition quiescentb (step : fstate -> fevent -> option fstate) (s : fstate) : bool :=
  forallb (fun e => negb (enabledb step s e)) all_events.

Definition returned (s : fstate) : bool :=
  match c_pc s with CReturned _ => true | CWaiting => false end.
(* the goroutine still exists *)
Definition live (s : fstate) : bool :=
  match f_pc s with FDone => false | _ => true end.

(* what Update sees of the call before [verify] (Sync.response) *)
Definition outcome_response (r : outcome) : response :=
  match r with
  | OGot (ResBlocks l) => RBlocks l
  | OGot ResFetchErr => RFail EFetch
  | OGot ResDecodeErr => RFail EDecode
  | OTimeout => RFail ETimeout
  | ONilPanic => RFail (EPanic PsNilElem)
  end.

(* ---- a sync round: the calls are made one after the other; the goroutines of earlier calls
   keep running on their own ---- *)
Record rstate := mkR {
  r_calls : list (behaviour * fstate);   (* started calls, the most recent first *)
  r_pending : list behaviour             (* neighbors still to be asked, stage 1 then stage 2 *)
}.
Definition rinit (bs : list behaviour) : rstate := mkR [] bs.

Inductive revent :=
  | RStart                       (* Update moves on to the next neighbor *)
  | RCall (i : nat) (e : fevent).  (* an event of the i-th most recent call *)

Fixpoint upd {A} (i : nat) (x : A) (l : list A) : list A :=
  match l, i with
  | [], _ => []
  | _ :: r, O => x :: r
  | y :: r, Datatypes.S j => y :: upd j x r
  end.

Definition rstep (r : rstate) (ev : revent) : option rstate :=
  match ev with
  | RStart =>
    match r_pending r with
    | [] => None
    | b :: rest =>
      if match r_calls r with [] => true | (_, s) :: _ => returned s end
      then Some (mkR ((b, finit) :: r_calls r) rest)
      else None
    end
  | RCall i e =>
    match nth_error (r_calls r) i with
    | None => None
    | Some (b, s) =>
      match fstep b s e with
      | None => None
      | Some s' => Some (mkR (upd i (b, s') (r_calls r)) (r_pending r))
      end
    end
  end.

Fixpoint rrun (r : rstate) (evs : list revent) : option rstate :=
  match evs with
  | [] => Some r
  | e :: t => match rstep r e with None => None | Some r' => rrun r' t end
  end.

Definition live_count (r : rstate) : nat := length (filter (fun p => live (snd p)) (r_calls r)).

(* ---- time, in abstract units ---- *)
Record call_cost := mkCost {
  cc_delay : option nat;   (* when the answer is there; None = never *)
  cc_verify : nat          (* the work of [verify] on the answer *)
}.
(* the caller leaves the select when the answer is there or when the timer fires *)
Definition call_wait (timeout : nat) (c : call_cost) : nat :=
  match cc_delay c with Some d => Nat.min d timeout | None => timeout end.
Definition call_time (timeout : nat) (c : call_cost) : nat :=
  call_wait timeout c +
  match cc_delay c with Some d => if Nat.ltb timeout d then 0 else cc_verify c | None => 0 end.
Definition sum_nat (l : list nat) : nat := fold_right Nat.add 0 l.
(* sequential calls: the durations add up, over stage 1 and stage 2 *)
Definition round_time (timeout : nat) (stage1 stage2 : list call_cost) : nat :=
  sum_nat (map (call_time timeout) stage1) + sum_nat (map (call_time timeout) stage2).
