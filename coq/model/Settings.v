(* Settings.v — validatornode/infrastructure/configuration/protocol_settings.go:
   ProtocolSettings.UnmarshalJSON on a JSON tree (encoding/json's struct decoding of
   protocolSettingsDto as in WireDec.v, then the derived quantities the rest of the node reads).
   Definitions only. *)
From RV Require Import model.Base model.Json model.WireDec.
Local Open Scope string_scope.
Local Notation "x <- e ;; k" := (bind e (fun x => k)) (at level 61, e at next level, right associativity).

(* int64 two's-complement wrap of an exact product (Go's `*` on int64 / time.Duration) *)
Definition wrap_i64 (z : Z) : Z :=
  let m := (z mod 18446744073709551616)%Z in
  if (m <? 9223372036854775808)%Z then m else (m - 18446744073709551616)%Z.

Definition ns_per_s : Z := 1000000000%Z.
Definition ns_per_day : Z := 86400000000000%Z.   (* 24 * time.Hour.Nanoseconds() *)

(* HalfLifeInDays is a float64: every number literal is accepted (range errors aside).
   The model keeps the value when the literal is a plain integer: the product with
   24 * 3.6e12 is then exact in binary64 as long as it stays below 2^53. *)
Inductive half_life :=
  | HLDays (d : Z)        (* integer literal *)
  | HLOther (lit : string).

Definition dec_float (cur : half_life) (j : json) : res derr half_life :=
  match j with
  | JNull => Ok cur
  | JNum z => Ok (HLDays z)
  | JNumF lit => Ok (HLOther lit)
  | _ => Err DType
  end.

Record psettings := mkPS {
  ps_limit : N;            (* BlocksCountLimit() *)
  ps_genesis : N;          (* GenesisAmount() *)
  ps_half_life : half_life;
  ps_base : N;             (* IncomeBase() *)
  ps_ilimit : N;           (* IncomeLimit() *)
  ps_fee : N;              (* MinimalTransactionFee() *)
  ps_digits : N;           (* CoinDigitsCount, uint8 *)
  ps_timeout : Z;          (* ValidationTimeout() in ns *)
  ps_timer : Z;            (* ValidationTimer() in ns: the period of the production engine *)
  ps_timestamp : Z;        (* ValidationTimestamp(): the spacing of blocks *)
  ps_verifs : Z            (* VerificationsCountPerValidation() *)
}.

(* the outcome: an error of encoding/json, a value, or the nil dereference of
   protocol_settings.go:44 when the text is `null` (dto stays nil) *)
Inductive sres := StOk (p : psettings) | StErr (e : derr) | StPanic.

Definition decode_settings (j : json) : sres :=
  match j with
  | JNull => StPanic
  | JObj fs =>
    match
      (l <- dec_field (dec_uint u64_bound) "BlocksCountLimit" fs 0%N ;;
       d <- dec_field (dec_uint 256) "CoinDigitsCount" fs 0%N ;;
       g <- dec_field (dec_uint u64_bound) "GenesisAmount" fs 0%N ;;
       h <- dec_field dec_float "HalfLifeInDays" fs (HLDays 0) ;;
       b <- dec_field (dec_uint u64_bound) "IncomeBase" fs 0%N ;;
       il <- dec_field (dec_uint u64_bound) "IncomeLimit" fs 0%N ;;
       f <- dec_field (dec_uint u64_bound) "MinimalTransactionFee" fs 0%N ;;
       iv <- dec_field dec_i64 "ValidationIntervalInSeconds" fs 0%Z ;;
       to <- dec_field dec_i64 "ValidationTimeoutInSeconds" fs 0%Z ;;
       vc <- dec_field dec_i64 "VerificationsCountPerValidation" fs 0%Z ;;
       Ok (mkPS l g h b il f d (wrap_i64 (to * ns_per_s)) (wrap_i64 (iv * ns_per_s)) (wrap_i64 (iv * ns_per_s)) vc))
    with
    | Ok p => StOk p
    | Err e => StErr e
    end
  | _ => StErr DType
  end.

(* SmallestUnitsPerCoin() = uint64(math.Pow10(digits)): exact up to 10^19 < 2^64; beyond that the
   float -> uint64 conversion is implementation-defined in Go and the model gives no value *)
Definition units_per_coin (p : psettings) : option N :=
  if (ps_digits p <=? 19)%N then Some (10 ^ ps_digits p)%N else None.

(* HalfLifeInNanoseconds() when it is exactly representable *)
Definition half_life_ns (p : psettings) : option Z :=
  match ps_half_life p with
  | HLDays d => if (Z.abs (d * ns_per_day) <? 9007199254740992)%Z then Some (d * ns_per_day)%Z else None
  | HLOther _ => None
  end.

(* the settings record the chain model is parameterised with *)
Definition to_settings (p : psettings) : settings :=
  mkSettings (ps_timestamp p) (ps_fee p) (ps_genesis p) (ps_limit p).

(* what main.go needs of a document for the properties' hypotheses to hold *)
Definition sane (p : psettings) : bool :=
  (0 <? ps_timestamp p)%Z && (1 <=? ps_fee p)%N && (3 <=? ps_limit p)%N.
