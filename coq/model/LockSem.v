(* LockSem.v — an abstract interleaving semantics of threads and reader/writer mutexes
   (sync.RWMutex), the semantic ground of the table checks of Lockset.v (property C16).
   Definitions only; the theory is in proofs/Lockset_lemmas.v.

   A thread is a straight-line program of lock acquisitions, releases and accesses to shared
   fields. The accesses are the [access] records of Lockset.v: each one CLAIMS the locks held at
   that point ([a_locks]); [well_bracketed] says the claim is true of the program text. *)
From RV Require Import model.Base model.Lockset.

Inductive event :=
| EAcq (l : string) (m : lmode)   (* l.Lock() when m = LW, l.RLock() when m = LR *)
| ERel (l : string)               (* l.Unlock() / l.RUnlock() *)
| EAccess (a : access).           (* a read or a write of a shared field *)

Definition program := list event.
Definition held := list (string * lmode).   (* the locks a thread holds, most recent first *)

Definition lmode_eqb (a b : lmode) : bool :=
  match a, b with LR, LR => true | LW, LW => true | _, _ => false end.

(* the thread holds l in some mode / in write mode / exactly as (l, m) *)
Definition holds_any (h : held) (l : string) : bool :=
  existsb (fun p => String.eqb (fst p) l) h.
Definition holds_w (h : held) (l : string) : bool :=
  existsb (fun p => String.eqb (fst p) l && is_lw p) h.
Definition holds_in (h : held) (lm : string * lmode) : bool :=
  existsb (fun p => String.eqb (fst p) (fst lm) && lmode_eqb (snd p) (snd lm)) h.

(* releasing drops the most recent acquisition of l (nothing when l is not held: Go would
   panic, balanced programs never do it) *)
Fixpoint release (l : string) (h : held) : held :=
  match h with
  | [] => []
  | p :: r => if String.eqb (fst p) l then r else p :: release l r
  end.

Definition apply_ev (e : event) (h : held) : held :=
  match e with
  | EAcq l m => (l, m) :: h
  | ERel l => release l h
  | EAccess _ => h
  end.

(* the locks acquired and not yet released after running [pre] from holdings [h] *)
Definition held_from (h : held) (pre : program) : held :=
  fold_left (fun h e => apply_ev e h) pre h.
Definition held_after (pre : program) : held := held_from [] pre.

(* ---- states and steps ---- *)
Record tstate := mkT { t_prog : program; t_held : held }.
Definition state := nat -> tstate.             (* thread id -> what is left to run, what it holds *)

Definition upd (s : state) (i : nat) (t : tstate) : state :=
  fun k => if Nat.eqb k i then t else s k.

(* Lock needs nobody (not even the thread itself: RWMutex is not reentrant) to hold l in any
   mode; RLock needs no OTHER thread to hold l in write mode; the rest never blocks *)
Definition enabled (s : state) (i : nat) (e : event) : Prop :=
  match e with
  | EAcq l LW => forall j, holds_any (t_held (s j)) l = false
  | EAcq l LR => forall j, j <> i -> holds_w (t_held (s j)) l = false
  | ERel _ => True
  | EAccess _ => True
  end.

(* thread i performs its next event *)
Definition step_of (s : state) (i : nat) (s' : state) : Prop :=
  exists e rest,
    t_prog (s i) = e :: rest /\ enabled s i e /\
    forall k, s' k = upd s i (mkT rest (apply_ev e (t_held (s i)))) k.
Definition step (s s' : state) : Prop := exists i, step_of s i s'.

Definition init (progs : nat -> program) : state := fun i => mkT (progs i) [].

Inductive reachable (progs : nat -> program) : state -> Prop :=
| reach_init : reachable progs (init progs)
| reach_step : forall s s', reachable progs s -> step s s' -> reachable progs s'.

(* thread i is about to execute e *)
Definition next_is (s : state) (i : nat) (e : event) : Prop :=
  exists rest, t_prog (s i) = e :: rest.

(* ---- the three program disciplines ---- *)
(* the locks acquired and not yet released after [pre] include every (l, m) that a claims *)
Definition holds_claimed (pre : program) (a : access) : bool :=
  forallb (holds_in (held_after pre)) (a_locks a).

(* every access occurs at a point where the thread holds at least the locks it claims *)
Definition well_bracketed (p : program) : Prop :=
  forall pre a post, p = pre ++ EAccess a :: post -> holds_claimed pre a = true.

(* every acquisition happens while holding only locks of strictly smaller rank *)
Definition ordered (rank : string -> nat) (p : program) : Prop :=
  forall pre l m post, p = pre ++ EAcq l m :: post ->
  forall l' m', In (l', m') (held_after pre) -> rank l' < rank l.

(* every acquisition of l while holding l' is recorded as the edge (l', l) *)
Definition follows_edges (edges : list (string * string)) (p : program) : Prop :=
  forall pre l m post, p = pre ++ EAcq l m :: post ->
  forall l' m', In (l', m') (held_after pre) -> In (l', l) edges.

(* the program releases everything it acquires *)
Definition balanced (p : program) : Prop := held_after p = [].

(* only accesses of the table *)
Definition accesses_in (tbl : list access) (p : program) : Prop :=
  forall a, In (EAccess a) p -> In a tbl.

(* thread k runs (any number of calls of) the entry point [entry k]; an engine entry point is
   driven by one goroutine only, so no two threads run the same one *)
Definition runs_entries (entry : nat -> string) (progs : nat -> program) : Prop :=
  forall k a, In (EAccess a) (progs k) -> a_entry a = entry k.
Definition engine_single (entry : nat -> string) : Prop :=
  forall i j, i <> j -> entry i = entry j -> mem_str (entry i) engine_entries = false.

(* only finitely many threads have anything to run *)
Definition finite_threads (n : nat) (progs : nat -> program) : Prop :=
  forall i, n <= i -> progs i = [].

(* ---- deadlock ---- *)
Definition unfinished (s : state) (i : nat) : Prop := t_prog (s i) <> [].
(* the thread has a next event and cannot perform it *)
Definition blocked (s : state) (i : nat) : Prop :=
  exists e rest, t_prog (s i) = e :: rest /\ ~ enabled s i e.
(* something is left to run and whoever has something left is blocked *)
Definition deadlock (s : state) : Prop :=
  (exists i, unfinished s i) /\ forall i, unfinished s i -> blocked s i.

(* ---- executable checkers of the disciplines (sound by Lockset_lemmas) ---- *)
Fixpoint check_from (chk : held -> event -> bool) (h : held) (p : program) : bool :=
  match p with
  | [] => true
  | e :: r => chk h e && check_from chk (apply_ev e h) r
  end.

Definition wb_chk (h : held) (e : event) : bool :=
  match e with EAccess a => forallb (holds_in h) (a_locks a) | _ => true end.
Definition wb_check (p : program) : bool := check_from wb_chk [] p.

Definition ord_chk (rank : string -> nat) (h : held) (e : event) : bool :=
  match e with EAcq l _ => forallb (fun p => Nat.ltb (rank (fst p)) (rank l)) h | _ => true end.
Definition ordered_check (rank : string -> nat) (p : program) : bool :=
  check_from (ord_chk rank) [] p.

Definition mem_edge (e : string * string) (edges : list (string * string)) : bool :=
  existsb (fun x => String.eqb (fst x) (fst e) && String.eqb (snd x) (snd e)) edges.
Definition edge_chk (edges : list (string * string)) (h : held) (e : event) : bool :=
  match e with EAcq l _ => forallb (fun p => mem_edge (fst p, l) edges) h | _ => true end.
Definition follows_check (edges : list (string * string)) (p : program) : bool :=
  check_from (edge_chk edges) [] p.

Definition balanced_check (p : program) : bool :=
  match held_after p with [] => true | _ => false end.

Definition rw_eqb (a b : rw) : bool :=
  match a, b with R, R => true | W, W => true | _, _ => false end.
Fixpoint locks_eqb (x y : list (string * lmode)) : bool :=
  match x, y with
  | [], [] => true
  | p :: x', q :: y' =>
    String.eqb (fst p) (fst q) && lmode_eqb (snd p) (snd q) && locks_eqb x' y'
  | _, _ => false
  end.
Definition access_eqb (a b : access) : bool :=
  String.eqb (a_entry a) (a_entry b) && String.eqb (a_type a) (a_type b) &&
  String.eqb (a_field a) (a_field b) && rw_eqb (a_rw a) (a_rw b) &&
  locks_eqb (a_locks a) (a_locks b).
Definition accesses_check (tbl : list access) (p : program) : bool :=
  forallb (fun e => match e with EAccess a => existsb (access_eqb a) tbl | _ => true end) p.

(* a finite family of thread programs *)
Definition progs_of (ps : list program) : nat -> program := fun i => nth i ps [].
