(* Wire.v — the custom MarshalJSON methods of validatornode/domain/ledger and the two
   hashes built on them (transaction id, block hash). Decoders are in WireDec.v. *)
From RV Require Import model.Base model.Json model.Sha256.
Local Open Scope string_scope.

(* go: input_info.go:22-27 *)
Definition marshal_input_info (idx : N) (ref : string) : json :=
  JObj [("output_index", JNum (Z.of_N idx)); ("transaction_id", JStr ref)].

(* go: output.go:23-29 *)
Definition marshal_output (o : output) : json :=
  JObj [("address", JStr (o_addr o)); ("is_yielding", JBool (o_yield o)); ("value", JNum (Z.of_N (o_val o)))].

(* go: input.go:36-51 (key and signature are held in their canonical lower-case form) *)
Definition marshal_input (i : input) : json :=
  JObj [("output_index", JNum (Z.of_N (i_idx i))); ("transaction_id", JStr (i_ref i));
        ("public_key", JStr (i_key i)); ("signature", JStr (i_sig i))].

(* go: transaction.go:116-132 generateId's anonymous struct *)
Definition marshal_idbody (i : slice input) (o : slice output) (ts : Z) : json :=
  JObj [("inputs", jslice marshal_input i); ("outputs", jslice marshal_output o); ("timestamp", JNum ts)].

(* go: transaction.go:70-77 *)
Definition marshal_tx (t : tx) : json :=
  JObj [("id", JStr (t_id t)); ("inputs", jslice marshal_input (t_ins t));
        ("outputs", jslice marshal_output (t_outs t)); ("timestamp", JNum (t_ts t))].

(* go: block.go:43-51; [32]byte is printed as an array of 32 numbers *)
Definition marshal_block (b : block) : json :=
  JObj [("previous_hash", JArr (map (fun n => JNum (Z.of_N n)) (b_prev b)));
        ("added_registered_addresses", jslice JStr (b_added b));
        ("removed_registered_addresses", jslice JStr (b_removed b));
        ("timestamp", JNum (b_ts b));
        ("transactions", jslice marshal_tx (b_txs b))].

(* go: utxo.go:27-36 *)
Definition marshal_utxo (u : utxo) : json :=
  JObj [("address", JStr (o_addr (u_out u))); ("timestamp", JNum (u_ts u));
        ("is_yielding", JBool (o_yield (u_out u))); ("output_index", JNum (Z.of_N (u_idx u)));
        ("transaction_id", JStr (u_ref u)); ("value", JNum (Z.of_N (o_val (u_out u))))].

(* go: transaction_request.go:31-36 (no json tags: Go field names) *)
Definition marshal_request (t : option tx) (target : string) : json :=
  JObj [("Transaction", match t with None => JNull | Some t => marshal_tx t end);
        ("TransactionBroadcasterTarget", JStr target)].

Definition sha_str (s : string) : list N := sha256 (bytes_of_string s).

(* go: transaction.go:129-131 *)
Definition gen_id_sha (i : slice input) (o : slice output) (ts : Z) : string :=
  hex_of_bytes (sha_str (render (marshal_idbody i o ts))).

(* go: block.go:53-61 *)
Definition block_hash_sha (b : block) : hash := sha_str (render (marshal_block b)).

(* the message an input's signature is over (input.go:73-77) *)
Definition input_msg (i : input) : string := render (marshal_input_info (i_idx i) (i_ref i)).
