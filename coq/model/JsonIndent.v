(* JsonIndent.v — Json.render with whitespace between the tokens: Go's json.Indent and every other
   layout a JSON text of the same tree can have.  Definitions only; that JsonParse.parse_json
   reads every such text back to the same tree is proved in proofs/JsonIndent_lemmas.v.

   The places where the grammar allows whitespace inside a value are named by a path and a slot
   kind.  The path of a value is the list of element indices from the value up to the root
   (innermost first, [] for the root).  For a container at path p with elements 0 .. n-1:
       [ / {   w p SAfterOpen   elem 0   w (0::p) SBeforeComma   ,   w (1::p) SAfterComma   elem 1
       ...     elem n-1   w p SBeforeClose   ] / }
   inside an object member at path q:   "key"   w q SBeforeColon   :   w q SAfterColon   value
   and an empty container at path p is   [ w p SEmpty ]   /   { w p SEmpty }.
   Every whitespace position of a given tree has its own (path, slot), so a generator
   [path -> slot -> string] can give each of them a different string: nothing between the tokens
   of a text is left out.  (Whitespace before and after the whole value is the business of
   parse_ws / parse_render_ws_around.) *)
From RV Require Import model.Base model.Json model.JsonParse.
Local Open Scope string_scope.

Inductive slot :=
  | SAfterOpen | SBeforeClose | SBeforeComma | SAfterComma | SBeforeColon | SAfterColon | SEmpty.

Definition path := list nat.
Definition wsgen := path -> slot -> string.

(* every string the generator hands out is made of space, \n, \t, \r *)
Definition ws_gen_ok (w : wsgen) : Prop := forall p k, all_ws (w p k).

(* what follows element number i of the container at path p: the remaining elements, each after
   its comma, then the closing bracket *)
Section Tail.
  Variable A : Type.
  Variable w : wsgen.
  Variable re : path -> A -> string.
  Variable p : path.
  Variable close : string.
  Fixpoint tail_ws (i : nat) (l : list A) : string :=
    match l with
    | [] => w p SBeforeClose ++ close
    | y :: r => w (i :: p) SBeforeComma ++ "," ++ w (S i :: p) SAfterComma
                ++ re (S i :: p) y ++ tail_ws (S i) r
    end.
End Tail.

(* one object member at path q *)
Definition member_with (re : path -> json -> string) (w : wsgen) (q : path) (kv : string * json) : string :=
  quote (fst kv) ++ w q SBeforeColon ++ ":" ++ w q SAfterColon ++ re q (snd kv).

Fixpoint render_ws_at (w : wsgen) (p : path) (j : json) {struct j} : string :=
  match j with
  | JArr [] => "[" ++ w p SEmpty ++ "]"
  | JArr (x :: l) =>
      "[" ++ w p SAfterOpen ++ render_ws_at w (O :: p) x
          ++ tail_ws json w (render_ws_at w) p "]" O l
  | JObj [] => "{" ++ w p SEmpty ++ "}"
  | JObj (x :: l) =>
      "{" ++ w p SAfterOpen ++ member_with (render_ws_at w) w (O :: p) x
          ++ tail_ws (string * json) w (member_with (render_ws_at w) w) p "}" O l
  | JNull | JBool _ | JNum _ | JNumF _ | JStr _ => render j
  end.

Definition render_ws (w : wsgen) (j : json) : string := render_ws_at w [] j.

(* ---- Go: json.Indent(dst, src, prefix, indent) on a compact src.
   scanner-driven copy (encoding/json indent.go appendIndent): after [ or { of a non-empty
   container and after every comma a newline, the prefix and depth copies of indent; the same
   with the outer depth before the closing bracket; one space after a colon; nothing else.
   The depth of an element is the length of its path. ---- *)
Fixpoint rep (s : string) (n : nat) : string :=
  match n with
  | O => ""
  | S k => s ++ rep s k
  end.

Definition newline_at (prefix indent : string) (depth : nat) : string :=
  String "010" (prefix ++ rep indent depth).

Definition indent_gen (prefix indent : string) : wsgen :=
  fun p k =>
    match k with
    | SAfterOpen => newline_at prefix indent (S (length p))
    | SAfterComma => newline_at prefix indent (length p)
    | SBeforeClose => newline_at prefix indent (length p)
    | SAfterColon => " "
    | SBeforeComma | SBeforeColon | SEmpty => ""
    end.

Definition render_indent (prefix indent : string) (j : json) : string :=
  render_ws (indent_gen prefix indent) j.

(* a generator that uses every slot, each with a different string *)
Definition noisy_gen : wsgen :=
  fun p k =>
    match k with
    | SAfterOpen => String "010" (rep " " (length p))
    | SBeforeClose => String "013" (String "010" "")
    | SBeforeComma => String "009" ""
    | SAfterComma => rep (String "009" " ") (length p)
    | SBeforeColon => " "
    | SAfterColon => "  "
    | SEmpty => String "010" " "
    end.

(* ---- computation examples ---- *)
Example ex_indent_flat : render_indent "" "  " (JArr [JNum 1; JArr []; JObj []])
  = "[
  1,
  [],
  {}
]".
Proof. vm_compute. reflexivity. Qed.

Example ex_indent_prefix : render_indent ">" "-" (JObj [("a", JArr [JNull])])
  = String "{" (String "010" (">-""a"": [" ++ String "010" (">--null" ++ String "010" (">-]" ++ String "010" ">}")))).
Proof. vm_compute. reflexivity. Qed.

Example ex_compact : forall j, j = JObj [("a", JArr [JNum 1; JStr "x"]); ("b", JObj [])] ->
  render_ws (fun _ _ => "") j = render j.
Proof. intros j ->. vm_compute. reflexivity. Qed.

Example ex_noisy_parses :
  parse_json (render_ws noisy_gen (JObj [("a", JArr [JNum 1; JArr []; JStr " x "]); ("b", JObj [])]))
  = Some (JObj [("a", JArr [JNum 1; JArr []; JStr " x "]); ("b", JObj [])]).
Proof. vm_compute. reflexivity. Qed.
