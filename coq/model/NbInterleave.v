(* NbInterleave.v — the neighbor-refresh round cut at its lock release.
   Definitions only (no proofs), all executable.

   Neighborhood.sync_round describes one Synchronize as one atomic function. The Go code
   (validatornode/application/network/neighborhood.go:65-108) runs it in two phases:

     phase 1 (lines 66-74, scoresByTargetValueMutex held)
        picks the map it will work from: the live map, or the seeds map when the live map is
        empty (this is [known seeds scores]); REPLACES the live map by an empty one; unlocks.
     phase 2 (lines 75-108, no scores lock)
        creates a sender per target of that snapshot, selects the outbounds, stores them
        (sendersMutex, lines 93-95), tells every selected peer the targets.

   AddTargets (lines 34-48) and Incentive (lines 54-58) take the scores lock and update the LIVE
   map, so a message handled while phase 2 runs lands in the new live map and is seen by the next
   round only. Here each phase is one step of a small machine; between the two any number of
   message steps may run. Synchronize is driven by one engine: rounds never overlap, a step that is
   not enabled (a second S1 while a round is pending, an S2 with no pending round) leaves the state
   unchanged and [nb_wf] says that a schedule contains none.

   The map iteration order and the shuffle outcome are inputs of the step that uses them (S2). *)
From RV Require Import model.Base model.Neighborhood.
Local Open Scope Z_scope.

(* what a finished round hands out: the new senders and what each of them is sent *)
Definition nb_output := (list entry * list (string * list string))%type.

Record nbstate := mkNb {
  nb_scores : list (string * Z);              (* the live map scoresByTargetValue *)
  nb_senders : list entry;                    (* neighborhood.senders *)
  nb_pending : option (list (string * Z))     (* the local scoresByTargetValue of a running round *)
}.

Inductive nbstep :=
| NS1                                             (* phase 1 of Synchronize *)
| NS2 (order : list string) (perm : list nat)     (* phase 2 of Synchronize *)
| NAdd (ts : list string)                         (* AddTargets *)
| NInc (t : string).                              (* Incentive *)

Definition is_msg (s : nbstep) : bool :=
  match s with NAdd _ | NInc _ => true | _ => false end.

(* the atomic operations, for comparison *)
Inductive aop :=
| ARound (order : list string) (perm : list nat)  (* one whole sync_round *)
| AAdd (ts : list string)
| AInc (t : string).

Section NbInterleave.
  Variable split_hp : string -> option (string * string).
  Variable resolve : string -> string -> option string.
  Variable host : string.
  Variable host_port : string.
  Variable seeds : list (string * Z).      (* scoresBySeedTargetValue, never written *)
  Variable max : Z.                        (* maxOutboundsCount *)

  Notation add_targets := (add_targets split_hp host_port).
  Notation reachable := (reachable split_hp resolve host).
  Notation fanout := (fanout host).
  Notation sync_round := (sync_round split_hp resolve host).

  (* phase 2 on the snapshot [m] (the body of sync_round after [known]) *)
  Definition round_of (m : list (string * Z)) (order : list string) (perm : list nat) : nb_output :=
    let r := reachable m order in
    let out := select_outbounds r (outbounds_count m max) perm in
    (out, map (fun q => (e_tgt q, fanout r (e_tgt q))) out).

  (* what a message does to the live map *)
  Definition msg_scores (s : nbstep) (sc : list (string * Z)) : list (string * Z) :=
    match s with
    | NAdd ts => add_targets sc ts
    | NInc t => incentive sc t
    | _ => sc
    end.

  Fixpoint apply_msgs (ms : list nbstep) (sc : list (string * Z)) : list (string * Z) :=
    match ms with
    | [] => sc
    | m :: r => apply_msgs r (msg_scores m sc)
    end.

  Definition nb_step (s : nbstep) (st : nbstate) : nbstate * list nb_output :=
    match s with
    | NS1 =>
      match nb_pending st with
      | None => (mkNb sync_scores_after (nb_senders st) (Some (known seeds (nb_scores st))), [])
      | Some _ => (st, [])
      end
    | NS2 order perm =>
      match nb_pending st with
      | Some m => let o := round_of m order perm in (mkNb (nb_scores st) (fst o) None, [o])
      | None => (st, [])
      end
    | NAdd _ | NInc _ => (mkNb (msg_scores s (nb_scores st)) (nb_senders st) (nb_pending st), [])
    end.

  (* the final state and the outputs of the rounds finished on the way, oldest first *)
  Fixpoint nb_run (sched : list nbstep) (st : nbstate) : nbstate * list nb_output :=
    match sched with
    | [] => (st, [])
    | s :: r =>
      let a := nb_step s st in
      let b := nb_run r (fst a) in
      (fst b, snd a ++ snd b)
    end.

  (* ---- the variant that must NOT be used: the live map emptied at the end of the round ---- *)
  Definition nb_step_late (s : nbstep) (st : nbstate) : nbstate * list nb_output :=
    match s with
    | NS1 =>
      match nb_pending st with
      | None => (mkNb (nb_scores st) (nb_senders st) (Some (known seeds (nb_scores st))), [])
      | Some _ => (st, [])
      end
    | NS2 order perm =>
      match nb_pending st with
      | Some m => let o := round_of m order perm in (mkNb sync_scores_after (fst o) None, [o])
      | None => (st, [])
      end
    | NAdd _ | NInc _ => (mkNb (msg_scores s (nb_scores st)) (nb_senders st) (nb_pending st), [])
    end.

  Fixpoint nb_run_late (sched : list nbstep) (st : nbstate) : nbstate * list nb_output :=
    match sched with
    | [] => (st, [])
    | s :: r =>
      let a := nb_step_late s st in
      let b := nb_run_late r (fst a) in
      (fst b, snd a ++ snd b)
    end.

  (* ---- the sequential machine: whole rounds and messages ---- *)
  Definition astep (a : aop) (s : list (string * Z) * list entry)
    : (list (string * Z) * list entry) * list nb_output :=
    match a with
    | ARound order perm =>
      let r := sync_round seeds (fst s) order max perm in
      ((snd r, fst (fst r)), [(fst (fst r), snd (fst r))])
    | AAdd ts => ((add_targets (fst s) ts, snd s), [])
    | AInc t => ((incentive (fst s) t, snd s), [])
    end.

  Fixpoint arun (ops : list aop) (s : list (string * Z) * list entry)
    : (list (string * Z) * list entry) * list nb_output :=
    match ops with
    | [] => (s, [])
    | a :: r =>
      let x := astep a s in
      let y := arun r (fst x) in
      (fst y, snd x ++ snd y)
    end.
End NbInterleave.

(* ---- schedules ---- *)

(* rounds do not overlap: S1 and S2 alternate, starting with [pend] = a round is already running.
   With [open_ok] the schedule may stop inside a round, without it every round is finished. *)
Fixpoint nb_wf_gen (open_ok pend : bool) (sched : list nbstep) : bool :=
  match sched with
  | [] => open_ok || negb pend
  | NS1 :: r => negb pend && nb_wf_gen open_ok true r
  | NS2 _ _ :: r => pend && nb_wf_gen open_ok false r
  | _ :: r => nb_wf_gen open_ok pend r
  end.
Definition nb_wf (sched : list nbstep) : bool := nb_wf_gen true false sched.
Definition nb_complete (sched : list nbstep) : bool := nb_wf_gen false false sched.

(* every message that falls between an S1 and its S2 is moved to just after that S2, the order of
   the messages kept. [buf] = Some b inside a round, b the messages met since its S1. *)
Fixpoint lin (buf : option (list nbstep)) (sched : list nbstep) : list nbstep :=
  match sched with
  | [] => match buf with Some b => b | None => [] end
  | NS1 :: r =>
    match buf with
    | None => NS1 :: lin (Some []) r
    | Some _ => NS1 :: lin buf r              (* not well-formed; the step does nothing *)
    end
  | NS2 order perm :: r =>
    match buf with
    | Some b => NS2 order perm :: b ++ lin None r
    | None => NS2 order perm :: lin None r    (* not well-formed; the step does nothing *)
    end
  | m :: r =>
    match buf with
    | Some b => lin (Some (b ++ [m])) r
    | None => m :: lin None r
    end
  end.
Definition linearise (sched : list nbstep) : list nbstep := lin None sched.

(* no message between an S1 and its S2: every S1 is followed at once by an S2 — or, with
   [open_ok], by messages only up to the end of the schedule (a round that is not finished) *)
Fixpoint atomic_gen (open_ok : bool) (sched : list nbstep) : bool :=
  match sched with
  | [] => true
  | NS1 :: r =>
    match r with
    | NS2 _ _ :: r' => atomic_gen open_ok r'
    | _ => open_ok && forallb is_msg r
    end
  | NS2 _ _ :: _ => false
  | _ :: r => atomic_gen open_ok r
  end.
Definition atomic (sched : list nbstep) : bool := atomic_gen true sched.
Definition atomic_closed (sched : list nbstep) : bool := atomic_gen false sched.

(* an atomic schedule read as a sequence of atomic operations: S1;S2 is one round *)
Fixpoint fuse (sched : list nbstep) : list aop :=
  match sched with
  | [] => []
  | NS1 :: r =>
    match r with
    | NS2 order perm :: r' => ARound order perm :: fuse r'
    | _ => []                                   (* a round left open: not an atomic operation *)
    end
  | NS2 _ _ :: r => fuse r
  | NAdd ts :: r => AAdd ts :: fuse r
  | NInc t :: r => AInc t :: fuse r
  end.

(* a state of the sequential machine as a state of the phase machine *)
Definition nb_of (s : list (string * Z) * list entry) : nbstate := mkNb (fst s) (snd s) None.
