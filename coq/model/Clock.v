(* Clock.v — validatornode/domain/clock/engine.go as arithmetic on integer nanoseconds.
   Go's Time.Truncate/Round work on the grid anchored at the zero Time (year 1),
   not at the Unix epoch: epoch_off is Unix 0 expressed in ns since the zero Time. *)
From RV Require Import model.Base.
Local Open Scope Z_scope.

Definition epoch_off : Z := 62135596800 * 1000000000.

(* go: time.Time.Truncate(d): d <= 0 returns t unchanged *)
Definition truncate_t (t d : Z) : Z :=
  if d <=? 0 then t else t - (t + epoch_off) mod d.

(* go: time.Time.Round(d): halfway values round up *)
Definition round_t (t d : Z) : Z :=
  if d <=? 0 then t
  else let r := (t + epoch_off) mod d in
       if r + r <? d then t - r else t + (d - r).

(* go: engine.go:21-27 NewEngine *)
Definition sub_timer (timer occ : Z) : Z := if 0 <? occ then timer / occ else timer.

(* go: engine.go:32-51 Pulse — the one call it makes is stamped with this *)
Definition pulse_stamp (timer now : Z) : Z := truncate_t now timer + timer.

(* go: engine.go:53-78 Start — the first clock reading only aligns the start;
   every later reading is taken immediately before a call and stamps it *)
Definition engine_stamps (timer occ : Z) (readings : list Z) : list Z :=
  match readings with
  | [] => []
  | _ :: rs => map (fun r => round_t r (sub_timer timer occ)) rs
  end.

(* Which ticks of the sub-period ticker lead to a call: slot k (k = 0,1,2,… since the
   aligned start) calls iff k mod occ >= skipped *)
Definition slot_calls (occ skipped k : Z) : bool := skipped <=? k mod occ.

Definition aligned (d t : Z) : Prop := (t + epoch_off) mod d = 0.

(* ---- the stop protocol as a small labelled transition system (engine.go:66-71,80-83) ----
   The ticking goroutine alternates: Check (reads started) -> Call (runs the function)
   -> Wait (blocks on the ticker). Stop may happen at any point. *)
Inductive epc := PcCheck | PcCall | PcWait | PcDone.
Record estate := mkE { e_pc : epc; e_started : bool; e_calls_after_stop : nat; e_stopped : bool }.
Inductive eevent := EvStep | EvStop.

Definition estep (s : estate) (e : eevent) : estate :=
  match e with
  | EvStop => mkE (e_pc s) false (e_calls_after_stop s) true
  | EvStep =>
    match e_pc s with
    | PcCheck => if e_started s then mkE PcCall true (e_calls_after_stop s) (e_stopped s)
                 else mkE PcDone false (e_calls_after_stop s) (e_stopped s)
    | PcCall => mkE PcWait (e_started s)
                    (if e_stopped s then S (e_calls_after_stop s) else e_calls_after_stop s)
                    (e_stopped s)
    | PcWait => mkE PcCheck (e_started s) (e_calls_after_stop s) (e_stopped s)
    | PcDone => s
    end
  end.

Definition einit : estate := mkE PcCheck true 0 false.
