(* Neighborhood.v — the outbound-peer selection of the validator node
   (validatornode/application/network/neighborhood.go and target.go).
   Definitions only (no proofs), all executable.

   Go maps (map[string]int) are association lists [list (string * Z)] with distinct keys;
   the Go map iteration order is an explicit input [order] (a permutation of the keys);
   what rand.Shuffle did to the cut group is an explicit input [perm] (a list of indices). *)
From RV Require Import model.Base.
From Coq Require Import Permutation.
Local Open Scope Z_scope.

(* one reachable neighbor: (target value as stored in the map, Target() of the created sender, score) *)
Definition entry := (string * string * Z)%type.
Definition e_tv (e : entry) : string := fst (fst e).
Definition e_tgt (e : entry) : string := snd (fst e).
Definition e_sc (e : entry) : Z := snd e.

(* go: target.go:43-51 — 0 mainnet, 1 testnet, 2 unknown. len() is the byte length. *)
Definition network_id (port : string) : N :=
  if String.eqb port "10600"%string then 0%N
  else if Nat.eqb (String.length port) 5 && String.eqb (substring 0 3 port) "106"%string then 1%N
  else 2%N.

(* go: neighborhood.go:57 — scores[t] += 1, a missing key reads as 0. No validation of t. *)
Definition incentive (scores : list (string * Z)) (t : string) : list (string * Z) :=
  aset t (match alookup t scores with Some v => v + 1 | None => 1 end) scores.

(* go: neighborhood.go:66-71 *)
Definition known (seeds scores : list (string * Z)) : list (string * Z) :=
  match scores with [] => seeds | _ :: _ => scores end.

(* go: neighborhood.go:72 — the live map is replaced by an empty one at every round *)
Definition sync_scores_after : list (string * Z) := [].

(* go: neighborhood.go:92,116 — min(len(scoresByTargetValue), maxOutboundsCount); the length counts
   every key, including the host itself, malformed and unreachable targets *)
Definition outbounds_count (m : list (string * Z)) (max : Z) : Z :=
  Z.min (Z.of_nat (length m)) max.

(* ---- selectOutbounds (neighborhood.go:110-129) ---- *)

(* neighborsByScore[k]: the entries of score k, in the order they were appended *)
Definition group (r : list entry) (k : Z) : list entry :=
  filter (fun e => Z.eqb (e_sc e) k) r.

(* the keys of neighborsByScore from the highest down (sort.Ints then the loop from len-1 to 0) *)
Fixpoint insert_desc (s : Z) (l : list Z) : list Z :=
  match l with
  | [] => [s]
  | x :: t => if Z.ltb x s then s :: l else if Z.eqb s x then l else x :: insert_desc s t
  end.
Fixpoint scores_desc (r : list entry) : list Z :=
  match r with [] => [] | e :: t => insert_desc (e_sc e) (scores_desc t) end.

(* what rand.Shuffle leaves in the slice: element perm[0], perm[1], ... of the original *)
Definition permute {A} (perm : list nat) (l : list A) : list A :=
  flat_map (fun i => match nth_error l i with Some x => [x] | None => [] end) perm.

Definition zlen {A} (l : list A) : Z := Z.of_nat (length l).

(* the loop of lines 118-127; [need] = outboundsCount - len(outbounds) *)
Fixpoint select_go (r : list entry) (perm : list nat) (keys : list Z) (need : Z) : list entry :=
  match keys with
  | [] => []
  | k :: ks =>
    let g := group r k in
    if Z.leb need (zlen g)            (* len(outbounds)+len(group) >= outboundsCount *)
    then firstn (Z.to_nat need) (permute perm g)
    else g ++ select_go r perm ks (need - zlen g)
  end.

(* For count <= 0 the result is []: with count = 0 Go takes temp[:0] of the first group.
   With count < 0 (a negative configured maximum) Go panics on the negative slice bound at
   line 123 as soon as one neighbor is reachable; the property only quantifies over max >= 0. *)
Definition select_outbounds (r : list entry) (count : Z) (perm : list nat) : list entry :=
  select_go r perm (scores_desc r) count.

(* the same loop without the shuffle: (whole groups taken, the group at which the loop breaks);
   the second component is [] when no group reaches the count *)
Fixpoint cut_go (r : list entry) (keys : list Z) (need : Z) : list entry * list entry :=
  match keys with
  | [] => ([], [])
  | k :: ks =>
    let g := group r k in
    if Z.leb need (zlen g) then ([], g)
    else let ac := cut_go r ks (need - zlen g) in (g ++ fst ac, snd ac)
  end.
Definition cut_parts (r : list entry) (count : Z) := cut_go r (scores_desc r) count.
Definition above_cut (r : list entry) (count : Z) : list entry := fst (cut_parts r count).
Definition cut_group (r : list entry) (count : Z) : list entry := snd (cut_parts r count).

(* [perm] is something rand.Shuffle can do to the group at which the loop breaks:
   a permutation of its indices 0 .. len-1 *)
Definition is_shuffle (r : list entry) (count : Z) (perm : list nat) : Prop :=
  Permutation perm (seq 0 (length (cut_group r count))).

(* multiset difference on strings: remove one occurrence / all of [a] from [l], None when missing *)
Fixpoint remove1 (x : string) (l : list string) : option (list string) :=
  match l with
  | [] => None
  | y :: t => if String.eqb x y then Some t
              else match remove1 x t with Some t' => Some (y :: t') | None => None end
  end.
Fixpoint msub (a l : list string) : option (list string) :=
  match a with
  | [] => Some l
  | x :: a' => match remove1 x l with Some l' => msub a' l' | None => None end
  end.

(* [out] (sender targets in any order) is a possible outcome of the selection on [r] for some
   shuffle: as a multiset it is every peer above the cut plus min(need, size) peers of the cut group *)
Definition admissible_sel (r : list entry) (count : Z) (out : list string) : bool :=
  let a := above_cut r count in
  let c := cut_group r count in
  match msub (map e_tgt a) out with
  | None => false
  | Some rest =>
    match msub rest (map e_tgt c) with
    | None => false
    | Some _ => Nat.eqb (length rest) (Nat.min (Z.to_nat (count - zlen a)) (length c))
    end
  end.

Section Neighborhood.
  Variable split_hp : string -> option (string * string).  (* net.SplitHostPort; None = malformed *)
  Variable resolve : string -> string -> option string.    (* CreateSender ip port; None = error,
                                                               Some t = Target() of the sender *)
  Variable host : string.        (* hostTarget.Value() *)
  Variable host_port : string.   (* hostTarget.Port() *)

  (* go: neighborhood.go:39-43 — parses and is on the host's network *)
  Definition valid_target (tv : string) : bool :=
    match split_hp tv with
    | Some (_, port) => N.eqb (network_id host_port) (network_id port)
    | None => false
    end.

  (* go: neighborhood.go:34-48 *)
  Fixpoint add_targets (scores : list (string * Z)) (targets : list string) : list (string * Z) :=
    match targets with
    | [] => scores
    | tv :: ts =>
      let is_known := match alookup tv scores with Some _ => true | None => false end in
      if negb is_known && valid_target tv
      then add_targets (aset tv 0 scores) ts
      else add_targets scores ts
    end.

  (* go: neighborhood.go:78-91, one iteration of the range loop *)
  Definition reach1 (m : list (string * Z)) (tv : string) : list entry :=
    match alookup tv m with
    | None => []                       (* order lists only keys of m *)
    | Some sc =>
      if String.eqb tv host then []
      else match split_hp tv with
           | None => []
           | Some (ip, port) =>
             match resolve ip port with
             | None => []
             | Some tgt => [(tv, tgt, sc)]
             end
           end
    end.

  Definition reachable (m : list (string * Z)) (order : list string) : list entry :=
    flat_map (reach1 m) order.

  (* go: neighborhood.go:96-103 — targetValues = host :: reachable target values; the neighbor
     is sent those that differ from its own Target() (the sender's, not the map key) *)
  Definition fanout (r : list entry) (q : string) : list string :=
    filter (fun tv => negb (String.eqb q tv)) (host :: map e_tv r).

  (* one Synchronize: the new senders, what each is sent, the new scores map *)
  Definition sync_round (seeds scores : list (string * Z)) (order : list string) (max : Z)
             (perm : list nat) : list entry * list (string * list string) * list (string * Z) :=
    let m := known seeds scores in
    let r := reachable m order in
    let out := select_outbounds r (outbounds_count m max) perm in
    (out, map (fun q => (e_tgt q, fanout r (e_tgt q))) out, sync_scores_after).

  Definition admissible_outbounds (m : list (string * Z)) (order : list string) (max : Z)
             (out : list string) : bool :=
    admissible_sel (reachable m order) (outbounds_count m max) out.
End Neighborhood.
