(* Base.v — shared vocabulary of the ruthenium model.
   Definitions only (no proofs) so that the model stays runnable when a proof breaks. *)
From Coq Require Export List ZArith NArith Bool String Ascii.
Export ListNotations.
Close Scope string_scope.
Open Scope list_scope.
(* String is exported after List: keep the list functions under their usual names *)
Notation length := List.length.

(* ---- Go slices: nil and empty are different values on the wire ("null" vs "[]") ---- *)
Definition slice (A : Type) := option (list A).
Definition elems {A} (s : slice A) : list A := match s with Some l => l | None => [] end.
(* go: append(s, x) — never nil afterwards *)
Definition sl_app {A} (s : slice A) (x : A) : slice A := Some (elems s ++ [x]).
(* go: append(s, xs...) — stays nil when both are empty and s is nil *)
Definition sl_appl {A} (s : slice A) (xs : list A) : slice A :=
  match s, xs with None, [] => None | _, _ => Some (elems s ++ xs) end.

(* ---- uint64 / uint16 arithmetic with its wrap written out ---- *)
Definition two64 : N := 18446744073709551616%N.
Definition add64 (a b : N) : N := ((a + b) mod two64)%N.
(* a - b in uint64 *)
Definition sub64 (a b : N) : N := ((a + two64 - b mod two64) mod two64)%N.

(* ---- ledger values ---- *)
Record output := mkOutput { o_addr : string; o_yield : bool; o_val : N }.
Record input := mkInput { i_idx : N; i_ref : string; i_key : string; i_sig : string }.
Record tx := mkTx { t_id : string; t_ins : slice input; t_outs : slice output; t_ts : Z }.
Definition hash := list N.  (* 32 bytes *)
Record block := mkBlock { b_prev : hash; b_added : slice string; b_removed : slice string;
                          b_ts : Z; b_txs : slice tx }.
Record utxo := mkUtxo { u_ref : string; u_idx : N; u_out : output; u_ts : Z }.

Definition ins (t : tx) := elems (t_ins t).
Definition outs (t : tx) := elems (t_outs t).
Definition txs (b : block) := elems (b_txs b).

(* go: transaction.go:53-62 and NewRewardTransaction — a transaction "has a reward"
   exactly when it has no input *)
Definition is_reward (t : tx) : bool := match ins t with [] => true | _ => false end.
(* rewardValue / rewardRecipientAddress are outputs[0] *)
Definition reward_value (t : tx) : N := match outs t with o :: _ => o_val o | [] => 0%N end.
Definition reward_addr (t : tx) : string := match outs t with o :: _ => o_addr o | [] => EmptyString end.

Definition zero_hash : hash := repeat 0%N 32.

(* protocol settings the verification layer reads *)
Record settings := mkSettings {
  s_interval : Z;      (* ValidationTimestamp, ns *)
  s_fee : N;           (* MinimalTransactionFee *)
  s_genesis : N;       (* GenesisAmount *)
  s_limit : N          (* BlocksCountLimit (page size) *)
}.

(* decidable equalities used by the executable model *)
Definition hash_eqb (a b : hash) : bool :=
  if list_eq_dec N.eq_dec a b then true else false.

Fixpoint mem_str (a : string) (l : list string) : bool :=
  match l with [] => false | x :: r => if String.eqb a x then true else mem_str a r end.

(* association lists standing for Go maps *)
Fixpoint alookup {V} (k : string) (m : list (string * V)) : option V :=
  match m with
  | [] => None
  | (k', v) :: r => if String.eqb k k' then Some v else alookup k r
  end.
Fixpoint aremove {V} (k : string) (m : list (string * V)) : list (string * V) :=
  match m with
  | [] => []
  | (k', v) :: r => if String.eqb k k' then aremove k r else (k', v) :: aremove k r
  end.
(* m[k] = v : replace in place when present, else add at the end *)
Fixpoint aset {V} (k : string) (v : V) (m : list (string * V)) : list (string * V) :=
  match m with
  | [] => [(k, v)]
  | (k', v') :: r => if String.eqb k k' then (k, v) :: r else (k', v') :: aset k v r
  end.

(* outcome of an operation that Go reports as (value, error) *)
Inductive res (E A : Type) := Ok (a : A) | Err (e : E).
Arguments Ok {E A}. Arguments Err {E A}.
