(* Pool.v — validatornode/application/validation/transactions_pool.go *)
From RV Require Import model.Base model.Ledger model.Registry model.Chain.

Record node := mkNode { n_c : cstate; n_pool : slice tx }.
Definition node_empty : node := mkNode cstate_empty None.

Section Pool.
  Variable value_fn : N -> bool -> Z -> N.
  Variable addr_of : string -> string.
  Variable sig_ok : input -> bool.
  Variable H : block -> hash.
  (* ledger.generateId: hex SHA-256 of the marshaled (inputs, outputs, timestamp) *)
  Variable gen_id : slice input -> slice output -> Z -> string.
  Variable S : settings.
  Variable validator : string.           (* the producer's configured address *)

  Notation calc_fee := (calc_fee value_fn addr_of).
  Notation add_block := (add_block H).
  Notation verify_sigs := (verify_sigs sig_ok).

  Definition pool_ids (n : node) : list string := map t_id (elems (n_pool n)).

  (* go: transactions_pool.go:150-188 addTransaction *)
  Definition pool_add (n : node) (t : tx) : res err node :=
    let c := n_c n in
    let last_ts := last_block_ts (chain c) in
    if (last_ts =? 0)%Z then Err EEmptyChain
    else
      let next := (last_ts + s_interval S)%Z in
      if (next <? t_ts t)%Z then Err ETxFuture
      else if (t_ts t <? last_ts)%Z then Err ETxOld
      else if mem_str (t_id t) (pool_ids n) then Err EInPool
      else if negb (verify_sigs t) then Err ESig
      else
        match update_utxos (ur c) (last_block_txs (chain c)) last_ts with
        | Err e => Err e
        | Ok u1 =>
          match update_utxos u1 (elems (n_pool n)) next with
          | Err e => Err e
          | Ok u2 =>
            match calc_fee (s_fee S) u2 t next with
            | Err e => Err e
            | Ok _ =>
              (* the candidate is applied to the working copy too (double references,
                 two yielding outputs for one address, duplicate ids are refused here) *)
              match update_utxos u2 [t] next with
              | Err e => Err e
              | Ok _ => Ok (mkNode c (sl_app (n_pool n) t))
              end
            end
          end
        end.

  (* why a pooled transaction is dropped at production time *)
  Inductive drop := DFuture | DOld | DSig | DFee (e : err) | DUpdate (e : err).

  (* go: transactions_pool.go:96-124, the loop over the shuffled pool on a running copy.
     acc: running registry copy, kept (reversed), dropped log (reversed), reward *)
  Fixpoint produce_loop (last_ts next ts : Z) (l : list tx) (u : ureg)
           (kept : list tx) (dropped : list (string * drop)) (reward : N)
    : ureg * list tx * list (string * drop) * N :=
    match l with
    | [] => (u, rev kept, rev dropped, reward)
    | t :: r =>
      if (ts <? t_ts t)%Z then produce_loop last_ts next ts r u kept ((t_id t, DFuture) :: dropped) reward
      else if (t_ts t <? last_ts)%Z then produce_loop last_ts next ts r u kept ((t_id t, DOld) :: dropped) reward
      else if negb (verify_sigs t) then produce_loop last_ts next ts r u kept ((t_id t, DSig) :: dropped) reward
      else match calc_fee (s_fee S) u t ts with
           | Err e => produce_loop last_ts next ts r u kept ((t_id t, DFee e) :: dropped) reward
           | Ok f =>
             match update_utxos u [t] next with
             | Err e => produce_loop last_ts next ts r u kept ((t_id t, DUpdate e) :: dropped) reward
             | Ok u' => produce_loop last_ts next ts r u' (t :: kept) dropped (add64 reward f)
             end
           end
    end.

  Definition yielding_addrs (l : list tx) : list string :=
    flat_map (fun t => map o_addr (filter o_yield (outs t))) l.

  (* go: ledger.NewRewardTransaction: inputs nil, one output *)
  Definition reward_tx (yielding : bool) (ts : Z) (v : N) : tx :=
    let o := Some [mkOutput validator yielding v] in
    mkTx (gen_id None o ts) None o ts.

  Definition permute {A} (perm : list nat) (l : list A) : list A :=
    flat_map (fun i => match nth_error l i with Some x => [x] | None => [] end) perm.

  Inductive outcome := Produced (dropped : list (string * drop)) | Refused (e : err).

  (* go: transactions_pool.go:65-148 Validate. [perm] = what rand.Shuffle does for this seed. *)
  Definition validate (n : node) (ts : Z) (perm : list nat) : node * outcome :=
    let c := n_c n in
    let last_ts := last_block_ts (chain c) in
    let next := (last_ts + s_interval S)%Z in
    let genesis := (last_ts =? 0)%Z in
    if negb genesis && (last_ts =? ts)%Z then (n, Refused ESameTick)
    else if negb genesis && (next <? ts)%Z then (n, Refused EMissedTick)
    else
      match update_utxos (ur c) (last_block_txs (chain c)) last_ts with
      | Err e => (n, Refused e)
      | Ok u0 =>
        let shuffled := permute perm (elems (n_pool n)) in
        let '(_, kept, dropped, reward) :=
            produce_loop last_ts next ts shuffled u0 [] [] (if genesis then s_genesis S else 0%N) in
        let new_addrs := (if genesis then [validator] else []) ++ yielding_addrs kept in
        let rt := reward_tx genesis ts reward in
        match add_block c ts (Some (kept ++ [rt])) new_addrs with
        | Err e => (n, Refused e)   (* the shuffle and the removals happened on a copy *)
        | Ok c' => (mkNode c' None, Produced dropped)
        end
      end.
End Pool.
