(* JsonParseF.v — the JSON parser of JsonParse.v with its two failures told apart.
   Definitions only.  Same code clause by clause; the result type has three outcomes:
     POk a     the item and the text that follows it,
     PSyntax   the text is not JSON (every None of JsonParse.v other than the fuel match),
     PFuel     the fuel match hit O.
   A PFuel coming back from a recursive call is passed up unchanged, so a PFuel at the top means
   that some call of the run started with no fuel.
   proofs/JsonParseF_lemmas.v: erasing the distinction gives back JsonParse.v's functions, and
   parse_jsonF never answers PFuel. *)
From RV Require Import model.Base model.Json model.JsonParse.
Local Open Scope string_scope.

Inductive pres (A : Type) : Type :=
| POk (a : A)
| PSyntax
| PFuel.
Arguments POk {A} a.
Arguments PSyntax {A}.
Arguments PFuel {A}.

Definition val_dispatchF (pe : string -> pres (list json * string))
                         (pm : string -> pres (list (string * json) * string))
                         (c : ascii) (r : string) : pres (json * string) :=
  let n := N_of_ascii c in
  if is_num_char c then
    match parse_num (String c r) with
    | Some x => POk x
    | None => PSyntax
    end
  else if (n =? 34)%N then                                        (* quote *)
    match unesc r with
    | Some (k, r') => POk (JStr k, r')
    | None => PSyntax
    end
  else if (n =? 123)%N then                                       (* { *)
    match skip_ws r with
    | String c2 r2 =>
      if (N_of_ascii c2 =? 125)%N then POk (JObj [], r2)
      else match pm r with
           | POk (l, r') => POk (JObj l, r')
           | PSyntax => PSyntax
           | PFuel => PFuel
           end
    | EmptyString => PSyntax
    end
  else if (n =? 91)%N then                                        (* [ *)
    match skip_ws r with
    | String c2 r2 =>
      if (N_of_ascii c2 =? 93)%N then POk (JArr [], r2)
      else match pe r with
           | POk (l, r') => POk (JArr l, r')
           | PSyntax => PSyntax
           | PFuel => PFuel
           end
    | EmptyString => PSyntax
    end
  else if (n =? 116)%N then                                       (* true *)
    match strip_prefix "rue" r with
    | Some r' => POk (JBool true, r')
    | None => PSyntax
    end
  else if (n =? 102)%N then                                       (* false *)
    match strip_prefix "alse" r with
    | Some r' => POk (JBool false, r')
    | None => PSyntax
    end
  else if (n =? 110)%N then                                       (* null *)
    match strip_prefix "ull" r with
    | Some r' => POk (JNull, r')
    | None => PSyntax
    end
  else PSyntax.

Definition val_bodyF pe pm (s : string) : pres (json * string) :=
  match skip_ws s with
  | EmptyString => PSyntax
  | String c r => val_dispatchF pe pm c r
  end.

Definition elems_bodyF (pv : string -> pres (json * string))
                       (pe : string -> pres (list json * string))
                       (s : string) : pres (list json * string) :=
  match pv s with
  | PSyntax => PSyntax
  | PFuel => PFuel
  | POk (v, r) =>
    match skip_ws r with
    | String c r' =>
      if (N_of_ascii c =? 44)%N then
        match pe r' with
        | POk (vs, r'') => POk (v :: vs, r'')
        | PSyntax => PSyntax
        | PFuel => PFuel
        end
      else if (N_of_ascii c =? 93)%N then POk ([v], r')
      else PSyntax
    | EmptyString => PSyntax
    end
  end.

Definition members_bodyF (pv : string -> pres (json * string))
                         (pm : string -> pres (list (string * json) * string))
                         (s : string) : pres (list (string * json) * string) :=
  match skip_ws s with
  | String c r =>
    if (N_of_ascii c =? 34)%N then
      match unesc r with
      | None => PSyntax
      | Some (k, r1) =>
        match skip_ws r1 with
        | String c1 r2 =>
          if (N_of_ascii c1 =? 58)%N then
            match pv r2 with
            | PSyntax => PSyntax
            | PFuel => PFuel
            | POk (v, r3) =>
              match skip_ws r3 with
              | String c3 r4 =>
                if (N_of_ascii c3 =? 44)%N then
                  match pm r4 with
                  | POk (ms, r5) => POk ((k, v) :: ms, r5)
                  | PSyntax => PSyntax
                  | PFuel => PFuel
                  end
                else if (N_of_ascii c3 =? 125)%N then POk ([(k, v)], r4)
                else PSyntax
              | EmptyString => PSyntax
              end
            end
          else PSyntax
        | EmptyString => PSyntax
        end
      end
    else PSyntax
  | EmptyString => PSyntax
  end.

Fixpoint parse_valF (f : nat) (s : string) {struct f} : pres (json * string) :=
  match f with
  | O => PFuel
  | S f' => val_bodyF (parse_elemsF f') (parse_membersF f') s
  end
with parse_elemsF (f : nat) (s : string) {struct f} : pres (list json * string) :=
  match f with
  | O => PFuel
  | S f' => elems_bodyF (parse_valF f') (parse_elemsF f') s
  end
with parse_membersF (f : nat) (s : string) {struct f} : pres (list (string * json) * string) :=
  match f with
  | O => PFuel
  | S f' => members_bodyF (parse_valF f') (parse_membersF f') s
  end.

Definition parse_jsonF (s : string) : pres json :=
  match parse_valF (parse_fuel s) s with
  | POk (j, r) =>
    match skip_ws r with
    | EmptyString => POk j
    | String _ _ => PSyntax
    end
  | PSyntax => PSyntax
  | PFuel => PFuel
  end.
