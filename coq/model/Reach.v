(* Reach.v — specification-side definitions (not code): the operations of a node, the
   histories the properties quantify over, and the chain-level predicates the theorems use. *)
From RV Require Import model.Base model.Ledger model.Registry model.Chain model.Sync model.Pool.

Section Reach.
  Variable value_fn : N -> bool -> Z -> N.
  Variable addr_of : string -> string.
  Variable sig_ok : input -> bool.
  Variable H : block -> hash.
  Variable gen_id : slice input -> slice output -> Z -> string.
  Variable S : settings.
  Variable validator : string.

  (* one operation of a node; every argument is arbitrary (neighbors are adversarial) *)
  Inductive op :=
  | OpValidate (ts : Z) (perm : list nat)                         (* production tick *)
  | OpAdd (t : tx)                                                (* transaction submission *)
  | OpUpdate (now : Z) (nbs : list neighbor) (pref : string)      (* sync round *)
  | OpRegSync (poh : string -> option bool) (order : list string) (* registry refresh *).

  Definition step (n : node) (o : op) : node :=
    match o with
    | OpValidate ts perm => fst (validate value_fn addr_of sig_ok H gen_id S validator n ts perm)
    | OpAdd t => match pool_add value_fn addr_of sig_ok S n t with Ok n' => n' | Err _ => n end
    | OpUpdate now nbs pref =>
      mkNode (fst (update value_fn addr_of sig_ok H S (n_c n) now nbs pref)) (n_pool n)
    | OpRegSync poh order =>
      mkNode (mkC (chain (n_c n)) (ur (n_c n)) (reg_sync (ar (n_c n)) poh order)) (n_pool n)
    end.

  (* side conditions on an operation in a given state:
     - production ticks are the ones the engine delivers (C20): on the chain's time grid and not
       before the tip (repeated ticks k = 0 and skipped ticks k >= 2 are refused by the code);
     - no neighbor calls itself "host" (real targets are ip:port). *)
  Definition op_ok (n : node) (o : op) : Prop :=
    match o with
    | OpValidate ts _ =>
      chain (n_c n) = [] \/ exists k : Z, (0 <= k)%Z /\ ts = (last_block_ts (chain (n_c n)) + k * s_interval S)%Z
    | OpUpdate _ nbs _ => forall nb, In nb nbs -> nb_target nb <> host_target
    | _ => True
    end.

  Inductive reach : node -> Prop :=
  | reach_init : reach node_empty
  | reach_step n o : reach n -> op_ok n o -> reach (step n o).

  (* ---- chain-level predicates ---- *)
  Definition one_reward (b : block) : Prop := length (filter is_reward (txs b)) = 1%nat.
  Definition in_window (prev b : block) : Prop :=
    Forall (fun t => is_reward t = false -> (b_ts prev <= t_ts t <= b_ts b)%Z) (txs b).

  (* C04: every block after the first is linked to, spaced from, and dated against its predecessor *)
  Fixpoint chain_rules (prev : block) (l : list block) : Prop :=
    match l with
    | [] => True
    | b :: r => b_prev b = H prev /\ b_ts b = (b_ts prev + s_interval S)%Z /\
                one_reward b /\ in_window prev b /\ chain_rules b r
    end.
  Definition chain_ok (c : list block) : Prop :=
    match c with [] => True | g :: r => chain_rules g r end.

  Fixpoint linked (prev : block) (l : list block) : Prop :=
    match l with [] => True | b :: r => b_prev b = H prev /\ linked b r end.
  Definition chain_linked (c : list block) : Prop :=
    match c with [] => True | g :: r => linked g r end.

  (* l1 is a prefix of l2 *)
  Definition prefix {A} (l1 l2 : list A) : Prop := exists r, l2 = l1 ++ r.
End Reach.
