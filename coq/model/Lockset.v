(* Lockset.v — the vocabulary of the lock-discipline part of C16. The access table itself is
   regenerated from /repo's source on every run (coq/gen/Lockset_gen.v, by tools/genlockset). *)
From RV Require Import model.Base.
Local Open Scope string_scope.

Inductive rw := R | W.
Inductive lmode := LR | LW.       (* RLock / Lock of a sync.RWMutex *)

(* one access to a field of a shared component, reached from an entry point (an exported method
   that some goroutine may call), with the locks held at that point *)
Record access := mkAcc {
  a_entry : string;               (* "Type.Method" of the entry point *)
  a_type : string;                (* the component owning the field *)
  a_field : string;
  a_rw : rw;
  a_locks : list (string * lmode) (* "Type.lock" and how it is held *)
}.

Definition is_w (a : access) : bool := match a_rw a with W => true | R => false end.
Definition is_lw (l : string * lmode) : bool := match snd l with LW => true | LR => false end.

(* same field, at least one write *)
Definition conflict (a b : access) : bool :=
  String.eqb (a_type a) (a_type b) && String.eqb (a_field a) (a_field b) && (is_w a || is_w b).

(* a common lock, held exclusively by at least one of the two *)
Definition common_excl (a b : access) : bool :=
  existsb (fun la => existsb (fun lb => String.eqb (fst la) (fst lb) && (is_lw la || is_lw lb)) (a_locks b)) (a_locks a).

(* entry points driven by one engine goroutine each: such a method never overlaps with itself *)
Definition engine_entries : list string :=
  ["TransactionsPool.Validate"; "Blockchain.Update"; "Neighborhood.Synchronize";
   "AddressesRegistry.Synchronize"; "Engine.Start"; "Engine.Pulse"].

Definition may_overlap (a b : access) : bool :=
  negb (String.eqb (a_entry a) (a_entry b) && mem_str (a_entry a) engine_entries).

Definition racy (a b : access) : bool := conflict a b && negb (common_excl a b) && may_overlap a b.

Fixpoint pairs_from {A} (l : list A) : list (A * A) :=
  match l with [] => [] | x :: r => map (fun y => (x, y)) (x :: r) ++ pairs_from r end.

Definition race_pairs (tbl : list access) : list (access * access) :=
  filter (fun p => racy (fst p) (snd p)) (pairs_from tbl).

(* how a racing pair is named in the known-findings file: field and the two entry points *)
Definition str_leb (a b : string) : bool :=
  match String.compare a b with Gt => false | _ => true end.
Definition race_key (p : access * access) : string :=
  let a := fst p in let b := snd p in
  let e1 := if str_leb (a_entry a) (a_entry b) then a_entry a else a_entry b in
  let e2 := if str_leb (a_entry a) (a_entry b) then a_entry b else a_entry a in
  "race:" ++ a_type a ++ "." ++ a_field a ++ ":" ++ e1 ++ "|" ++ e2.

(* ---- lock order ---- *)
(* the order graph is acyclic iff repeatedly removing locks without predecessors empties it *)
Definition has_pred (edges : list (string * string)) (l : string) : bool :=
  existsb (fun e => String.eqb (snd e) l && negb (String.eqb (fst e) l)) edges.
Definition nodes (edges : list (string * string)) : list string :=
  flat_map (fun e => [fst e; snd e]) edges.
Fixpoint peel (fuel : nat) (edges : list (string * string)) : list (string * string) :=
  match fuel with
  | O => edges
  | S f =>
    let free := filter (fun l => negb (has_pred edges l)) (nodes edges) in
    let rest := filter (fun e => negb (mem_str (fst e) free)) edges in
    match rest with [] => [] | _ => if Nat.eqb (length rest) (length edges) then rest else peel f rest end
  end.
Definition acyclic (edges : list (string * string)) : bool :=
  match peel (S (length edges)) edges with [] => negb (existsb (fun e => String.eqb (fst e) (snd e)) edges) | _ => false end.

(* ---- atomicity: which entry points must touch which field within one locked episode ---- *)
Definition atomic_spec : list (string * string) := [
  (* pool: copy, shuffle, re-validation, block, clear — one episode; admission: duplicate test to append — one episode *)
  ("TransactionsPool.Validate", "TransactionsPool.transactions");
  ("TransactionsPool.AddTransaction", "TransactionsPool.transactions");
  ("TransactionsPool.Transactions", "TransactionsPool.transactions");
  (* output registry: copy-modify-commit of both maps in one episode *)
  ("UtxosRegistry.UpdateUtxos", "UtxosRegistry.utxosById");
  ("UtxosRegistry.UpdateUtxos", "UtxosRegistry.utxosByAddress");
  ("UtxosRegistry.Copy", "UtxosRegistry.utxosById");
  ("UtxosRegistry.Copy", "UtxosRegistry.utxosByAddress");
  ("UtxosRegistry.Clear", "UtxosRegistry.utxosById");
  (* address registry *)
  ("AddressesRegistry.Update", "AddressesRegistry.registeredAddresses");
  ("AddressesRegistry.Update", "AddressesRegistry.removedAddresses");
  ("AddressesRegistry.Copy", "AddressesRegistry.registeredAddresses");
  ("AddressesRegistry.Copy", "AddressesRegistry.removedAddresses");
  ("AddressesRegistry.Synchronize", "AddressesRegistry.removedAddresses");
  (* chain: appending a block *)
  ("Blockchain.AddBlock", "Blockchain.blocks")
].

Definition row_atomic (field_sections : list (string * string * nat * bool)) (r : string * string) : bool :=
  match filter (fun e => String.eqb (fst (fst (fst e))) (fst r) && String.eqb (snd (fst (fst e))) (snd r)) field_sections with
  | [(_, _, n, unlocked)] => Nat.eqb n 1 && negb unlocked
  | _ => false
  end.
