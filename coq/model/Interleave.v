(* Interleave.v — the three engine-driven operations cut at their collaborator calls.

   Pool.validate, Pool.pool_add and Sync.update describe one operation as one atomic function of
   the node. The Go code reads the node in several separately locked calls:

     Validate (transactions_pool.go:71-154)
        V1  blocksManager.LastBlockTimestamp()         chain read lock
        V2  blocksManager.LastBlockTransactions()      chain read lock
        V3  utxosManager.Copy()                        registry lock
        V4  pool lock { loop on the copy; blocksManager.AddBlock (chain write lock); clear }
     addTransaction (transactions_pool.go:156-197), the pool lock held from A1 to A4
        A1  LastBlockTimestamp()      A2  utxosManager.Copy()      A3  LastBlockTransactions()
        A4  the checks on the copy and the append
     Update (blockchain.go:99-266)
        U1  snapshot of blockchain.blocks              chain read lock
        U2  utxosManager.Copy(), registry.Copy() inside verify     registry locks
        U3  chain write lock { give up if the chain is not the snapshot any more; commit }

   Here each call is one step of a small machine whose state is the node plus one register per
   operation kind (an engine never overlaps with itself, submissions are serialised by the pool
   lock). Between two steps of one operation any step of another may run. The functions
   [validate_view], [pool_add_view], [update_decide]/[update_commit] are the bodies of the atomic
   functions with the values read earlier passed in; proofs/Interleave_lemmas.v shows that with
   fresh values they are the atomic functions. *)
From RV Require Import model.Base model.Ledger model.Registry model.Chain model.Sync model.Pool.

Section Interleave.
  Variable value_fn : N -> bool -> Z -> N.
  Variable addr_of : string -> string.
  Variable sig_ok : input -> bool.
  Variable H : block -> hash.
  Variable gen_id : slice input -> slice output -> Z -> string.
  Variable S : settings.
  Variable validator : string.

  Notation calc_fee := (calc_fee value_fn addr_of).
  Notation add_block := (add_block H).
  Notation verify_sigs := (verify_sigs sig_ok).
  Notation produce_loop := (produce_loop value_fn addr_of sig_ok S).
  Notation reward_tx := (reward_tx gen_id validator).

  (* ---- Validate ---- *)
  (* V1: the two tick tests on the timestamp just read *)
  Definition validate_early (last_ts ts : Z) : option err :=
    let genesis := (last_ts =? 0)%Z in
    if negb genesis && (last_ts =? ts)%Z then Some ESameTick
    else if negb genesis && (last_ts + s_interval S <? ts)%Z then Some EMissedTick
    else None.

  (* V4 (and the UpdateUtxos on the copy that precedes the pool lock): everything after the
     three reads, on the values read, against the live node *)
  Definition validate_view (last_ts : Z) (last_txs : list tx) (u : ureg)
             (n : node) (ts : Z) (perm : list nat) : node * outcome :=
    let next := (last_ts + s_interval S)%Z in
    let genesis := (last_ts =? 0)%Z in
    match update_utxos u last_txs last_ts with
    | Err e => (n, Refused e)
    | Ok u0 =>
      let shuffled := permute perm (elems (n_pool n)) in
      let '(_, kept, dropped, reward) :=
          produce_loop last_ts next ts shuffled u0 [] [] (if genesis then s_genesis S else 0%N) in
      let new_addrs := (if genesis then [validator] else []) ++ yielding_addrs kept in
      let rt := reward_tx genesis ts reward in
      match add_block (n_c n) ts (Some (kept ++ [rt])) new_addrs with
      | Err e => (n, Refused e)
      | Ok c' => (mkNode c' None, Produced dropped)
      end
    end.

  (* ---- addTransaction ---- *)
  Definition pool_add_view (last_ts : Z) (u : ureg) (last_txs : list tx) (n : node) (t : tx)
    : res err node :=
    if (last_ts =? 0)%Z then Err EEmptyChain
    else
      let next := (last_ts + s_interval S)%Z in
      if (next <? t_ts t)%Z then Err ETxFuture
      else if (t_ts t <? last_ts)%Z then Err ETxOld
      else if mem_str (t_id t) (pool_ids n) then Err EInPool
      else if negb (verify_sigs t) then Err ESig
      else
        match update_utxos u last_txs last_ts with
        | Err e => Err e
        | Ok u1 =>
          match update_utxos u1 (elems (n_pool n)) next with
          | Err e => Err e
          | Ok u2 =>
            match calc_fee (s_fee S) u2 t next with
            | Err e => Err e
            | Ok _ =>
              match update_utxos u2 [t] next with
              | Err e => Err e
              | Ok _ => Ok (mkNode (n_c n) (sl_app (n_pool n) t))
              end
            end
          end
        end.
  (* the tests made before the registry is copied (transactions_pool.go:160-179): when one of
     them fails the operation ends at A1 *)
  Definition pool_add_early (last_ts : Z) (n : node) (t : tx) : option err :=
    if (last_ts =? 0)%Z then Some EEmptyChain
    else if (last_ts + s_interval S <? t_ts t)%Z then Some ETxFuture
    else if (t_ts t <? last_ts)%Z then Some ETxOld
    else if mem_str (t_id t) (pool_ids n) then Some EInPool
    else if negb (verify_sigs t) then Some ESig
    else None.

  (* ---- Update ---- *)
  (* what the round decides from its snapshot: the chain to install and whether it is a full
     replacement; [st] = the snapshot of the chain with the registries as copied by verify *)
  Definition update_decide (st : cstate) (now : Z) (nbs : list neighbor) (pref : string)
    : option (list block * bool) :=
    let c1 := stage1 value_fn addr_of sig_ok H S st now nbs in
    let fork := is_fork st c1 nbs in
    let m := stage2 value_fn addr_of sig_ok H S st now nbs c1 in
    match m with
    | [] => None
    | _ =>
      match select pref (survivors st m) with
      | None => None
      | Some sel =>
        if is_different H (chain st) sel && negb (Nat.eqb (length sel) 0) then Some (sel, fork)
        else None
      end
    end.

  (* U3: under the chain lock. blockchain.go:238-242 compares the length and the tip pointer with
     the snapshot; between U1 and U3 only a production tick can have changed the chain (sync
     rounds do not overlap), and that changes the length *)
  Definition update_commit (snap_len : nat) (live : cstate) (d : list block * bool) : cstate * bool :=
    let '(sel, fork) := d in
    if negb (Nat.eqb (length (chain live)) snap_len) then (live, false)
    else
      let '(u0, a0, news) :=
          if fork then (ureg_empty, areg_empty, removelast sel)
          else if Nat.ltb snap_len (length sel)
               then (ur live, ar live, slice_blocks sel (snap_len - 1) (length sel - 1))
               else (ur live, ar live, []) in
      let '(u', a', ok) := commit_loop u0 a0 news true in
      if ok then (mkC sel u' a', true) else (mkC (chain live) u' a', false).

  (* ---- the machine ---- *)
  (* the tick [ts] is the argument of the one call Validate(ts): it stays in the register *)
  Inductive vreg := VR0 | VR1 (ts last_ts : Z) | VR2 (ts last_ts : Z) (ltxs : list tx)
                  | VR3 (ts last_ts : Z) (ltxs : list tx) (u : ureg).
  Inductive areg_t := AR0 | AR1 (t : tx) (last_ts : Z) | AR2 (t : tx) (last_ts : Z) (u : ureg)
                    | AR3 (t : tx) (last_ts : Z) (u : ureg) (ltxs : list tx).
  Inductive ureg_t := UR0 | UR1 (snap : list block) | UR2 (snap : list block) (u : ureg) (a : areg).

  Record istate := mkI { i_n : node; i_v : vreg; i_a : areg_t; i_u : ureg_t }.
  Definition istate_of (n : node) : istate := mkI n VR0 AR0 UR0.

  Inductive iop :=
  | IV1 (ts : Z) | IV2 | IV3 | IV4 (perm : list nat)
  | IA1 (t : tx) | IA2 | IA3 | IA4
  | IU1 | IU2 | IU3 (now : Z) (nbs : list neighbor) (pref : string).

  (* what a step reports: nothing yet, or the result of the operation it completes *)
  Inductive iout :=
  | ONone
  | OVal (o : outcome)
  | OAdd (e : option err)
  | OUpd (replaced : bool).

  Definition istep (s : istate) (o : iop) : istate * iout :=
    let n := i_n s in
    let c := n_c n in
    match o, i_v s, i_a s, i_u s with
    (* Validate *)
    | IV1 ts, VR0, _, _ =>
      let last_ts := last_block_ts (chain c) in
      match validate_early last_ts ts with
      | Some e => (s, OVal (Refused e))
      | None => (mkI n (VR1 ts last_ts) (i_a s) (i_u s), ONone)
      end
    | IV2, VR1 ts l, _, _ => (mkI n (VR2 ts l (last_block_txs (chain c))) (i_a s) (i_u s), ONone)
    | IV3, VR2 ts l x, _, _ => (mkI n (VR3 ts l x (ur c)) (i_a s) (i_u s), ONone)
    (* the pool lock: V4 waits for a submission in flight *)
    | IV4 perm, VR3 ts l x u, AR0, _ =>
      let '(n', out) := validate_view l x u n ts perm in
      (mkI n' VR0 AR0 (i_u s), OVal out)
    (* addTransaction *)
    | IA1 t, _, AR0, _ =>
      let last_ts := last_block_ts (chain c) in
      match pool_add_early last_ts n t with
      | Some e => (s, OAdd (Some e))
      | None => (mkI n (i_v s) (AR1 t last_ts) (i_u s), ONone)
      end
    | IA2, _, AR1 t l, _ => (mkI n (i_v s) (AR2 t l (ur c)) (i_u s), ONone)
    | IA3, _, AR2 t l u, _ => (mkI n (i_v s) (AR3 t l u (last_block_txs (chain c))) (i_u s), ONone)
    | IA4, _, AR3 t l u x, _ =>
      match pool_add_view l u x n t with
      | Ok n' => (mkI n' (i_v s) AR0 (i_u s), OAdd None)
      | Err e => (mkI n (i_v s) AR0 (i_u s), OAdd (Some e))
      end
    (* Update *)
    | IU1, _, _, UR0 => (mkI n (i_v s) (i_a s) (UR1 (chain c)), ONone)
    | IU2, _, _, UR1 snap => (mkI n (i_v s) (i_a s) (UR2 snap (ur c) (ar c)), ONone)
    | IU3 now nbs pref, _, _, UR2 snap u a =>
      match update_decide (mkC snap u a) now nbs pref with
      | None => (mkI n (i_v s) (i_a s) UR0, OUpd false)
      | Some d =>
        let '(c', r) := update_commit (length snap) c d in
        (mkI (mkNode c' (n_pool n)) (i_v s) (i_a s) UR0, OUpd r)
      end
    (* a step whose operation is not at that point does nothing *)
    | _, _, _, _ => (s, ONone)
    end.

  Fixpoint irun (s : istate) (l : list iop) : istate :=
    match l with
    | [] => s
    | o :: r => irun (fst (istep s o)) r
    end.
End Interleave.
