(* Views.v — read-only answers of the access node:
   accessnode/presentation/api/wallet/amount_controller.go  (GetWalletAmount)
   accessnode/presentation/api/payment/progress_controller.go (GetTransactionProgress)
   Definitions only. *)
From RV Require Import model.Base.
Local Open Scope N_scope.

(* amount_controller.go:49-53 — [values] are the per-output values at query time, in the
   order of the validator's list; balance is a uint64 accumulator.  The final division
   float64(balance) / float64(SmallestUnitsPerCoin) (line 54) is outside the model. *)
Definition wallet_amount (values : list N) : N := fold_left add64 values 0.

Inductive progress :=
| PConfirmed | PValidated | PSent | PRejected
| PError (code : N).        (* HTTP status 400 / 500 *)

(* progress_controller.go:60 *)
Definition ref_eqb (a b : string * N) : bool :=
  String.eqb (fst a) (fst b) && (snd a =? snd b).

(* progress_controller.go:25-124.  Every argument is what the corresponding request
   produced; None = the request failed or its answer did not decode. *)
Definition progress_of
    (searched : option (string * N))          (* decoded request body, lines 27-35 *)
    (utxos : option (list (string * N)))      (* GetUtxos(address), lines 36-50 *)
    (first_ts : option Z)                     (* GetFirstBlockTimestamp, line 51; error read at line 66 *)
    (blocks : option (list (list string)))    (* GetBlocks(current height): tx ids per block, lines 72-92 *)
    (pool : option (list string))             (* GetTransactions ids, lines 100-114 *)
    : progress :=
  match searched with
  | None => PError 400                                             (* line 33 *)
  | Some s =>
    match utxos with
    | None => PError 500                                           (* lines 40, 48 *)
    | Some us =>
      if existsb (fun u => ref_eqb u s) us then PConfirmed         (* lines 59-65 *)
      else
        match first_ts with
        | None => PError 500                                       (* lines 66-71 *)
        | Some _ =>
          match blocks with
          | None => PError 500                                     (* lines 76, 84 *)
          | Some [] => PError 500                                  (* lines 87-92 *)
          | Some (b :: _) =>
            if mem_str (fst s) b then PValidated                   (* lines 93-99 *)
            else
              match pool with
              | None => PError 500                                 (* lines 104, 112 *)
              | Some p =>
                if mem_str (fst s) p then PSent                    (* lines 115-121 *)
                else PRejected                                     (* line 122 *)
              end
          end
        end
    end
  end.
