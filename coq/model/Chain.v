(* Chain.v — validatornode/application/verification/blockchain.go minus networking:
   AddBlock/addBlock, Blocks, verifyBlock, verify. *)
From RV Require Import model.Base model.Ledger model.Registry.

Record cstate := mkC { chain : list block; ur : ureg; ar : areg }.
Definition cstate_empty : cstate := mkC [] ureg_empty areg_empty.

Definition last_block (c : list block) : option block :=
  match rev c with [] => None | b :: _ => Some b end.

Section Chain.
  Variable value_fn : N -> bool -> Z -> N.
  Variable addr_of : string -> string.
  Variable sig_ok : input -> bool.       (* Input.VerifySignature: ECDSA over the marshaled output reference *)
  Variable H : block -> hash.            (* Block.Hash: SHA-256 of the block's own marshaling *)
  Variable S : settings.

  Notation calc_fee := (calc_fee value_fn addr_of).
  Notation update_utxos := (update_utxos).

  (* go: ledger/transaction.go:79-86 *)
  Definition verify_sigs (t : tx) : bool := forallb sig_ok (ins t).

  (* the effect of one block on the derived state (go: blockchain.go:271-274, 252-256) *)
  Definition apply_block (u : ureg) (a : areg) (b : block) : res err (ureg * areg) :=
    match update_utxos u (txs b) (b_ts b) with
    | Err e => Err e
    | Ok u' => Ok (u', reg_update a (elems (b_added b)) (elems (b_removed b)))
    end.

  (* go: blockchain.go:268-278 addBlock: first apply the *previous* tip, then append *)
  Definition add_block_raw (c : cstate) (b : block) : res err cstate :=
    match last_block (chain c) with
    | None => Ok (mkC (chain c ++ [b]) (ur c) (ar c))
    | Some l =>
      match apply_block (ur c) (ar c) l with
      | Err e => Err e
      | Ok (u', a') => Ok (mkC (chain c ++ [b]) u' a')
      end
    end.

  (* go: blockchain.go:41-57 AddBlock *)
  Definition make_block (c : cstate) (ts : Z) (l : slice tx) (new_addrs : list string) : block :=
    mkBlock (match last_block (chain c) with None => zero_hash | Some l => H l end)
            (filter_new (ar c) new_addrs) (removed_addresses (ar c)) ts l.
  Definition add_block (c : cstate) (ts : Z) (l : slice tx) (new_addrs : list string) : res err cstate :=
    match last_block (chain c) with
    | Some p => if (ts <=? b_ts p)%Z then Err ETime   (* not dated after the tip: refused under the chain lock *)
                else add_block_raw c (make_block c ts l new_addrs)
    | None => add_block_raw c (make_block c ts l new_addrs)
    end.

  (* go: blockchain.go:59-73 Blocks. uint64 arithmetic: h + limit wraps. [Err (EPanic PsSliceBounds)]
     is the slice expression blocks[h:end] with end < h. *)
  Definition blocks_page (c : list block) (h : N) : res err (list block) :=
    let n := N.of_nat (length c) in
    if (n =? 0)%N || (n - 1 <? h)%N || (s_limit S =? 0)%N then Ok []
    else
      let e := if (add64 h (s_limit S) <? n)%N then add64 h (s_limit S) else n in
      if (e <? h)%N then Err (EPanic PsSliceBounds)
      else Ok (firstn (N.to_nat (e - h)) (skipn (N.to_nat h) c)).

  Definition first_block_ts (c : list block) : Z := match c with [] => 0%Z | b :: _ => b_ts b end.
  Definition last_block_ts (c : list block) : Z := match last_block c with None => 0%Z | Some b => b_ts b end.
  Definition last_block_txs (c : list block) : list tx := match last_block c with None => [] | Some b => txs b end.

  (* go: blockchain.go:434-447 *)
  Definition yield_ok (a : areg) (added : list string) (t : tx) : bool :=
    forallb (fun o => negb (o_yield o) || mem_str (o_addr o) added || is_registered a (o_addr o)) (outs t).

  (* go: blockchain.go:416-454, the loop over the block's transactions.
     acc = (rewarded, reward, total fees) *)
  Fixpoint vb_txs (c : cstate) (added : list string) (cur prev : Z) (l : list tx)
           (rewarded : bool) (reward total : N) : res err (bool * N * N) :=
    match l with
    | [] => Ok (rewarded, reward, total)
    | t :: r =>
      if is_reward t then
        if rewarded then Err EMultiReward
        else vb_txs c added cur prev r true (reward_value t) total
      else if (cur <? t_ts t)%Z then Err ETxFuture
      else if (t_ts t <? prev)%Z then Err ETxOld
      else if negb (verify_sigs t) then Err ESig
      else if negb (yield_ok (ar c) added t) then Err EUnregistered
      else match calc_fee (s_fee S) (ur c) t cur with
           | Err e => Err e
           | Ok f => vb_txs c added cur prev r rewarded reward (add64 total f)
           end
    end.

  (* go: blockchain.go:399-462 verifyBlock *)
  Definition verify_block (c : cstate) (b : block) (prev_ts now : Z) : res err unit :=
    if negb (b_ts b =? prev_ts + s_interval S)%Z then Err ETime
    else if (now <? b_ts b)%Z then Err EFuture
    else match vb_txs c (elems (b_added b)) (b_ts b) prev_ts (txs b) false 0%N 0%N with
         | Err e => Err e
         | Ok (rewarded, reward, total) =>
           if negb rewarded then Err ENoReward
           else if (total <? reward)%N then Err ERewardTooBig
           else Ok tt
         end.

  (* go: blockchain.go:298-357, one iteration of the loop in verify.
     [prev] = Some previous block (None only for a genesis block at i = 0 of a full sync). *)
  Definition verify_step (last_host : list block) (now : Z) (i : nat)
             (sh : cstate) (prev : option block) (b : block) : res err cstate :=
    let prev_ts := match prev with None => 0%Z | Some p => b_ts p end in
    let prev_hash := match prev with None => zero_hash | Some p => H p end in
    if negb (hash_eqb (b_prev b) prev_hash) then Err ELink
    else
      let is_new := match nth_error last_host i with
                    | None => true
                    | Some hb => negb (hash_eqb (H b) (H hb))
                    end in
      let is_genesis := match prev with None => true | Some _ => false end in
      match (if is_new && negb is_genesis then verify_block sh b prev_ts now else Ok tt) with
      | Err e => Err e
      | Ok _ =>
        match i with
        | O => Ok (mkC (chain sh ++ [b]) (ur sh) (ar sh))
        | _ => add_block_raw sh b
        end
      end.

  Fixpoint verify_loop (last_host : list block) (now : Z) (i : nat)
           (sh : cstate) (prev : option block) (l : list block) : res err cstate :=
    match l with
    | [] => Ok sh
    | b :: r =>
      match verify_step last_host now i sh prev b with
      | Err e => Err e
      | Ok sh' => verify_loop last_host now (Datatypes.S i) sh' (Some b) r
      end
    end.

  (* go: blockchain.go:284-365 verify. Returns the verified blocks (= the neighbor's). *)
  Definition verify (host : cstate) (last_host neigh old_host : list block) (now : Z)
    : res err (list block) :=
    match old_host, neigh with
    | [], ([] | [_]) => Err EShort
    | _ :: _, [] => Err EFork
    | _, _ =>
      if match old_host, last_host, neigh with
         | _ :: _, lh :: _, nb :: _ => negb (hash_eqb (b_prev lh) (b_prev nb))
         | _, _, _ => false
         end then Err EFork
      else
        let sh0 := match old_host with
                   | [] => mkC [] ureg_empty areg_empty
                   | _ => mkC old_host (ur host) (ar host)
                   end in
        match verify_loop last_host now 0 sh0 (last_block old_host) neigh with
        | Err e => Err e
        | Ok sh =>
          (* blockchain.go:358-363: AddBlock(next, nil, nil) replays the last neighbor block *)
          match last_block (chain sh) with
          | None => Ok neigh
          | Some l =>
            match add_block sh (b_ts l + s_interval S)%Z None [] with
            | Err e => Err e
            | Ok _ => Ok neigh
            end
          end
        end
    end.

  (* ---- specification-side definition, not code: the state a chain denotes ---- *)
  Fixpoint replay_from (u : ureg) (a : areg) (l : list block) : res err (ureg * areg) :=
    match l with
    | [] => Ok (u, a)
    | b :: r => match apply_block u a b with Err e => Err e | Ok (u', a') => replay_from u' a' r end
    end.
  Definition replay (l : list block) := replay_from ureg_empty areg_empty l.
End Chain.
