(* Sync.v — Blockchain.Update (blockchain.go:99-266): fetch, verify each neighbor,
   three filters, arg-max, difference test, commit. *)
From RV Require Import model.Base model.Ledger model.Registry model.Chain.

(* What one request to a neighbor produced, after json.Unmarshal *)
Inductive response := RFail (e : err) | RBlocks (l : list block).

(* a neighbor = its target and its answers to the incremental and to the full request
   (answers may differ between the two requests) *)
Record neighbor := mkNb { nb_target : string; nb_inc : response; nb_full : response }.

Definition host_target : string := "host"%string.

Section Sync.
  Variable value_fn : N -> bool -> Z -> N.
  Variable addr_of : string -> string.
  Variable sig_ok : input -> bool.
  Variable H : block -> hash.
  Variable S : settings.

  Notation verify := (verify value_fn addr_of sig_ok H S).
  Notation apply_block := (apply_block).

  Definition cands := list (string * list block).   (* blocksByTarget *)

  Definition removelast_b (l : list block) := removelast l.

  (* go: blockchain.go:106-127 *)
  Definition stage1 (st : cstate) (now : Z) (nbs : list neighbor) : cands :=
    let hostb := chain st in
    if Nat.ltb 2 (length hostb) then
      let old := removelast hostb in
      let tip := match last_block hostb with Some b => [b] | None => [] end in
      fold_left (fun (m : cands) nb =>
                   match nb_inc nb with
                   | RFail _ => m
                   | RBlocks l =>
                     match verify st tip l old now with
                     | Err _ => m
                     | Ok v => aset (nb_target nb) (old ++ v) m
                     end
                   end) nbs [(host_target, hostb)]
    else [].

  (* go: blockchain.go:129-148 *)
  Definition is_fork (st : cstate) (c1 : cands) (nbs : list neighbor) : bool :=
    Nat.ltb 0 (length (chain st)) && Nat.ltb (length c1) 2 && Nat.ltb 0 (length nbs).

  Definition stage2 (st : cstate) (now : Z) (nbs : list neighbor) (c1 : cands) : cands :=
    if is_fork st c1 nbs then
      let lasth := removelast (chain st) in
      fold_left (fun (m : cands) nb =>
                   match nb_full nb with
                   | RFail _ => m
                   | RBlocks l =>
                     match verify st lasth l [] now with
                     | Err _ => m
                     | Ok v => aset (nb_target nb) v m
                     end
                   end) nbs c1
    else c1.

  Definition prev_at (l : list block) (i : nat) : hash :=
    match nth_error l i with Some b => b_prev b | None => [] end.

  Definition min_len (hostlen : nat) (m : cands) : nat :=
    fold_left (fun a p => Nat.min a (length (snd p))) m hostlen.
  Definition max_len (hostlen : nat) (m : cands) : nat :=
    fold_left (fun a p => Nat.max a (length (snd p))) m hostlen.

  (* go: blockchain.go:164-180 keep candidates whose branch is shared by at least half *)
  Definition branch_filter (hostlen : nat) (m : cands) : cands :=
    let k := min_len hostlen m - 1 in
    let half := Nat.div (length m) 2 in
    filter (fun p =>
              negb (Nat.ltb (length (filter (fun q => hash_eqb (prev_at (snd p) k) (prev_at (snd q) k)) m)) half)) m.

  (* go: blockchain.go:181-190 keep the longest *)
  Definition longest_filter (mx : nat) (m : cands) : cands :=
    filter (fun p => negb (Nat.ltb (length (snd p)) mx)) m.

  (* go: blockchain.go:193-215 *)
  Definition last_recipient (b : block) : string :=
    fold_left (fun acc t => if is_reward t then reward_addr t else acc) (txs b) EmptyString.
  Fixpoint age_loop (target : string) (rev_blocks : list block) (age : N) : N :=
    match rev_blocks with
    | [] => age
    | b :: r =>
      match find is_reward (txs b) with
      | None => age_loop target r age
      | Some t => if String.eqb (reward_addr t) target then (age + 1)%N else age_loop target r (age + 1)%N
      end
    end.
  Definition age_of (c : list block) : N :=
    match rev c with [] => 0%N | l :: r => age_loop (last_recipient l) r 0%N end.

  (* go: blockchain.go:192-220 strict ">" arg-max in map-iteration order; [pref] goes first *)
  Definition order_cands (pref : string) (m : cands) : cands :=
    filter (fun p => String.eqb (fst p) pref) m ++ filter (fun p => negb (String.eqb (fst p) pref)) m.
  Definition select (pref : string) (m : cands) : option (list block) :=
    snd (fold_left (fun (acc : N * option (list block)) p =>
                      if (fst acc <? age_of (snd p))%N then (age_of (snd p), Some (snd p)) else acc)
                   (order_cands pref m) (0%N, None)).

  (* go: blockchain.go:222-237 *)
  Definition is_different (hostb sel : list block) : bool :=
    if Nat.ltb (length hostb) (length sel) then true
    else if Nat.leb 2 (length sel) then
      match last_block sel, last_block hostb with
      | Some a, Some b => negb (hash_eqb (H a) (H b))
      | _, _ => false
      end
    else false.

  (* go: blockchain.go:251-258: the commit loop goes on after a failure; isReplaced = false *)
  Fixpoint commit_loop (u : ureg) (a : areg) (l : list block) (ok : bool) : ureg * areg * bool :=
    match l with
    | [] => (u, a, ok)
    | b :: r =>
      match update_utxos u (txs b) (b_ts b) with
      | Err _ => commit_loop u a r false
      | Ok u' => commit_loop u' (reg_update a (elems (b_added b)) (elems (b_removed b))) r ok
      end
    end.

  Definition candidates (st : cstate) (now : Z) (nbs : list neighbor) : cands :=
    stage2 st now nbs (stage1 st now nbs).

  Definition survivors (st : cstate) (m : cands) : cands :=
    let hl := length (chain st) in
    longest_filter (max_len hl m) (branch_filter hl m).

  Definition slice_blocks (l : list block) (from to : nat) : list block :=
    firstn (to - from) (skipn from l).

  (* go: blockchain.go:99-266 Update. Result: new state, and whether the chain was replaced. *)
  Definition update (st : cstate) (now : Z) (nbs : list neighbor) (pref : string) : cstate * bool :=
    let c1 := stage1 st now nbs in
    let fork := is_fork st c1 nbs in
    let m := stage2 st now nbs c1 in
    match m with
    | [] => (st, false)
    | _ =>
      match select pref (survivors st m) with
      | None => (st, false)
      | Some sel =>
        if is_different (chain st) sel && negb (Nat.eqb (length sel) 0) then
          let '(u0, a0, news) :=
              if fork then (ureg_empty, areg_empty, removelast sel)
              else if Nat.ltb (length (chain st)) (length sel)
                   then (ur st, ar st, slice_blocks sel (length (chain st) - 1) (length sel - 1))
                   else (ur st, ar st, []) in
          let '(u', a', ok) := commit_loop u0 a0 news true in
          if ok then (mkC sel u' a', true) else (mkC (chain st) u' a', false)
        else (st, false)
      end
    end.
End Sync.
