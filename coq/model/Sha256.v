(* Sha256.v — FIPS 180-4 SHA-256 over N (32-bit words kept reduced mod 2^32).
   Executable reference used to instantiate the hash oracle of the chain model; it is
   cross-checked against crypto/sha256 by the correspondence run, not proved equal to it. *)
From RV Require Import model.Base.
Local Open Scope N_scope.

Definition w32 : N := 4294967296.
Definition add32 (a b : N) : N := (a + b) mod w32.
Definition rotr (n x : N) : N := N.lor (N.shiftr x n) ((N.shiftl x (32 - n)) mod w32).
Definition shr (n x : N) : N := N.shiftr x n.
Definition not32 (x : N) : N := w32 - 1 - x.

Definition Ch (x y z : N) : N := N.lxor (N.land x y) (N.land (not32 x) z).
Definition Maj (x y z : N) : N := N.lxor (N.lxor (N.land x y) (N.land x z)) (N.land y z).
Definition bsig0 (x : N) : N := N.lxor (N.lxor (rotr 2 x) (rotr 13 x)) (rotr 22 x).
Definition bsig1 (x : N) : N := N.lxor (N.lxor (rotr 6 x) (rotr 11 x)) (rotr 25 x).
Definition ssig0 (x : N) : N := N.lxor (N.lxor (rotr 7 x) (rotr 18 x)) (shr 3 x).
Definition ssig1 (x : N) : N := N.lxor (N.lxor (rotr 17 x) (rotr 19 x)) (shr 10 x).

Definition K256 : list N :=
 [1116352408; 1899447441; 3049323471; 3921009573; 961987163; 1508970993; 2453635748; 2870763221;
  3624381080; 310598401; 607225278; 1426881987; 1925078388; 2162078206; 2614888103; 3248222580;
  3835390401; 4022224774; 264347078; 604807628; 770255983; 1249150122; 1555081692; 1996064986;
  2554220882; 2821834349; 2952996808; 3210313671; 3336571891; 3584528711; 113926993; 338241895;
  666307205; 773529912; 1294757372; 1396182291; 1695183700; 1986661051; 2177026350; 2456956037;
  2730485921; 2820302411; 3259730800; 3345764771; 3516065817; 3600352804; 4094571909; 275423344;
  430227734; 506948616; 659060556; 883997877; 958139571; 1322822218; 1537002063; 1747873779;
  1955562222; 2024104815; 2227730452; 2361852424; 2428436474; 2756734187; 3204031479; 3329325298].

Definition H0 : list N :=
 [1779033703; 3144134277; 1013904242; 2773480762; 1359893119; 2600822924; 528734635; 1541459225].

Definition nthN (l : list N) (i : nat) : N := nth i l 0.

(* message schedule: w is kept reversed (most recent first) *)
Fixpoint extend (fuel : nat) (w : list N) : list N :=
  match fuel with
  | O => w
  | S f =>
    let nw := add32 (add32 (ssig1 (nthN w 1)) (nthN w 6)) (add32 (ssig0 (nthN w 14)) (nthN w 15)) in
    extend f (nw :: w)
  end.

Record regs := mkRegs { ra : N; rb : N; rc : N; rd : N; re : N; rf : N; rg : N; rh : N }.

Definition round (r : regs) (k w : N) : regs :=
  let t1 := add32 (add32 (add32 (rh r) (bsig1 (re r))) (add32 (Ch (re r) (rf r) (rg r)) k)) w in
  let t2 := add32 (bsig0 (ra r)) (Maj (ra r) (rb r) (rc r)) in
  mkRegs (add32 t1 t2) (ra r) (rb r) (rc r) (add32 (rd r) t1) (re r) (rf r) (rg r).

Fixpoint rounds (r : regs) (ks ws : list N) : regs :=
  match ks, ws with
  | k :: ks', w :: ws' => rounds (round r k w) ks' ws'
  | _, _ => r
  end.

(* one 512-bit block given as 16 big-endian words *)
Definition compress (h : list N) (blk : list N) : list N :=
  let w := rev (extend 48 (rev blk)) in
  let r0 := mkRegs (nthN h 0) (nthN h 1) (nthN h 2) (nthN h 3) (nthN h 4) (nthN h 5) (nthN h 6) (nthN h 7) in
  let r := rounds r0 K256 w in
  [add32 (nthN h 0) (ra r); add32 (nthN h 1) (rb r); add32 (nthN h 2) (rc r); add32 (nthN h 3) (rd r);
   add32 (nthN h 4) (re r); add32 (nthN h 5) (rf r); add32 (nthN h 6) (rg r); add32 (nthN h 7) (rh r)].

Fixpoint words_of_bytes (l : list N) : list N :=
  match l with
  | a :: b :: c :: d :: r => (a * 16777216 + b * 65536 + c * 256 + d) :: words_of_bytes r
  | _ => []
  end.

Definition bytes_of_word (w : N) : list N :=
  [w / 16777216; (w / 65536) mod 256; (w / 256) mod 256; w mod 256].

Definition bytes_of_u64 (n : N) : list N :=
  bytes_of_word ((n / w32) mod w32) ++ bytes_of_word (n mod w32).

(* padding: 0x80, zeros up to 56 mod 64, 64-bit big-endian bit length *)
Definition pad (msg : list N) : list N :=
  let len := N.of_nat (length msg) in
  let zeros := N.to_nat ((119 - (len mod 64)) mod 64) in
  msg ++ [128] ++ repeat 0 zeros ++ bytes_of_u64 (len * 8).

Fixpoint blocks_loop (fuel : nat) (h : list N) (ws : list N) : list N :=
  match fuel with
  | O => h
  | S f =>
    match ws with
    | [] => h
    | _ => blocks_loop f (compress h (firstn 16 ws)) (skipn 16 ws)
    end
  end.

Definition sha256 (msg : list N) : list N :=
  let ws := words_of_bytes (pad msg) in
  flat_map bytes_of_word (blocks_loop (S (length ws)) H0 ws).

Definition hex_digit_n (n : N) : ascii :=
  if n <? 10 then ascii_of_N (48 + n) else ascii_of_N (87 + n).
Fixpoint hex_of_bytes (l : list N) : string :=
  match l with
  | [] => EmptyString
  | b :: r => String (hex_digit_n (b / 16)) (String (hex_digit_n (b mod 16)) (hex_of_bytes r))
  end.
