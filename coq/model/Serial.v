(* Serial.v — a small generic semantics of threads that run operations on ONE shared state, each
   operation inside ONE critical section of ONE global exclusive mutex (property C16).
   Definitions only; the theory (lock invariant, serializability) is in proofs/Serial_lemmas.v.

   The Go shape it abstracts (transactions_pool.go): every pool operation is
        ... private work ... ; mutex.Lock() ; <the whole read-modify-write> ; mutex.Unlock() ; ...
   (checked on every run over the source by the table theorem C16_atomic_sections).

   An operation is named by a label [o : Op] and means the function [run o : S -> S * R]: its effect
   on the shared state and its result. Taking [Op := S -> S * R] and [run := fun f => f] gives
   "an operation is a function" ([fop], [frun] below); keeping a label type lets an instance
   (the pool) read the serial order back as a list of its own operations. *)
From RV Require Import model.Base.

Definition fop (S R : Type) : Type := S -> S * R.
Definition frun {S R : Type} (f : fop S R) : S -> S * R := f.

(* replace the i-th element (nothing when i is out of range) *)
Fixpoint set_nth {A} (i : nat) (x : A) (l : list A) {struct l} : list A :=
  match l, i with
  | [], _ => []
  | _ :: r, O => x :: r
  | y :: r, Datatypes.S k => y :: set_nth k x r
  end.

Section Serial.
  Variables S R Op : Type.
  Variable run : Op -> S -> S * R.

  (* what a thread does, one event at a time *)
  Inductive sevent :=
  | EvLocal            (* a private step: touches neither the shared state nor the lock *)
  | EvAcquire          (* mutex.Lock(): enabled only when nobody holds the lock *)
  | EvApply (o : Op)   (* the operation's whole effect on the shared state *)
  | EvRelease.         (* mutex.Unlock() *)

  (* one call of an operation, with the private steps the caller does before and after *)
  Record call := mkCall { c_pre : nat; c_op : Op; c_post : nat }.

  Definition call_events (c : call) : list sevent :=
    repeat EvLocal (c_pre c) ++ [EvAcquire; EvApply (c_op c); EvRelease] ++ repeat EvLocal (c_post c).
  (* a thread program = the calls it makes, in order *)
  Definition compile (p : list call) : list sevent := flat_map call_events p.
  Definition ops_of (p : list call) : list Op := map c_op p.

  (* per-thread state: the events left to run, the results obtained so far (oldest first) *)
  Record tstate := mkTh { th_evs : list sevent; th_res : list R }.
  Definition th_done : tstate := mkTh [] [].

  (* global state: shared state, lock holder, the threads (thread id = position) *)
  Record gstate := mkG { g_s : S; g_lock : option nat; g_threads : list tstate }.

  Definition thread (st : gstate) (i : nat) : tstate := nth i (g_threads st) th_done.

  Definition sinit (progs : list (list call)) (s0 : S) : gstate :=
    mkG s0 None (map (fun p => mkTh (compile p) []) progs).

  (* thread i takes its next event, if it has one and it is enabled. The second component is
     what the step adds to the history of Apply events: [(i, o)] for an Apply, nothing otherwise.
     Apply and Release do not test the lock: that they happen only while holding it is a theorem
     ([lock_invariant]), not an assumption. *)
  Definition sstep_fn (st : gstate) (i : nat) : option (gstate * list (nat * Op)) :=
    match nth_error (g_threads st) i with
    | None => None
    | Some th =>
      match th_evs th with
      | [] => None
      | EvLocal :: r =>
        Some (mkG (g_s st) (g_lock st) (set_nth i (mkTh r (th_res th)) (g_threads st)), [])
      | EvAcquire :: r =>
        match g_lock st with
        | Some _ => None
        | None => Some (mkG (g_s st) (Some i) (set_nth i (mkTh r (th_res th)) (g_threads st)), [])
        end
      | EvApply o :: r =>
        let '(s', x) := run o (g_s st) in
        Some (mkG s' (g_lock st) (set_nth i (mkTh r (th_res th ++ [x])) (g_threads st)), [(i, o)])
      | EvRelease :: r =>
        Some (mkG (g_s st) None (set_nth i (mkTh r (th_res th)) (g_threads st)), [])
      end
    end.

  Definition sstep (st : gstate) (i : nat) (st' : gstate) : Prop :=
    exists l, sstep_fn st i = Some (st', l).

  Inductive sreachable (progs : list (list call)) (s0 : S) : gstate -> Prop :=
  | sreach_init : sreachable progs s0 (sinit progs s0)
  | sreach_step st i st' : sreachable progs s0 st -> sstep st i st' -> sreachable progs s0 st'.

  (* a run together with the Apply events that happened along it, in the order they happened *)
  Inductive srun : gstate -> list (nat * Op) -> gstate -> Prop :=
  | srun_nil st : srun st [] st
  | srun_step st log st' i st'' l :
      srun st log st' -> sstep_fn st' i = Some (st'', l) -> srun st (log ++ l) st''.

  (* a schedule = which thread moves at each instant; executable (for examples) *)
  Fixpoint exec (sched : list nat) (st : gstate) : option (gstate * list (nat * Op)) :=
    match sched with
    | [] => Some (st, [])
    | i :: r =>
      match sstep_fn st i with
      | None => None
      | Some (st', l) =>
        match exec r st' with
        | None => None
        | Some (st'', l') => Some (st'', l ++ l')
        end
      end
    end.

  Definition quiescent (st : gstate) : Prop := forall i, th_evs (thread st i) = [].
  Definition quiescentb (st : gstate) : bool :=
    forallb (fun th => match th_evs th with [] => true | _ => false end) (g_threads st).

  (* thread i is between its Acquire and its Release *)
  Definition inside (evs : list sevent) : bool :=
    match evs with EvApply _ :: _ => true | EvRelease :: _ => true | _ => false end.
  Definition in_cs (st : gstate) (i : nat) : bool := inside (th_evs (thread st i)).

  (* ---- the specification: the operations one after another ---- *)
  Fixpoint serial_run (order : list (nat * Op)) (s : S) : S * list (nat * R) :=
    match order with
    | [] => (s, [])
    | (i, o) :: r =>
      let '(s', x) := run o s in
      let '(s'', xs) := serial_run r s' in
      (s'', (i, x) :: xs)
    end.

  (* what belongs to thread i in a list tagged with thread ids, in order *)
  Definition proj {A} (i : nat) (l : list (nat * A)) : list A :=
    map snd (filter (fun p => Nat.eqb (fst p) i) l).

  (* [order] is an interleaving of the threads' lists: restricted to any thread it is exactly that
     thread's list (so it contains every element of every thread once, in the thread's own order,
     and nothing else — see is_merge_permutation) *)
  Definition is_merge {A} (order : list (nat * A)) (ls : list (list A)) : Prop :=
    forall i, proj i order = nth i ls [].
End Serial.

Arguments EvLocal {Op}. Arguments EvAcquire {Op}. Arguments EvApply {Op} o. Arguments EvRelease {Op}.
Arguments mkCall {Op}. Arguments c_pre {Op}. Arguments c_op {Op}. Arguments c_post {Op}.
Arguments call_events {Op}. Arguments compile {Op}. Arguments ops_of {Op}.
Arguments mkTh {R Op}. Arguments th_evs {R Op}. Arguments th_res {R Op}. Arguments th_done {R Op}.
Arguments mkG {S R Op}. Arguments g_s {S R Op}. Arguments g_lock {S R Op}. Arguments g_threads {S R Op}.
Arguments thread {S R Op}. Arguments sinit {S R Op}. Arguments sstep_fn {S R Op}.
Arguments sstep {S R Op}. Arguments sreachable {S R Op}. Arguments srun {S R Op}.
Arguments exec {S R Op}. Arguments quiescent {S R Op}. Arguments quiescentb {S R Op}.
Arguments inside {Op}. Arguments in_cs {S R Op}. Arguments serial_run {S R Op}.
