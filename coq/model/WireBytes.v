(* WireBytes.v — the wire model on byte strings: the marshalers of Wire.v followed by the printer
   of Json.v (what json.Marshal writes), and the reader of JsonParse.v followed by the decoders
   of WireDec.v / the handlers of Handlers.v (what json.Unmarshal and the endpoints do with the
   bytes they receive).  json.Unmarshal starts with checkValid: a text that is not JSON is
   refused with a *json.SyntaxError before any field is assigned and before any repository
   code runs.
   Definitions only; the theorems are in proofs/WireBytes_lemmas.v. *)
From RV Require Import model.Base model.Json model.Ledger model.Registry model.Chain model.Sync
     model.Pool model.Reach model.Wire model.WireDec model.JsonParse model.Handlers.

(* ---- what the sender writes ---- *)
Definition encode_block (b : block) : string := render (marshal_block b).
Definition encode_tx (t : tx) : string := render (marshal_tx t).
Definition encode_utxo (u : utxo) : string := render (marshal_utxo u).
Definition encode_request (t : option tx) (target : string) : string := render (marshal_request t target).

(* json.Marshal of a []*Block: a nil pointer is printed as null *)
Definition blocks_tree (l : list (option block)) : json :=
  JArr (map (fun x => match x with Some b => marshal_block b | None => JNull end) l).
Definition encode_blocks (l : list (option block)) : string := render (blocks_tree l).

(* ---- what the receiver reads: None is the syntax error of checkValid ---- *)
Definition decode_bytes {A} (um : json -> res derr A) (s : string) : option (res derr A) :=
  match parse_json s with
  | None => None
  | Some j => Some (um j)
  end.

Section Decoders.
  Variable on_curve : string -> bool.
  Variable H : list N -> list N.

  Definition decode_block_bytes (s : string) : option (res derr block) :=
    decode_bytes (unmarshal_block on_curve H) s.
  Definition decode_tx_bytes (s : string) : option (res derr tx) :=
    decode_bytes (unmarshal_tx on_curve H) s.
  Definition decode_blocks_bytes (s : string) : option (res derr (list (option block))) :=
    decode_bytes (unmarshal_blocks on_curve H) s.
  Definition decode_request_bytes (s : string) : option (res derr (option tx * string)) :=
    decode_bytes (unmarshal_request on_curve H) s.
End Decoders.

Definition decode_utxo_bytes (s : string) : option (res derr utxo) := decode_bytes unmarshal_utxo s.

(* ---- the endpoints on the bytes they are handed ---- *)
Section HandlersBytes.
  Variable value_fn : N -> bool -> Z -> N.
  Variable addr_of : string -> string.
  Variable sig_ok : input -> bool.
  Variable H : block -> hash.
  Variable gen_id : slice input -> slice output -> Z -> string.
  Variable Se : settings.
  Variable validator : string.
  Variable on_curve : string -> bool.
  Variable Hb : list N -> list N.

  (* go: transactions_controller.go:27-29: the syntax error is returned, nothing else happens.
     It is reported like any other decoding error of the request ([EDecode]). *)
  Definition handle_transaction_result_bytes (n : node) (s : string) : res err node :=
    match parse_json s with
    | None => Err EDecode
    | Some j => handle_transaction_result value_fn addr_of sig_ok Se on_curve Hb n j
    end.

  (* (new node, accepted?) *)
  Definition handle_transaction_bytes (n : node) (s : string) : node * bool :=
    match parse_json s with
    | None => (n, false)
    | Some j => handle_transaction value_fn addr_of sig_ok Se on_curve Hb n j
    end.

  (* go: blockchain.go:384-388: json.Unmarshal failed: "failed to get neighbor's blockchain",
     the same outcome as an answer whose tree does not decode *)
  Definition response_of_answer_bytes (s : string) : response :=
    match parse_json s with
    | None => RFail EDecode
    | Some j => response_of_answer on_curve Hb j
    end.

  (* (target, bytes answered to the incremental request, bytes answered to the full request) *)
  Definition neighbor_of_answer_bytes (a : string * string * string) : neighbor :=
    mkNb (fst (fst a)) (response_of_answer_bytes (snd (fst a))) (response_of_answer_bytes (snd a)).

  (* one sync round whose neighbors answered arbitrary byte strings *)
  Definition sync_with_bytes (n : node) (now : Z) (answers : list (string * string * string))
      (pref : string) : node :=
    step value_fn addr_of sig_ok H gen_id Se validator n
         (OpUpdate now (map neighbor_of_answer_bytes answers) pref).

  (* go: blocks_controller.go:23-25, utxos_controller.go, senders_controller.go: the syntax error
     is returned (None); otherwise the tree-level handler decides *)
  Definition handle_blocks_bytes (n : node) (s : string) : option (res derr (res err (list block))) :=
    match parse_json s with
    | None => None
    | Some j => Some (handle_blocks Se n j)
    end.

  Definition handle_utxos_bytes (n : node) (s : string) : option (res derr (list utxo)) :=
    match parse_json s with
    | None => None
    | Some j => Some (handle_utxos n j)
    end.

  Definition handle_targets_bytes (s : string) : option (res derr (list string)) :=
    match parse_json s with
    | None => None
    | Some j => Some (handle_targets j)
    end.
End HandlersBytes.

(* ---- the bridge to the tree-level statements: a text that is not JSON is replaced by a tree
   every slice decoder refuses (a string where an array is expected: json.UnmarshalTypeError) ---- *)
Definition tree_of_text (s : string) : json :=
  match parse_json s with
  | Some j => j
  | None => JStr EmptyString
  end.

Definition answers_of_bytes (answers : list (string * string * string)) : list (string * json * json) :=
  map (fun a => (fst (fst a), tree_of_text (snd (fst a)), tree_of_text (snd a))) answers.
