(* WireDec.v — the decoders of validatornode/domain/ledger: encoding/json's struct decoding
   (go1.23 decode.go) on JSON trees, then the repo's own UnmarshalJSON methods.
   The bytes -> tree step (Go's scanner and unquote) is outside the model.
   Definitions only. *)
From RV Require Import model.Base model.Json model.Sha256 model.Wire.
Local Open Scope string_scope.

Inductive derr :=
  | DType         (* json.UnmarshalTypeError: wrong JSON type for the Go field *)
  | DRange        (* integer literal outside the range of the Go type *)
  | DKey          (* encryption.NewPublicKeyFromHex failed *)
  | DSig          (* encryption.DecodeSignature failed *)
  | DWrongId      (* transaction.go:60 *)
  | DMultiReward  (* transaction.go:67 *)
  | DNoReward     (* transaction.go:69 *)
  | DNullElem     (* transaction.go:47,52  block.go:37 *)
  | DNoOutput.    (* transaction.go:63 *)

Definition bind {A B} (r : res derr A) (f : A -> res derr B) : res derr B :=
  match r with Ok a => f a | Err e => Err e end.
Local Notation "x <- e ;; k" := (bind e (fun x => k)) (at level 61, e at next level, right associativity).

(* ---- object keys: encoding/json fold.go foldName ----
   a key selects the struct field whose name has the same fold. ASCII letters fold to upper
   case; the only non-ASCII runes whose fold is an ASCII letter are U+017F (C5 BF, folds to S)
   and U+212A (E2 84 AA, folds to K); every other non-ASCII byte stays non-ASCII and so never
   equals a byte of a field name. *)
Definition upper_ascii (c : ascii) : ascii :=
  let n := N_of_ascii c in
  if (97 <=? n)%N && (n <=? 122)%N then ascii_of_N (n - 32) else c.

Fixpoint fold_name (s : string) : string :=
  match s with
  | EmptyString => EmptyString
  | String c r =>
    match r with
    | String c1 r1 =>
      if (N_of_ascii c =? 197)%N && (N_of_ascii c1 =? 191)%N then String "S" (fold_name r1)
      else
        match r1 with
        | String c2 r2 =>
          if (N_of_ascii c =? 226)%N && (N_of_ascii c1 =? 132)%N && (N_of_ascii c2 =? 170)%N
          then String "K" (fold_name r2)
          else String (upper_ascii c) (fold_name r)
        | EmptyString => String (upper_ascii c) (fold_name r)
        end
    | EmptyString => String (upper_ascii c) EmptyString
    end
  end.

Definition key_matches (name key : string) : bool := String.eqb (fold_name key) (fold_name name).

(* the values given to field `name`, in document order (decode.go:693-696; unknown keys are skipped) *)
Fixpoint get_fields (name : string) (fs : list (string * json)) : list json :=
  match fs with
  | [] => []
  | (k, v) :: r => if key_matches name k then v :: get_fields name r else get_fields name r
  end.

(* the value that ends up deciding the field when no earlier one matters: the last one *)
Definition get_field (name : string) (fs : list (string * json)) : option json :=
  match rev (get_fields name fs) with [] => None | v :: _ => Some v end.

(* every occurrence of a key is decoded into the same Go variable, one after the other *)
Fixpoint dec_seq {A} (dec : A -> json -> res derr A) (l : list json) (cur : A) : res derr A :=
  match l with
  | [] => Ok cur
  | j :: r => match dec cur j with Ok a => dec_seq dec r a | Err e => Err e end
  end.

Definition dec_field {A} (dec : A -> json -> res derr A) (name : string)
    (fs : list (string * json)) (init : A) : res derr A :=
  dec_seq dec (get_fields name fs) init.

(* ---- scalars (decode.go literalStore): `cur` is what the Go variable holds before ----
   null leaves a string / bool / integer / array variable unchanged (decode.go:893-897) *)
Definition u64_bound : Z := 18446744073709551616%Z.
Definition i64_min : Z := (-9223372036854775808)%Z.
Definition i64_max1 : Z := 9223372036854775808%Z.

(* strconv.ParseUint(lit, 10, 64) then OverflowUint for the field's width *)
Definition dec_uint (bound : Z) (cur : N) (j : json) : res derr N :=
  match j with
  | JNull => Ok cur
  | JNum z => if (0 <=? z)%Z && (z <? bound)%Z then Ok (Z.to_N z) else Err DRange
  | _ => Err DType
  end.

(* strconv.ParseInt(lit, 10, 64); the literal "-0" is not a plain integer literal of the
   tree (Json.v) but ParseInt accepts it *)
Definition dec_i64 (cur : Z) (j : json) : res derr Z :=
  match j with
  | JNull => Ok cur
  | JNum z => if (i64_min <=? z)%Z && (z <? i64_max1)%Z then Ok z else Err DRange
  | JNumF lit => if String.eqb lit "-0" then Ok 0%Z else Err DType
  | _ => Err DType
  end.

Definition dec_str (cur : string) (j : json) : res derr string :=
  match j with JNull => Ok cur | JStr s => Ok s | _ => Err DType end.

Definition dec_bool (cur : bool) (j : json) : res derr bool :=
  match j with JNull => Ok cur | JBool b => Ok b | _ => Err DType end.

Fixpoint map_res {A B} (f : A -> res derr B) (l : list A) : res derr (list B) :=
  match l with
  | [] => Ok []
  | a :: r =>
    match f a with
    | Ok b => match map_res f r with Ok bs => Ok (b :: bs) | Err e => Err e end
    | Err e => Err e
    end
  end.

(* a slice field: null gives nil, an array gives a non-nil slice (decode.go:587-589), anything
   else is a type error. Used for []*T: a second occurrence of the key makes Go call
   UnmarshalJSON on the objects the first occurrence allocated; those methods overwrite every
   field this model has (Transaction.hasReward, not modelled, is only ever set: see report). *)
Definition dec_slice {A} (elem : json -> res derr A) (cur : slice A) (j : json) : res derr (slice A) :=
  match j with
  | JNull => Ok None
  | JArr l => match map_res elem l with Ok x => Ok (Some x) | Err e => Err e end
  | _ => Err DType
  end.

(* a []string field: a null element leaves the element variable unchanged, and when the key
   occurred before that variable still holds the earlier element (decode.go:544-558: the slice
   is re-used from index 0); positions beyond the earlier length are fresh. Exact for up to two
   occurrences of the key. *)
Fixpoint dec_elems {A} (elem : A -> json -> res derr A) (zero : A) (cur : list A) (l : list json)
    : res derr (list A) :=
  match l with
  | [] => Ok []
  | j :: r =>
    match elem (hd zero cur) j with
    | Ok b => match dec_elems elem zero (tl cur) r with Ok bs => Ok (b :: bs) | Err e => Err e end
    | Err e => Err e
    end
  end.

Definition dec_strs (cur : slice string) (j : json) : res derr (slice string) :=
  match j with
  | JNull => Ok None
  | JArr l => match dec_elems dec_str "" (elems cur) l with Ok x => Ok (Some x) | Err e => Err e end
  | _ => Err DType
  end.

(* an element or field of type *T where T has UnmarshalJSON: null is the nil pointer and the
   method is not called (decode.go indirect, decodingNull); anything else is handed to it *)
Definition dec_ptr {A} (um : json -> res derr A) (j : json) : res derr (option A) :=
  match j with
  | JNull => Ok None
  | _ => match um j with Ok a => Ok (Some a) | Err e => Err e end
  end.

(* [n]byte: elements beyond n are skipped without being looked at, missing ones are zeroed
   (decode.go:553-584) *)
Fixpoint dec_arr_u8 (n : nat) (cur : list N) (l : list json) : res derr (list N) :=
  match n with
  | O => Ok []
  | S n' =>
    match l with
    | [] => Ok (repeat 0%N n)
    | j :: r =>
      match dec_uint 256 (hd 0%N cur) j with
      | Ok b => match dec_arr_u8 n' (tl cur) r with Ok bs => Ok (b :: bs) | Err e => Err e end
      | Err e => Err e
      end
    end
  end.

Definition dec_hash (cur : hash) (j : json) : res derr hash :=
  match j with
  | JNull => Ok cur
  | JArr l => dec_arr_u8 32 cur l
  | _ => Err DType
  end.

Fixpoint all_some {A} (l : list (option A)) : res derr (list A) :=
  match l with
  | [] => Ok []
  | Some a :: r => match all_some r with Ok x => Ok (a :: x) | Err e => Err e end
  | None :: _ => Err DNullElem
  end.

(* the `for _, x := range s { if x == nil {...} }` loops; nil and empty slices stay distinct *)
Definition no_nulls {A} (s : slice (option A)) : res derr (slice A) :=
  match s with
  | None => Ok None
  | Some l => match all_some l with Ok x => Ok (Some x) | Err e => Err e end
  end.

(* ---- hex ---- *)
Definition lower_hex_char (c : ascii) : option ascii :=
  let n := N_of_ascii c in
  if (48 <=? n)%N && (n <=? 57)%N then Some c
  else if (97 <=? n)%N && (n <=? 102)%N then Some c
  else if (65 <=? n)%N && (n <=? 70)%N then Some (ascii_of_N (n + 32))
  else None.

Fixpoint lower_hex (s : string) : option string :=
  match s with
  | EmptyString => Some EmptyString
  | String c r =>
    match lower_hex_char c, lower_hex r with
    | Some c', Some r' => Some (String c' r')
    | _, _ => None
    end
  end.

Definition starts_04 (h : string) : bool :=
  match h with
  | String a (String b _) => Ascii.eqb a "0" && Ascii.eqb b "4"
  | _ => false
  end.

(* encryption/signature.go:32-69 then :40-42. len(s) = 128, both halves hex (either case);
   r and s are below 2^256, so %064x%064x prints exactly the 128 digits, in lower case *)
Definition dec_sig (s : string) : res derr string :=
  match lower_hex s with
  | Some h => if (String.length h =? 128)%nat then Ok h else Err DSig
  | None => Err DSig
  end.

Section Oracles.
(* crypto.UnmarshalPubkey accepts these 65 bytes (given as 130 lower-case hex digits) *)
Variable on_curve : string -> bool.
(* the hash (sha256) *)
Variable H : list N -> list N.

(* encryption/public_key.go:18-36: hexutil.Decode wants "0x" or "0X" (hexutil.go:189-191),
   then hex of even length; UnmarshalPubkey wants 65 bytes, the first being 4; String() is
   hexutil.Encode of the 65 bytes: "0x" and lower case *)
Definition dec_pubkey (s : string) : res derr string :=
  match s with
  | String a (String b r) =>
    if Ascii.eqb a "0" && (Ascii.eqb b "x" || Ascii.eqb b "X") then
      match lower_hex r with
      | Some h =>
        if (String.length h =? 130)%nat && starts_04 h && on_curve h
        then Ok (String "0" (String "x" h)) else Err DKey
      | None => Err DKey
      end
    else Err DKey
  | _ => Err DKey
  end.

(* go: output.go:31-41 *)
Definition unmarshal_output (j : json) : res derr output :=
  match j with
  | JObj fs =>
    a <- dec_field dec_str "address" fs "" ;;
    y <- dec_field dec_bool "is_yielding" fs false ;;
    v <- dec_field (dec_uint u64_bound) "value" fs 0%N ;;
    Ok (mkOutput a y v)
  | _ => Err DType
  end.

(* go: input_info.go:28-37 *)
Definition unmarshal_input_info (j : json) : res derr (N * string) :=
  match j with
  | JObj fs =>
    i <- dec_field (dec_uint 65536) "output_index" fs 0%N ;;
    r <- dec_field dec_str "transaction_id" fs "" ;;
    Ok (i, r)
  | _ => Err DType
  end.

(* go: input.go:53-71 *)
Definition unmarshal_input (j : json) : res derr input :=
  match j with
  | JObj fs =>
    i <- dec_field (dec_uint 65536) "output_index" fs 0%N ;;
    r <- dec_field dec_str "transaction_id" fs "" ;;
    k <- dec_field dec_str "public_key" fs "" ;;
    s <- dec_field dec_str "signature" fs "" ;;
    k' <- dec_pubkey k ;;
    s' <- dec_sig s ;;
    Ok (mkInput i r k' s')
  | _ => Err DType
  end.

(* go: utxo.go:38-48 *)
Definition unmarshal_utxo (j : json) : res derr utxo :=
  match j with
  | JObj fs =>
    a <- dec_field dec_str "address" fs "" ;;
    t <- dec_field dec_i64 "timestamp" fs 0%Z ;;
    y <- dec_field dec_bool "is_yielding" fs false ;;
    i <- dec_field (dec_uint 65536) "output_index" fs 0%N ;;
    r <- dec_field dec_str "transaction_id" fs "" ;;
    v <- dec_field (dec_uint u64_bound) "value" fs 0%N ;;
    Ok (mkUtxo r i (mkOutput a y v) t)
  | _ => Err DType
  end.

(* go: transaction.go:129-145 *)
Definition gen_id (i : slice input) (o : slice output) (ts : Z) : string :=
  hex_of_bytes (H (bytes_of_string (render (marshal_idbody i o ts)))).

(* go: transaction.go:63-71 — the shape checks after the id check *)
Definition tx_shape (i : slice input) (o : slice output) : res derr unit :=
  match elems o, elems i with
  | [], _ :: _ => Err DNoOutput
  | [], [] => Err DNoReward
  | _ :: _ :: _, [] => Err DMultiReward
  | _, _ => Ok tt
  end.

(* go: transaction.go:41-81 *)
Definition unmarshal_tx (j : json) : res derr tx :=
  match j with
  | JObj fs =>
    id <- dec_field dec_str "id" fs "" ;;
    i0 <- dec_field (dec_slice (dec_ptr unmarshal_input)) "inputs" fs None ;;
    o0 <- dec_field (dec_slice (dec_ptr unmarshal_output)) "outputs" fs None ;;
    ts <- dec_field dec_i64 "timestamp" fs 0%Z ;;
    i <- no_nulls i0 ;;
    o <- no_nulls o0 ;;
    if negb (String.eqb (gen_id i o ts) id) then Err DWrongId
    else
      _ <- tx_shape i o ;;
      Ok (mkTx id i o ts)
  | _ => Err DType
  end.

(* go: block.go:30-47 *)
Definition unmarshal_block (j : json) : res derr block :=
  match j with
  | JObj fs =>
    p <- dec_field dec_hash "previous_hash" fs zero_hash ;;
    a <- dec_field dec_strs "added_registered_addresses" fs None ;;
    r <- dec_field dec_strs "removed_registered_addresses" fs None ;;
    ts <- dec_field dec_i64 "timestamp" fs 0%Z ;;
    t0 <- dec_field (dec_slice (dec_ptr unmarshal_tx)) "transactions" fs None ;;
    t <- no_nulls t0 ;;
    Ok (mkBlock p a r ts t)
  | _ => Err DType
  end.

(* go: blockchain.go:385-386  json.Unmarshal(bytes, &neighborBlocks) with a nil []*Block *)
Definition unmarshal_blocks (j : json) : res derr (list (option block)) :=
  match j with
  | JNull => Ok []
  | JArr l => map_res (dec_ptr unmarshal_block) l
  | _ => Err DType
  end.

(* go: transaction_request.go:21-29; the dto has no tags: Go field names *)
Definition unmarshal_request (j : json) : res derr (option tx * string) :=
  match j with
  | JObj fs =>
    t <- dec_field (fun _ => dec_ptr unmarshal_tx) "Transaction" fs None ;;
    g <- dec_field dec_str "TransactionBroadcasterTarget" fs "" ;;
    Ok (t, g)
  | _ => Err DType
  end.

End Oracles.
