(* Extract.v — extraction of the executable model to OCaml for the correspondence check.
   Only ExtrOcamlBasic is used (bool, option, unit, list, prod, sumbool, comparison are mapped to
   OCaml's own types); N, Z, positive, nat, string, ascii stay the Coq datatypes.
   No Extract Constant / Extract Inductive of our own. Run with coqc from the directory
   that should receive Model.ml / Model.mli. *)
Require Import ExtrOcamlBasic.
From RV Require Import model.Base model.Clock model.Ledger model.Registry model.Chain model.Sync
     model.Pool model.Interleave model.Json model.Sha256 model.Wire model.Neighborhood model.Wallet model.Views model.WireDec model.Settings model.JsonParse.

Extraction Language OCaml.
Set Extraction Optimize.
Extraction "Model.ml"
  (* clock *) truncate_t round_t sub_timer pulse_stamp engine_stamps slot_calls estep einit
  (* ledger *) calc_fee calc_fee_wrapping update_utxos utxos_of ureg_empty
  (* registry *) areg_empty is_registered reg_update reg_sync filter_new
  (* chain *) cstate_empty add_block make_block add_block_raw blocks_page first_block_ts last_block_ts
              last_block_txs verify_block verify replay
  (* sync *) update candidates survivors select age_of
  (* pool *) node_empty pool_add validate pool_ids
  (* interleaving machine *) istep istate_of update_decide
  (* wire *) render marshal_block marshal_tx marshal_utxo marshal_request marshal_input_info
             gen_id_sha block_hash_sha input_msg sha256 hex_of_bytes bytes_of_string
  (* neighborhood *) network_id add_targets incentive known reachable outbounds_count select_outbounds fanout
                     admissible_outbounds sync_round
  (* access node *) find_closest tx_info wallet_amount progress_of
  (* decoders *) unmarshal_tx unmarshal_block unmarshal_blocks unmarshal_request unmarshal_utxo unmarshal_output lower_hex
  (* settings *) decode_settings units_per_coin half_life_ns to_settings sane
  (* bytes -> tree *) parse_json.
