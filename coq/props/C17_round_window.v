(* C17, messages that arrive DURING a neighbor-refresh round (model/NbInterleave.v).
   Synchronize (neighborhood.go:65-108) picks the map it works from and replaces the live map by
   an empty one under the scores lock (S1), then without the lock creates the senders, selects the
   outbounds and tells them the targets (S2 order perm). AddTargets / Incentive (NAdd, NInc) take
   the scores lock and may run between the two.
     - S1;S2 with nothing between is Neighborhood.sync_round (C17_round_phases_atomic);
     - messages between S1 and S2 act as if they had arrived right after the round: same final
       state, same round output (C17_round_window_commutes) — the replay rule of the harness;
     - every schedule does what its linearisation does, in which every message of a window has been
       moved to just after the S2 that closes it; when rounds do not overlap ([nb_wf]) the
       linearisation has no message inside a round ([atomic]); it is a rearrangement that keeps the
       messages in their order and the round steps in theirs (C17_schedule_linearisable). The run
       equality needs no hypothesis because a step that is not enabled does nothing;
     - hence a schedule of finished rounds is a sequential history of sync_round / add_targets /
       incentive (C17_schedule_sequential), every round of every schedule is the atomic round on a
       live map built by AddTargets/Incentive from the empty one, which is the hypothesis of
       C17_round, and the live map left is again such a map (C17_schedule_rounds_built);
     - the variant in which the live map is emptied at S2 instead of S1 is NOT linearisable: a valid
       new target announced inside the window is in no round output and not in the live map left,
       which no sequential order of the round and the message gives (C17_late_reset_refuted).
   Only theorems closed by [exact] of lemmas of proofs/NbInterleave_lemmas.v, and examples. *)
From RV Require Import model.Base model.Neighborhood model.NbInterleave
     proofs.Neighborhood_lemmas proofs.NbInterleave_lemmas.
From Coq Require Import ZArith Permutation.
Local Open Scope Z_scope.

Theorem C17_round_phases_atomic :
  forall split_hp resolve host host_port seeds max st order perm out msgs scores',
    nb_pending st = None ->
    sync_round split_hp resolve host seeds (nb_scores st) order max perm = (out, msgs, scores') ->
    nb_run split_hp resolve host host_port seeds max [NS1; NS2 order perm] st
    = (mkNb scores' out None, [(out, msgs)]).
Proof. exact nb_phases_atomic. Qed.

Theorem C17_round_window_commutes :
  forall split_hp resolve host host_port seeds max ms order perm st out msgs scores',
    forallb is_msg ms = true ->
    nb_pending st = None ->
    sync_round split_hp resolve host seeds (nb_scores st) order max perm = (out, msgs, scores') ->
    nb_run split_hp resolve host host_port seeds max (NS1 :: ms ++ [NS2 order perm]) st
    = nb_run split_hp resolve host host_port seeds max (NS1 :: NS2 order perm :: ms) st /\
    nb_run split_hp resolve host host_port seeds max (NS1 :: ms ++ [NS2 order perm]) st
    = (mkNb (apply_msgs split_hp host_port ms scores') out None, [(out, msgs)]).
Proof. exact nb_window_commutes. Qed.

Theorem C17_schedule_linearisable :
  forall split_hp resolve host host_port seeds max sched st,
    nb_run split_hp resolve host host_port seeds max sched st
    = nb_run split_hp resolve host host_port seeds max (linearise sched) st /\
    (nb_wf sched = true -> atomic (linearise sched) = true) /\
    (nb_complete sched = true -> atomic_closed (linearise sched) = true) /\
    Permutation sched (linearise sched) /\
    filter is_msg (linearise sched) = filter is_msg sched /\
    filter (fun s => negb (is_msg s)) (linearise sched) = filter (fun s => negb (is_msg s)) sched.
Proof. exact nb_schedule_linearisable. Qed.

Theorem C17_schedule_sequential :
  forall split_hp resolve host host_port seeds max sched st,
    nb_complete sched = true -> nb_pending st = None ->
    let y := arun split_hp resolve host host_port seeds max (fuse (linearise sched))
                  (nb_scores st, nb_senders st) in
    nb_run split_hp resolve host host_port seeds max sched st = (nb_of (fst y), snd y).
Proof. exact nb_schedule_sequential. Qed.

Theorem C17_schedule_rounds_built :
  forall split_hp resolve host host_port seeds max sched st,
    nb_wf sched = true -> nb_pending st = None -> built split_hp host_port (nb_scores st) ->
    Forall (fun o => exists scores order perm,
                built split_hp host_port scores /\
                sync_round split_hp resolve host seeds scores order max perm
                = (fst o, snd o, sync_scores_after))
           (snd (nb_run split_hp resolve host host_port seeds max sched st)) /\
    (nb_complete sched = true ->
     built split_hp host_port
           (nb_scores (fst (nb_run split_hp resolve host host_port seeds max sched st)))).
Proof. exact nb_schedule_rounds_built. Qed.

Theorem C17_late_reset_refuted :
  exists split_hp resolve host host_port seeds max t order perm st,
    let sched := [NS1; NAdd [t]; NS2 order perm] in
    let late := nb_run_late split_hp resolve host host_port seeds max sched st in
    let seq ops := arun split_hp resolve host host_port seeds max ops (nb_scores st, nb_senders st) in
    nb_wf sched = true /\ nb_complete sched = true /\ nb_pending st = None /\ 0 <= max /\
    Permutation order (map fst (known seeds (nb_scores st))) /\
    is_shuffle (reachable split_hp resolve host (known seeds (nb_scores st)) order)
               (outbounds_count (known seeds (nb_scores st)) max) perm /\
    valid_target split_hp host_port t = true /\ alookup t (nb_scores st) = None /\
    (* the message is lost *)
    alookup t (nb_scores (fst late)) = None /\
    (forall o e, In o (snd late) -> In e (fst o) -> e_tv e <> t) /\
    (* neither sequential order, whatever the iteration order and the shuffle *)
    (forall order' perm',
        nb_scores (fst late) <> fst (fst (seq [ARound order' perm'; AAdd [t]]))) /\
    (forall order' perm',
        snd late <> snd (seq [AAdd [t]; ARound order' perm'])) /\
    (* with the reset at S1 the same schedule is the round followed by the message *)
    nb_run split_hp resolve host host_port seeds max sched st
    = (nb_of (fst (seq [ARound order perm; AAdd [t]])), snd (seq [ARound order perm; AAdd [t]])).
Proof. exact nb_late_reset_refuted. Qed.

(* ---- worked example, the environment of props/C17.v (host 10.0.0.9, peer 10.0.0.2 unreachable,
   max 3): an announcement, a round with an announcement and an incentive inside, an incentive, a
   round with an announcement inside, a third round left open with an incentive inside ---- *)
Example C17_window_example_hypotheses :
  nb_pending nbx_start = None /\ nb_wf nbx_sched = true /\ nb_complete nbx_sched = false /\
  nb_complete (firstn 9 nbx_sched) = true /\ atomic nbx_sched = false /\
  built ex_split "10600"%string (nb_scores nbx_start).
Proof. repeat split; try (vm_compute; reflexivity). exact nbx_start_built. Qed.

Example C17_window_example_linearise :
  (linearise nbx_sched
   = [NAdd ["10.0.0.5:10600"];
      NS1; NS2 ex_order ex_perm;
      NAdd ["10.0.0.3:10600"; "not a target"; "10.0.0.4:10600"]; NInc "10.0.0.3:10600";
      NInc "10.0.0.1:10600";
      NS1; NS2 ["10.0.0.1:10600"; "10.0.0.4:10600"; "10.0.0.3:10600"] [0%nat];
      NAdd ["10.0.0.9:10600"];
      NS1; NInc "10.0.0.2:10600"] /\
   atomic (linearise nbx_sched) = true /\
   fuse (linearise (firstn 9 nbx_sched))
   = [AAdd ["10.0.0.5:10600"];
      ARound ex_order ex_perm;
      AAdd ["10.0.0.3:10600"; "not a target"; "10.0.0.4:10600"]; AInc "10.0.0.3:10600";
      AInc "10.0.0.1:10600";
      ARound ["10.0.0.1:10600"; "10.0.0.4:10600"; "10.0.0.3:10600"] [0%nat];
      AAdd ["10.0.0.9:10600"]])%string.
Proof. vm_compute. repeat split; reflexivity. Qed.

(* the first round works from the old map (the announcement of 10.0.0.5 before S1 changes nothing,
   it is known); the second from what arrived inside the first window and after it; the third
   snapshot holds the announcement that arrived inside the second window *)
Example C17_window_example_run :
  (nb_run ex_split ex_resolve ex_host "10600" [] 3 nbx_sched nbx_start
   = nb_run ex_split ex_resolve ex_host "10600" [] 3 (linearise nbx_sched) nbx_start /\
   nb_run ex_split ex_resolve ex_host "10600" [] 3 nbx_sched nbx_start
   = (mkNb [("10.0.0.2:10600", 1)]
           [("10.0.0.1:10600", "10.0.0.1:10600", 1); ("10.0.0.3:10600", "10.0.0.3:10600", 1);
            ("10.0.0.4:10600", "10.0.0.4:10600", 0)]
           (Some [("10.0.0.9:10600", 0)]),
      [([("10.0.0.1:10600", "10.0.0.1:10600", 3); ("10.0.0.3:10600", "10.0.0.3:10600", 1);
         ("10.0.0.4:10600", "10.0.0.4:10600", 1)],
        [("10.0.0.1:10600", ["10.0.0.9:10600"; "10.0.0.4:10600"; "10.0.0.5:10600"; "10.0.0.3:10600"]);
         ("10.0.0.3:10600", ["10.0.0.9:10600"; "10.0.0.4:10600"; "10.0.0.5:10600"; "10.0.0.1:10600"]);
         ("10.0.0.4:10600", ["10.0.0.9:10600"; "10.0.0.5:10600"; "10.0.0.1:10600"; "10.0.0.3:10600"])]);
       ([("10.0.0.1:10600", "10.0.0.1:10600", 1); ("10.0.0.3:10600", "10.0.0.3:10600", 1);
         ("10.0.0.4:10600", "10.0.0.4:10600", 0)],
        [("10.0.0.1:10600", ["10.0.0.9:10600"; "10.0.0.4:10600"; "10.0.0.3:10600"]);
         ("10.0.0.3:10600", ["10.0.0.9:10600"; "10.0.0.1:10600"; "10.0.0.4:10600"]);
         ("10.0.0.4:10600", ["10.0.0.9:10600"; "10.0.0.1:10600"; "10.0.0.3:10600"])])]))%string.
Proof. vm_compute. split; reflexivity. Qed.

(* the witness of C17_late_reset_refuted: seed 10.0.0.1, 10.0.0.3 announced inside the window *)
Example C17_late_reset_example :
  (nb_run_late ex_split ex_resolve ex_host "10600" lr_seeds 3 lr_sched lr_start
   = (mkNb [] [lr_peer] None, [([lr_peer], [("10.0.0.1:10600", [ex_host])])]) /\
   nb_run ex_split ex_resolve ex_host "10600" lr_seeds 3 lr_sched lr_start
   = (mkNb [("10.0.0.3:10600", 0)] [lr_peer] None, [([lr_peer], [("10.0.0.1:10600", [ex_host])])]))%string.
Proof. vm_compute. split; reflexivity. Qed.

Print Assumptions C17_round_phases_atomic.
Print Assumptions C17_round_window_commutes.
Print Assumptions C17_schedule_linearisable.
Print Assumptions C17_schedule_sequential.
Print Assumptions C17_schedule_rounds_built.
Print Assumptions C17_late_reset_refuted.
