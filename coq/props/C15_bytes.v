(* C15, byte level: the text the model's printer (Go's compact, HTML-escaping encoding/json) emits
   for a tree is read back to exactly that tree by the model's own JSON reader, so the step
   bytes -> tree no longer rests on trusted glue.  wf_json asks only that a JNumF carries a
   literal of Go's number grammar that is not a plain integer (or is "-0"); strings and keys
   are arbitrary byte strings.
   This file contains only the property theorems, each closed by [exact] of a lemma of
   proofs/JsonParse_lemmas.v (which also has parse_ws: whitespace around the text does not
   matter, and parse_val_fuel_mono: more fuel never changes an answer). *)
From RV Require Import model.Base model.Json model.JsonParse proofs.JsonParse_lemmas.
Local Open Scope string_scope.

Theorem C15_parse_render : forall j, wf_json j -> parse_json (render j) = Some j.
Proof. exact parse_render. Qed.

Theorem C15_render_injective : forall j1 j2, wf_json j1 -> wf_json j2 -> render j1 = render j2 -> j1 = j2.
Proof. exact parse_render_inj. Qed.

(* a nested tree: an object, arrays, a string with < a quote, a newline and the bytes E2 80 A8,
   a key with E2 80 A9 and &, a negative number, a 64-bit maximum, 1.5e3 and -0 *)
Example C15_bytes_ex_tree :
  let j := JObj [("id", JStr (String "a" (String "<" (String """" (String "010" (String "226" (String "128" (String "168" "z"))))))));
                 ("vals", JArr [JNum (-42); JNumF "1.5e3"; JNull; JBool false; JArr []; JObj []]);
                 (String "k" (String "226" (String "128" (String "169" "&"))),
                  JObj [("n", JNum 18446744073709551615); ("z", JNumF "-0")])] in
  wf_json j
  /\ render j = "{""id"":""a\u003c\""\n\u2028z"",""vals"":[-42,1.5e3,null,false,[],{}],""k\u2029\u0026"":{""n"":18446744073709551615,""z"":-0}}"
  /\ parse_json (render j) = Some j.
Proof. vm_compute. repeat split; reflexivity. Qed.

(* the hypothesis is needed: an integer text carried as JNumF is read back as JNum *)
Example C15_bytes_ex_wf_needed :
  wf_jsonb (JNumF "12") = false /\ parse_json (render (JNumF "12")) = Some (JNum 12).
Proof. vm_compute. split; reflexivity. Qed.

(* whitespace hypotheses are satisfiable on a non-trivial value *)
Example C15_bytes_ex_ws :
  let pre := String "009" (String "010" " ") in
  let post := String "013" (String "010" "") in
  all_ws pre /\ all_ws post /\
  parse_json (pre ++ render (JArr [JStr "x"; JNumF "2E+7"]) ++ post) = Some (JArr [JStr "x"; JNumF "2E+7"]).
Proof. vm_compute. repeat split; reflexivity. Qed.

Print Assumptions C15_parse_render.
Print Assumptions C15_render_injective.
