(* C15 on byte strings — "every block and transaction a node serves is decoded by the receiver
   into a value with the same fields, the same transaction ids and the same block hash;
   re-encoding a decoded value is byte-stable".
   encode_x v = render (marshal_x v) is the text json.Marshal writes (model/Wire.v, model/Json.v);
   decode_x_bytes s is json.Unmarshal on the received text: None when the text is not JSON
   (checkValid's syntax error), otherwise the result of the decoders of model/WireDec.v on the
   tree read by model/JsonParse.v (model/WireBytes.v).  No hypothesis on the trees is left: the
   marshalers only produce trees the reader reads back (marshal_x_wf).
   This file contains only the property theorems, each closed by [exact] of a lemma of
   proofs/WireBytes_lemmas.v. *)
From RV Require Import model.Base model.Json model.Sha256 model.Wire model.WireDec model.JsonParse
     model.WireBytes proofs.Wire_lemmas proofs.WireBytes_lemmas.
Local Open Scope string_scope.

(* ---- every marshaled tree is one the reader reads back ---- *)
Theorem C15_marshal_block_wf : forall b, wf_json (marshal_block b).
Proof. exact marshal_block_wf. Qed.

Theorem C15_marshal_tx_wf : forall t, wf_json (marshal_tx t).
Proof. exact marshal_tx_wf. Qed.

Theorem C15_marshal_utxo_wf : forall u, wf_json (marshal_utxo u).
Proof. exact marshal_utxo_wf. Qed.

Theorem C15_marshal_request_wf : forall t g, wf_json (marshal_request t g).
Proof. exact marshal_request_wf. Qed.

Theorem C15_marshal_blocks_wf : forall l, wf_json (blocks_tree l).
Proof. exact blocks_tree_wf. Qed.

Theorem C15_marshal_idbody_wf : forall i o ts, wf_json (marshal_idbody i o ts).
Proof. exact marshal_idbody_wf. Qed.

Theorem C15_marshal_input_info_wf : forall idx ref, wf_json (marshal_input_info idx ref).
Proof. exact marshal_input_info_wf. Qed.

(* ---- what the sender writes is what the receiver gets ---- *)
Theorem C15_block_bytes_roundtrip : forall on_curve H b,
  wf_block on_curve H b -> decode_block_bytes on_curve H (encode_block b) = Some (Ok b).
Proof. exact block_bytes_roundtrip. Qed.

Theorem C15_tx_bytes_roundtrip : forall on_curve H t,
  wf_tx on_curve H t -> decode_tx_bytes on_curve H (encode_tx t) = Some (Ok t).
Proof. exact tx_bytes_roundtrip. Qed.

Theorem C15_utxo_bytes_roundtrip : forall u,
  wf_utxo u -> decode_utxo_bytes (encode_utxo u) = Some (Ok u).
Proof. exact utxo_bytes_roundtrip. Qed.

Theorem C15_blocks_bytes_roundtrip : forall on_curve H l,
  Forall (fun x => match x with Some b => wf_block on_curve H b | None => True end) l ->
  decode_blocks_bytes on_curve H (encode_blocks l) = Some (Ok l).
Proof. exact blocks_bytes_roundtrip. Qed.

Theorem C15_request_bytes_roundtrip : forall on_curve H t g,
  match t with Some x => wf_tx on_curve H x | None => True end ->
  decode_request_bytes on_curve H (encode_request t g) = Some (Ok (t, g)).
Proof. exact request_bytes_roundtrip. Qed.

(* ---- whatever text is accepted, the value is well formed ---- *)
Theorem C15_block_bytes_decode_wf : forall on_curve H s b,
  decode_block_bytes on_curve H s = Some (Ok b) -> wf_block on_curve H b.
Proof. exact block_bytes_decode_wf. Qed.

Theorem C15_tx_bytes_decode_wf : forall on_curve H s t,
  decode_tx_bytes on_curve H s = Some (Ok t) -> wf_tx on_curve H t.
Proof. exact tx_bytes_decode_wf. Qed.

Theorem C15_utxo_bytes_decode_wf : forall s u, decode_utxo_bytes s = Some (Ok u) -> wf_utxo u.
Proof. exact utxo_bytes_decode_wf. Qed.

(* ---- byte stability: decode any accepted text, encode, decode, encode ---- *)
Theorem C15_block_bytes_stable : forall on_curve H s b,
  decode_block_bytes on_curve H s = Some (Ok b) ->
  decode_block_bytes on_curve H (encode_block b) = Some (Ok b).
Proof. exact block_bytes_stable. Qed.

Theorem C15_block_bytes_stable_bytes : forall on_curve H s b,
  decode_block_bytes on_curve H s = Some (Ok b) ->
  forall b', decode_block_bytes on_curve H (encode_block b) = Some (Ok b') ->
             encode_block b' = encode_block b.
Proof. exact block_bytes_stable_bytes. Qed.

Theorem C15_tx_bytes_stable : forall on_curve H s t,
  decode_tx_bytes on_curve H s = Some (Ok t) ->
  decode_tx_bytes on_curve H (encode_tx t) = Some (Ok t).
Proof. exact tx_bytes_stable. Qed.

Theorem C15_tx_bytes_stable_bytes : forall on_curve H s t,
  decode_tx_bytes on_curve H s = Some (Ok t) ->
  forall t', decode_tx_bytes on_curve H (encode_tx t) = Some (Ok t') -> encode_tx t' = encode_tx t.
Proof. exact tx_bytes_stable_bytes. Qed.

Theorem C15_utxo_bytes_stable : forall s u,
  decode_utxo_bytes s = Some (Ok u) -> decode_utxo_bytes (encode_utxo u) = Some (Ok u).
Proof. exact utxo_bytes_stable. Qed.

(* ---- well-formed values with the same bytes are the same value ---- *)
Theorem C15_block_bytes_injective : forall on_curve H b1 b2,
  wf_block on_curve H b1 -> wf_block on_curve H b2 -> encode_block b1 = encode_block b2 -> b1 = b2.
Proof. exact block_bytes_inj. Qed.

Theorem C15_tx_bytes_injective : forall on_curve H t1 t2,
  wf_tx on_curve H t1 -> wf_tx on_curve H t2 -> encode_tx t1 = encode_tx t2 -> t1 = t2.
Proof. exact tx_bytes_inj. Qed.

(* ---- the receiver of the bytes computes the sender's block hash ---- *)
Theorem C15_block_bytes_same_hash : forall on_curve H b b',
  wf_block on_curve H b -> decode_block_bytes on_curve H (encode_block b) = Some (Ok b') ->
  H (bytes_of_string (encode_block b')) = H (bytes_of_string (encode_block b)).
Proof. exact block_bytes_same_hash. Qed.

Theorem C15_block_bytes_same_hash_any : forall on_curve H s b b',
  decode_block_bytes on_curve H s = Some (Ok b) ->
  decode_block_bytes on_curve H (encode_block b) = Some (Ok b') ->
  H (bytes_of_string (encode_block b')) = H (bytes_of_string (encode_block b)).
Proof. exact block_bytes_same_hash_any. Qed.

(* ---- the id is checked ---- *)
Theorem C15_tx_bytes_id_checked : forall on_curve H s t,
  decode_tx_bytes on_curve H s = Some (Ok t) -> t_id t = gen_id H (t_ins t) (t_outs t) (t_ts t).
Proof. exact tx_bytes_id_checked. Qed.

(* ---- whitespace around the text does not matter ---- *)
Theorem C15_block_bytes_ws : forall on_curve H b pre post,
  wf_block on_curve H b -> all_ws pre -> all_ws post ->
  decode_block_bytes on_curve H (pre ++ encode_block b ++ post) = Some (Ok b).
Proof. exact block_bytes_ws. Qed.

Theorem C15_tx_bytes_ws : forall on_curve H t pre post,
  wf_tx on_curve H t -> all_ws pre -> all_ws post ->
  decode_tx_bytes on_curve H (pre ++ encode_tx t ++ post) = Some (Ok t).
Proof. exact tx_bytes_ws. Qed.

Theorem C15_blocks_bytes_ws : forall on_curve H l pre post,
  Forall (fun x => match x with Some b => wf_block on_curve H b | None => True end) l ->
  all_ws pre -> all_ws post ->
  decode_blocks_bytes on_curve H (pre ++ encode_blocks l ++ post) = Some (Ok l).
Proof. exact blocks_bytes_ws. Qed.

Theorem C15_request_bytes_ws : forall on_curve H t g pre post,
  match t with Some x => wf_tx on_curve H x | None => True end -> all_ws pre -> all_ws post ->
  decode_request_bytes on_curve H (pre ++ encode_request t g ++ post) = Some (Ok (t, g)).
Proof. exact request_bytes_ws. Qed.

Theorem C15_utxo_bytes_ws : forall u pre post,
  wf_utxo u -> all_ws pre -> all_ws post ->
  decode_utxo_bytes (pre ++ encode_utxo u ++ post) = Some (Ok u).
Proof. exact utxo_bytes_ws. Qed.

(* ---- non-vacuity (H := sha256, every 65-byte 04.. key accepted) ---- *)

(* a block carrying a reward transaction: the bytes served, and what the receiver reads *)
Example C15_wb_ex_block :
  let t := mkTx (gen_id sha256 None (Some [mkOutput "A" false 9]) 5) None (Some [mkOutput "A" false 9]) 5 in
  let b := mkBlock (repeat 7%N 32) (Some ["A"]) None 5 (Some [t]) in
  encode_block b
  = "{""previous_hash"":[7,7,7,7,7,7,7,7,7,7,7,7,7,7,7,7,7,7,7,7,7,7,7,7,7,7,7,7,7,7,7,7],""added_registered_addresses"":[""A""],""removed_registered_addresses"":null,""timestamp"":5,""transactions"":[{""id"":""7206c27a17cce58f0d07da94345b141d441b7cead1b3a37ebc977d7c6ad8417b"",""inputs"":null,""outputs"":[{""address"":""A"",""is_yielding"":false,""value"":9}],""timestamp"":5}]}"
  /\ decode_block_bytes (fun _ => true) sha256 (encode_block b) = Some (Ok b)
  /\ decode_blocks_bytes (fun _ => true) sha256 (encode_blocks [Some b; None; Some b]) = Some (Ok [Some b; None; Some b])
  /\ decode_request_bytes (fun _ => true) sha256 (encode_request (Some t) "h:1") = Some (Ok (Some t, "h:1")).
Proof. vm_compute. repeat split; reflexivity. Qed.

(* so the hypothesis of the round trips holds of it *)
Example C15_wb_ex_wf :
  let t := mkTx (gen_id sha256 None (Some [mkOutput "A" false 9]) 5) None (Some [mkOutput "A" false 9]) 5 in
  let b := mkBlock (repeat 7%N 32) (Some ["A"]) None 5 (Some [t]) in
  wf_block (fun _ => true) sha256 b.
Proof.
  intros t b. apply (block_bytes_decode_wf (fun _ => true) sha256 (encode_block b) b).
  vm_compute. reflexivity.
Qed.

(* the same block written by another hand: spaces and newlines, keys in another order and another
   case, an unknown key, an escaped letter, "inputs" absent: accepted, the value is the same, and
   what the receiver re-serves is the canonical text above *)
Example C15_wb_ex_foreign_text :
  let t := mkTx (gen_id sha256 None (Some [mkOutput "A" false 9]) 5) None (Some [mkOutput "A" false 9]) 5 in
  let b := mkBlock (repeat 7%N 32) (Some ["A"]) None 5 (Some [t]) in
  let s := String "010" " { ""transactions"" : [ { ""TIMESTAMP"":5, ""junk"":[1.5e3,{}], ""outputs"":[ {""value"":9 ,""address"":""A""} ], ""id"":""7206c27a17cce58f0d07da94345b141d441b7cead1b3a37ebc977d7c6ad8417b"" } ], ""Timestamp"": 5, ""previous_hash"":[7,7,7,7,7,7,7,7,7,7,7,7,7,7,7,7,7,7,7,7,7,7,7,7,7,7,7,7,7,7,7,7, 99], ""removed_registered_addresses"":null, ""added_registered_addresses"":[""A""] } " in
  decode_block_bytes (fun _ => true) sha256 s = Some (Ok b) /\ s <> encode_block b.
Proof. vm_compute. split; [reflexivity | discriminate]. Qed.

(* texts that are not JSON are syntax errors; JSON of the wrong shape is a decoding error *)
Example C15_wb_ex_refused :
  decode_block_bytes (fun _ => true) sha256 "" = None /\
  decode_block_bytes (fun _ => true) sha256 "{""timestamp"":5" = None /\
  decode_block_bytes (fun _ => true) sha256 "{""timestamp"":05}" = None /\
  decode_block_bytes (fun _ => true) sha256 "{""timestamp"":5} x" = None /\
  decode_block_bytes (fun _ => true) sha256 "[]" = Some (Err DType) /\
  decode_block_bytes (fun _ => true) sha256 "{""timestamp"":1.5}" = Some (Err DType) /\
  decode_block_bytes (fun _ => true) sha256 "{""timestamp"":9223372036854775808}" = Some (Err DRange) /\
  decode_block_bytes (fun _ => true) sha256 "{""transactions"":[null]}" = Some (Err DNullElem) /\
  decode_tx_bytes (fun _ => true) sha256
    "{""id"":""7206c27a17cce58f0d07da94345b141d441b7cead1b3a37ebc977d7c6ad8417c"",""outputs"":[{""address"":""A"",""value"":9}],""timestamp"":5}"
  = Some (Err DWrongId) /\
  decode_utxo_bytes "{""timestamp"":-0}" = Some (Ok (mkUtxo "" 0 (mkOutput "" false 0) 0)).
Proof. vm_compute. repeat split; reflexivity. Qed.

(* the whitespace hypotheses are satisfiable *)
Example C15_wb_ex_ws :
  let pre := String "009" (String "010" " ") in
  let post := String "013" (String "010" "") in
  let u := mkUtxo "ab" 3 (mkOutput "A" true 18446744073709551615) (-7) in
  all_ws pre /\ all_ws post /\ wf_utxo u /\
  decode_utxo_bytes (pre ++ encode_utxo u ++ post) = Some (Ok u).
Proof.
  intros pre post u. split; [reflexivity|]. split; [reflexivity|].
  assert (Hd : decode_utxo_bytes (pre ++ encode_utxo u ++ post) = Some (Ok u)) by (vm_compute; reflexivity).
  split; [exact (utxo_bytes_decode_wf _ _ Hd) | exact Hd].
Qed.

Print Assumptions C15_marshal_block_wf.
Print Assumptions C15_marshal_tx_wf.
Print Assumptions C15_marshal_utxo_wf.
Print Assumptions C15_marshal_request_wf.
Print Assumptions C15_marshal_blocks_wf.
Print Assumptions C15_marshal_idbody_wf.
Print Assumptions C15_marshal_input_info_wf.
Print Assumptions C15_block_bytes_roundtrip.
Print Assumptions C15_tx_bytes_roundtrip.
Print Assumptions C15_utxo_bytes_roundtrip.
Print Assumptions C15_blocks_bytes_roundtrip.
Print Assumptions C15_request_bytes_roundtrip.
Print Assumptions C15_block_bytes_decode_wf.
Print Assumptions C15_tx_bytes_decode_wf.
Print Assumptions C15_utxo_bytes_decode_wf.
Print Assumptions C15_block_bytes_stable.
Print Assumptions C15_block_bytes_stable_bytes.
Print Assumptions C15_tx_bytes_stable.
Print Assumptions C15_tx_bytes_stable_bytes.
Print Assumptions C15_utxo_bytes_stable.
Print Assumptions C15_block_bytes_injective.
Print Assumptions C15_tx_bytes_injective.
Print Assumptions C15_block_bytes_same_hash.
Print Assumptions C15_block_bytes_same_hash_any.
Print Assumptions C15_tx_bytes_id_checked.
Print Assumptions C15_block_bytes_ws.
Print Assumptions C15_tx_bytes_ws.
Print Assumptions C15_blocks_bytes_ws.
Print Assumptions C15_request_bytes_ws.
Print Assumptions C15_utxo_bytes_ws.
