(* C04_settings.v — the protocol settings decoder (protocol_settings.go): the spacing of blocks,
   the period of the production engine and the timeout all come from one document; statements
   used as obligations by C04, C08, C09, C11 and C20. Theorems only. *)
From RV Require Import model.Base model.Json model.WireDec model.Settings proofs.Wire_lemmas proofs.Settings_lemmas.
Local Open Scope Z_scope.

Theorem C04_settings_shape :
  forall (j : json) (p : psettings),
    decode_settings j = StOk p ->
    exists fs l d g h b il f iv to vc,
      j = JObj fs /\
      dec_field (dec_uint u64_bound) "BlocksCountLimit" fs 0%N = Ok l /\
      dec_field (dec_uint 256) "CoinDigitsCount" fs 0%N = Ok d /\
      dec_field (dec_uint u64_bound) "GenesisAmount" fs 0%N = Ok g /\
      dec_field dec_float "HalfLifeInDays" fs (HLDays 0) = Ok h /\
      dec_field (dec_uint u64_bound) "IncomeBase" fs 0%N = Ok b /\
      dec_field (dec_uint u64_bound) "IncomeLimit" fs 0%N = Ok il /\
      dec_field (dec_uint u64_bound) "MinimalTransactionFee" fs 0%N = Ok f /\
      dec_field dec_i64 "ValidationIntervalInSeconds" fs 0%Z = Ok iv /\
      dec_field dec_i64 "ValidationTimeoutInSeconds" fs 0%Z = Ok to /\
      dec_field dec_i64 "VerificationsCountPerValidation" fs 0%Z = Ok vc /\
      p = mkPS l g h b il f d (wrap_i64 (to * ns_per_s)) (wrap_i64 (iv * ns_per_s)) (wrap_i64 (iv * ns_per_s)) vc.
Proof. exact decode_settings_ok_inv. Qed.

Theorem C04_settings_timer_is_spacing :
  forall (j : json) (p : psettings),
    decode_settings j = StOk p ->
    ps_timer p = ps_timestamp p /\
    (exists iv : Z, i64_min <= iv < i64_max1 /\ ps_timestamp p = wrap_i64 (iv * ns_per_s)) /\
    (exists t : Z, i64_min <= t < i64_max1 /\ ps_timeout p = wrap_i64 (t * ns_per_s)).
Proof. exact decode_settings_ok_times. Qed.

Theorem C04_settings_ranges :
  forall (j : json) (p : psettings),
    decode_settings j = StOk p ->
    (Z.of_N (ps_limit p) < u64_bound /\ Z.of_N (ps_genesis p) < u64_bound /\ Z.of_N (ps_base p) < u64_bound /\
     Z.of_N (ps_ilimit p) < u64_bound /\ Z.of_N (ps_fee p) < u64_bound /\ Z.of_N (ps_digits p) < 256) /\
    -9223372036854775808 <= ps_timestamp p < 9223372036854775808 /\
    -9223372036854775808 <= ps_timeout p < 9223372036854775808 /\
    in_i64 (ps_verifs p).
Proof. exact decode_settings_ok_ranges. Qed.

Theorem C04_settings_interval :
  forall (j : json) (p : psettings) (fs : list (string * json)) (iv : Z),
    j = JObj fs -> decode_settings j = StOk p ->
    dec_field dec_i64 "ValidationIntervalInSeconds" fs 0%Z = Ok iv ->
    0 < iv <= 9223372036 ->
    s_interval (to_settings p) = iv * ns_per_s /\ 0 < s_interval (to_settings p) /\
    ps_timer p = s_interval (to_settings p).
Proof. exact decode_settings_interval. Qed.

Theorem C04_settings_interval_wrap_refuted :
  exists (j : json) (p : psettings),
    decode_settings j = StOk p /\ ps_timestamp p < 0 /\
    get_field "ValidationIntervalInSeconds" (match j with JObj fs => fs | _ => [] end) = Some (JNum 9223372037).
Proof. exact decode_settings_interval_wrap_refuted. Qed.

Theorem C04_settings_panics_only_on_null :
  forall j : json, decode_settings j = StPanic <-> j = JNull.
Proof. exact decode_settings_panics_only_on_null. Qed.

Theorem C04_settings_units :
  forall (p : psettings) (u : N),
    units_per_coin p = Some u -> (u = 10 ^ ps_digits p /\ u < 18446744073709551616)%N.
Proof. exact units_per_coin_spec. Qed.

(* the shipped settings file's values satisfy the hypotheses *)
Example C04_settings_shipped :
  exists p, decode_settings (JObj [("blocksCountLimit"%string, JNum 500); ("coinDigitsCount"%string, JNum 8);
                         ("genesisAmount"%string, JNum 10000000000000); ("halfLifeInDays"%string, JNumF "373.59"%string);
                         ("incomeBase"%string, JNum 50000000000); ("incomeLimit"%string, JNum 1000000000000);
                         ("minimalTransactionFee"%string, JNum 1000);
                         ("validationIntervalInSeconds"%string, JNum 60); ("validationTimeoutInSeconds"%string, JNum 10);
                         ("verificationsCountPerValidation"%string, JNum 6)]) = StOk p
            /\ sane p = true /\ units_per_coin p = Some 100000000%N /\ ps_timer p = 60000000000.
Proof. eexists. vm_compute. repeat split; reflexivity. Qed.

Print Assumptions C04_settings_shape.
Print Assumptions C04_settings_timer_is_spacing.
Print Assumptions C04_settings_ranges.
Print Assumptions C04_settings_interval.
Print Assumptions C04_settings_interval_wrap_refuted.
Print Assumptions C04_settings_panics_only_on_null.
Print Assumptions C04_settings_units.
