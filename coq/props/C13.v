(* C13 — faulty neighbors are harmless. "Whatever a neighbor answers to a sync request (an error,
   silence, garbage, a truncated, stale, unlinked, future-dated or rule-breaking chain, different
   answers to the two requests), the node's state after the round is either exactly what it was
   or a fully verified chain; each sync round returns within the per-neighbor timeout budget.
   No background work is left behind: after the round the number of live goroutines returns to
   its baseline."
   model/Fetch.v is one verifyNeighborBlockchain call (blockchain.go:372-405) as a transition
   system; [fstep] is the current code, [fstep_old] the pinned tree (refuted, D4).
   Time is in abstract units (the real scheduling delay is for the runtime monitor).
   This file contains only the property theorems, each closed by [exact] of a lemma. *)
From RV Require Import model.Base model.Ledger model.Registry model.Chain model.Sync model.Fetch
     proofs.Sync_lemmas proofs.Fetch_lemmas.

(* ---- state ---- *)

(* [RFail] is an error, silence or garbage; [RBlocks l] is any decodable answer *)
Theorem C13_state_kept_or_verified :
  forall value_fn addr_of sig_ok H S st now nbs pref st' rep,
    (forall nb, In nb nbs -> nb_target nb <> host_target) ->
    update value_fn addr_of sig_ok H S st now nbs pref = (st', rep) ->
    (rep = false /\ st' = st) \/
    (rep = true /\
     exists t nb, In (t, chain st') (candidates value_fn addr_of sig_ok H S st now nbs) /\
       In nb nbs /\ nb_target nb = t /\
       ((exists l v, nb_inc nb = RBlocks l /\ 2 < length (chain st) /\
                     verify value_fn addr_of sig_ok H S st
                            (match last_block (chain st) with Some b => [b] | None => [] end)
                            l (removelast (chain st)) now = Ok v /\
                     chain st' = removelast (chain st) ++ v) \/
        (exists l v, nb_full nb = RBlocks l /\
                     verify value_fn addr_of sig_ok H S st (removelast (chain st)) l [] now = Ok v /\
                     chain st' = v))).
Proof. exact Fetch_lemmas.C13_state_kept_or_verified. Qed.

Theorem C13_failing_neighbors_ignored :
  forall value_fn addr_of sig_ok H S st now nbs pref,
    (forall nb, In nb nbs -> (exists e, nb_inc nb = RFail e) /\ (exists e, nb_full nb = RFail e)) ->
    update value_fn addr_of sig_ok H S st now nbs pref = (st, false).
Proof. exact Fetch_lemmas.C13_failing_neighbors_ignored. Qed.

(* what the caller leaves the select with: the timeout, or exactly the neighbor's one answer *)
Theorem C13_fetch_outcome :
  forall b evs s r,
    run (fstep b) finit evs = Some s -> c_pc s = CReturned r ->
    r = OTimeout \/ exists v, r = OGot v /\ result_of b = Some v.
Proof. exact fetch_outcome_faithful. Qed.

(* ---- one call: nothing left behind ---- *)
Theorem C13_fetch_no_leak :
  forall b evs s,
    b <> Never ->
    run (fstep b) finit evs = Some s ->
    (forall v, f_pc s = FSending v -> exists s', fstep b s EvFetcher = Some s') /\
    (f_pc s <> FCalling -> fstep b s EvFetcher = None -> f_pc s = FDone) /\
    (f_pc s = FCalling -> exists s', fstep b s EvAnswer = Some s') /\
    ((forall e, fstep b s e = None) -> f_pc s = FDone /\ returned s = true /\ live s = false).
Proof. exact fetch_no_leak. Qed.

Theorem C13_fetch_run_length :
  forall b evs s, run (fstep b) finit evs = Some s -> length evs + fmeasure s = 5.
Proof. exact fetch_run_length. Qed.

(* a peer call that never returns: its goroutine stays in the call, the caller leaves by the timer *)
Theorem C13_fetch_never :
  forall s, (exists evs, run (fstep Never) finit evs = Some s) -> (forall e, fstep Never s e = None) ->
            f_pc s = FCalling /\ c_pc s = CReturned OTimeout /\ live s = true.
Proof. exact fetch_never_quiescent. Qed.

(* ---- one call: the caller returns at the latest at the timeout ---- *)
Theorem C13_fetch_caller_returns :
  forall b evs s,
    run (fstep b) finit evs = Some s ->
    c_pc s = CWaiting ->
    (forall v, f_buf s = Some v ->
               exists s', fstep b s EvCallerRecv = Some s' /\ c_pc s' = CReturned (OGot v)) /\
    ((f_timer s = false /\
      exists s', fstep b s EvTimer = Some s' /\ f_timer s' = true /\ c_pc s' = CWaiting) \/
     (f_timer s = true /\
      exists s', fstep b s EvCallerTimeout = Some s' /\ c_pc s' = CReturned OTimeout)) /\
    ~ (forall e, fstep b s e = None).
Proof. exact fetch_caller_returns. Qed.

(* ---- the pinned tree leaks (D4) ---- *)
Theorem C13_fetch_old_leaks_refuted :
  (run (fstep_old AnswerErr) finit [EvAnswer; EvFetcher; EvTimer]
   = Some (mkF (FSending ResDecodeErr) None false (CReturned (OGot ResFetchErr)) true) /\
   forall e, fstep_old AnswerErr
               (mkF (FSending ResDecodeErr) None false (CReturned (OGot ResFetchErr)) true) e = None) /\
  (forall b v, result_of b = Some v ->
     run (fstep_old b) finit [EvTimer; EvCallerTimeout; EvAnswer]
     = Some (mkF (FSending v) None false (CReturned OTimeout) true) /\
     forall e, fstep_old b (mkF (FSending v) None false (CReturned OTimeout) true) e = None) /\
  (exists s, run (fstep AnswerErr) finit [EvAnswer; EvFetcher; EvCallerRecv; EvFetcher; EvTimer] = Some s /\
             f_pc s = FDone /\ c_pc s = CReturned (OGot ResFetchErr) /\
             forall e, fstep AnswerErr s e = None) /\
  (forall b v, result_of b = Some v ->
     exists s, run (fstep b) finit [EvTimer; EvCallerTimeout; EvAnswer; EvFetcher; EvFetcher] = Some s /\
               f_pc s = FDone /\ c_pc s = CReturned OTimeout /\
               forall e, fstep b s e = None).
Proof. exact fetch_old_leaks_refuted. Qed.

Theorem C13_fetch_old_stuck_forever :
  forall b v evs s s',
    f_pc s = FSending v -> returned s = true -> run (fstep_old b) s evs = Some s' ->
    f_pc s' = FSending v /\ returned s' = true /\ live s' = true.
Proof. exact old_stuck_forever. Qed.

(* ---- a round: the calls one after the other, their goroutines on their own ---- *)
Theorem C13_round_sequential :
  forall bs r,
    (exists evs, rrun (rinit bs) evs = Some r) ->
    forall i b s, nth_error (r_calls r) (Datatypes.S i) = Some (b, s) -> returned s = true.
Proof. exact round_sequential. Qed.

Theorem C13_round_fetchers :
  forall bs r,
    Forall (fun b => b <> Never) bs ->
    (exists evs, rrun (rinit bs) evs = Some r) ->
    (forall ev, rstep r ev = None) ->
    r_pending r = [] /\
    rev (map fst (r_calls r)) = bs /\
    length (r_calls r) = length bs /\
    Forall (fun p => f_pc (snd p) = FDone /\ returned (snd p) = true) (r_calls r) /\
    live_count r = 0.
Proof. exact round_fetchers. Qed.

Theorem C13_round_fetchers_general :
  forall bs r,
    (exists evs, rrun (rinit bs) evs = Some r) ->
    (forall ev, rstep r ev = None) ->
    r_pending r = [] /\
    Forall (fun p => returned (snd p) = true /\
                     (live (snd p) = true -> fst p = Never /\ f_pc (snd p) = FCalling)) (r_calls r).
Proof. exact round_fetchers_general. Qed.

Theorem C13_rounds_fetchers :
  forall rounds : list (list behaviour * rstate),
    Forall (fun p => Forall (fun b => b <> Never) (fst p) /\
                     (exists evs, rrun (rinit (fst p)) evs = Some (snd p)) /\
                     (forall ev, rstep (snd p) ev = None)) rounds ->
    sum_nat (map (fun p => live_count (snd p)) rounds) = 0.
Proof. exact rounds_fetchers. Qed.

Theorem C13_round_run_length :
  forall bs evs r, rrun (rinit bs) evs = Some r -> length evs + rmeasure r = 6 * length bs.
Proof. exact round_run_length. Qed.

(* ---- time ---- *)
Theorem C13_call_wait_le :
  forall timeout c, call_wait timeout c <= timeout.
Proof. exact call_wait_le. Qed.

Theorem C13_round_time_le :
  forall timeout n stage1 stage2,
    length stage1 <= n -> length stage2 <= n ->
    round_time timeout stage1 stage2 <=
    2 * n * timeout + sum_nat (map cc_verify stage1) + sum_nat (map cc_verify stage2).
Proof. exact round_time_le. Qed.

(* ---- examples ---- *)

(* the answer in time: five events, everything at rest, the caller has the blocks *)
Example C13_ex_in_time :
  run (fstep (AnswerBlocks [])) finit [EvAnswer; EvFetcher; EvFetcher; EvCallerRecv; EvTimer]
  = Some (mkF FDone None true (CReturned (OGot (ResBlocks []))) true) /\
  quiescentb (fstep (AnswerBlocks [])) (mkF FDone None true (CReturned (OGot (ResBlocks []))) true) = true.
Proof. vm_compute. split; reflexivity. Qed.

(* value buffered and timer fired: select may go either way *)
Example C13_ex_select_either :
  exists s, run (fstep AnswerGarbage) finit [EvAnswer; EvFetcher; EvTimer] = Some s /\
            enabledb (fstep AnswerGarbage) s EvCallerRecv = true /\
            enabledb (fstep AnswerGarbage) s EvCallerTimeout = true.
Proof. eexists. vm_compute. repeat split; reflexivity. Qed.

(* the old code, failing GetBlocks: stuck at the second send *)
Example C13_ex_old_stuck :
  quiescentb (fstep_old AnswerErr)
             (mkF (FSending ResDecodeErr) None false (CReturned (OGot ResFetchErr)) true) = true /\
  live (mkF (FSending ResDecodeErr) None false (CReturned (OGot ResFetchErr)) true) = true.
Proof. vm_compute. split; reflexivity. Qed.

(* a round over two neighbors, the first one late: the second call starts while the first
   goroutine is still in its peer call; at rest nothing is left *)
Example C13_ex_round :
  exists r,
    rrun (rinit [AnswerErr; AnswerGarbage])
         [RStart; RCall 0 EvTimer; RCall 0 EvCallerTimeout; RStart;
          RCall 0 EvAnswer; RCall 1 EvAnswer; RCall 1 EvFetcher; RCall 0 EvFetcher;
          RCall 0 EvCallerRecv; RCall 0 EvFetcher; RCall 1 EvFetcher; RCall 0 EvTimer] = Some r /\
    r_pending r = [] /\ live_count r = 0 /\
    rstep r RStart = None /\
    forallb (fun e => match rstep r (RCall 0 e), rstep r (RCall 1 e) with None, None => true | _, _ => false end)
            all_events = true.
Proof. eexists. vm_compute. repeat split; reflexivity. Qed.

(* the time bound's hypotheses are satisfiable, and it is attained by silent neighbors *)
Example C13_ex_time :
  round_time 5 [mkCost None 7; mkCost (Some 9) 7] [mkCost (Some 2) 3; mkCost None 1] = 5 + 5 + (2 + 3) + 5 /\
  round_time 5 [mkCost None 7; mkCost None 7] [mkCost None 3; mkCost None 1] = 2 * 2 * 5.
Proof. vm_compute. split; reflexivity. Qed.

(* state: a three-block host, one neighbor answering an error to both requests *)
Example C13_ex_failing :
  update SyncExample.vf SyncExample.ao SyncExample.so SyncExample.Ht SyncExample.Sx SyncExample.st3 30
         [mkNb "n1:1"%string (RFail EFetch) (RFail ETimeout)] EmptyString = (SyncExample.st3, false).
Proof. vm_compute. reflexivity. Qed.

(* state: a neighbor whose chain does not link is not adopted, a good one is *)
Example C13_ex_unlinked_and_good :
  update SyncExample.vf SyncExample.ao SyncExample.so SyncExample.Ht SyncExample.Sx SyncExample.st2 30
         [SyncExample.nb_bad] EmptyString = (SyncExample.st2, false) /\
  snd (update SyncExample.vf SyncExample.ao SyncExample.so SyncExample.Ht SyncExample.Sx SyncExample.st2 30
              [SyncExample.nb_bad; SyncExample.nb_good] EmptyString) = true.
Proof. vm_compute. split; reflexivity. Qed.

Print Assumptions C13_state_kept_or_verified.
Print Assumptions C13_failing_neighbors_ignored.
Print Assumptions C13_fetch_outcome.
Print Assumptions C13_fetch_no_leak.
Print Assumptions C13_fetch_run_length.
Print Assumptions C13_fetch_never.
Print Assumptions C13_fetch_caller_returns.
Print Assumptions C13_fetch_old_leaks_refuted.
Print Assumptions C13_fetch_old_stuck_forever.
Print Assumptions C13_round_sequential.
Print Assumptions C13_round_fetchers.
Print Assumptions C13_round_fetchers_general.
Print Assumptions C13_rounds_fetchers.
Print Assumptions C13_round_run_length.
Print Assumptions C13_call_wait_le.
Print Assumptions C13_round_time_le.
