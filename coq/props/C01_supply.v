(* C01, block level — no value from nothing. A block a node adopts or produces creates, in exact
   (non-wrapping) arithmetic, no more value than the outputs its ordinary transactions consume
   are worth at the block's timestamp; the first block creates the genesis amount on top.

   "Created" is the exact sum of every output of every transaction of the block, the reward
   included. "Consumed" is the exact sum of the values, at the block's timestamp, of the outputs
   the inputs of its ordinary transactions name: found in the registry the code consults and
   owned by the input keys ([spends], as in [tx_bound]).

   verifyBlock reads only the first output of a reward transaction; that a transaction without
   inputs has exactly one output is checked when it is decoded (transaction.go:66-71,
   model/WireDec.v [tx_shape]). The adopted-block statement counting every output therefore
   carries that shape as a hypothesis (true of every decoded block: C01_reward_shape_decoded);
   without it the statement fails (C01_block_conservation_adopted_unshaped_refuted), and what
   holds unconditionally counts the reward by its first output
   (C01_block_conservation_adopted_reward).

   This file contains only the property theorems, each closed by [exact] of a lemma of
   proofs/Supply_lemmas.v. *)
From RV Require Import model.Base model.Ledger model.Registry model.Chain model.Sync model.Pool.
From RV Require Import proofs.Pool_lemmas proofs.Sync_lemmas proofs.Chain_verify proofs.Ledger_fee
                       proofs.Accept_lemmas proofs.Supply_lemmas.
From RV Require model.WireDec.
From Coq Require Import ZArith NArith.
Local Open Scope N_scope.

(* the vocabulary, spelled out *)
Theorem C01_spends_means :
  forall (addr_of : string -> string) (reg : ureg) (t : tx) (us : list utxo),
    spends addr_of reg t us <->
    Forall2 (fun i u => find_utxo reg i = Ok u /\ o_addr (u_out u) = addr_of (i_key i)) (ins t) us.
Proof. intros addr_of reg t us. exact (iff_refl _). Qed.

(* ---- 1. adopted blocks ---- *)

(* a block that passes verifyBlock against the state [c], its input-less transactions having at
   most one output: one list of consumed outputs per ordinary transaction, all found in the
   registry of [c]; everything the block pays out, reward included, is at most their worth *)
Theorem C01_block_conservation_adopted :
  forall (value_fn : N -> bool -> Z -> N) (addr_of : string -> string) (sig_ok : input -> bool)
         (St : settings) (c : cstate) (b : block) (prev_ts now : Z),
    verify_block value_fn addr_of sig_ok St c b prev_ts now = Ok tt ->
    Forall (fun t => is_reward t = true -> (length (outs t) <= 1)%nat) (txs b) ->
    exists uss : list (list utxo),
      Forall2 (fun t us => spends addr_of (ur c) t us) (ordinary b) uss /\
      sumN (map o_val (flat_map outs (txs b))) <=
      sumN (map (fun u => utxo_value value_fn u (b_ts b)) (List.concat uss)).
Proof. exact block_conservation_adopted. Qed.

(* without the shape hypothesis: the ordinary transactions' outputs plus the reward as verifyBlock
   reads it; the reward is at most what the ordinary transactions leave over; and they leave over
   at least the minimal fee each *)
Theorem C01_block_conservation_adopted_reward :
  forall (value_fn : N -> bool -> Z -> N) (addr_of : string -> string) (sig_ok : input -> bool)
         (St : settings) (c : cstate) (b : block) (prev_ts now : Z),
    verify_block value_fn addr_of sig_ok St c b prev_ts now = Ok tt ->
    exists (uss : list (list utxo)) (rt : tx),
      Forall2 (fun t us => spends addr_of (ur c) t us) (ordinary b) uss /\
      In rt (txs b) /\ is_reward rt = true /\
      length (filter is_reward (txs b)) = 1%nat /\
      sumN (map o_val (flat_map outs (ordinary b))) + reward_value rt <=
        sumN (map (fun u => utxo_value value_fn u (b_ts b)) (List.concat uss)) /\
      reward_value rt <=
        sumN (map (fun u => utxo_value value_fn u (b_ts b)) (List.concat uss)) -
        sumN (map o_val (flat_map outs (ordinary b))) /\
      sumN (map o_val (flat_map outs (ordinary b))) + N.of_nat (length (ordinary b)) * s_fee St <=
        sumN (map (fun u => utxo_value value_fn u (b_ts b)) (List.concat uss)).
Proof. exact block_conservation_adopted_reward. Qed.

(* the shape hypothesis holds of every block that was decoded from the wire *)
Theorem C01_reward_shape_decoded :
  forall (on_curve : string -> bool) (Hb : list N -> list N) (j : Json.json) (b : block),
    WireDec.unmarshal_block on_curve Hb j = Ok b ->
    Forall (fun t => is_reward t = true -> (length (outs t) <= 1)%nat) (txs b).
Proof. exact decoded_block_reward_single. Qed.

(* verifyBlock judges every transaction against the same registry; that the lists of consumed
   outputs do not overlap is known once the block is applied to it (addBlock, one block later):
   no output reference is then named twice by the block's inputs (C02) *)
Theorem C01_block_conservation_adopted_distinct :
  forall (value_fn : N -> bool -> Z -> N) (addr_of : string -> string) (sig_ok : input -> bool)
         (St : settings) (c : cstate) (b : block) (prev_ts now : Z) (u' : ureg),
    verify_block value_fn addr_of sig_ok St c b prev_ts now = Ok tt ->
    Forall (fun t => is_reward t = true -> (length (outs t) <= 1)%nat) (txs b) ->
    update_utxos (ur c) (txs b) (b_ts b) = Ok u' ->
    (NoDup (map t_id (txs b)) /\
     forall t, In t (txs b) -> alookup (t_id t) (by_id (ur c)) = None) ->
    exists uss : list (list utxo),
      Forall2 (fun t us => spends addr_of (ur c) t us) (ordinary b) uss /\
      NoDup (flat_map (fun t => map (fun i => (i_ref i, i_idx i)) (ins t)) (txs b)) /\
      sumN (map o_val (flat_map outs (txs b))) <=
      sumN (map (fun u => utxo_value value_fn u (b_ts b)) (List.concat uss)).
Proof. exact block_conservation_adopted_distinct. Qed.

(* a reward with a second output passes verifyBlock and breaks the count of every output *)
Theorem C01_block_conservation_adopted_unshaped_refuted :
  exists (value_fn : N -> bool -> Z -> N) (addr_of : string -> string) (sig_ok : input -> bool)
         (St : settings) (c : cstate) (b : block) (prev_ts now : Z),
    verify_block value_fn addr_of sig_ok St c b prev_ts now = Ok tt /\
    forall uss : list (list utxo),
      Forall2 (fun t us => spends addr_of (ur c) t us) (ordinary b) uss ->
      sumN (map (fun u => utxo_value value_fn u (b_ts b)) (List.concat uss)) <
      sumN (map o_val (flat_map outs (txs b))).
Proof. exact block_conservation_adopted_unshaped_refuted. Qed.

(* ---- 2. production ---- *)

(* the block Validate appends to a chain with a dated tip is the kept transactions followed by
   one reward; the transaction after the prefix [pre] of the kept list consumes outputs found in
   the registry [u0] of the last block updated by [pre], one at a time; everything the block
   pays out, reward included, is at most the worth of all those outputs at its timestamp *)
Theorem C01_block_conservation_produced :
  forall (value_fn : N -> bool -> Z -> N) (addr_of : string -> string) (sig_ok : input -> bool)
         (Hf : block -> hash) (gen_id : slice input -> slice output -> Z -> string)
         (St : settings) (validator : string) (n : node) (ts : Z) (perm : list nat)
         (n' : node) (d : list (string * drop)),
    validate value_fn addr_of sig_ok Hf gen_id St validator n ts perm = (n', Produced d) ->
    last_block_ts (chain (n_c n)) <> 0%Z ->
    let last := last_block_ts (chain (n_c n)) in
    let next := (last + s_interval St)%Z in
    exists (kept : list tx) (u0 : ureg) (rt : tx) (b : block) (uss : list (list utxo)),
      update_utxos (ur (n_c n)) (last_block_txs (chain (n_c n))) last = Ok u0 /\
      chain (n_c n') = chain (n_c n) ++ [b] /\
      b_ts b = ts /\
      txs b = kept ++ [rt] /\
      is_reward rt = true /\
      length uss = length kept /\
      (forall (pre : list tx) (t : tx) (post : list tx),
         kept = pre ++ t :: post ->
         exists (u1 : ureg) (us : list utxo),
           run_kept next u0 pre = Ok u1 /\ nth_error uss (length pre) = Some us /\
           spends addr_of u1 t us) /\
      sumN (map o_val (flat_map outs (txs b))) <=
      sumN (map (fun u => utxo_value value_fn u ts) (List.concat uss)).
Proof. exact block_conservation_produced. Qed.

(* ---- 3. the first block ---- *)

(* on a chain without a dated tip Validate makes the first block: the genesis amount on top *)
Theorem C01_block_conservation_genesis :
  forall (value_fn : N -> bool -> Z -> N) (addr_of : string -> string) (sig_ok : input -> bool)
         (Hf : block -> hash) (gen_id : slice input -> slice output -> Z -> string)
         (St : settings) (validator : string) (n : node) (ts : Z) (perm : list nat)
         (n' : node) (d : list (string * drop)),
    validate value_fn addr_of sig_ok Hf gen_id St validator n ts perm = (n', Produced d) ->
    last_block_ts (chain (n_c n)) = 0%Z ->
    let next := s_interval St in
    exists (kept : list tx) (u0 : ureg) (rt : tx) (b : block) (uss : list (list utxo)),
      update_utxos (ur (n_c n)) (last_block_txs (chain (n_c n))) 0%Z = Ok u0 /\
      chain (n_c n') = chain (n_c n) ++ [b] /\
      b_ts b = ts /\
      txs b = kept ++ [rt] /\
      is_reward rt = true /\
      length uss = length kept /\
      (forall (pre : list tx) (t : tx) (post : list tx),
         kept = pre ++ t :: post ->
         exists (u1 : ureg) (us : list utxo),
           run_kept next u0 pre = Ok u1 /\ nth_error uss (length pre) = Some us /\
           spends addr_of u1 t us) /\
      sumN (map o_val (flat_map outs (txs b))) <=
      sumN (map (fun u => utxo_value value_fn u ts) (List.concat uss)) + s_genesis St.
Proof. exact block_conservation_genesis. Qed.

(* ---- examples: the hypotheses are satisfiable, the inequalities are tight ---- *)
Import AcceptExample SupplyExample.

(* adopted: the block [b2] (t0 pays 120 + 20 out of 100 + 50, the reward takes the 10 left) *)
Example C01_ex_supply_adopted : verify_block vf ao so Sx c0 b2 20%Z 100%Z = Ok tt.
Proof. vm_compute. reflexivity. Qed.

Example C01_ex_supply_adopted_shape :
  Forall (fun t => is_reward t = true -> (length (outs t) <= 1)%nat) (txs b2).
Proof. exact ex_shape_b2. Qed.

Example C01_ex_supply_adopted_spends :
  Forall2 (fun t us => spends ao (ur c0) t us) (ordinary b2) [[uA; uB]].
Proof. exact ex_spends_b2. Qed.

(* created = consumed = 150 *)
Example C01_ex_supply_adopted_tight :
  sumN (map o_val (flat_map outs (txs b2))) = 150 /\
  sumN (map (fun u => utxo_value vf u (b_ts b2)) (List.concat [[uA; uB]])) = 150.
Proof. split; vm_compute; reflexivity. Qed.

(* the same block with a second reward output of 1000 still passes verifyBlock *)
Example C01_ex_supply_unshaped : verify_block vf ao so Sx c0 b_bad 20%Z 100%Z = Ok tt.
Proof. vm_compute. reflexivity. Qed.

Example C01_ex_supply_unshaped_created : sumN (map o_val (flat_map outs (txs b_bad))) = 1150.
Proof. vm_compute. reflexivity. Qed.

(* produced: the same block, made by Validate from the pool [t0] on the chain [g; e1] *)
Example C01_ex_supply_produced :
  validate vf ao so_strict Hx gid Sx "V"%string n1 30%Z [0%nat] = (n2, Produced []).
Proof. vm_compute. reflexivity. Qed.

Example C01_ex_supply_produced_tip : last_block_ts (chain (n_c n1)) <> 0%Z.
Proof. vm_compute. discriminate. Qed.

Example C01_ex_supply_produced_registry :
  update_utxos (ur (n_c n1)) (last_block_txs (chain (n_c n1))) (last_block_ts (chain (n_c n1)))
  = Ok reg.
Proof. exact ex_u0. Qed.

Example C01_ex_supply_produced_spends : spends ao reg t0 [uA; uB].
Proof. exact ex_spends_u0. Qed.

Example C01_ex_supply_produced_tight :
  chain (n_c n2) = chain (n_c n1) ++ [b2] /\
  sumN (map o_val (flat_map outs (txs b2))) = 150 /\
  sumN (map (fun u => utxo_value vf u 30%Z) (List.concat [[uA; uB]])) = 150.
Proof. split; [|split]; vm_compute; reflexivity. Qed.

(* genesis: the empty node makes its first block; it creates the genesis amount 100 exactly *)
Example C01_ex_supply_genesis :
  validate vf ao so_strict Hx gid Sx "V"%string node_empty 10%Z [] = (ng, Produced []).
Proof. vm_compute. reflexivity. Qed.

Example C01_ex_supply_genesis_tip : last_block_ts (chain (n_c node_empty)) = 0%Z.
Proof. vm_compute. reflexivity. Qed.

Example C01_ex_supply_genesis_tight :
  chain (n_c ng) = chain (n_c node_empty) ++ [bg] /\
  sumN (map o_val (flat_map outs (txs bg))) = 100 /\
  sumN (map (fun u => utxo_value vf u 10%Z) (List.concat [])) + s_genesis Sx = 100.
Proof. split; [|split]; vm_compute; reflexivity. Qed.

Print Assumptions C01_spends_means.
Print Assumptions C01_block_conservation_adopted.
Print Assumptions C01_block_conservation_adopted_reward.
Print Assumptions C01_reward_shape_decoded.
Print Assumptions C01_block_conservation_adopted_distinct.
Print Assumptions C01_block_conservation_adopted_unshaped_refuted.
Print Assumptions C01_block_conservation_produced.
Print Assumptions C01_block_conservation_genesis.
