(* C14 — no input can crash the node. "No byte string delivered to any validator endpoint,
   returned by a neighbor to a sync request, or sent to any access-node HTTP route can make the
   process panic. Malformed or semantically empty messages (nulls at any position, missing
   fields, empty lists, wrong types, extreme numbers, well-formed transactions with no outputs)
   are answered with an error or ignored and leave all state unchanged."
   The bytes -> JSON tree step is Go's scanner (outside the model: a byte string that is not
   JSON is refused by json.Unmarshal before any repository code runs). model/Handlers.v starts
   from an arbitrary [json] tree. [Err (EPanic s)] / [Refused (EPanic s)] mark the places where
   the Go code would panic instead of returning an error (model/Ledger.v panic_site).
   [tx_ok t] = t has at least one output; [node_ok n] = every pooled transaction and every
   transaction of every block of the chain is ok.
   This file contains only the property theorems, each closed by [exact] of a lemma. *)
From RV Require Import model.Base model.Json model.Ledger model.Registry model.Chain model.Sync
     model.Pool model.Reach model.WireDec model.Handlers proofs.Panic_lemmas.

(* ---- what comes out of the decoders has outputs ---- *)
Theorem C14_decoded_tx_ok :
  forall on_curve Hb j t, unmarshal_tx on_curve Hb j = Ok t -> outs t <> [].
Proof. exact decoded_tx_ok. Qed.

Theorem C14_decoded_request_ok :
  forall on_curve Hb j t g, unmarshal_request on_curve Hb j = Ok (Some t, g) -> outs t <> [].
Proof. exact decoded_request_ok. Qed.

Theorem C14_decoded_blocks_ok :
  forall on_curve Hb j l,
    response_of_answer on_curve Hb j = RBlocks l ->
    Forall (fun b => Forall (fun t => outs t <> []) (txs b)) l.
Proof. exact decoded_blocks_ok. Qed.

(* ---- each operation on an ok node with ok inputs ---- *)
Theorem C14_pool_add_no_panic :
  forall value_fn addr_of sig_ok S n t s,
    node_ok n -> tx_ok t -> pool_add value_fn addr_of sig_ok S n t <> Err (EPanic s).
Proof. exact pool_add_no_panic. Qed.

Theorem C14_validate_no_panic :
  forall value_fn addr_of sig_ok H gen_id S validator n ts perm s,
    node_ok n ->
    snd (validate value_fn addr_of sig_ok H gen_id S validator n ts perm) <> Refused (EPanic s).
Proof. exact validate_no_panic. Qed.

(* nor do the per-transaction CalculateFee / UpdateUtxos calls whose error is only logged *)
Theorem C14_validate_drops_no_panic :
  forall value_fn addr_of sig_ok H gen_id S validator n ts perm dropped id s,
    node_ok n ->
    snd (validate value_fn addr_of sig_ok H gen_id S validator n ts perm) = Produced dropped ->
    ~ In (id, DFee (EPanic s)) dropped /\ ~ In (id, DUpdate (EPanic s)) dropped.
Proof. exact validate_drops_no_panic. Qed.

Theorem C14_verify_no_panic :
  forall value_fn addr_of sig_ok H S host last_host neigh old_host now s,
    Forall block_ok old_host -> Forall block_ok neigh ->
    verify value_fn addr_of sig_ok H S host last_host neigh old_host now <> Err (EPanic s).
Proof. exact verify_no_panic. Qed.

Theorem C14_update_preserves_ok :
  forall value_fn addr_of sig_ok H S st now nbs pref,
    Forall block_ok (chain st) ->
    (forall nb, In nb nbs ->
       (forall l, nb_inc nb = RBlocks l -> Forall block_ok l) /\
       (forall l, nb_full nb = RBlocks l -> Forall block_ok l)) ->
    Forall block_ok (chain (fst (update value_fn addr_of sig_ok H S st now nbs pref))).
Proof. exact update_preserves_ok. Qed.

Theorem C14_step_preserves_ok :
  forall value_fn addr_of sig_ok H gen_id S validator n o,
    node_ok n ->
    match o with
    | OpAdd t => tx_ok t
    | OpUpdate _ nbs _ =>
      forall nb, In nb nbs ->
        (forall l, nb_inc nb = RBlocks l -> Forall block_ok l) /\
        (forall l, nb_full nb = RBlocks l -> Forall block_ok l)
    | _ => True
    end ->
    node_ok (step value_fn addr_of sig_ok H gen_id S validator n o).
Proof. exact step_preserves_ok. Qed.

(* ---- the transaction endpoint: any tree ---- *)
Theorem C14_transaction_endpoint :
  forall value_fn addr_of sig_ok S on_curve Hb j n,
    node_ok n ->
    let '(n', ok) := handle_transaction value_fn addr_of sig_ok S on_curve Hb n j in
    node_ok n' /\ (ok = false -> n' = n) /\
    forall s, handle_transaction_result value_fn addr_of sig_ok S on_curve Hb n j <> Err (EPanic s).
Proof. exact Panic_lemmas.C14_transaction_endpoint. Qed.

(* ---- a sync round: any trees as answers ---- *)
Theorem C14_sync_answer :
  forall value_fn addr_of sig_ok H gen_id S validator on_curve Hb answers n now pref,
    node_ok n ->
    node_ok (sync_with value_fn addr_of sig_ok H gen_id S validator on_curve Hb n now answers pref) /\
    (forall t ji jf l host lh now' s, In (t, ji, jf) answers ->
       response_of_answer on_curve Hb ji = RBlocks l \/ response_of_answer on_curve Hb jf = RBlocks l ->
       verify value_fn addr_of sig_ok H S host lh l (removelast (chain (n_c n))) now' <> Err (EPanic s) /\
       verify value_fn addr_of sig_ok H S host lh l [] now' <> Err (EPanic s)) /\
    (forall sel b u s,
       select pref (survivors (n_c n)
                      (candidates value_fn addr_of sig_ok H S (n_c n) now
                                  (map (neighbor_of_answer on_curve Hb) answers))) = Some sel ->
       In b sel -> update_utxos u (txs b) (b_ts b) <> Err (EPanic s)) /\
    ((forall t ji jf, In (t, ji, jf) answers ->
        ((exists e, unmarshal_blocks on_curve Hb ji = Err e) \/
         (exists l, unmarshal_blocks on_curve Hb ji = Ok l /\ In None l)) /\
        ((exists e, unmarshal_blocks on_curve Hb jf = Err e) \/
         (exists l, unmarshal_blocks on_curve Hb jf = Ok l /\ In None l))) ->
     sync_with value_fn addr_of sig_ok H gen_id S validator on_curve Hb n now answers pref = n).
Proof. exact Panic_lemmas.C14_sync_answer. Qed.

(* ---- then any sequence of operations fed through the decoders ---- *)
Theorem C14_then_any_operations :
  forall value_fn addr_of sig_ok H gen_id S validator on_curve Hb n ops,
    node_ok n ->
    node_ok (run_wire value_fn addr_of sig_ok H gen_id S validator on_curve Hb n ops) /\
    forall pre w post s, ops = pre ++ w :: post ->
      ~ wire_panic value_fn addr_of sig_ok H gen_id S validator on_curve Hb
          (run_wire value_fn addr_of sig_ok H gen_id S validator on_curve Hb n pre) w s.
Proof. exact Panic_lemmas.C14_then_any_operations. Qed.

Theorem C14_from_boot :
  forall value_fn addr_of sig_ok H gen_id S validator on_curve Hb ops,
    node_ok (run_wire value_fn addr_of sig_ok H gen_id S validator on_curve Hb node_empty ops) /\
    forall pre w post s, ops = pre ++ w :: post ->
      ~ wire_panic value_fn addr_of sig_ok H gen_id S validator on_curve Hb
          (run_wire value_fn addr_of sig_ok H gen_id S validator on_curve Hb node_empty pre) w s.
Proof. exact Panic_lemmas.C14_from_boot. Qed.

(* ---- the blocks endpoint (sane settings: length + BlocksCountLimit fits in a uint64) ---- *)
Theorem C14_blocks_endpoint :
  forall S n j s,
    (N.of_nat (length (chain (n_c n))) + s_limit S <= two64)%N ->
    handle_blocks S n j <> Ok (Err (EPanic s)).
Proof. exact Panic_lemmas.C14_blocks_endpoint. Qed.

(* ---- what the decoders refuse ---- *)
Theorem C14_no_outputs_rejected :
  forall on_curve Hb fs id i0 o0 ts i o,
    dec_field dec_str "id" fs EmptyString = Ok id ->
    dec_field (dec_slice (dec_ptr (unmarshal_input on_curve))) "inputs" fs None = Ok i0 ->
    dec_field (dec_slice (dec_ptr unmarshal_output)) "outputs" fs None = Ok o0 ->
    dec_field dec_i64 "timestamp" fs 0%Z = Ok ts ->
    no_nulls i0 = Ok i -> no_nulls o0 = Ok o ->
    elems o = [] ->
    (exists e, unmarshal_tx on_curve Hb (JObj fs) = Err e) /\
    (id = gen_id Hb i o ts -> elems i <> [] -> unmarshal_tx on_curve Hb (JObj fs) = Err DNoOutput) /\
    (id = gen_id Hb i o ts -> elems i = [] -> unmarshal_tx on_curve Hb (JObj fs) = Err DNoReward).
Proof. exact Panic_lemmas.C14_no_outputs_rejected. Qed.

Theorem C14_no_outputs_tree_rejected :
  forall on_curve Hb fs,
    get_fields "outputs" fs = [] \/
    (exists pre, get_fields "outputs" fs = pre ++ [JNull] \/
                 get_fields "outputs" fs = pre ++ [JArr []]) ->
    exists e, unmarshal_tx on_curve Hb (JObj fs) = Err e.
Proof. exact Panic_lemmas.C14_no_outputs_tree_rejected. Qed.

Theorem C14_null_elements_rejected :
  forall on_curve Hb fs pre l,
    get_fields "inputs" fs = pre ++ [JArr l] \/ get_fields "outputs" fs = pre ++ [JArr l] ->
    In JNull l ->
    exists e, unmarshal_tx on_curve Hb (JObj fs) = Err e.
Proof. exact Panic_lemmas.C14_null_elements_rejected. Qed.

Theorem C14_null_elements_reason :
  forall on_curve Hb fs id i0 o0 ts,
    dec_field dec_str "id" fs EmptyString = Ok id ->
    dec_field (dec_slice (dec_ptr (unmarshal_input on_curve))) "inputs" fs None = Ok i0 ->
    dec_field (dec_slice (dec_ptr unmarshal_output)) "outputs" fs None = Ok o0 ->
    dec_field dec_i64 "timestamp" fs 0%Z = Ok ts ->
    In None (elems i0) \/ In None (elems o0) ->
    unmarshal_tx on_curve Hb (JObj fs) = Err DNullElem.
Proof. exact Panic_lemmas.C14_null_elements_reason. Qed.

Theorem C14_null_transaction_rejected :
  forall on_curve Hb fs pre l,
    get_fields "transactions" fs = pre ++ [JArr l] -> In JNull l ->
    exists e, unmarshal_block on_curve Hb (JObj fs) = Err e.
Proof. exact Panic_lemmas.C14_null_transaction_rejected. Qed.

Theorem C14_null_block_rejected :
  forall on_curve Hb l, In JNull l -> response_of_answer on_curve Hb (JArr l) = RFail EDecode.
Proof. exact Panic_lemmas.C14_null_block_rejected. Qed.

(* ---- the panic site is real: this is what the pinned tree reached ---- *)
Theorem C14_empty_outputs_panics :
  forall reg t r ts,
    outs t = [] -> alookup (t_id t) (by_id reg) = None ->
    update_utxos reg (t :: r) ts = Err (EPanic PsNoOutputs).
Proof. exact update_utxos_empty_outputs_panics. Qed.

Theorem C14_legacy_refuted :
  update_utxos ureg_empty [PanicExample.t_empty] 10 = Err (EPanic PsNoOutputs) /\
  pool_add PanicExample.vf PanicExample.ao PanicExample.so PanicExample.Sx
           PanicExample.n1 PanicExample.t_empty = Err (EPanic PsNoOutputs) /\
  ~ tx_ok PanicExample.t_empty.
Proof. exact Panic_lemmas.C14_legacy_refuted. Qed.

(* ---- examples (toy oracles: every block hash is zero, every id is "", see PanicExample) ---- *)
Example C14_ex_null_and_empty_request :
  handle_transaction PanicExample.vf PanicExample.ao PanicExample.so PanicExample.S1
                     PanicExample.oc PanicExample.Hz node_empty JNull = (node_empty, false) /\
  handle_transaction PanicExample.vf PanicExample.ao PanicExample.so PanicExample.S1
                     PanicExample.oc PanicExample.Hz node_empty (JObj []) = (node_empty, false) /\
  handle_transaction PanicExample.vf PanicExample.ao PanicExample.so PanicExample.S1
                     PanicExample.oc PanicExample.Hz node_empty
                     (JObj [("Transaction"%string, JNull)]) = (node_empty, false) /\
  handle_transaction PanicExample.vf PanicExample.ao PanicExample.so PanicExample.S1
                     PanicExample.oc PanicExample.Hz node_empty (JArr [JNum 1]) = (node_empty, false).
Proof. vm_compute. repeat split; reflexivity. Qed.

(* the endpoint is not vacuous: on the node that has produced its genesis block, a decodable
   transaction spending the genesis output is accepted, and the node stays ok *)
Example C14_ex_accepted :
  node_ok PanicExample.n_gen /\
  snd (handle_transaction PanicExample.vf PanicExample.ao PanicExample.so PanicExample.S1
         PanicExample.oc PanicExample.Hz PanicExample.n_gen
         (PanicExample.jreq (PanicExample.jtx (JArr [PanicExample.jin]) (JArr [PanicExample.jout]))))
  = true.
Proof.
  split; [exact n_gen_ok | vm_compute; reflexivity].
Qed.

(* the same transaction with no outputs, with a null output, with a null input: refused by the
   decoder with the reason the code gives, and the node is unchanged *)
Example C14_ex_rejected_shapes :
  unmarshal_tx PanicExample.oc PanicExample.Hz
    (PanicExample.jtx (JArr [PanicExample.jin]) (JArr [])) = Err DNoOutput /\
  unmarshal_tx PanicExample.oc PanicExample.Hz
    (PanicExample.jtx (JArr [PanicExample.jin]) JNull) = Err DNoOutput /\
  unmarshal_tx PanicExample.oc PanicExample.Hz
    (PanicExample.jtx (JArr [PanicExample.jin]) (JArr [JNull])) = Err DNullElem /\
  unmarshal_tx PanicExample.oc PanicExample.Hz
    (PanicExample.jtx (JArr [PanicExample.jin; JNull]) (JArr [PanicExample.jout])) = Err DNullElem /\
  unmarshal_tx PanicExample.oc PanicExample.Hz (PanicExample.jtx JNull (JArr [])) = Err DNoReward /\
  handle_transaction PanicExample.vf PanicExample.ao PanicExample.so PanicExample.S1
    PanicExample.oc PanicExample.Hz PanicExample.n_gen
    (PanicExample.jreq (PanicExample.jtx (JArr [PanicExample.jin]) (JArr [])))
  = (PanicExample.n_gen, false).
Proof. vm_compute. repeat split; reflexivity. Qed.

(* hypotheses of the tree-level rejection theorems are satisfiable *)
Example C14_ex_tree_hypotheses :
  get_fields "outputs" [("id"%string, JStr ""%string); ("inputs"%string, JArr [PanicExample.jin])] = [] /\
  get_fields "inputs" [("inputs"%string, JArr []); ("INPUTS"%string, JArr [JNull])]
  = [JArr []] ++ [JArr [JNull]] /\
  get_fields "transactions" [("transactions"%string, JArr [JNull])] = [] ++ [JArr [JNull]].
Proof. vm_compute. repeat split; reflexivity. Qed.

(* sync answers: null blocks, null transactions, wrong types are failed answers and the round
   leaves the node as it was; a decodable answer is turned into blocks *)
Example C14_ex_sync :
  response_of_answer PanicExample.oc PanicExample.Hz (JArr [JNull]) = RFail EDecode /\
  response_of_answer PanicExample.oc PanicExample.Hz
    (JArr [PanicExample.jblock 10 (JArr [JNull])]) = RFail EDecode /\
  response_of_answer PanicExample.oc PanicExample.Hz
    (JArr [PanicExample.jblock 10 (JArr [PanicExample.jtx JNull (JArr [])])]) = RFail EDecode /\
  response_of_answer PanicExample.oc PanicExample.Hz (JNum 3) = RFail EDecode /\
  response_of_answer PanicExample.oc PanicExample.Hz JNull = RBlocks [] /\
  (exists b, response_of_answer PanicExample.oc PanicExample.Hz
               (JArr [PanicExample.jblock 10 (JArr [PanicExample.jtx JNull (JArr [PanicExample.jout])])])
             = RBlocks [b]) /\
  sync_with PanicExample.vf PanicExample.ao PanicExample.so PanicExample.Hk PanicExample.gid
            PanicExample.S1 PanicExample.key PanicExample.oc PanicExample.Hz PanicExample.n_gen 30
            [("n1:1"%string, JArr [JNull], JNum 3);
             ("n2:1"%string, JStr "x"%string, JArr [PanicExample.jblock 10 (JArr [JNull])])]
            EmptyString = PanicExample.n_gen.
Proof. vm_compute. repeat split; try reflexivity. eexists. reflexivity. Qed.

(* a mixed run from boot *)
Example C14_ex_run :
  length (chain (n_c (run_wire PanicExample.vf PanicExample.ao PanicExample.so PanicExample.Hk
                        PanicExample.gid PanicExample.S1 PanicExample.key PanicExample.oc
                        PanicExample.Hz node_empty
                        [WTick 10 [];
                         WTx (PanicExample.jreq (PanicExample.jtx (JArr [PanicExample.jin])
                                                                  (JArr [PanicExample.jout])));
                         WSync 30 [("n1:1"%string, JNull, JArr [JNull])] EmptyString;
                         WTx JNull;
                         WTick 20 [0%nat];
                         WRefresh (fun _ => None) []]))) = 2%nat.
Proof. vm_compute. reflexivity. Qed.

(* the read-only endpoints on null, wrong types and extreme numbers *)
Example C14_ex_read_only :
  handle_blocks PanicExample.S1 PanicExample.n_gen JNull = Ok (Ok (chain (n_c PanicExample.n_gen))) /\
  handle_blocks PanicExample.S1 PanicExample.n_gen (JNum (-1)) = Err DRange /\
  handle_blocks PanicExample.S1 PanicExample.n_gen (JNum 18446744073709551616) = Err DRange /\
  handle_blocks PanicExample.S1 PanicExample.n_gen (JNum 18446744073709551615) = Ok (Ok []) /\
  handle_blocks PanicExample.S1 PanicExample.n_gen (JStr "0"%string) = Err DType /\
  handle_utxos PanicExample.n_gen JNull = Ok [] /\
  handle_utxos PanicExample.n_gen (JNum 1) = Err DType /\
  handle_targets JNull = Ok [] /\
  handle_targets (JArr [JNull; JStr "a:1"%string]) = Ok [EmptyString; "a:1"%string] /\
  handle_targets (JArr [JNum 1]) = Err DType.
Proof. vm_compute. repeat split; reflexivity. Qed.

Print Assumptions C14_decoded_tx_ok.
Print Assumptions C14_decoded_request_ok.
Print Assumptions C14_decoded_blocks_ok.
Print Assumptions C14_pool_add_no_panic.
Print Assumptions C14_validate_no_panic.
Print Assumptions C14_validate_drops_no_panic.
Print Assumptions C14_verify_no_panic.
Print Assumptions C14_update_preserves_ok.
Print Assumptions C14_step_preserves_ok.
Print Assumptions C14_transaction_endpoint.
Print Assumptions C14_sync_answer.
Print Assumptions C14_then_any_operations.
Print Assumptions C14_from_boot.
Print Assumptions C14_blocks_endpoint.
Print Assumptions C14_no_outputs_rejected.
Print Assumptions C14_no_outputs_tree_rejected.
Print Assumptions C14_null_elements_rejected.
Print Assumptions C14_null_elements_reason.
Print Assumptions C14_null_transaction_rejected.
Print Assumptions C14_null_block_rejected.
Print Assumptions C14_empty_outputs_panics.
Print Assumptions C14_legacy_refuted.
