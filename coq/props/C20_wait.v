(* C20 — "no longer once it has been stopped", including the part of Start that waits for the
   first period boundary (validatornode/domain/clock/engine.go:53-83; model/ClockWait.v).
   This file contains only the property theorems, each closed by [exact] of a lemma. *)
From RV Require Import model.Base model.Clock model.ClockWait proofs.Clock_lemmas proofs.ClockWait_lemmas.

(* A Stop that lands while Start is blocked on the first boundary (the flag is already up:
   engine.go:57 precedes :62) prevents every call, for every schedule, and Start returns at its
   second move after the Stop (the wait ends, the check of :68 fails). *)
Theorem C20_stop_during_wait_no_call : forall pre post,
  w_pc (wrun pre winit) = WWait ->
  w_calls (wrun (pre ++ WStop :: post) winit) = 0 /\
  w_calls_after_stop (wrun (pre ++ WStop :: post) winit) = 0 /\
  (2 <= wsteps post -> w_pc (wrun (pre ++ WStop :: post) winit) = WDone).
Proof. exact wstop_during_wait. Qed.

(* A Stop at any moment at which Start is past engine.go:57: only the call whose started-check
   already lies behind it (pc = WCall: wbudget = 1, else 0) can still happen. State form as in
   C20_stop_no_new_call: flag down and not inside a call = no call ever again. *)
Theorem C20_stop_any_time_bounded_calls :
  (forall pre post,
     w_pc (wrun pre winit) <> WStart ->
     w_calls (wrun (pre ++ WStop :: post) winit)
       <= w_calls (wrun pre winit) + wbudget (wrun pre winit) /\
     (w_stopped (wrun pre winit) = false ->
      w_calls_after_stop (wrun (pre ++ WStop :: post) winit) <= wbudget (wrun pre winit))) /\
  (forall s evs,
     w_started s = false -> w_pc s <> WStart ->
     w_calls (wrun evs s) <= w_calls s + wbudget s /\
     w_calls_after_stop (wrun evs s) <= w_calls_after_stop s + wbudget s /\
     (w_pc s <> WCall ->
      w_calls (wrun evs s) = w_calls s /\ w_calls_after_stop (wrun evs s) = w_calls_after_stop s)).
Proof. exact (conj wstop_no_call wstop_no_new_call). Qed.

(* After such a Stop, three moves of the Start goroutine (fewer from most places: wdist) suffice
   for Start to return, whatever else is interleaved, and it stays returned. *)
Theorem C20_stop_terminates :
  (forall pre post,
     w_pc (wrun pre winit) <> WStart -> 3 <= wsteps post ->
     forall more, w_pc (wrun ((pre ++ WStop :: post) ++ more) winit) = WDone) /\
  (forall pre post,
     w_pc (wrun pre winit) <> WStart -> wdist (wrun pre winit) <= wsteps post ->
     forall more, w_pc (wrun ((pre ++ WStop :: post) ++ more) winit) = WDone).
Proof. exact (conj wstop_terminates_3 wstop_terminates). Qed.

(* From the first check on, the extended system is the stop protocol of model/Clock.v: C20_stop and
   C20_stop_no_new_call speak about its runs. The last clause: the slip is invisible there. *)
Theorem C20_wait_refines :
  (forall s evs, wpost s ->
     wpost (wrun evs s) /\ wabs (wrun evs s) = fold_left estep (map wabs_ev evs) (wabs s)) /\
  (forall evs, wabs (wrun ([WStep; WStep] ++ evs) winit) = fold_left estep (map wabs_ev evs) einit) /\
  (forall l, exists evs, map wabs_ev evs = l /\
     e_calls_after_stop (fold_left estep l einit)
       = w_calls_after_stop (wrun ([WStep; WStep] ++ evs) winit)) /\
  (forall s e, wpost s -> wstep_late s e = wstep s e).
Proof. exact wrun_refines. Qed.

(* `started = true` moved behind the wait (seeded change C20g): a Stop during the wait is
   overwritten, calls after it are unbounded and Start never returns. *)
Theorem C20_late_flag_refuted :
  (w_pc (wrun_late [WStep] winit) = WWait /\
   w_calls_after_stop (wrun_late ([WStep] ++ WStop :: repeat WStep 10) winit) = 3 /\
   forallb (fun k => match w_pc (wrun_late (firstn k ([WStep] ++ WStop :: repeat WStep 10)) winit) with
                     | WDone => false | _ => true end) (seq 0 13) = true) /\
  (w_calls (wrun ([WStep] ++ WStop :: repeat WStep 10) winit) = 0 /\
   w_pc (wrun ([WStep] ++ WStop :: repeat WStep 10) winit) = WDone) /\
  (forall n, exists post,
     w_pc (wrun_late [WStep] winit) = WWait /\
     w_calls_after_stop (wrun_late ([WStep] ++ WStop :: post) winit) = n /\
     forall k, w_pc (wrun_late (firstn k ([WStep] ++ WStop :: post)) winit) <> WDone).
Proof. exact wstop_late_flag_refuted. Qed.

(* non-vacuity: the wait is reachable; a Stop in the second call lets exactly that call finish
   and takes the full three moves; the hypothesis pc <> WStart is needed (a Stop that lands
   before engine.go:57 is overwritten by it: four calls follow here). *)
Example C20_wait_nonvacuous :
  w_pc (wrun [WStep] winit) = WWait /\
  (let pre := [WStep; WStep; WStep; WStep; WStep; WStep] in
   w_pc (wrun pre winit) = WCall /\ w_calls (wrun pre winit) = 1 /\
   w_calls (wrun (pre ++ WStop :: [WStep; WStep]) winit) = 2 /\
   w_calls_after_stop (wrun (pre ++ WStop :: [WStep; WStep]) winit) = 1 /\
   w_pc (wrun (pre ++ WStop :: [WStep; WStep]) winit) = WCheck /\
   w_pc (wrun (pre ++ WStop :: [WStep; WStep; WStep]) winit) = WDone) /\
  (w_pc (wrun [] winit) = WStart /\
   w_calls_after_stop (wrun ([] ++ WStop :: repeat WStep 14) winit) = 4 /\
   w_started (wrun ([] ++ WStop :: repeat WStep 14) winit) = true).
Proof. vm_compute. repeat split; reflexivity. Qed.

Print Assumptions C20_stop_during_wait_no_call.
Print Assumptions C20_stop_any_time_bounded_calls.
Print Assumptions C20_stop_terminates.
Print Assumptions C20_wait_refines.
Print Assumptions C20_late_flag_refuted.
