(* C11 — admission into the transactions pool and block production (transactions_pool.go).
   This file contains only the property theorems, each closed by [exact] of a lemma of
   proofs/Pool_lemmas.v, where the specification [greedy] (with [keeps], [greedy_fees],
   [greedy_rest], [greedy_log], [greedy_final], [sumN]) is defined. *)
From RV Require Import model.Base model.Ledger model.Registry model.Chain model.Pool proofs.Pool_lemmas.
From Coq Require Import ZArith NArith Permutation.
Local Open Scope Z_scope.

(* ---- A. admission ---- *)

(* A submitted transaction enters the pool only if the chain is not empty, it is dated between
   the last block and the next block time, its id is not pooled, its signatures verify, and its
   fee and its effect on the outputs are accepted (C01-C03) on top of the confirmed outputs, the
   last block and the transactions pooled before it; then the pool grows by it, at the end. *)
Theorem C11_admission_sound :
  forall (value_fn : N -> bool -> Z -> N) (addr_of : string -> string) (sig_ok : input -> bool)
         (St : settings) (n : node) (t : tx) (n' : node),
    pool_add value_fn addr_of sig_ok St n t = Ok n' ->
    let last := last_block_ts (chain (n_c n)) in
    let next := last + s_interval St in
    last <> 0 /\
    last <= t_ts t <= next /\
    ~ In (t_id t) (pool_ids n) /\
    verify_sigs sig_ok t = true /\
    (exists (u1 u2 : ureg) (f : N) (u3 : ureg),
       update_utxos (ur (n_c n)) (last_block_txs (chain (n_c n))) last = Ok u1 /\
       update_utxos u1 (elems (n_pool n)) next = Ok u2 /\
       calc_fee value_fn addr_of (s_fee St) u2 t next = Ok f /\
       update_utxos u2 [t] next = Ok u3 /\
       n' = mkNode (n_c n) (sl_app (n_pool n) t)).
Proof. exact pool_add_sound. Qed.

(* ... and every transaction meeting these conditions is accepted into the pool *)
Theorem C11_admission_complete :
  forall (value_fn : N -> bool -> Z -> N) (addr_of : string -> string) (sig_ok : input -> bool)
         (St : settings) (n : node) (t : tx),
    let last := last_block_ts (chain (n_c n)) in
    let next := last + s_interval St in
    last <> 0 ->
    last <= t_ts t <= next ->
    ~ In (t_id t) (pool_ids n) ->
    verify_sigs sig_ok t = true ->
    (exists (u1 u2 : ureg) (f : N) (u3 : ureg),
       update_utxos (ur (n_c n)) (last_block_txs (chain (n_c n))) last = Ok u1 /\
       update_utxos u1 (elems (n_pool n)) next = Ok u2 /\
       calc_fee value_fn addr_of (s_fee St) u2 t next = Ok f /\
       update_utxos u2 [t] next = Ok u3) ->
    pool_add value_fn addr_of sig_ok St n t = Ok (mkNode (n_c n) (sl_app (n_pool n) t)).
Proof. exact pool_add_complete. Qed.

Theorem C11_admission_ids :
  forall (value_fn : N -> bool -> Z -> N) (addr_of : string -> string) (sig_ok : input -> bool)
         (St : settings) (n : node) (t : tx) (n' : node),
    pool_add value_fn addr_of sig_ok St n t = Ok n' -> pool_ids n' = pool_ids n ++ [t_id t].
Proof. exact pool_add_ids. Qed.

(* the pooled ids stay pairwise distinct *)
Theorem C11_admission_ids_nodup :
  forall (value_fn : N -> bool -> Z -> N) (addr_of : string -> string) (sig_ok : input -> bool)
         (St : settings) (n : node) (t : tx) (n' : node),
    NoDup (pool_ids n) -> pool_add value_fn addr_of sig_ok St n t = Ok n' -> NoDup (pool_ids n').
Proof. exact pool_ids_nodup. Qed.

(* ---- B. production ---- *)

(* what "still valid and conflict-free" means for the transaction [t] tried on the running
   registry [u] of those kept before it: [f] is its fee, [u'] the registry after it *)
Theorem C11_keeps :
  forall (value_fn : N -> bool -> Z -> N) (addr_of : string -> string) (sig_ok : input -> bool)
         (St : settings) (last next ts : Z) (u : ureg) (t : tx) (f : N) (u' : ureg),
    keeps value_fn addr_of sig_ok St last next ts u t = Some (f, u') <->
    t_ts t <= ts /\
    last <= t_ts t /\
    verify_sigs sig_ok t = true /\
    calc_fee value_fn addr_of (s_fee St) u t ts = Ok f /\ update_utxos u [t] next = Ok u'.
Proof. exact keeps_iff. Qed.

(* the loop of Validate computes the greedy selection: the kept transactions, the dropped ones
   (the others, in order), and the reward as the uint64 running sum of the kept fees *)
Theorem C11_produce_greedy :
  forall (value_fn : N -> bool -> Z -> N) (addr_of : string -> string) (sig_ok : input -> bool)
         (St : settings) (last next ts : Z) (l : list tx) (u : ureg) (r0 : N) (u' : ureg)
         (kept : list tx) (dropped : list (string * drop)) (reward : N),
    produce_loop value_fn addr_of sig_ok St last next ts l u [] [] r0 = (u', kept, dropped, reward) ->
    kept = greedy value_fn addr_of sig_ok St last next ts l u /\
    dropped = greedy_log value_fn addr_of sig_ok St last next ts l u /\
    map fst dropped = map t_id (greedy_rest value_fn addr_of sig_ok St last next ts l u) /\
    reward = fold_left add64 (greedy_fees value_fn addr_of sig_ok St last next ts l u) r0 /\
    u' = greedy_final value_fn addr_of sig_ok St last next ts l u.
Proof. exact produce_loop_greedy. Qed.

(* the reward never exceeds (initial amount + fees collected); it is that sum modulo 2^64, and
   the sum itself when it fits in a uint64 *)
Theorem C11_reward :
  forall (value_fn : N -> bool -> Z -> N) (addr_of : string -> string) (sig_ok : input -> bool)
         (St : settings) (last next ts : Z) (l : list tx) (u : ureg) (r0 : N) (u' : ureg)
         (kept : list tx) (dropped : list (string * drop)) (reward : N),
    produce_loop value_fn addr_of sig_ok St last next ts l u [] [] r0 = (u', kept, dropped, reward) ->
    (reward <= r0 + sumN (greedy_fees value_fn addr_of sig_ok St last next ts l u))%N /\
    ((r0 < two64)%N ->
     reward = ((r0 + sumN (greedy_fees value_fn addr_of sig_ok St last next ts l u)) mod two64)%N) /\
    ((r0 + sumN (greedy_fees value_fn addr_of sig_ok St last next ts l u) < two64)%N ->
     reward = (r0 + sumN (greedy_fees value_fn addr_of sig_ok St last next ts l u))%N).
Proof. exact produce_loop_reward_le. Qed.

Theorem C11_reward_sum_le :
  forall (fees : list N) (r : N), (fold_left add64 fees r <= r + sumN fees)%N.
Proof. exact fold_add64_le. Qed.

Theorem C11_reward_sum_exact :
  forall (fees : list N) (r : N), (r + sumN fees < two64)%N -> fold_left add64 fees r = (r + sumN fees)%N.
Proof. exact fold_add64_exact. Qed.

(* a produced block: the greedy selection of the shuffled pool (every one of them a pooled
   transaction) followed by one reward, paid to the validator, equal to the fees (plus the
   genesis amount in a first block); afterwards the pool is nil *)
Theorem C11_produced :
  forall (value_fn : N -> bool -> Z -> N) (addr_of : string -> string) (sig_ok : input -> bool)
         (H : block -> hash) (gen_id : slice input -> slice output -> Z -> string)
         (St : settings) (validator : string) (n : node) (ts : Z) (perm : list nat)
         (n' : node) (d : list (string * drop)),
    validate value_fn addr_of sig_ok H gen_id St validator n ts perm = (n', Produced d) ->
    let c := n_c n in
    let last := last_block_ts (chain c) in
    let next := last + s_interval St in
    let genesis := (last =? 0) in
    let tried := permute perm (elems (n_pool n)) in
    exists (kept : list tx) (reward : N) (u0 : ureg),
      update_utxos (ur c) (last_block_txs (chain c)) last = Ok u0 /\
      kept = greedy value_fn addr_of sig_ok St last next ts tried u0 /\
      reward = fold_left add64 (greedy_fees value_fn addr_of sig_ok St last next ts tried u0)
                         (if genesis then s_genesis St else 0%N) /\
      d = greedy_log value_fn addr_of sig_ok St last next ts tried u0 /\
      (let rt := reward_tx gen_id validator genesis ts reward in
       let b := make_block H c ts (Some (kept ++ [rt]))
                           ((if genesis then [validator] else []) ++ yielding_addrs kept) in
       chain (n_c n') = chain c ++ [b] /\
       n_pool n' = None /\
       incl kept (elems (n_pool n)) /\
       txs b = kept ++ [rt] /\
       is_reward rt = true /\
       reward_addr rt = validator /\
       reward_value rt = reward /\
       ((forall t : tx, In t kept -> is_reward t = false) ->
        length (filter is_reward (txs b)) = 1%nat)).
Proof. exact validate_produced. Qed.

(* exactly one reward, as soon as the minimal fee is positive *)
Theorem C11_one_reward :
  forall (value_fn : N -> bool -> Z -> N) (addr_of : string -> string) (sig_ok : input -> bool)
         (H : block -> hash) (gen_id : slice input -> slice output -> Z -> string)
         (St : settings) (validator : string) (n : node) (ts : Z) (perm : list nat)
         (n' : node) (d : list (string * drop)),
    (0 < s_fee St)%N ->
    validate value_fn addr_of sig_ok H gen_id St validator n ts perm = (n', Produced d) ->
    exists b : block, chain (n_c n') = chain (n_c n) ++ [b] /\
                      length (filter is_reward (txs b)) = 1%nat.
Proof. exact validate_one_reward. Qed.

(* the block is stamped with the tick, linked to the previous tip, and the previous tip is
   what gets applied to the confirmed outputs *)
Theorem C11_appends :
  forall (value_fn : N -> bool -> Z -> N) (addr_of : string -> string) (sig_ok : input -> bool)
         (H : block -> hash) (gen_id : slice input -> slice output -> Z -> string)
         (St : settings) (validator : string) (n : node) (ts : Z) (perm : list nat)
         (n' : node) (d : list (string * drop)),
    validate value_fn addr_of sig_ok H gen_id St validator n ts perm = (n', Produced d) ->
    exists b : block,
      chain (n_c n') = chain (n_c n) ++ [b] /\
      last_block (chain (n_c n')) = Some b /\
      b_ts b = ts /\
      b_prev b = match last_block (chain (n_c n)) with
                 | Some lb => H lb
                 | None => zero_hash
                 end /\
      ur (n_c n') = match last_block (chain (n_c n)) with
                    | Some lb => match update_utxos (ur (n_c n)) (txs lb) (b_ts lb) with
                                 | Ok u => u
                                 | Err _ => ur (n_c n)
                                 end
                    | None => ur (n_c n)
                    end.
Proof. exact validate_appends. Qed.

(* the block is dated after the previous tip: AddBlock refuses it otherwise *)
Theorem C11_produced_after_tip :
  forall (value_fn : N -> bool -> Z -> N) (addr_of : string -> string) (sig_ok : input -> bool)
         (H : block -> hash) (gen_id : slice input -> slice output -> Z -> string)
         (St : settings) (validator : string) (n : node) (ts : Z) (perm : list nat)
         (n' : node) (d : list (string * drop)),
    validate value_fn addr_of sig_ok H gen_id St validator n ts perm = (n', Produced d) ->
    chain (n_c n) <> [] -> last_block_ts (chain (n_c n)) < ts.
Proof. exact validate_produced_after_tip. Qed.

(* none twice *)
Theorem C11_kept_nodup :
  forall (value_fn : N -> bool -> Z -> N) (addr_of : string -> string) (sig_ok : input -> bool)
         (St : settings) (n : node) (perm : list nat) (last next ts : Z) (u0 : ureg),
    NoDup (pool_ids n) ->
    NoDup perm ->
    NoDup (map t_id (greedy value_fn addr_of sig_ok St last next ts (permute perm (elems (n_pool n))) u0)) /\
    NoDup (greedy value_fn addr_of sig_ok St last next ts (permute perm (elems (n_pool n))) u0).
Proof. exact validate_kept_nodup. Qed.

Theorem C11_permute_nodup :
  forall (A : Type) (perm : list nat) (l : list A), NoDup l -> NoDup perm -> NoDup (permute perm l).
Proof. exact @permute_nodup. Qed.

(* every pooled transaction is tried: kept and dropped together are the pool rearranged *)
Theorem C11_tries_all :
  forall (value_fn : N -> bool -> Z -> N) (addr_of : string -> string) (sig_ok : input -> bool)
         (St : settings) (n : node) (perm : list nat) (last next ts : Z) (u0 : ureg),
    Permutation perm (seq 0 (length (elems (n_pool n)))) ->
    Permutation
      (greedy value_fn addr_of sig_ok St last next ts (permute perm (elems (n_pool n))) u0 ++
       greedy_rest value_fn addr_of sig_ok St last next ts (permute perm (elems (n_pool n))) u0)
      (elems (n_pool n)).
Proof. exact validate_tries_all. Qed.

(* a refused Validate changes neither the chain nor the registries nor the pool (weaker shape
   kept from before the fix c2ebc37; C11_refused_id below is the full statement) *)
Theorem C11_refused_unchanged :
  forall (value_fn : N -> bool -> Z -> N) (addr_of : string -> string) (sig_ok : input -> bool)
         (H : block -> hash) (gen_id : slice input -> slice output -> Z -> string)
         (St : settings) (validator : string) (n : node) (ts : Z) (perm : list nat)
         (n' : node) (e : err),
    validate value_fn addr_of sig_ok H gen_id St validator n ts perm = (n', Refused e) ->
    n_c n' = n_c n /\
    chain (n_c n') = chain (n_c n) /\
    ur (n_c n') = ur (n_c n) /\
    ar (n_c n') = ar (n_c n) /\
    (n' = n \/
     (exists (l : slice tx) (addrs : list string), add_block H (n_c n) ts l addrs = Err e) /\
     n_pool n' = match n_pool n with
                 | Some _ => Some (permute perm (elems (n_pool n)))
                 | None => None
                 end).
Proof. exact validate_refused_unchanged. Qed.

(* stronger, for the sequential model: AddBlock refuses a block that is not dated after the tip,
   and otherwise repeats the check Validate made on its copy, so it cannot fail there. A refused
   Validate either leaves the whole node (pool order included) as it was, for one of three
   reasons: same tick, missed tick, the previous tip does not apply; or the tick is not after
   the tip and has passed the two tick tests (it is before the tip, or the tip is dated 0 and the
   tick is not positive): AddBlock refuses it *)
Theorem C11_refused_cases :
  forall (value_fn : N -> bool -> Z -> N) (addr_of : string -> string) (sig_ok : input -> bool)
         (H : block -> hash) (gen_id : slice input -> slice output -> Z -> string)
         (St : settings) (validator : string) (n : node) (ts : Z) (perm : list nat)
         (n' : node) (e : err),
    validate value_fn addr_of sig_ok H gen_id St validator n ts perm = (n', Refused e) ->
    (n' = n /\
     (e = ESameTick \/ e = EMissedTick \/
      update_utxos (ur (n_c n)) (last_block_txs (chain (n_c n))) (last_block_ts (chain (n_c n))) = Err e)) \/
    (e = ETime /\ chain (n_c n) <> [] /\ ts <= last_block_ts (chain (n_c n)) /\ n' = n).
Proof. exact validate_refused_cases. Qed.

(* and, whatever the reason, the refusal leaves the whole node - pool included, in its order -
   exactly as it was: Validate shuffles, removes and appends the reward on a copy of the pool *)
Theorem C11_refused_id :
  forall (value_fn : N -> bool -> Z -> N) (addr_of : string -> string) (sig_ok : input -> bool)
         (H : block -> hash) (gen_id : slice input -> slice output -> Z -> string)
         (St : settings) (validator : string) (n : node) (ts : Z) (perm : list nat)
         (n' : node) (e : err),
    validate value_fn addr_of sig_ok H gen_id St validator n ts perm = (n', Refused e) -> n' = n.
Proof. exact validate_refused_id. Qed.
Print Assumptions C11_refused_id.

(* in particular, for a tick after the tip (or on an empty chain) *)
Theorem C11_refused_same :
  forall (value_fn : N -> bool -> Z -> N) (addr_of : string -> string) (sig_ok : input -> bool)
         (H : block -> hash) (gen_id : slice input -> slice output -> Z -> string)
         (St : settings) (validator : string) (n : node) (ts : Z) (perm : list nat)
         (n' : node) (e : err),
    chain (n_c n) = [] \/ last_block_ts (chain (n_c n)) < ts ->
    validate value_fn addr_of sig_ok H gen_id St validator n ts perm = (n', Refused e) ->
    n' = n /\
    (e = ESameTick \/ e = EMissedTick \/
     update_utxos (ur (n_c n)) (last_block_txs (chain (n_c n))) (last_block_ts (chain (n_c n))) = Err e).
Proof. exact validate_refused_same. Qed.

Theorem C11_same_tick :
  forall (value_fn : N -> bool -> Z -> N) (addr_of : string -> string) (sig_ok : input -> bool)
         (H : block -> hash) (gen_id : slice input -> slice output -> Z -> string)
         (St : settings) (validator : string) (n : node) (ts : Z) (perm : list nat),
    last_block_ts (chain (n_c n)) <> 0 ->
    ts = last_block_ts (chain (n_c n)) ->
    validate value_fn addr_of sig_ok H gen_id St validator n ts perm = (n, Refused ESameTick).
Proof. exact validate_same_tick. Qed.

Theorem C11_missed_tick :
  forall (value_fn : N -> bool -> Z -> N) (addr_of : string -> string) (sig_ok : input -> bool)
         (H : block -> hash) (gen_id : slice input -> slice output -> Z -> string)
         (St : settings) (validator : string) (n : node) (ts : Z) (perm : list nat),
    last_block_ts (chain (n_c n)) <> 0 ->
    ts <> last_block_ts (chain (n_c n)) ->
    last_block_ts (chain (n_c n)) + s_interval St < ts ->
    validate value_fn addr_of sig_ok H gen_id St validator n ts perm = (n, Refused EMissedTick).
Proof. exact validate_missed_tick. Qed.

(* ---- non-vacuity ---- *)

(* an empty node produces a genesis block: one block, one transaction (the reward of the
   genesis amount, yielding, paid to the validator), pool nil *)
Example C11_genesis_produced :
  let St := mkSettings 5 1 100 10 in
  let v := (fun (x : N) (_ : bool) (_ : Z) => x) in
  let r := validate v (fun k => k) (fun _ => true) (fun _ => zero_hash)
                    (fun _ _ _ => "id"%string) St "v"%string node_empty 7 [] in
  snd r = Produced [] /\
  length (chain (n_c (fst r))) = 1%nat /\
  n_pool (fst r) = None /\
  map txs (chain (n_c (fst r)))
  = [[mkTx "id"%string None (Some [mkOutput "v"%string true 100%N]) 7]].
Proof. vm_compute. repeat split. Qed.

(* ... then a transaction spending the genesis reward is accepted (so the hypotheses of
   C11_admission_complete are satisfiable), a second submission of it is refused, and the
   next tick produces a block holding it plus a reward equal to its fee *)
Example C11_accept_then_produce :
  let St := mkSettings 5 1 100 10 in
  let v := (fun (x : N) (_ : bool) (_ : Z) => x) in
  let ao := (fun k : string => k) in
  let so := (fun _ : input => true) in
  let Ho := (fun _ : block => zero_hash) in
  let go := (fun (_ : slice input) (_ : slice output) (_ : Z) => "id"%string) in
  let n1 := fst (validate v ao so Ho go St "v"%string node_empty 7 []) in
  let t := mkTx "t1"%string (Some [mkInput 0%N "id"%string "v"%string "sig"%string])
                (Some [mkOutput "w"%string false 60%N; mkOutput "v"%string true 38%N]) 8 in
  let n2 := match pool_add v ao so St n1 t with Ok x => x | Err _ => node_empty end in
    pool_add v ao so St n1 t = Ok n2 /\
    pool_ids n2 = ["t1"%string] /\
    pool_add v ao so St n2 t = Err EInPool /\
    pool_add v ao so St node_empty t = Err EEmptyChain /\
    let r := validate v ao so Ho go St "v"%string n2 12 [0%nat] in
    snd r = Produced [] /\
    length (chain (n_c (fst r))) = 2%nat /\
    n_pool (fst r) = None /\
    map txs (skipn 1 (chain (n_c (fst r))))
    = [[t; mkTx "id"%string None (Some [mkOutput "v"%string false 2%N]) 12]] /\
    validate v ao so Ho go St "v"%string (fst r) 12 [] = (fst r, Refused ESameTick) /\
    validate v ao so Ho go St "v"%string (fst r) 18 [] = (fst r, Refused EMissedTick).
Proof. vm_compute. repeat split. Qed.

(* a tick before the tip (chain dated 7, 12; tick 9) passes the two tick tests and is refused by
   AddBlock: the chain state is kept and the two pooled transactions stay as they were *)
Example C11_tick_before_tip_refused :
  let St := mkSettings 5 1 100 10 in
  let v := (fun (x : N) (_ : bool) (_ : Z) => x) in
  let ao := (fun k : string => k) in
  let so := (fun _ : input => true) in
  let Ho := (fun _ : block => zero_hash) in
  let go := (fun (_ : slice input) (_ : slice output) (ts : Z) =>
               if ts =? 7 then "r7"%string else "r12"%string) in
  let n1 := fst (validate v ao so Ho go St "v"%string node_empty 7 []) in
  let n2 := fst (validate v ao so Ho go St "v"%string n1 12 []) in
  let ta := mkTx "ta"%string None (Some [mkOutput "w"%string false 0%N]) 12 in
  let tb := mkTx "tb"%string None (Some [mkOutput "w"%string false 0%N]) 13 in
  let n3 := mkNode (n_c n2) (Some [ta; tb]) in
  let r := validate v ao so Ho go St "v"%string n3 9 [1%nat; 0%nat] in
    map b_ts (chain (n_c n3)) = [7; 12] /\
    snd r = Refused ETime /\
    n_c (fst r) = n_c n3 /\
    pool_ids (fst r) = ["ta"%string; "tb"%string].
Proof. vm_compute. repeat split. Qed.

Print Assumptions C11_admission_sound.
Print Assumptions C11_admission_complete.
Print Assumptions C11_admission_ids.
Print Assumptions C11_admission_ids_nodup.
Print Assumptions C11_keeps.
Print Assumptions C11_produce_greedy.
Print Assumptions C11_reward.
Print Assumptions C11_reward_sum_le.
Print Assumptions C11_reward_sum_exact.
Print Assumptions C11_produced.
Print Assumptions C11_one_reward.
Print Assumptions C11_appends.
Print Assumptions C11_produced_after_tip.
Print Assumptions C11_kept_nodup.
Print Assumptions C11_permute_nodup.
Print Assumptions C11_tries_all.
Print Assumptions C11_refused_unchanged.
Print Assumptions C11_refused_cases.
Print Assumptions C11_refused_same.
Print Assumptions C11_same_tick.
Print Assumptions C11_missed_tick.
