(* C03 — only the owner can spend. A transaction enters the pool, is placed in a produced block,
   or is accepted in an adopted block only if every one of its inputs names a public key whose
   address is the recipient of the consumed output and carries a valid signature by that key over
   that input's output reference.

   Stated at the three places where a transaction is judged (addTransaction, Validate,
   verifyBlock), against the registry state the code consults there. This file contains only the
   property theorems, each closed by [exact] of a lemma of proofs/Accept_lemmas.v, where
   [spends], [tx_authorized], [is_new_at], [run_kept] are defined. *)
From RV Require Import model.Base model.Ledger model.Registry model.Chain model.Sync model.Pool.
From RV Require Import proofs.Pool_lemmas proofs.Sync_lemmas proofs.Chain_verify proofs.Ledger_fee
                       proofs.Accept_lemmas.
From Coq Require Import ZArith NArith.
Local Open Scope N_scope.

(* what [tx_authorized] says, input by input: the signature verifies, the output named exists
   unconsumed in the registry, and its recipient is the address of the input's public key *)
Theorem C03_authorized_means :
  forall (addr_of : string -> string) (sig_ok : input -> bool) (reg : ureg) (t : tx),
    tx_authorized addr_of sig_ok reg t <->
    Forall (fun i => sig_ok i = true /\
                     exists u, find_utxo reg i = Ok u /\ o_addr (u_out u) = addr_of (i_key i)) (ins t).
Proof. exact tx_authorized_iff. Qed.

(* ---- positive side ---- *)

(* adopted: every ordinary transaction of a block that passes verifyBlock against [c] *)
Theorem C03_adopted :
  forall (value_fn : N -> bool -> Z -> N) (addr_of : string -> string) (sig_ok : input -> bool)
         (St : settings) (c : cstate) (b : block) (prev_ts now : Z),
    verify_block value_fn addr_of sig_ok St c b prev_ts now = Ok tt ->
    Forall (fun t => is_reward t = false -> tx_authorized addr_of sig_ok (ur c) t) (txs b).
Proof. exact verify_block_authorized. Qed.

(* ... which is every new, non-genesis block of a neighbor's answer that passes verify, against
   the registers the answer's earlier blocks (but the last) yield from the initial ones *)
Theorem C03_adopted_chain :
  forall (value_fn : N -> bool -> Z -> N) (addr_of : string -> string) (sig_ok : input -> bool)
         (Hf : block -> hash) (St : settings) (host : cstate) (lh neigh old : list block)
         (now : Z) (v : list block),
    verify value_fn addr_of sig_ok Hf St host lh neigh old now = Ok v ->
    forall (i : nat) (b : block),
      nth_error neigh i = Some b ->
      is_new_at Hf lh i b ->
      ~ (old = [] /\ i = 0%nat) ->
      exists (reg : ureg) (a : areg),
        replay_from (init_ur host old) (init_ar host old) (removelast (firstn i neigh)) = Ok (reg, a) /\
        Forall (fun t => is_reward t = false -> tx_authorized addr_of sig_ok reg t) (txs b).
Proof. exact verify_new_blocks_authorized. Qed.

(* pooled: against the registry [u2] obtained from the node's by the last block's and then the
   pooled transactions *)
Theorem C03_pooled :
  forall (value_fn : N -> bool -> Z -> N) (addr_of : string -> string) (sig_ok : input -> bool)
         (St : settings) (n : node) (t : tx) (n' : node),
    pool_add value_fn addr_of sig_ok St n t = Ok n' ->
    let last := last_block_ts (chain (n_c n)) in
    let next := (last + s_interval St)%Z in
    exists u1 u2 : ureg,
      update_utxos (ur (n_c n)) (last_block_txs (chain (n_c n))) last = Ok u1 /\
      update_utxos u1 (elems (n_pool n)) next = Ok u2 /\
      tx_authorized addr_of sig_ok u2 t.
Proof. exact pool_add_authorized. Qed.

(* produced: the transaction after the prefix [pre] of the kept ones, against the registry of
   the last block updated by [pre], one at a time *)
Theorem C03_produced :
  forall (value_fn : N -> bool -> Z -> N) (addr_of : string -> string) (sig_ok : input -> bool)
         (Hf : block -> hash) (gen_id : slice input -> slice output -> Z -> string)
         (St : settings) (validator : string) (n : node) (ts : Z) (perm : list nat)
         (n' : node) (d : list (string * drop)),
    validate value_fn addr_of sig_ok Hf gen_id St validator n ts perm = (n', Produced d) ->
    let last := last_block_ts (chain (n_c n)) in
    let next := (last + s_interval St)%Z in
    exists (kept : list tx) (u0 : ureg) (rt : tx) (b : block),
      update_utxos (ur (n_c n)) (last_block_txs (chain (n_c n))) last = Ok u0 /\
      chain (n_c n') = chain (n_c n) ++ [b] /\
      txs b = kept ++ [rt] /\
      is_reward rt = true /\
      forall (pre : list tx) (t : tx) (post : list tx),
        kept = pre ++ t :: post ->
        exists u1 : ureg, run_kept next u0 pre = Ok u1 /\ tx_authorized addr_of sig_ok u1 t.
Proof. exact produce_authorized. Qed.

(* ---- negative side: an input whose signature does not verify ---- *)

Theorem C03_unsigned_not_pooled :
  forall (value_fn : N -> bool -> Z -> N) (addr_of : string -> string) (sig_ok : input -> bool)
         (St : settings) (n : node) (t : tx) (i : input),
    In i (ins t) -> sig_ok i = false ->
    exists e : err, pool_add value_fn addr_of sig_ok St n t = Err e.
Proof. exact pool_add_unsigned. Qed.

Theorem C03_unsigned_not_kept :
  forall (value_fn : N -> bool -> Z -> N) (addr_of : string -> string) (sig_ok : input -> bool)
         (St : settings) (last next ts : Z) (u : ureg) (t : tx) (i : input),
    In i (ins t) -> sig_ok i = false ->
    keeps value_fn addr_of sig_ok St last next ts u t = None.
Proof. exact keeps_unsigned. Qed.

Theorem C03_unsigned_rejected :
  forall (value_fn : N -> bool -> Z -> N) (addr_of : string -> string) (sig_ok : input -> bool)
         (St : settings) (c : cstate) (b : block) (prev_ts now : Z) (t : tx) (i : input),
    In t (txs b) -> In i (ins t) -> sig_ok i = false ->
    exists e : err, verify_block value_fn addr_of sig_ok St c b prev_ts now = Err e.
Proof. exact verify_block_unsigned. Qed.

(* ---- negative side: an input whose key is not the recipient of the output it names ---- *)

Theorem C03_wrong_owner_not_pooled :
  forall (value_fn : N -> bool -> Z -> N) (addr_of : string -> string) (sig_ok : input -> bool)
         (St : settings) (n : node) (t : tx) (i : input) (u : utxo) (u1 u2 : ureg),
    let last := last_block_ts (chain (n_c n)) in
    let next := (last + s_interval St)%Z in
    update_utxos (ur (n_c n)) (last_block_txs (chain (n_c n))) last = Ok u1 ->
    update_utxos u1 (elems (n_pool n)) next = Ok u2 ->
    In i (ins t) -> find_utxo u2 i = Ok u -> o_addr (u_out u) <> addr_of (i_key i) ->
    exists e : err, pool_add value_fn addr_of sig_ok St n t = Err e.
Proof. exact pool_add_wrong_owner. Qed.

Theorem C03_wrong_owner_not_kept :
  forall (value_fn : N -> bool -> Z -> N) (addr_of : string -> string) (sig_ok : input -> bool)
         (St : settings) (last next ts : Z) (reg : ureg) (t : tx) (i : input) (u : utxo),
    In i (ins t) -> find_utxo reg i = Ok u -> o_addr (u_out u) <> addr_of (i_key i) ->
    keeps value_fn addr_of sig_ok St last next ts reg t = None.
Proof. exact keeps_wrong_owner. Qed.

Theorem C03_wrong_owner_rejected :
  forall (value_fn : N -> bool -> Z -> N) (addr_of : string -> string) (sig_ok : input -> bool)
         (St : settings) (c : cstate) (b : block) (prev_ts now : Z) (t : tx) (i : input) (u : utxo),
    In t (txs b) -> In i (ins t) ->
    find_utxo (ur c) i = Ok u -> o_addr (u_out u) <> addr_of (i_key i) ->
    exists e : err, verify_block value_fn addr_of sig_ok St c b prev_ts now = Err e.
Proof. exact verify_block_wrong_owner. Qed.

(* the fee calculation itself fails, with one of the three errors of the input loop, as soon as
   one input names no unconsumed output owned by its key *)
Theorem C03_unowned_fee_error :
  forall (value_fn : N -> bool -> Z -> N) (addr_of : string -> string)
         (fee : N) (reg : ureg) (t : tx) (ts : Z) (i : input),
    In i (ins t) ->
    ~ (exists u, find_utxo reg i = Ok u /\ o_addr (u_out u) = addr_of (i_key i)) ->
    exists e : err, calc_fee value_fn addr_of fee reg t ts = Err e /\
                    (e = EUnknownId \/ e = ENoIndex \/ e = EOwner).
Proof. exact calc_fee_unowned_err. Qed.

(* a transaction no running registry keeps is not in the block's selection *)
Theorem C03_never_kept_not_selected :
  forall (value_fn : N -> bool -> Z -> N) (addr_of : string -> string) (sig_ok : input -> bool)
         (St : settings) (last next ts : Z) (t : tx) (l : list tx) (u : ureg),
    (forall u1 : ureg, keeps value_fn addr_of sig_ok St last next ts u1 t = None) ->
    ~ In t (greedy value_fn addr_of sig_ok St last next ts l u).
Proof. exact greedy_not_kept. Qed.

(* ---- examples (signature valid = "sig" followed by the key; address of a key = the key) ---- *)
Import AcceptExample.

Example C03_ex_authorized : tx_authorized ao so_strict reg t0.
Proof. exact ex_authorized. Qed.

Example C03_ex_pooled : pool_add vf ao so_strict Sx n0 t0 = Ok n1.
Proof. vm_compute. reflexivity. Qed.

(* the first input of [t_forged] carries "xx" where "sigA" is due *)
Example C03_ex_forged_input :
  In (mkInput 0 "g0"%string "A"%string "xx"%string) (ins t_forged) /\
  so_strict (mkInput 0 "g0"%string "A"%string "xx"%string) = false.
Proof. split; [left; reflexivity|vm_compute; reflexivity]. Qed.

Example C03_ex_forged_not_pooled : pool_add vf ao so_strict Sx n0 t_forged = Err ESig.
Proof. vm_compute. reflexivity. Qed.

(* B signs correctly for the output (g0, 0), which belongs to A *)
Example C03_ex_thief_input :
  In (mkInput 0 "g0"%string "B"%string "sigB"%string) (ins t_thief) /\
  so_strict (mkInput 0 "g0"%string "B"%string "sigB"%string) = true /\
  find_utxo reg (mkInput 0 "g0"%string "B"%string "sigB"%string) = Ok uA /\
  o_addr (u_out uA) = "A"%string.
Proof. split; [left; reflexivity|]. split; [vm_compute; reflexivity|]. split; reflexivity. Qed.

Example C03_ex_thief_not_pooled : pool_add vf ao so_strict Sx n0 t_thief = Err EOwner.
Proof. vm_compute. reflexivity. Qed.

(* production drops both and keeps the honest transaction *)
Example C03_ex_produced :
  snd (validate vf ao so_strict Hx gid Sx "V"%string (mkNode c0 (Some [t_forged; t_thief; t0])) 30%Z
                [0%nat; 1%nat; 2%nat])
  = Produced [("t1"%string, DSig); ("t2"%string, DFee EOwner)].
Proof. vm_compute. reflexivity. Qed.

(* a block carrying the forged or the thief's transaction is refused *)
Example C03_ex_block_forged :
  verify_block vf ao so_strict Sx c0
    (mkBlock (Hx e1) None None 30%Z (Some [t_forged; mkTx "r30"%string None (Some [mkOutput "V"%string false 10]) 30%Z]))
    20%Z 100%Z = Err ESig.
Proof. vm_compute. reflexivity. Qed.

Example C03_ex_block_thief :
  verify_block vf ao so_strict Sx c0
    (mkBlock (Hx e1) None None 30%Z (Some [t_thief; mkTx "r30"%string None (Some [mkOutput "V"%string false 10]) 30%Z]))
    20%Z 100%Z = Err EOwner.
Proof. vm_compute. reflexivity. Qed.

Example C03_ex_block_honest : verify_block vf ao so_strict Sx c0 b2 20%Z 100%Z = Ok tt.
Proof. vm_compute. reflexivity. Qed.

Print Assumptions C03_authorized_means.
Print Assumptions C03_adopted.
Print Assumptions C03_adopted_chain.
Print Assumptions C03_pooled.
Print Assumptions C03_produced.
Print Assumptions C03_unsigned_not_pooled.
Print Assumptions C03_unsigned_not_kept.
Print Assumptions C03_unsigned_rejected.
Print Assumptions C03_wrong_owner_not_pooled.
Print Assumptions C03_wrong_owner_not_kept.
Print Assumptions C03_wrong_owner_rejected.
Print Assumptions C03_unowned_fee_error.
Print Assumptions C03_never_kept_not_selected.
