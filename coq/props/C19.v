(* C19 — the balance and the progress the access node reports (amount_controller.go,
   progress_controller.go).  Only property theorems, each closed by [exact] of a lemma. *)
From RV Require Import model.Base model.Views proofs.Wallet_lemmas proofs.Views_lemmas.
Local Open Scope N_scope.

(* the balance is the sum of the spendable outputs' values at query time (before the
   division by the unit size), as long as that sum fits a uint64; in general it is that sum
   modulo 2^64 *)
Theorem C19_amount : forall values, nsum values < two64 -> wallet_amount values = nsum values.
Proof. exact Views_lemmas.C19_amount. Qed.

Theorem C19_amount_wrap : forall values, wallet_amount values = nsum values mod two64.
Proof. exact Views_lemmas.C19_amount_wrap. Qed.

(* all requests succeeded: the four-way answer *)
Theorem C19_progress : forall s us ts b bs p,
  let a := progress_of (Some s) (Some us) (Some ts) (Some (b :: bs)) (Some p) in
  (a = PConfirmed <-> In s us) /\
  (a = PValidated <-> ~ In s us /\ In (fst s) b) /\
  (a = PSent <-> ~ In s us /\ ~ In (fst s) b /\ In (fst s) p) /\
  (a = PRejected <-> ~ In s us /\ ~ In (fst s) b /\ ~ In (fst s) p).
Proof. exact Views_lemmas.C19_progress. Qed.

(* the error table *)
Theorem C19_err_body : forall us ts bl p, progress_of None us ts bl p = PError 400.
Proof. exact Views_lemmas.C19_err_body. Qed.

Theorem C19_err_utxos : forall s ts bl p, progress_of (Some s) None ts bl p = PError 500.
Proof. exact Views_lemmas.C19_err_utxos. Qed.

Theorem C19_confirmed_masks : forall s us ts bl p,
  In s us -> progress_of (Some s) (Some us) ts bl p = PConfirmed.
Proof. exact Views_lemmas.C19_confirmed_masks. Qed.

Theorem C19_err_first_ts : forall s us bl p,
  ~ In s us -> progress_of (Some s) (Some us) None bl p = PError 500.
Proof. exact Views_lemmas.C19_err_first_ts. Qed.

Theorem C19_err_blocks : forall s us ts p,
  ~ In s us ->
  progress_of (Some s) (Some us) (Some ts) None p = PError 500 /\
  progress_of (Some s) (Some us) (Some ts) (Some []) p = PError 500.
Proof. exact Views_lemmas.C19_err_blocks. Qed.

Theorem C19_validated_masks : forall s us ts b bs p,
  ~ In s us -> In (fst s) b ->
  progress_of (Some s) (Some us) (Some ts) (Some (b :: bs)) p = PValidated.
Proof. exact Views_lemmas.C19_validated_masks. Qed.

Theorem C19_err_pool : forall s us ts b bs,
  ~ In s us -> ~ In (fst s) b ->
  progress_of (Some s) (Some us) (Some ts) (Some (b :: bs)) None = PError 500.
Proof. exact Views_lemmas.C19_err_pool. Qed.

Theorem C19_err_codes : forall s us ts bl p c,
  progress_of s us ts bl p = PError c ->
  (c = 400 /\ s = None) \/ (c = 500 /\ s <> None).
Proof. exact Views_lemmas.C19_err_codes. Qed.

(* ---- examples ---- *)
Example C19_ex_amount : wallet_amount [5; 0; 7; 5] = 17 /\ nsum [5; 0; 7; 5] < two64.
Proof. split; vm_compute; reflexivity. Qed.

(* the uint64 accumulator wraps: two outputs worth 2^64 - 1 and 2 report a balance of 1 *)
Example C19_ex_amount_wraps : wallet_amount [two64 - 1; 2] = 1.
Proof. vm_compute. reflexivity. Qed.

Example C19_ex_progress :
  let s := ("t1"%string, 1) in
  progress_of (Some s) (Some [("t0"%string, 0); ("t1"%string, 1)]) None None None = PConfirmed /\
  progress_of (Some s) (Some [("t1"%string, 0)]) (Some 7%Z) (Some [["t0"%string; "t1"%string]; []]) None = PValidated /\
  progress_of (Some s) (Some [("t1"%string, 0)]) (Some 7%Z) (Some [["t0"%string]; ["t1"%string]]) (Some ["t1"%string]) = PSent /\
  progress_of (Some s) (Some []) (Some 7%Z) (Some [[]]) (Some ["t2"%string]) = PRejected /\
  progress_of (Some s) (Some [("t1"%string, 0)]) None (Some [["t1"%string]]) (Some []) = PError 500 /\
  progress_of (Some s) (Some []) (Some 7%Z) (Some []) (Some ["t1"%string]) = PError 500 /\
  progress_of None (Some []) (Some 7%Z) (Some [[]]) (Some []) = PError 400.
Proof. cbn zeta. repeat split; vm_compute; reflexivity. Qed.

Print Assumptions C19_amount.
Print Assumptions C19_amount_wrap.
Print Assumptions C19_progress.
Print Assumptions C19_err_body.
Print Assumptions C19_err_utxos.
Print Assumptions C19_confirmed_masks.
Print Assumptions C19_err_first_ts.
Print Assumptions C19_err_blocks.
Print Assumptions C19_validated_masks.
Print Assumptions C19_err_pool.
Print Assumptions C19_err_codes.
