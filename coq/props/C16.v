(* C16 — the node's concurrent activities produce no data race and no deadlock: the table-based
   part of the argument.
   (a) Two checks computed on the tables regenerated from the Go source on every run
       (gen/Lockset_gen.v, gen/Known_gen.v): every racing pair of the access table is a known
       finding, and the lock-acquisition order graph is acyclic.
   (b) The generic theory that gives those two checks their meaning, for ANY table and ANY edge
       set, in the interleaving semantics of threads and RWMutexes of model/LockSem.v: mutual
       exclusion, the Eraser-style theorem (accesses protected by a common lock, one of them
       exclusively, are never both about to execute), "nothing outside the known findings can
       race", a rank from the acyclicity check, and absence of deadlock for any number of threads
       acquiring along that rank.
   This file contains only the property theorems, each closed by [exact] of a lemma of
   proofs/Lockset_lemmas.v (or by computation on the generated tables).
   Quantifiers: every family of thread programs [progs : nat -> program], every reachable state
   of every interleaving, every table / known list / edge set. *)
From RV Require Import model.Base model.Lockset model.LockSem proofs.Lockset_lemmas
  gen.Lockset_gen gen.Known_gen.

(* ---- (a) the checks on the regenerated tables ---- *)

(* the regenerated table has no racy pair outside the known findings *)
Theorem C16_lockset :
  forallb (fun p => mem_str (race_key p) Known_gen.known_race_keys)
          (race_pairs Lockset_gen.table) = true.
Proof. vm_compute. reflexivity. Qed.

(* the regenerated lock-order graph is acyclic *)
Theorem C16_lock_order_acyclic : acyclic Lockset_gen.lock_edges = true.
Proof. vm_compute. reflexivity. Qed.

(* ---- (b) what the checks mean ---- *)

(* a lock held in write mode is held by nobody else in any mode *)
Theorem C16_mutual_exclusion : forall progs s, reachable progs s ->
  forall i j l, holds_w (t_held (s i)) l = true -> j <> i -> holds_any (t_held (s j)) l = false.
Proof. exact mutual_exclusion. Qed.

(* two accesses of different threads that are both about to execute do not hold a common lock
   one of them exclusively; read backwards: accesses with such a lock are ordered by it *)
Theorem C16_no_simultaneous_conflict : forall progs s i j a b,
  (forall k, well_bracketed (progs k)) -> reachable progs s -> i <> j ->
  next_is s i (EAccess a) -> next_is s j (EAccess b) -> common_excl a b = false.
Proof. exact no_simultaneous_conflict. Qed.

(* every racing pair of the table being in [known], nothing else can race *)
Theorem C16_table_race_free : forall tbl known progs s i j a b,
  (forall k, well_bracketed (progs k)) -> (forall k, accesses_in tbl (progs k)) ->
  (forall p, In p (race_pairs tbl) -> In p known) ->
  reachable progs s -> i <> j ->
  next_is s i (EAccess a) -> next_is s j (EAccess b) ->
  may_overlap a b = true -> conflict a b = true ->
  In (a, b) known \/ In (b, a) known.
Proof. exact table_race_free. Qed.

(* the same with [may_overlap] derived: one entry point per thread, engine entry points run by
   a single thread *)
Theorem C16_table_race_free_entries : forall tbl known entry progs s i j a b,
  (forall k, well_bracketed (progs k)) -> (forall k, accesses_in tbl (progs k)) ->
  runs_entries entry progs -> engine_single entry ->
  (forall p, In p (race_pairs tbl) -> In p known) ->
  reachable progs s -> i <> j ->
  next_is s i (EAccess a) -> next_is s j (EAccess b) ->
  conflict a b = true ->
  In (a, b) known \/ In (b, a) known.
Proof. exact table_race_free_entries. Qed.

(* an empty [race_pairs]: conflicting accesses are never both about to execute *)
Theorem C16_table_race_free_nil : forall tbl progs s i j a b,
  (forall k, well_bracketed (progs k)) -> (forall k, accesses_in tbl (progs k)) ->
  race_pairs tbl = [] ->
  reachable progs s -> i <> j ->
  next_is s i (EAccess a) -> next_is s j (EAccess b) ->
  may_overlap a b = true -> conflict a b = false.
Proof. exact table_race_free_nil. Qed.

(* the node: whatever well-bracketed programs over the regenerated table the goroutines run,
   two conflicting accesses about to execute together are one of the known findings *)
Theorem C16_node_race_free : forall progs s i j a b,
  (forall k, well_bracketed (progs k)) -> (forall k, accesses_in Lockset_gen.table (progs k)) ->
  reachable progs s -> i <> j ->
  next_is s i (EAccess a) -> next_is s j (EAccess b) ->
  may_overlap a b = true -> conflict a b = true ->
  mem_str (race_key (a, b)) Known_gen.known_race_keys = true.
Proof. exact (table_race_free_keys Lockset_gen.table Known_gen.known_race_keys C16_lockset). Qed.

(* the peeling check yields a rank along which every edge goes strictly up; no self-loop *)
Theorem C16_acyclic_rank : forall edges, acyclic edges = true ->
  exists rank : string -> nat, forall a b, In (a, b) edges -> a <> b -> rank a < rank b.
Proof. exact acyclic_rank. Qed.

Theorem C16_acyclic_no_self_loop : forall edges, acyclic edges = true ->
  forall a, ~ In (a, a) edges.
Proof. exact acyclic_no_self_loop. Qed.

(* any number of threads acquiring in strictly increasing rank and releasing what they acquire:
   no reachable state is a deadlock, and in fact some thread can always move *)
Theorem C16_ordered_no_deadlock : forall progs rank n,
  finite_threads n progs -> (forall k, ordered rank (progs k)) ->
  (forall k, balanced (progs k)) ->
  forall s, reachable progs s -> ~ deadlock s.
Proof. exact ordered_no_deadlock. Qed.

Theorem C16_ordered_progress : forall progs rank n,
  finite_threads n progs -> (forall k, ordered rank (progs k)) ->
  (forall k, balanced (progs k)) ->
  forall s, reachable progs s -> (exists i, unfinished s i) -> exists s', step s s'.
Proof. exact ordered_progress. Qed.

(* the node: threads whose nested acquisitions are all edges of the regenerated graph *)
Theorem C16_node_no_deadlock : forall progs n,
  finite_threads n progs -> (forall k, follows_edges Lockset_gen.lock_edges (progs k)) ->
  (forall k, balanced (progs k)) ->
  forall s, reachable progs s -> ~ deadlock s.
Proof.
  exact (fun progs n => acyclic_no_deadlock progs Lockset_gen.lock_edges n C16_lock_order_acyclic).
Qed.

(* ---- the hypotheses are satisfiable and the conclusions not vacuous: a tiny instance ---- *)
(* T.x written under T.mu (then U.mu nested), read under T.mu, and read by Peek with no lock *)
Example ex_table_has_a_race : race_pairs ex_tbl = [(ex_w, ex_u)].
Proof. vm_compute. reflexivity. Qed.
Example ex_table_checked :
  forallb (fun p => mem_str (race_key p) ex_keys) (race_pairs ex_tbl) = true.
Proof. vm_compute. reflexivity. Qed.
Example ex_well_bracketed : forallb wb_check ex_ps = true.
Proof. vm_compute. reflexivity. Qed.
Example ex_in_table : forallb (accesses_check ex_tbl) ex_ps = true.
Proof. vm_compute. reflexivity. Qed.
Example ex_follows_edges : forallb (follows_check ex_edges) ex_ps = true.
Proof. vm_compute. reflexivity. Qed.
Example ex_balanced : forallb balanced_check ex_ps = true.
Proof. vm_compute. reflexivity. Qed.
Example ex_acyclic : acyclic ex_edges = true.
Proof. vm_compute. reflexivity. Qed.

(* the generic theorems instantiated on the three threads *)
Example ex_no_simultaneous_conflict : forall s i j a b,
  reachable (progs_of ex_ps) s -> i <> j ->
  next_is s i (EAccess a) -> next_is s j (EAccess b) -> common_excl a b = false.
Proof. exact (checked_no_simultaneous_conflict ex_ps eq_refl). Qed.
Example ex_race_free : forall s i j a b,
  reachable (progs_of ex_ps) s -> i <> j ->
  next_is s i (EAccess a) -> next_is s j (EAccess b) ->
  may_overlap a b = true -> conflict a b = true ->
  mem_str (race_key (a, b)) ex_keys = true.
Proof. exact (checked_race_free ex_tbl ex_keys ex_ps eq_refl eq_refl eq_refl). Qed.
Example ex_no_deadlock : forall s, reachable (progs_of ex_ps) s -> ~ deadlock s.
Proof. exact (checked_no_deadlock ex_edges ex_ps eq_refl eq_refl eq_refl). Qed.

(* the one excluded pair is really reachable: the exclusion list is not a convenience *)
Example ex_known_race_is_real : exists s, reachable (progs_of ex_ps) s /\
  next_is s 0 (EAccess ex_w) /\ next_is s 2 (EAccess ex_u) /\
  conflict ex_w ex_u = true /\ common_excl ex_w ex_u = false.
Proof. exact ex_known_race_realizable. Qed.

(* opposite acquisition orders: the check says no, and the semantics does deadlock *)
Example ex_bad_rejected : acyclic ex_bad_edges = false.
Proof. vm_compute. reflexivity. Qed.
Example ex_bad_follows : forallb (follows_check ex_bad_edges) ex_bad_ps = true.
Proof. vm_compute. reflexivity. Qed.
Example ex_bad_deadlock : exists s, reachable (progs_of ex_bad_ps) s /\ deadlock s.
Proof. exact ex_bad_deadlocks. Qed.

Print Assumptions C16_lockset.
Print Assumptions C16_lock_order_acyclic.
Print Assumptions C16_mutual_exclusion.
Print Assumptions C16_no_simultaneous_conflict.
Print Assumptions C16_table_race_free.
Print Assumptions C16_table_race_free_entries.
Print Assumptions C16_table_race_free_nil.
Print Assumptions C16_node_race_free.
Print Assumptions C16_acyclic_rank.
Print Assumptions C16_acyclic_no_self_loop.
Print Assumptions C16_ordered_no_deadlock.
Print Assumptions C16_ordered_progress.
Print Assumptions C16_node_no_deadlock.
