(* C14 on byte strings — "No byte string delivered to any validator endpoint, returned by a
   neighbor to a sync request, ... can make the process panic.  Malformed or semantically empty
   messages ... are answered with an error or ignored and leave all state unchanged."
   The handlers of model/WireBytes.v take the received TEXT: json.Unmarshal first runs checkValid
   (model/JsonParse.v parse_json); a text that is not JSON is refused there, before any field is
   assigned; otherwise the tree-level handler of model/Handlers.v runs on the tree that was read.
   Every statement below is for EVERY string: there is no hypothesis on the text.
   [Err (EPanic s)] marks the places where the Go code would panic (model/Ledger.v panic_site);
   [node_ok n] = every pooled transaction and every transaction of every block has an output.
   This file contains only the property theorems, each closed by [exact] of a lemma of
   proofs/WireBytes_lemmas.v. *)
From RV Require Import model.Base model.Json model.Ledger model.Registry model.Chain model.Sync
     model.Pool model.Reach model.WireDec model.Handlers model.JsonParse model.WireBytes
     proofs.Panic_lemmas proofs.WireBytes_lemmas.

(* ---- the transaction endpoint: any byte string ---- *)
Theorem C14_transaction_endpoint_bytes :
  forall value_fn addr_of sig_ok S on_curve Hb s n,
    node_ok n ->
    let '(n', ok) := handle_transaction_bytes value_fn addr_of sig_ok S on_curve Hb n s in
    node_ok n' /\ (ok = false -> n' = n) /\
    forall site, handle_transaction_result_bytes value_fn addr_of sig_ok S on_curve Hb n s <> Err (EPanic site).
Proof. exact transaction_endpoint_bytes. Qed.

Theorem C14_transaction_syntax_error :
  forall value_fn addr_of sig_ok S on_curve Hb s n,
    parse_json s = None ->
    handle_transaction_bytes value_fn addr_of sig_ok S on_curve Hb n s = (n, false) /\
    handle_transaction_result_bytes value_fn addr_of sig_ok S on_curve Hb n s = Err EDecode.
Proof. exact transaction_syntax_error. Qed.

(* ---- a sync round: any byte strings as answers ---- *)
Theorem C14_sync_answer_bytes :
  forall value_fn addr_of sig_ok H gen_id S validator on_curve Hb answers n now pref,
    node_ok n ->
    node_ok (sync_with_bytes value_fn addr_of sig_ok H gen_id S validator on_curve Hb n now answers pref) /\
    (forall t si sf l host lh now' site, In (t, si, sf) answers ->
       response_of_answer_bytes on_curve Hb si = RBlocks l \/ response_of_answer_bytes on_curve Hb sf = RBlocks l ->
       verify value_fn addr_of sig_ok H S host lh l (removelast (chain (n_c n))) now' <> Err (EPanic site) /\
       verify value_fn addr_of sig_ok H S host lh l [] now' <> Err (EPanic site)) /\
    (forall sel b u site,
       select pref (survivors (n_c n)
                      (candidates value_fn addr_of sig_ok H S (n_c n) now
                                  (map (neighbor_of_answer_bytes on_curve Hb) answers))) = Some sel ->
       In b sel -> update_utxos u (txs b) (b_ts b) <> Err (EPanic site)) /\
    ((forall t si sf, In (t, si, sf) answers ->
        match decode_blocks_bytes on_curve Hb si with
        | None => True | Some (Err _) => True | Some (Ok l) => In None l end /\
        match decode_blocks_bytes on_curve Hb sf with
        | None => True | Some (Err _) => True | Some (Ok l) => In None l end) ->
     sync_with_bytes value_fn addr_of sig_ok H gen_id S validator on_curve Hb n now answers pref = n).
Proof. exact sync_answer_bytes. Qed.

(* an answer that is not JSON, does not decode, or holds a null block is a failed answer *)
Theorem C14_bad_answer_bytes_fails :
  forall on_curve Hb s,
    match decode_blocks_bytes on_curve Hb s with
    | None => True | Some (Err _) => True | Some (Ok l) => In None l end ->
    response_of_answer_bytes on_curve Hb s = RFail EDecode.
Proof. exact bad_answer_bytes_fails. Qed.

(* the tree standing for a text that is not JSON (tree_of_text) is one the decoders refuse, and
   the byte-level functions are the tree-level ones on it *)
Theorem C14_unparsable_tree_rejected :
  forall on_curve Hb, unmarshal_blocks on_curve Hb (JStr EmptyString) = Err DType.
Proof. exact unparsable_tree_rejected. Qed.

Theorem C14_unparsable_tree_request_rejected :
  forall on_curve Hb, unmarshal_request on_curve Hb (JStr EmptyString) = Err DType.
Proof. exact unparsable_tree_request_rejected. Qed.

Theorem C14_response_bytes_is_tree :
  forall on_curve Hb s,
    response_of_answer_bytes on_curve Hb s = response_of_answer on_curve Hb (tree_of_text s).
Proof. exact response_of_answer_bytes_tree. Qed.

Theorem C14_sync_bytes_is_tree :
  forall value_fn addr_of sig_ok H gen_id S validator on_curve Hb n now answers pref,
    sync_with_bytes value_fn addr_of sig_ok H gen_id S validator on_curve Hb n now answers pref =
    sync_with value_fn addr_of sig_ok H gen_id S validator on_curve Hb n now (answers_of_bytes answers) pref.
Proof. exact sync_with_bytes_tree. Qed.

Theorem C14_run_bytes_is_tree :
  forall value_fn addr_of sig_ok H gen_id S validator on_curve Hb ops n,
    run_bytes value_fn addr_of sig_ok H gen_id S validator on_curve Hb n ops =
    run_wire value_fn addr_of sig_ok H gen_id S validator on_curve Hb n (map wire_of_bytes ops).
Proof. exact run_bytes_tree. Qed.

(* ---- then any sequence of operations fed with byte strings ---- *)
Theorem C14_then_any_operations_bytes :
  forall value_fn addr_of sig_ok H gen_id S validator on_curve Hb n ops,
    node_ok n ->
    node_ok (run_bytes value_fn addr_of sig_ok H gen_id S validator on_curve Hb n ops) /\
    forall pre w post s, ops = pre ++ w :: post ->
      ~ bytes_panic value_fn addr_of sig_ok H gen_id S validator on_curve Hb
          (run_bytes value_fn addr_of sig_ok H gen_id S validator on_curve Hb n pre) w s.
Proof. exact then_any_operations_bytes. Qed.

Theorem C14_from_boot_bytes :
  forall value_fn addr_of sig_ok H gen_id S validator on_curve Hb ops,
    node_ok (run_bytes value_fn addr_of sig_ok H gen_id S validator on_curve Hb node_empty ops) /\
    forall pre w post s, ops = pre ++ w :: post ->
      ~ bytes_panic value_fn addr_of sig_ok H gen_id S validator on_curve Hb
          (run_bytes value_fn addr_of sig_ok H gen_id S validator on_curve Hb node_empty pre) w s.
Proof. exact from_boot_bytes. Qed.

(* ---- the read-only endpoints ---- *)
Theorem C14_blocks_endpoint_bytes :
  forall S n s site,
    (N.of_nat (length (chain (n_c n))) + s_limit S <= two64)%N ->
    handle_blocks_bytes S n s <> Some (Ok (Err (EPanic site))).
Proof. exact blocks_endpoint_bytes. Qed.

Theorem C14_utxos_endpoint_bytes :
  forall n s,
    handle_utxos_bytes n s = None \/ handle_utxos_bytes n s = Some (Err DType) \/
    exists a, handle_utxos_bytes n s = Some (Ok (utxos_of (ur (n_c n)) a)).
Proof. exact utxos_endpoint_bytes. Qed.

Theorem C14_targets_endpoint_bytes :
  forall s,
    handle_targets_bytes s = None \/ (exists e, handle_targets_bytes s = Some (Err e)) \/
    exists j l, parse_json s = Some j /\ dec_strs None j = Ok l /\
                handle_targets_bytes s = Some (Ok (elems l)).
Proof. exact targets_endpoint_bytes. Qed.

Theorem C14_read_only_syntax_error :
  forall S n s,
    parse_json s = None ->
    handle_blocks_bytes S n s = None /\ handle_utxos_bytes n s = None /\ handle_targets_bytes s = None.
Proof. exact read_only_syntax_error. Qed.

(* ---- examples (toy oracles of PanicExample: every block hash is zero, every id is "") ---- *)
Local Open Scope string_scope.

(* empty, truncated, garbage, null, empty object, null transaction, an array: refused, unchanged *)
Example C14_bytes_ex_refused :
  handle_transaction_bytes PanicExample.vf PanicExample.ao PanicExample.so PanicExample.S1
    PanicExample.oc PanicExample.Hz PanicExample.n_gen "" = (PanicExample.n_gen, false) /\
  handle_transaction_bytes PanicExample.vf PanicExample.ao PanicExample.so PanicExample.S1
    PanicExample.oc PanicExample.Hz PanicExample.n_gen "{""Transaction"":{""id"":" = (PanicExample.n_gen, false) /\
  handle_transaction_bytes PanicExample.vf PanicExample.ao PanicExample.so PanicExample.S1
    PanicExample.oc PanicExample.Hz PanicExample.n_gen (String "255" (String "000" "}")) = (PanicExample.n_gen, false) /\
  handle_transaction_bytes PanicExample.vf PanicExample.ao PanicExample.so PanicExample.S1
    PanicExample.oc PanicExample.Hz PanicExample.n_gen "null" = (PanicExample.n_gen, false) /\
  handle_transaction_bytes PanicExample.vf PanicExample.ao PanicExample.so PanicExample.S1
    PanicExample.oc PanicExample.Hz PanicExample.n_gen "{}" = (PanicExample.n_gen, false) /\
  handle_transaction_bytes PanicExample.vf PanicExample.ao PanicExample.so PanicExample.S1
    PanicExample.oc PanicExample.Hz PanicExample.n_gen "{""Transaction"":null}" = (PanicExample.n_gen, false) /\
  handle_transaction_bytes PanicExample.vf PanicExample.ao PanicExample.so PanicExample.S1
    PanicExample.oc PanicExample.Hz PanicExample.n_gen "[1]" = (PanicExample.n_gen, false) /\
  handle_transaction_bytes PanicExample.vf PanicExample.ao PanicExample.so PanicExample.S1
    PanicExample.oc PanicExample.Hz PanicExample.n_gen
    "{""Transaction"":{""id"":"""",""inputs"":[],""outputs"":[],""timestamp"":10}}" = (PanicExample.n_gen, false) /\
  handle_transaction_result_bytes PanicExample.vf PanicExample.ao PanicExample.so PanicExample.S1
    PanicExample.oc PanicExample.Hz PanicExample.n_gen "{""Transaction"":" = Err EDecode.
Proof. vm_compute. repeat split; reflexivity. Qed.

(* the endpoint is not vacuous: the text of a decodable transaction spending the genesis output
   (with whitespace around it) is accepted on the node that has produced its genesis block *)
Example C14_bytes_ex_accepted :
  node_ok PanicExample.n_gen /\
  snd (handle_transaction_bytes PanicExample.vf PanicExample.ao PanicExample.so PanicExample.S1
         PanicExample.oc PanicExample.Hz PanicExample.n_gen
         (" " ++ render (PanicExample.jreq (PanicExample.jtx (JArr [PanicExample.jin]) (JArr [PanicExample.jout])))
              ++ String "010" ""))
  = true.
Proof. split; [exact n_gen_ok | vm_compute; reflexivity]. Qed.

(* sync answers given as texts: garbage, empty, a null block, a null transaction, a number are
   failed answers and the round leaves the node as it was; "null" and a decodable list are blocks *)
Example C14_bytes_ex_sync :
  response_of_answer_bytes PanicExample.oc PanicExample.Hz "" = RFail EDecode /\
  response_of_answer_bytes PanicExample.oc PanicExample.Hz "[{""timestamp"":10" = RFail EDecode /\
  response_of_answer_bytes PanicExample.oc PanicExample.Hz "[null]" = RFail EDecode /\
  response_of_answer_bytes PanicExample.oc PanicExample.Hz "[{""timestamp"":10,""transactions"":[null]}]" = RFail EDecode /\
  response_of_answer_bytes PanicExample.oc PanicExample.Hz "3" = RFail EDecode /\
  response_of_answer_bytes PanicExample.oc PanicExample.Hz " null " = RBlocks [] /\
  (exists b, response_of_answer_bytes PanicExample.oc PanicExample.Hz
               "[{""timestamp"":10,""transactions"":[{""id"":"""",""outputs"":[{""address"":""A"",""value"":5}],""timestamp"":10}]}]"
             = RBlocks [b]) /\
  sync_with_bytes PanicExample.vf PanicExample.ao PanicExample.so PanicExample.Hk PanicExample.gid
                  PanicExample.S1 PanicExample.key PanicExample.oc PanicExample.Hz PanicExample.n_gen 30
                  [("n1:1", "[null]", "3"); ("n2:1", "", "[{""transactions"":[null]}]"); ("n3:1", "{", "nul")]
                  "" = PanicExample.n_gen.
Proof. vm_compute. repeat split; try reflexivity. eexists. reflexivity. Qed.

(* a mixed run from boot, every input a text *)
Example C14_bytes_ex_run :
  length (chain (n_c (run_bytes PanicExample.vf PanicExample.ao PanicExample.so PanicExample.Hk
                        PanicExample.gid PanicExample.S1 PanicExample.key PanicExample.oc
                        PanicExample.Hz node_empty
                        [BTick 10 [];
                         BTx (render (PanicExample.jreq (PanicExample.jtx (JArr [PanicExample.jin])
                                                                          (JArr [PanicExample.jout]))));
                         BSync 30 [("n1:1", "null", "[null]"); ("n2:1", "", "]")] "";
                         BTx "null";
                         BTx "{""Transaction"":";
                         BTick 20 [0%nat];
                         BRefresh (fun _ => None) []]))) = 2%nat.
Proof. vm_compute. reflexivity. Qed.

(* the read-only endpoints on texts: not JSON, null, wrong types, extreme numbers *)
Example C14_bytes_ex_read_only :
  handle_blocks_bytes PanicExample.S1 PanicExample.n_gen "" = None /\
  handle_blocks_bytes PanicExample.S1 PanicExample.n_gen "0x10" = None /\
  handle_blocks_bytes PanicExample.S1 PanicExample.n_gen "null" = Some (Ok (Ok (chain (n_c PanicExample.n_gen)))) /\
  handle_blocks_bytes PanicExample.S1 PanicExample.n_gen "-1" = Some (Err DRange) /\
  handle_blocks_bytes PanicExample.S1 PanicExample.n_gen "18446744073709551616" = Some (Err DRange) /\
  handle_blocks_bytes PanicExample.S1 PanicExample.n_gen "18446744073709551615" = Some (Ok (Ok [])) /\
  handle_blocks_bytes PanicExample.S1 PanicExample.n_gen "1e3" = Some (Err DType) /\
  handle_blocks_bytes PanicExample.S1 PanicExample.n_gen """0""" = Some (Err DType) /\
  handle_utxos_bytes PanicExample.n_gen "null" = Some (Ok []) /\
  handle_utxos_bytes PanicExample.n_gen "1" = Some (Err DType) /\
  handle_utxos_bytes PanicExample.n_gen """abc" = None /\
  handle_targets_bytes "null" = Some (Ok []) /\
  handle_targets_bytes "[null, ""a:1""]" = Some (Ok [""; "a:1"]) /\
  handle_targets_bytes "[1]" = Some (Err DType) /\
  handle_targets_bytes "[""a:1""," = None.
Proof. vm_compute. repeat split; reflexivity. Qed.

Print Assumptions C14_transaction_endpoint_bytes.
Print Assumptions C14_transaction_syntax_error.
Print Assumptions C14_sync_answer_bytes.
Print Assumptions C14_bad_answer_bytes_fails.
Print Assumptions C14_unparsable_tree_rejected.
Print Assumptions C14_unparsable_tree_request_rejected.
Print Assumptions C14_response_bytes_is_tree.
Print Assumptions C14_sync_bytes_is_tree.
Print Assumptions C14_run_bytes_is_tree.
Print Assumptions C14_then_any_operations_bytes.
Print Assumptions C14_from_boot_bytes.
Print Assumptions C14_blocks_endpoint_bytes.
Print Assumptions C14_utxos_endpoint_bytes.
Print Assumptions C14_targets_endpoint_bytes.
Print Assumptions C14_read_only_syntax_error.
