(* C08 — "Paging by height never skips, repeats or reorders blocks and never returns more than
   the page size. A node that is behind, or on a private chain, and syncs page by page from a
   reachable aligned node holds exactly that node's chain C after at most
   1 + ceil(|C| / (page - 1)) sync rounds."
   This file restates the PAGING half only (Blockchain.Blocks, blockchain.go:59-73), as
   C08_paging_*. The convergence half (the bound on the number of sync rounds) is not in this
   file: it is a statement about Update over several rounds and is not proved here.
   [blocks_page S c h] does the Go uint64 arithmetic: [h + limit] wraps, and
   [Err (EPanic PsSliceBounds)] is the slice expression with its end below [h]. The theorems
   cover every height and every page size with [n + limit <= 2^64]; the wrap case is a matter of
   the BlocksCountLimit setting, not of any input, and is exhibited at the end.
   This file contains only the property theorems, each closed by [exact] of a lemma. *)
From RV Require Import model.Base model.Ledger model.Registry model.Chain proofs.Paging_lemmas.

(* the page is the contiguous slice c[h .. min (h + limit, n)) *)
Theorem C08_paging_spec :
  forall (S : settings) (c : list block) (h : N),
    (N.of_nat (length c) + s_limit S <= two64)%N ->
    blocks_page S c h = Ok (firstn (N.to_nat (s_limit S)) (skipn (N.to_nat h) c)).
Proof. exact blocks_page_spec. Qed.

Theorem C08_paging_no_panic :
  forall (S : settings) (c : list block) (h : N),
    (N.of_nat (length c) + s_limit S <= two64)%N -> exists p, blocks_page S c h = Ok p.
Proof. exact blocks_page_no_panic. Qed.

(* never more than the page size: whenever a page is returned, for any setting *)
Theorem C08_paging_length_le :
  forall (S : settings) (c : list block) (h : N) (p : list block),
    blocks_page S c h = Ok p -> (N.of_nat (length p) <= s_limit S)%N.
Proof. exact page_length_le. Qed.

(* nothing withheld: as many blocks as the page size and the chain allow *)
Theorem C08_paging_length :
  forall (S : settings) (c : list block) (h : N) (p : list block),
    (N.of_nat (length c) + s_limit S <= two64)%N ->
    blocks_page S c h = Ok p ->
    N.of_nat (length p) = N.min (s_limit S) (N.of_nat (length c) - h).
Proof. exact page_length. Qed.

(* element j of the page is element h + j of the chain: whenever a page is returned *)
Theorem C08_paging_nth :
  forall (S : settings) (c : list block) (h : N) (p : list block) (j : nat),
    blocks_page S c h = Ok p -> j < length p ->
    nth_error p j = nth_error c (N.to_nat h + j).
Proof. exact page_nth. Qed.

Theorem C08_paging_empty_iff :
  forall (S : settings) (c : list block) (h : N),
    (N.of_nat (length c) + s_limit S <= two64)%N ->
    (blocks_page S c h = Ok [] <->
     (length c = 0 \/ (N.of_nat (length c) <= h)%N \/ s_limit S = 0%N)).
Proof. exact page_empty_iff. Qed.

(* the pages at h, h + limit, h + 2 limit, ... ([length c] of them are enough), end to end,
   are the chain from h on *)
Theorem C08_paging_concat :
  forall (S : settings) (c : list block) (h : N),
    (0 < s_limit S)%N -> (N.of_nat (length c) + s_limit S <= two64)%N ->
    pages_from S (length c) c h = Ok (skipn (N.to_nat h) c).
Proof. exact pages_concat. Qed.

Theorem C08_paging_rebuild :
  forall (S : settings) (c : list block),
    (0 < s_limit S)%N -> (N.of_nat (length c) + s_limit S <= two64)%N ->
    pages_from S (length c) c 0 = Ok c.
Proof. exact pages_rebuild_chain. Qed.

(* the wrap: inside the chain, a page size with h + limit >= 2^64 panics *)
Theorem C08_paging_wrap_panics :
  forall (S : settings) (c : list block) (h : N),
    (h < two64)%N -> (h < N.of_nat (length c))%N -> (s_limit S < two64)%N ->
    (two64 <= h + s_limit S)%N ->
    blocks_page S c h = Err (EPanic PsSliceBounds).
Proof. exact blocks_page_wrap_panics. Qed.

Theorem C08_paging_huge_limit_panics :
  blocks_page PagingExample.Shuge PagingExample.c3 1 = Err (EPanic PsSliceBounds).
Proof. exact blocks_page_huge_limit_panics. Qed.

(* ---- the hypotheses are satisfiable; the functions run ---- *)
Example C08_ex_pages :
  blocks_page PagingExample.S2 PagingExample.c5 0 = Ok [PagingExample.blk 0; PagingExample.blk 10] /\
  blocks_page PagingExample.S2 PagingExample.c5 2 = Ok [PagingExample.blk 20; PagingExample.blk 30] /\
  blocks_page PagingExample.S2 PagingExample.c5 4 = Ok [PagingExample.blk 40] /\
  blocks_page PagingExample.S2 PagingExample.c5 5 = Ok [] /\
  blocks_page PagingExample.S2 PagingExample.c5 (two64 - 1) = Ok [].
Proof. vm_compute. repeat split; reflexivity. Qed.

Example C08_ex_concat :
  pages_from PagingExample.S2 5 PagingExample.c5 0 = Ok PagingExample.c5 /\
  pages_from PagingExample.S2 5 PagingExample.c5 3 = Ok [PagingExample.blk 30; PagingExample.blk 40].
Proof. vm_compute. split; reflexivity. Qed.

Example C08_ex_hypothesis :
  (0 < s_limit PagingExample.S2)%N /\
  (N.of_nat (length PagingExample.c5) + s_limit PagingExample.S2 <= two64)%N.
Proof. vm_compute. split; [reflexivity | discriminate]. Qed.

Example C08_ex_huge_limit_height0 :
  blocks_page PagingExample.Shuge PagingExample.c3 0 = Ok PagingExample.c3.
Proof. exact blocks_page_huge_limit_height0_ok. Qed.

Print Assumptions C08_paging_spec.
Print Assumptions C08_paging_no_panic.
Print Assumptions C08_paging_length_le.
Print Assumptions C08_paging_length.
Print Assumptions C08_paging_nth.
Print Assumptions C08_paging_empty_iff.
Print Assumptions C08_paging_concat.
Print Assumptions C08_paging_rebuild.
Print Assumptions C08_paging_wrap_panics.
Print Assumptions C08_paging_huge_limit_panics.
