(* C06 (layout) — The fork choice does not depend on where a block keeps its reward transaction.
   Verification accepts the single reward of a block at any position of its transaction list; this
   implementation's pool always puts it last, a neighbor may serve another layout. Two candidate
   chains that differ only by the order of the transactions inside their blocks have the same
   validator waiting time, and two sync rounds whose candidates differ only in that way select the
   candidate of the same neighbor. A variant that reads only the last transaction of each earlier
   block (seeded change C06f) agrees on reward-last blocks but prefers the other chain on a legal
   layout, and its waiting time changes when a reward is moved inside a block.
   This file contains only the property theorems, each closed by [exact] of a lemma. *)
From RV Require Import model.Base model.Ledger model.Registry model.Chain model.Sync model.Reach
     proofs.Layout_lemmas.

Theorem C06_age_layout_invariant :
  forall l l' : list block,
    Forall2 same_layout_free l l' ->
    Forall one_reward l ->
    age_of l = age_of l'.
Proof. exact age_of_layout_invariant. Qed.

Theorem C06_select_layout_invariant :
  forall (pref : string) (m m' : cands),
    Forall2 cand_layout m m' ->
    cands_one_reward m ->
    match select pref m, select pref m' with
    | None, None => True
    | Some c, Some c' =>
      exists (i : nat) (t : string),
        nth_error m i = Some (t, c) /\ nth_error m' i = Some (t, c') /\
        Forall2 same_layout_free c c' /\ age_of c = age_of c'
    | _, _ => False
    end.
Proof. exact select_layout_invariant. Qed.

Theorem C06_last_only_refuted :
  exists X Y X' : list block,
    Forall one_reward X /\ Forall one_reward Y /\ length X = length Y /\
    (age_of X < age_of Y)%N /\
    (age_of_last_only Y < age_of_last_only X)%N /\
    (forall pref, select pref [("n1"%string, X); ("n2"%string, Y)] = Some Y /\
                  select_last_only pref [("n1"%string, X); ("n2"%string, Y)] = Some X) /\
    Forall2 same_layout_free X X' /\
    age_of X = age_of X' /\
    age_of_last_only X <> age_of_last_only X'.
Proof. exact age_of_last_only_refuted. Qed.

(* the hypotheses hold of two different five-block chains (a reward before / after a payment) *)
Example C06_layout_hypotheses_satisfiable :
  Forall2 same_layout_free lay_X lay_X_last /\ Forall one_reward lay_X /\ lay_X <> lay_X_last /\
  Forall2 cand_layout [("n1"%string, lay_X); ("n2"%string, lay_Y)]
                      [("n1"%string, lay_X_last); ("n2"%string, lay_Y)] /\
  cands_one_reward [("n1"%string, lay_X); ("n2"%string, lay_Y)].
Proof. exact lay_hypotheses_satisfiable. Qed.

Example C06_layout_ages :
  age_of lay_X = 1%N /\ age_of lay_Y = 3%N /\ age_of lay_X_last = 1%N /\
  age_of_last_only lay_X = 3%N /\ age_of_last_only lay_Y = 2%N /\ age_of_last_only lay_X_last = 1%N.
Proof. vm_compute. repeat split; reflexivity. Qed.

Print Assumptions C06_age_layout_invariant.
Print Assumptions C06_select_layout_invariant.
Print Assumptions C06_last_only_refuted.
