(* C07 — the spendable outputs a node reports and its registered addresses are exactly what
   results from applying, in order and from an empty state, every block of its current chain
   except the last (blockchain.go:268-278 addBlock applies the previous tip; 243-258 the commit
   of Update). This file contains only the property theorems, each closed by [exact] of a lemma
   of proofs/Reach_lemmas.v. [replay] (model/Chain.v) takes no oracle: applying a block only
   runs UpdateUtxos and AddressesRegistry.Update. The pending-removal list is not part of the
   replayed state (Synchronize changes it between blocks), so the registered sets are compared. *)
From RV Require Import model.Base model.Ledger model.Registry model.Chain model.Sync model.Pool model.Reach.
From RV Require Import proofs.Sync_lemmas proofs.Reach_lemmas.

Theorem C07_state_is_replay :
  forall (value_fn : N -> bool -> Z -> N) (addr_of : string -> string) (sig_ok : input -> bool)
         (H : block -> hash) (gen_id : slice input -> slice output -> Z -> string)
         (St : settings) (validator : string) (n : node),
    reach value_fn addr_of sig_ok H gen_id St validator n ->
    exists a : areg,
      replay (removelast (chain (n_c n))) = Ok (ur (n_c n), a) /\
      registered a = registered (ar (n_c n)).
Proof. exact reach_denotes. Qed.

(* what the node answers for the outputs of an address is what the replayed registry answers *)
Theorem C07_utxos :
  forall (value_fn : N -> bool -> Z -> N) (addr_of : string -> string) (sig_ok : input -> bool)
         (H : block -> hash) (gen_id : slice input -> slice output -> Z -> string)
         (St : settings) (validator : string) (n : node),
    reach value_fn addr_of sig_ok H gen_id St validator n ->
    exists (u : ureg) (a : areg),
      replay (removelast (chain (n_c n))) = Ok (u, a) /\
      forall addr : string, utxos_of (ur (n_c n)) addr = utxos_of u addr.
Proof. exact reach_utxos. Qed.

(* ... and so is what it answers for "is this address registered" *)
Theorem C07_registered :
  forall (value_fn : N -> bool -> Z -> N) (addr_of : string -> string) (sig_ok : input -> bool)
         (H : block -> hash) (gen_id : slice input -> slice output -> Z -> string)
         (St : settings) (validator : string) (n : node),
    reach value_fn addr_of sig_ok H gen_id St validator n ->
    exists (u : ureg) (a : areg),
      replay (removelast (chain (n_c n))) = Ok (u, a) /\
      forall addr : string, is_registered (ar (n_c n)) addr = is_registered a addr.
Proof. exact reach_registered. Qed.

(* one step: every operation allowed by [op_ok] keeps "the state is the replay" *)
Theorem C07_step :
  forall (value_fn : N -> bool -> Z -> N) (addr_of : string -> string) (sig_ok : input -> bool)
         (H : block -> hash) (gen_id : slice input -> slice output -> Z -> string)
         (St : settings) (validator : string) (n : node) (o : op),
    op_ok St n o ->
    (exists a : areg,
       replay (removelast (chain (n_c n))) = Ok (ur (n_c n), a) /\
       registered a = registered (ar (n_c n))) ->
    exists a : areg,
      replay (removelast (chain (n_c (step value_fn addr_of sig_ok H gen_id St validator n o)))) =
      Ok (ur (n_c (step value_fn addr_of sig_ok H gen_id St validator n o)), a) /\
      registered a = registered (ar (n_c (step value_fn addr_of sig_ok H gen_id St validator n o))).
Proof. exact step_denotes. Qed.

(* the effect of a block on the registered set does not depend on the pending-removal list *)
Theorem C07_update_ignores_pending :
  forall (a1 a2 : areg) (added removed : list string),
    registered a1 = registered a2 ->
    registered (reg_update a1 added removed) = registered (reg_update a2 added removed).
Proof. exact reg_update_registered. Qed.

(* replaying a concatenation is replaying the first part, then the second from where it ended *)
Theorem C07_replay_app :
  forall (u : ureg) (a : areg) (l1 l2 : list block),
    replay_from u a (l1 ++ l2) =
    match replay_from u a l1 with
    | Ok (u', a') => replay_from u' a' l2
    | Err e => Err e
    end.
Proof. exact replay_from_app. Qed.

(* ---- the hypotheses are satisfiable (ReachExample in proofs/Reach_lemmas.v) ---- *)

(* a node that produced two blocks; its registry holds the genesis reward of its validator *)
Example C07_ex_reachable :
  reach SyncExample.vf SyncExample.ao SyncExample.so ReachExample.Hinj ReachExample.gid SyncExample.Sx
        "V"%string (ReachExample.n2 ReachExample.Hinj) /\
  length (chain (n_c (ReachExample.n2 ReachExample.Hinj))) = 2 /\
  map u_out (utxos_of (ur (n_c (ReachExample.n2 ReachExample.Hinj))) "V"%string) = [mkOutput "V"%string true 100] /\
  registered (ar (n_c (ReachExample.n2 ReachExample.Hinj))) = ["V"%string].
Proof. split; [exact ReachExample.n2_reach|]. vm_compute. repeat split; reflexivity. Qed.

(* the same node after it adopted a neighbor's three-block chain: its state is the neighbor's *)
Example C07_ex_adopted :
  reach SyncExample.vf SyncExample.ao SyncExample.so ReachExample.Hinj ReachExample.gid SyncExample.Sx
        "V"%string ReachExample.n3 /\
  length (chain (n_c ReachExample.n3)) = 3 /\
  replay (removelast (chain (n_c ReachExample.n3))) = Ok (ur (n_c ReachExample.n3), ar (n_c ReachExample.n3)) /\
  registered (ar (n_c ReachExample.n3)) = ["W"%string].
Proof.
  split; [apply reach_pos_reach; exact ReachExample.n3_reach_pos|]. vm_compute. repeat split; reflexivity.
Qed.

Print Assumptions C07_state_is_replay.
Print Assumptions C07_utxos.
Print Assumptions C07_registered.
Print Assumptions C07_step.
Print Assumptions C07_update_ignores_pending.
Print Assumptions C07_replay_app.
