(* C16, atomicity of the state-changing operations with respect to their own component's lock.
   A lock discipline (C16_lockset) says every access is protected; it does not say that an
   operation's read-modify-write happens inside ONE critical section. This table theorem does,
   for the operations whose correctness under interleaving rests on it ("production re-validates
   everything under the pool lock", "all-or-nothing update of the output set"): in the table
   regenerated from /repo's source, each listed entry point touches the listed field within exactly
   one locked episode of the field's component and never outside it. Finite: vm_compute is a proof. *)
From RV Require Import model.Base model.Lockset gen.Lockset_gen.
Local Open Scope string_scope.



Theorem C16_atomic_sections : forallb (row_atomic field_sections) atomic_spec = true.
Proof. vm_compute. reflexivity. Qed.

Print Assumptions C16_atomic_sections.
