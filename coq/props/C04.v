(* C04 — every chain a node holds is hash-linked from its first block and consecutive timestamps
   differ by exactly the validation interval; no block is adopted whose timestamp lies after the
   adopting node's current time; every non-genesis block carries exactly one reward; every
   ordinary transaction is dated no earlier than the previous block and no later than its own
   block (blockchain.go:284-365 verify, 399-462 verifyBlock; transactions_pool.go:69-148).
   This file contains only the property theorems, each closed by [exact] of a lemma of
   proofs/Reach_lemmas.v, where [reach_pos], [reach_nz], [op_pos], [tip_nonzero] are defined.

   The statement over all of [reach]
     forall oracles St n, 0 < s_fee St -> (forall a b, H a = H b -> a = b) ->
                          reach ... n -> chain_ok H St (chain (n_c n))
   is FALSE of the model, and of the code: Validate (transactions_pool.go:75) takes a chain whose
   tip is dated 0 for an empty chain, so it neither refuses a repeated or skipped tick nor
   withholds the genesis amount (C04_chain_ok_refuted). The theorem holds over the histories in
   which no tip is dated 0 (C04_chain_ok_nz), in particular over those in which first blocks are
   dated at a positive time (C04_chain_ok_pos). No sign condition on the interval is needed:
   AddBlock (blockchain.go:41-57) refuses a block that is not dated after the tip, so a produced
   block is dated after the tip (C04_produced_after_tip), which with the two tick tests of
   Validate leaves the next tick only; with an interval that is not positive nothing is produced
   after a first block and no neighbor's answer is accepted (C04_verified_interval_pos), e.g. the
   tick two negative intervals "after" the tip, which Validate lets through, is refused by AddBlock
   (C04_ex_neg_interval_refused). *)
From RV Require Import model.Base model.Ledger model.Registry model.Chain model.Sync model.Pool model.Reach.
From RV Require Import proofs.Pool_lemmas proofs.Sync_lemmas proofs.Reach_lemmas.

(* a produced block, on a chain whose tip [p] is not dated 0, at a tick of the chain's time grid:
   linked to the tip, one interval after it, exactly one reward, every ordinary transaction
   dated between the tip and the block *)
Theorem C04_produced :
  forall (value_fn : N -> bool -> Z -> N) (addr_of : string -> string) (sig_ok : input -> bool)
         (H : block -> hash) (gen_id : slice input -> slice output -> Z -> string)
         (St : settings) (validator : string)
         (n : node) (ts : Z) (perm : list nat) (n' : node) (d : list (string * drop)) (p : block),
    (0 < s_fee St)%N ->
    validate value_fn addr_of sig_ok H gen_id St validator n ts perm = (n', Produced d) ->
    op_ok St n (OpValidate ts perm) ->
    last_block (chain (n_c n)) = Some p -> b_ts p <> 0%Z ->
    exists b : block,
      chain (n_c n') = chain (n_c n) ++ [b] /\
      b_prev b = H p /\ b_ts b = (b_ts p + s_interval St)%Z /\ one_reward b /\ in_window p b.
Proof. exact produced_rules. Qed.

(* a block produced on a chain that is not empty is dated after the tip: AddBlock refuses it
   otherwise (the tick is then refused with the pool re-ordered, C11_refused_cases) *)
Theorem C04_produced_after_tip :
  forall (value_fn : N -> bool -> Z -> N) (addr_of : string -> string) (sig_ok : input -> bool)
         (H : block -> hash) (gen_id : slice input -> slice output -> Z -> string)
         (St : settings) (validator : string)
         (n : node) (ts : Z) (perm : list nat) (n' : node) (d : list (string * drop)),
    validate value_fn addr_of sig_ok H gen_id St validator n ts perm = (n', Produced d) ->
    chain (n_c n) <> [] -> (last_block_ts (chain (n_c n)) < ts)%Z.
Proof. exact validate_produced_after_tip. Qed.

(* an answer is accepted only under a positive interval: the closing AddBlock of verify
   (blockchain.go:358-363) is dated one interval after the last answered block *)
Theorem C04_verified_interval_pos :
  forall (value_fn : N -> bool -> Z -> N) (addr_of : string -> string) (sig_ok : input -> bool)
         (H : block -> hash) (St : settings)
         (host : cstate) (lh neigh old : list block) (now : Z) (v : list block),
    verify value_fn addr_of sig_ok H St host lh neigh old now = Ok v -> (0 < s_interval St)%Z.
Proof. exact verify_ok_interval_pos. Qed.

(* an accepted answer: every block of it that is new (its hash is not the hash of the host's
   block at the same position) and is not the first block of a full answer is linked to its
   predecessor [q] in old_host ++ neigh, one interval after it, not after the node's time,
   carries exactly one reward, and its ordinary transactions are dated between [q] and itself *)
Theorem C04_verified_new :
  forall (value_fn : N -> bool -> Z -> N) (addr_of : string -> string) (sig_ok : input -> bool)
         (H : block -> hash) (St : settings)
         (host : cstate) (lh neigh old : list block) (now : Z) (v : list block),
    verify value_fn addr_of sig_ok H St host lh neigh old now = Ok v ->
    forall (k : nat) (b q : block),
      nth_error neigh k = Some b ->
      (forall hb : block, nth_error lh k = Some hb -> H b <> H hb) ->
      0 < length old + k ->
      nth_error (old ++ neigh) (length old + k - 1) = Some q ->
      b_prev b = H q /\ b_ts b = (b_ts q + s_interval St)%Z /\ (b_ts b <= now)%Z /\
      one_reward b /\ in_window q b.
Proof. exact verified_new_rules. Qed.

(* adoption, from any state: if the host's chain satisfies the rules so does the chain it holds
   after a sync round. Blocks with the hash of the host's block at the same position are not
   looked at by verify: by collision resistance they are the host's blocks, and so are their
   predecessors, since the links are compared *)
Theorem C04_adoption :
  forall (value_fn : N -> bool -> Z -> N) (addr_of : string -> string) (sig_ok : input -> bool)
         (H : block -> hash) (St : settings)
         (st : cstate) (now : Z) (nbs : list neighbor) (pref : string) (st' : cstate) (rep : bool),
    (forall a b : block, H a = H b -> a = b) ->
    chain_ok H St (chain st) ->
    update value_fn addr_of sig_ok H St st now nbs pref = (st', rep) ->
    chain_ok H St (chain st').
Proof. exact update_chain_ok. Qed.

(* one operation, from any state whose tip is not dated 0 *)
Theorem C04_step :
  forall (value_fn : N -> bool -> Z -> N) (addr_of : string -> string) (sig_ok : input -> bool)
         (H : block -> hash) (gen_id : slice input -> slice output -> Z -> string)
         (St : settings) (validator : string) (n : node) (o : op),
    (0 < s_fee St)%N -> (forall a b : block, H a = H b -> a = b) ->
    chain_ok H St (chain (n_c n)) ->
    chain (n_c n) = [] \/ last_block_ts (chain (n_c n)) <> 0%Z ->
    op_ok St n o ->
    chain_ok H St (chain (n_c (step value_fn addr_of sig_ok H gen_id St validator n o))).
Proof. exact step_chain_ok. Qed.

(* the histories of [reach] in which no state had a tip dated 0 *)
Theorem C04_chain_ok_nz :
  forall (value_fn : N -> bool -> Z -> N) (addr_of : string -> string) (sig_ok : input -> bool)
         (H : block -> hash) (gen_id : slice input -> slice output -> Z -> string)
         (St : settings) (validator : string) (n : node),
    (0 < s_fee St)%N -> (forall a b : block, H a = H b -> a = b) ->
    reach_nz value_fn addr_of sig_ok H gen_id St validator n ->
    chain_ok H St (chain (n_c n)).
Proof. exact reach_nz_chain_ok. Qed.

(* the histories of [reach] in which a first block is produced at a positive time and the first
   block of every full answer of a neighbor is dated at a positive time (timestamps are
   nanoseconds since 1970) *)
Theorem C04_chain_ok_pos :
  forall (value_fn : N -> bool -> Z -> N) (addr_of : string -> string) (sig_ok : input -> bool)
         (H : block -> hash) (gen_id : slice input -> slice output -> Z -> string)
         (St : settings) (validator : string) (n : node),
    (0 < s_fee St)%N -> (forall a b : block, H a = H b -> a = b) ->
    reach_pos value_fn addr_of sig_ok H gen_id St validator n ->
    chain_ok H St (chain (n_c n)).
Proof. exact reach_pos_chain_ok. Qed.

Theorem C04_reach_pos_reach :
  forall (value_fn : N -> bool -> Z -> N) (addr_of : string -> string) (sig_ok : input -> bool)
         (H : block -> hash) (gen_id : slice input -> slice output -> Z -> string)
         (St : settings) (validator : string) (n : node),
    reach_pos value_fn addr_of sig_ok H gen_id St validator n ->
    reach value_fn addr_of sig_ok H gen_id St validator n.
Proof. exact reach_pos_reach. Qed.

(* the unrestricted statement is false: a first block dated 0, then a tick five intervals later *)
Theorem C04_chain_ok_refuted :
  exists (value_fn : N -> bool -> Z -> N) (addr_of : string -> string) (sig_ok : input -> bool)
         (H : block -> hash) (gen_id : slice input -> slice output -> Z -> string)
         (St : settings) (validator : string) (n : node),
    (0 < s_fee St)%N /\ (0 < s_interval St)%Z /\ (forall a b : block, H a = H b -> a = b) /\
    reach value_fn addr_of sig_ok H gen_id St validator n /\
    ~ chain_ok H St (chain (n_c n)).
Proof. exact ReachExample.chain_ok_zero_tip_refuted. Qed.

(* no block from the future is adopted: a block of the chain held after a replacing sync round
   has the hash of a block the host already held, or is dated no later than the node's time, or
   is the first block of a fully re-synced chain (a genesis block is not verified) *)
Theorem C04_not_future :
  forall (value_fn : N -> bool -> Z -> N) (addr_of : string -> string) (sig_ok : input -> bool)
         (H : block -> hash) (St : settings)
         (st : cstate) (now : Z) (nbs : list neighbor) (pref : string) (st' : cstate),
    update value_fn addr_of sig_ok H St st now nbs pref = (st', true) ->
    forall b : block, In b (chain st') ->
      (exists hb : block, In hb (chain st) /\ H hb = H b) \/
      (b_ts b <= now)%Z \/
      (is_fork st (stage1 value_fn addr_of sig_ok H St st now nbs) nbs = true /\
       exists r : list block, chain st' = b :: r).
Proof. exact update_not_future. Qed.

Theorem C04_not_future_inj :
  forall (value_fn : N -> bool -> Z -> N) (addr_of : string -> string) (sig_ok : input -> bool)
         (H : block -> hash) (St : settings)
         (st : cstate) (now : Z) (nbs : list neighbor) (pref : string) (st' : cstate),
    (forall a b : block, H a = H b -> a = b) ->
    update value_fn addr_of sig_ok H St st now nbs pref = (st', true) ->
    forall b : block, In b (chain st') ->
      In b (chain st) \/
      (b_ts b <= now)%Z \/
      (is_fork st (stage1 value_fn addr_of sig_ok H St st now nbs) nbs = true /\
       exists r : list block, chain st' = b :: r).
Proof. exact update_not_future_inj. Qed.

(* ---- the hypotheses are satisfiable (ReachExample in proofs/Reach_lemmas.v) ---- *)

(* an injective "hash" (a self-delimiting encoding of the block), a positive fee and interval,
   and a node that produced two blocks at times 10 and 20 *)
Example C04_ex_reachable :
  (0 < s_fee SyncExample.Sx)%N /\ (0 <= s_interval SyncExample.Sx)%Z /\
  (forall a b : block, ReachExample.Hinj a = ReachExample.Hinj b -> a = b) /\
  reach_pos SyncExample.vf SyncExample.ao SyncExample.so ReachExample.Hinj ReachExample.gid SyncExample.Sx
            "V"%string (ReachExample.n2 ReachExample.Hinj) /\
  map b_ts (chain (n_c (ReachExample.n2 ReachExample.Hinj))) = [10%Z; 20%Z].
Proof.
  split; [reflexivity|]. split; [discriminate|]. split; [exact ReachExample.Hinj_inj|].
  split; [exact ReachExample.n2_reach_pos|]. vm_compute. reflexivity.
Qed.

(* a negative interval (-10), a first block at 100: the tick 80 is on the time grid (two intervals
   "after" the tip) and passes the two tick tests of Validate; AddBlock refuses it, being dated
   before the tip, and the chain keeps its single block *)
Example C04_ex_neg_interval_refused :
  op_ok ReachExample.Sneg (ReachExample.m1 ReachExample.Hinj) (OpValidate 80 []) /\
  snd (validate SyncExample.vf SyncExample.ao SyncExample.so ReachExample.Hinj ReachExample.gid
                ReachExample.Sneg "V"%string (ReachExample.m1 ReachExample.Hinj) 80 []) = Refused ETime /\
  map b_ts (chain (n_c (ReachExample.m2 ReachExample.Hinj))) = [100%Z].
Proof. exact ReachExample.neg_interval_tick_refused. Qed.

(* the same node adopts a neighbor's three blocks when its time is 40, and keeps its own chain
   when its time is 25: the neighbor's third block, dated 30, would be from the future *)
Example C04_ex_adoption :
  reach_pos SyncExample.vf SyncExample.ao SyncExample.so ReachExample.Hinj ReachExample.gid SyncExample.Sx
            "V"%string ReachExample.n3 /\
  map b_ts (chain (n_c ReachExample.n3)) = [10%Z; 20%Z; 30%Z] /\
  update SyncExample.vf SyncExample.ao SyncExample.so ReachExample.Hinj SyncExample.Sx
         (n_c (ReachExample.n2 ReachExample.Hinj)) 25 [ReachExample.nbW] EmptyString
  = (n_c (ReachExample.n2 ReachExample.Hinj), false).
Proof. split; [exact ReachExample.n3_reach_pos|]. vm_compute. split; reflexivity. Qed.

Print Assumptions C04_produced.
Print Assumptions C04_produced_after_tip.
Print Assumptions C04_verified_interval_pos.
Print Assumptions C04_verified_new.
Print Assumptions C04_adoption.
Print Assumptions C04_step.
Print Assumptions C04_chain_ok_nz.
Print Assumptions C04_chain_ok_pos.
Print Assumptions C04_reach_pos_reach.
Print Assumptions C04_chain_ok_refuted.
Print Assumptions C04_not_future.
Print Assumptions C04_not_future_inj.
