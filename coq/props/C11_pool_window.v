(* C11 / C16 — the pool never holds a transaction dated before the tip, as long as no sync round
   replaces the chain (model-level form of the harness monitor on pooled transactions dated in the past).

   [pool_window n] : Forall (fun t => last_block_ts (chain (n_c n)) <= t_ts t) (elems (n_pool n))
                     (last_block_ts of an empty chain is 0, the model's convention).
   [no_sync ops]   : no operation of the list is an OpUpdate (sync round).
   [run ... n ops] : fold_left step ops n.
   No side condition (op_ok, aligned ticks, positive interval) is needed.
   The sync round keeps the pool and may move the tip past a pooled transaction:
   C11_pool_window_sync_refuted is a full concrete [update] run (not a state-level mock-up). *)
From RV Require Import model.Base model.Ledger model.Registry model.Chain model.Sync model.Pool model.Reach
  proofs.PoolWindow_lemmas.
From Coq Require Import ZArith List.
Import ListNotations.
Local Open Scope Z_scope.

(* admission tests the window against the current tip *)
Theorem C11_pool_window_admission :
  forall (value_fn : N -> bool -> Z -> N) (addr_of : string -> string) (sig_ok : input -> bool)
         (St : settings) (n : node) (t : tx) (n' : node),
    pool_window n ->
    pool_add value_fn addr_of sig_ok St n t = Ok n' -> pool_window n'.
Proof. exact pool_add_window. Qed.

(* a tick, whatever its outcome: refused = node unchanged, produced = nil pool *)
Theorem C11_pool_window_tick :
  forall (value_fn : N -> bool -> Z -> N) (addr_of : string -> string) (sig_ok : input -> bool)
         (H : block -> hash) (gen_id : slice input -> slice output -> Z -> string)
         (St : settings) (validator : string) (n : node) (ts : Z) (perm : list nat)
         (n' : node) (r : outcome),
    pool_window n ->
    validate value_fn addr_of sig_ok H gen_id St validator n ts perm = (n', r) -> pool_window n'.
Proof. exact validate_window. Qed.

Theorem C11_pool_window_tick_produced_nil :
  forall (value_fn : N -> bool -> Z -> N) (addr_of : string -> string) (sig_ok : input -> bool)
         (H : block -> hash) (gen_id : slice input -> slice output -> Z -> string)
         (St : settings) (validator : string) (n : node) (ts : Z) (perm : list nat)
         (n' : node) (d : list (string * drop)),
    validate value_fn addr_of sig_ok H gen_id St validator n ts perm = (n', Produced d) ->
    n_pool n' = None.
Proof. exact validate_produced_pool_nil. Qed.

(* every history without sync rounds, from the empty node or from any node in the window *)
Theorem C11_pool_window_history :
  forall (value_fn : N -> bool -> Z -> N) (addr_of : string -> string) (sig_ok : input -> bool)
         (H : block -> hash) (gen_id : slice input -> slice output -> Z -> string)
         (St : settings) (validator : string) (ops : list op),
    no_sync ops ->
    pool_window (run value_fn addr_of sig_ok H gen_id St validator node_empty ops).
Proof. exact history_window. Qed.

Theorem C11_pool_window_history_from :
  forall (value_fn : N -> bool -> Z -> N) (addr_of : string -> string) (sig_ok : input -> bool)
         (H : block -> hash) (gen_id : slice input -> slice output -> Z -> string)
         (St : settings) (validator : string) (ops : list op) (n : node),
    no_sync ops -> pool_window n ->
    pool_window (run value_fn addr_of sig_ok H gen_id St validator n ops).
Proof. exact run_window. Qed.

(* with a sync round the invariant fails on a reachable node; the next tick drops the stale
   transaction as too old *)
Theorem C11_pool_window_sync_refuted :
  exists (value_fn : N -> bool -> Z -> N) (addr_of : string -> string) (sig_ok : input -> bool)
         (H : block -> hash) (gen_id : slice input -> slice output -> Z -> string)
         (St : settings) (validator : string) (n : node)
         (now : Z) (nbs : list neighbor) (pref : string) (t : tx),
    (0 < s_fee St)%N /\ (0 < s_interval St)%Z /\ (forall a b, H a = H b -> a = b) /\
    reach value_fn addr_of sig_ok H gen_id St validator n /\
    op_ok St n (OpUpdate now nbs pref) /\
    pool_window n /\
    elems (n_pool n) = [t] /\
    ~ pool_window (step value_fn addr_of sig_ok H gen_id St validator n (OpUpdate now nbs pref)) /\
    exists n', validate value_fn addr_of sig_ok H gen_id St validator
                 (step value_fn addr_of sig_ok H gen_id St validator n (OpUpdate now nbs pref))
                 now [0%nat] = (n', Produced [(t_id t, DOld)]) /\ n_pool n' = None.
Proof. exact update_breaks_window_example. Qed.

(* the hypotheses are satisfiable on a non-trivial value: a reachable two-block node holding one
   pooled transaction is in the window, and a four-operation history without sync rounds ends
   with that transaction pooled *)
Example C11_pool_window_example :
  pool_window Honest_lemmas.HonestExample.s3 /\
  elems (n_pool Honest_lemmas.HonestExample.s3) = [Honest_lemmas.HonestExample.tC] /\
  no_sync [OpValidate 10 []; OpValidate 20 []; OpAdd Honest_lemmas.HonestExample.tC;
           OpRegSync (fun _ => None) []] /\
  map t_ts (elems (n_pool (run Sync_lemmas.SyncExample.vf Sync_lemmas.SyncExample.ao
                     Sync_lemmas.SyncExample.so Reach_lemmas.ReachExample.Hinj
                     Reach_lemmas.ReachExample.gid Sync_lemmas.SyncExample.Sx "V"%string node_empty
                     [OpValidate 10 []; OpValidate 20 []; OpAdd Honest_lemmas.HonestExample.tC;
                      OpRegSync (fun _ => None) []]))) = [25].
Proof.
  split; [exact PoolWindowExample.s3_window|]. split; [vm_compute; reflexivity|].
  split; [repeat constructor|]. vm_compute. reflexivity.
Qed.

Print Assumptions C11_pool_window_admission.
Print Assumptions C11_pool_window_tick.
Print Assumptions C11_pool_window_tick_produced_nil.
Print Assumptions C11_pool_window_history.
Print Assumptions C11_pool_window_history_from.
Print Assumptions C11_pool_window_sync_refuted.
