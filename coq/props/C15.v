(* C15 — every block and transaction a node serves is decoded by the receiver into a value with
   the same fields, the same transaction ids and the same block hash; re-encoding a decoded value
   is byte-stable; a transaction whose id is not the hash of its inputs, outputs and timestamp is
   rejected at decoding, and transactions differing in any of those have different ids (or the
   hash collides). The model starts from the JSON tree (Go's lexer is outside).
   This file contains only the property theorems, each closed by [exact] of a lemma. *)
From RV Require Import model.Base model.Json model.Sha256 model.Wire model.WireDec proofs.Wire_lemmas.
Local Open Scope string_scope.

(* ---- what the sender serves is what the receiver gets ---- *)
Theorem C15_output_roundtrip : forall o, wf_output o -> unmarshal_output (marshal_output o) = Ok o.
Proof. exact C15_roundtrip_output. Qed.

Theorem C15_input_roundtrip : forall on_curve i,
  wf_input on_curve i -> unmarshal_input on_curve (marshal_input i) = Ok i.
Proof. exact C15_roundtrip_input. Qed.

Theorem C15_input_info_roundtrip : forall p,
  wf_input_info p -> unmarshal_input_info (marshal_input_info (fst p) (snd p)) = Ok p.
Proof. exact C15_roundtrip_input_info. Qed.

Theorem C15_utxo_roundtrip : forall u, wf_utxo u -> unmarshal_utxo (marshal_utxo u) = Ok u.
Proof. exact C15_roundtrip_utxo. Qed.

Theorem C15_tx_roundtrip : forall on_curve H t,
  wf_tx on_curve H t -> unmarshal_tx on_curve H (marshal_tx t) = Ok t.
Proof. exact C15_roundtrip_tx. Qed.

Theorem C15_block_roundtrip : forall on_curve H b,
  wf_block on_curve H b -> unmarshal_block on_curve H (marshal_block b) = Ok b.
Proof. exact C15_roundtrip_block. Qed.

Theorem C15_blocks_roundtrip : forall on_curve H l,
  Forall (fun x => match x with Some b => wf_block on_curve H b | None => True end) l ->
  unmarshal_blocks on_curve H
    (JArr (map (fun x => match x with Some b => marshal_block b | None => JNull end) l)) = Ok l.
Proof. exact C15_roundtrip_blocks. Qed.

Theorem C15_request_roundtrip : forall on_curve H t g,
  match t with Some x => wf_tx on_curve H x | None => True end ->
  unmarshal_request on_curve H (marshal_request t g) = Ok (t, g).
Proof. exact C15_roundtrip_request. Qed.

(* the receiver computes the sender's block hash *)
Theorem C15_block_same_hash : forall on_curve H b b',
  wf_block on_curve H b -> unmarshal_block on_curve H (marshal_block b) = Ok b' ->
  H (bytes_of_string (render (marshal_block b'))) = H (bytes_of_string (render (marshal_block b))).
Proof. exact C15_same_hash. Qed.

(* ---- decoding normalises: whatever is accepted is well formed ---- *)
Theorem C15_output_decode_wf : forall j o, unmarshal_output j = Ok o -> wf_output o.
Proof. exact C15_decode_wf_output. Qed.

Theorem C15_input_decode_wf : forall on_curve j i,
  unmarshal_input on_curve j = Ok i -> wf_input on_curve i.
Proof. exact C15_decode_wf_input. Qed.

Theorem C15_utxo_decode_wf : forall j u, unmarshal_utxo j = Ok u -> wf_utxo u.
Proof. exact C15_decode_wf_utxo. Qed.

Theorem C15_tx_decode_wf : forall on_curve H j t,
  unmarshal_tx on_curve H j = Ok t -> wf_tx on_curve H t.
Proof. exact C15_decode_wf_tx. Qed.

Theorem C15_block_decode_wf : forall on_curve H j b,
  unmarshal_block on_curve H j = Ok b -> wf_block on_curve H b.
Proof. exact C15_decode_wf_block. Qed.

(* ---- byte stability of decode ; encode ---- *)
Theorem C15_tx_stable : forall on_curve H j t,
  unmarshal_tx on_curve H j = Ok t -> unmarshal_tx on_curve H (marshal_tx t) = Ok t.
Proof. exact C15_stable_tx. Qed.

Theorem C15_block_stable : forall on_curve H j b,
  unmarshal_block on_curve H j = Ok b -> unmarshal_block on_curve H (marshal_block b) = Ok b.
Proof. exact C15_stable_block. Qed.

Theorem C15_tx_stable_bytes : forall on_curve H j t t',
  unmarshal_tx on_curve H j = Ok t -> unmarshal_tx on_curve H (marshal_tx t) = Ok t' ->
  render (marshal_tx t') = render (marshal_tx t).
Proof. exact C15_stable_bytes_tx. Qed.

Theorem C15_block_stable_bytes : forall on_curve H j b b',
  unmarshal_block on_curve H j = Ok b -> unmarshal_block on_curve H (marshal_block b) = Ok b' ->
  render (marshal_block b') = render (marshal_block b).
Proof. exact C15_stable_bytes_block. Qed.

(* ---- the id ---- *)
Theorem C15_tx_id_checked : forall on_curve H j t,
  unmarshal_tx on_curve H j = Ok t -> t_id t = gen_id H (t_ins t) (t_outs t) (t_ts t).
Proof. exact C15_id_checked. Qed.

Theorem C15_tx_wrong_id_rejected : forall on_curve H fs id i0 o0 ts i o,
  dec_field dec_str "id" fs "" = Ok id ->
  dec_field (dec_slice (dec_ptr (unmarshal_input on_curve))) "inputs" fs None = Ok i0 ->
  dec_field (dec_slice (dec_ptr unmarshal_output)) "outputs" fs None = Ok o0 ->
  dec_field dec_i64 "timestamp" fs 0%Z = Ok ts ->
  no_nulls i0 = Ok i -> no_nulls o0 = Ok o ->
  id <> gen_id H i o ts ->
  unmarshal_tx on_curve H (JObj fs) = Err DWrongId.
Proof. exact C15_wrong_id_rejected. Qed.

Theorem C15_render_idbody_injective : forall i o ts i' o' ts',
  render (marshal_idbody i o ts) = render (marshal_idbody i' o' ts') -> i = i' /\ o = o' /\ ts = ts'.
Proof. exact render_idbody_inj. Qed.

Theorem C15_tx_id_binds : forall H : list N -> list N,
  (forall x, all_bytes (H x)) ->
  forall i1 o1 ts1 i2 o2 ts2,
  gen_id H i1 o1 ts1 = gen_id H i2 o2 ts2 ->
  (i1, o1, ts1) = (i2, o2, ts2) \/ exists x y : list N, x <> y /\ H x = H y.
Proof. exact C15_id_binds. Qed.

Theorem C15_tx_id_binds_hex : forall (H : list N -> list N) i1 o1 ts1 i2 o2 ts2,
  gen_id H i1 o1 ts1 = gen_id H i2 o2 ts2 ->
  (i1, o1, ts1) = (i2, o2, ts2) \/
  exists x y : list N, x <> y /\ hex_of_bytes (H x) = hex_of_bytes (H y).
Proof. exact C15_id_binds_hex. Qed.

Theorem C15_tx_decoded_same_id : forall on_curve (H : list N -> list N) j1 j2 t1 t2,
  (forall x, all_bytes (H x)) ->
  unmarshal_tx on_curve H j1 = Ok t1 -> unmarshal_tx on_curve H j2 = Ok t2 ->
  t_id t1 = t_id t2 -> t1 = t2 \/ exists x y : list N, x <> y /\ H x = H y.
Proof. exact C15_decoded_same_id. Qed.

Theorem C15_sha256_is_bytes : forall x, all_bytes (sha256 x).
Proof. exact sha256_bytes. Qed.

(* ---- what the decoder establishes for the code behind it (C14) ---- *)
Theorem C15_tx_has_output : forall on_curve H j t, unmarshal_tx on_curve H j = Ok t -> outs t <> [].
Proof. exact unmarshal_tx_nonempty. Qed.

Theorem C15_tx_reward_single_output : forall on_curve H j t,
  unmarshal_tx on_curve H j = Ok t -> ins t = [] -> length (outs t) = 1%nat.
Proof. exact unmarshal_tx_reward_single. Qed.

Theorem C15_block_txs_have_output : forall on_curve H j b,
  unmarshal_block on_curve H j = Ok b -> Forall (fun t => outs t <> []) (txs b).
Proof. exact unmarshal_block_txs_nonempty. Qed.

(* ---- non-vacuity (H := sha256, every 65-byte 04.. key accepted) ---- *)

(* keys in another order, an unknown key, upper-case field names, "0X" and upper-case hex in the
   key and the signature: accepted, and what comes out is the canonical value *)
Example C15_ex_decode :
  unmarshal_tx (fun _ => true) sha256
    (JObj [("Timestamp", JNum 77); ("junk", JArr [JNull]);
           ("outputs", JArr [JObj [("value", JNum 5); ("ADDRESS", JStr "addr"); ("is_yielding", JBool true)]]);
           ("inputs", JArr [JObj [
              ("signature", JStr "00112233445566778899AABBCCDDEEFF00112233445566778899aabbccddeeffAABBCCDDEEFF00112233445566778899aabbccddeeff00112233445566778899");
              ("output_index", JNum 1); ("transaction_id", JStr "ab");
              ("public_key", JStr "0X04AABBCCDDEEFF00112233445566778899aabbccddeeff0011223344556677889900112233445566778899aabbccddeeff00112233445566778899aabbccddeeff")]]);
           ("id", JStr "6250347c84ccf0632beb8204330075ad55752af5d5ea11a5766988bfc860692c")])
  = Ok (mkTx "6250347c84ccf0632beb8204330075ad55752af5d5ea11a5766988bfc860692c"
          (Some [mkInput 1 "ab"
             "0x04aabbccddeeff00112233445566778899aabbccddeeff0011223344556677889900112233445566778899aabbccddeeff00112233445566778899aabbccddeeff"
             "00112233445566778899aabbccddeeff00112233445566778899aabbccddeeffaabbccddeeff00112233445566778899aabbccddeeff00112233445566778899"])
          (Some [mkOutput "addr" true 5]) 77).
Proof. vm_compute. reflexivity. Qed.

(* re-encoding it renders the canonical bytes *)
Example C15_ex_reencode :
  render (marshal_tx (mkTx "6250347c84ccf0632beb8204330075ad55752af5d5ea11a5766988bfc860692c"
          (Some [mkInput 1 "ab"
             "0x04aabbccddeeff00112233445566778899aabbccddeeff0011223344556677889900112233445566778899aabbccddeeff00112233445566778899aabbccddeeff"
             "00112233445566778899aabbccddeeff00112233445566778899aabbccddeeffaabbccddeeff00112233445566778899aabbccddeeff00112233445566778899"])
          (Some [mkOutput "addr" true 5]) 77))
  = "{""id"":""6250347c84ccf0632beb8204330075ad55752af5d5ea11a5766988bfc860692c"",""inputs"":[{""output_index"":1,""transaction_id"":""ab"",""public_key"":""0x04aabbccddeeff00112233445566778899aabbccddeeff0011223344556677889900112233445566778899aabbccddeeff00112233445566778899aabbccddeeff"",""signature"":""00112233445566778899aabbccddeeff00112233445566778899aabbccddeeffaabbccddeeff00112233445566778899aabbccddeeff00112233445566778899""}],""outputs"":[{""address"":""addr"",""is_yielding"":true,""value"":5}],""timestamp"":77}".
Proof. vm_compute. reflexivity. Qed.

(* so the hypothesis of the round trip holds of a non-trivial transaction *)
Example C15_ex_wf :
  wf_tx (fun _ => true) sha256
    (mkTx "6250347c84ccf0632beb8204330075ad55752af5d5ea11a5766988bfc860692c"
          (Some [mkInput 1 "ab"
             "0x04aabbccddeeff00112233445566778899aabbccddeeff0011223344556677889900112233445566778899aabbccddeeff00112233445566778899aabbccddeeff"
             "00112233445566778899aabbccddeeff00112233445566778899aabbccddeeffaabbccddeeff00112233445566778899aabbccddeeff00112233445566778899"])
          (Some [mkOutput "addr" true 5]) 77).
Proof. exact (C15_decode_wf_tx _ _ _ _ C15_ex_decode). Qed.

(* the same tree with another id is refused *)
Example C15_ex_wrong_id :
  unmarshal_tx (fun _ => true) sha256
    (JObj [("id", JStr "6250347c84ccf0632beb8204330075ad55752af5d5ea11a5766988bfc860692d");
           ("inputs", JNull);
           ("outputs", JArr [JObj [("address", JStr "addr"); ("is_yielding", JBool true); ("value", JNum 5)]]);
           ("timestamp", JNum 77)])
  = Err DWrongId.
Proof. vm_compute. reflexivity. Qed.

(* the other refusals of transaction.go:46-71, and what encoding/json itself refuses *)
Example C15_ex_rejections :
  unmarshal_tx (fun _ => true) sha256
    (JObj [("id", JStr ""); ("outputs", JArr [JNull]); ("timestamp", JNum 77)]) = Err DNullElem /\
  unmarshal_tx (fun _ => true) sha256
    (JObj [("id", JStr "661c2be485ec013995909a105f6189cbf9b98ad23dc6a2e5569b04836b4b8294"); ("timestamp", JNum 1)])
    = Err DNoReward /\
  unmarshal_tx (fun _ => true) sha256
    (JObj [("id", JStr "5726bbe5c10c1fe32d17bb4200036ef690e86823b351b5b74f1063b6f1cb54f9"); ("timestamp", JNum 1);
           ("outputs", JArr [JObj [("address", JStr "A"); ("value", JNum 9)];
                             JObj [("address", JStr "B"); ("value", JNum 1)]])])
    = Err DMultiReward /\
  unmarshal_tx (fun _ => true) sha256
    (JObj [("id", JStr "0bb0956b47f1137b6f4b5f944122781bdfbed249738e4934df39d80bd8305cd0"); ("timestamp", JNum 1);
           ("outputs", JArr []);
           ("inputs", JArr [JObj [
              ("public_key", JStr "0x0400000000000000000000000000000000000000000000000000000000000000000000000000000000000000000000000000000000000000000000000000000000");
              ("signature", JStr "00000000000000000000000000000000000000000000000000000000000000000000000000000000000000000000000000000000000000000000000000000000")]])])
    = Err DNoOutput /\
  unmarshal_output (JObj [("value", JNum 18446744073709551616)]) = Err DRange /\
  unmarshal_output (JObj [("value", JNum 18446744073709551615)]) = Ok (mkOutput "" false 18446744073709551615) /\
  unmarshal_output (JObj [("value", JNumF "1.0")]) = Err DType /\
  unmarshal_output (JObj [("value", JNum 5); ("VALUE", JNull)]) = Ok (mkOutput "" false 5) /\
  unmarshal_utxo (JObj [("timestamp", JNumF "-0")]) = Ok (mkUtxo "" 0 (mkOutput "" false 0) 0) /\
  unmarshal_blocks (fun _ => true) sha256 (JArr [JNull]) = Ok [None] /\
  unmarshal_block (fun _ => true) sha256 (JObj [("transactions", JArr [JNull])]) = Err DNullElem.
Proof. vm_compute. repeat split. Qed.

(* a block carrying a reward transaction: served, decoded, same value *)
Example C15_ex_block :
  let t := mkTx (gen_id sha256 None (Some [mkOutput "A" false 9]) 5) None (Some [mkOutput "A" false 9]) 5 in
  let b := mkBlock (repeat 7%N 32) (Some ["A"]) None 5 (Some [t]) in
  unmarshal_block (fun _ => true) sha256 (marshal_block b) = Ok b.
Proof. vm_compute. reflexivity. Qed.

Print Assumptions C15_output_roundtrip.
Print Assumptions C15_input_roundtrip.
Print Assumptions C15_input_info_roundtrip.
Print Assumptions C15_utxo_roundtrip.
Print Assumptions C15_tx_roundtrip.
Print Assumptions C15_block_roundtrip.
Print Assumptions C15_blocks_roundtrip.
Print Assumptions C15_request_roundtrip.
Print Assumptions C15_block_same_hash.
Print Assumptions C15_output_decode_wf.
Print Assumptions C15_input_decode_wf.
Print Assumptions C15_utxo_decode_wf.
Print Assumptions C15_tx_decode_wf.
Print Assumptions C15_block_decode_wf.
Print Assumptions C15_tx_stable.
Print Assumptions C15_block_stable.
Print Assumptions C15_tx_stable_bytes.
Print Assumptions C15_block_stable_bytes.
Print Assumptions C15_tx_id_checked.
Print Assumptions C15_tx_wrong_id_rejected.
Print Assumptions C15_render_idbody_injective.
Print Assumptions C15_tx_id_binds.
Print Assumptions C15_tx_id_binds_hex.
Print Assumptions C15_tx_decoded_same_id.
Print Assumptions C15_sha256_is_bytes.
Print Assumptions C15_tx_has_output.
Print Assumptions C15_tx_reward_single_output.
Print Assumptions C15_block_txs_have_output.
