(* C16, serializability: "running the node's activities in any interleaving never loses or
   duplicates an accepted transaction".
   C16_atomic_sections (table theorem over the Go source) says every pool operation touches the
   pool inside exactly ONE critical section of the pool's mutex, taken exclusively. This file says
   that this is ENOUGH. In the interleaving semantics of model/Serial.v (threads running
   Local* ; Acquire ; Apply f ; Release ; Local* per operation, one global exclusive lock):
     - Apply events are mutually exclusive and happen under the lock (C16_lock_invariant), some
       thread can always move (C16_no_deadlock) and every step consumes an event (C16_step_consumes);
     - along any run the shared state IS the serial run of the Apply events so far, every result
       obtained is the result in that serial run (C16_trace_serializable), and at quiescence those
       events are an interleaving of the thread programs (C16_serializable, C16_merge_permutation);
     - on the pool (model/Pool.v through [step] of model/Reach.v): every concurrent execution of
       submissions, production ticks and reads ends in the node of a sequential order of the same
       operations (C16_pool_serial), and ids are conserved: pooled + taken in = pooled afterwards +
       put into new blocks + logged as dropped, each exactly once when submitted ids are distinct
       (C16_pool_conservation_step, C16_no_loss_no_duplication sequentially; C16_conservation_run and
       C16_conservation_quiescent for every interleaving).
   Only theorems closed by [exact] of lemmas of proofs/Serial_lemmas.v, and examples. *)
From RV Require Import model.Base model.Ledger model.Registry model.Chain model.Sync model.Pool
     model.Reach model.Serial proofs.Pool_lemmas proofs.Serial_lemmas.
From Coq Require Import Permutation.

(* ---- 1. the lock ---- *)

(* a thread between its Acquire and its Release holds the lock and is alone there *)
Theorem C16_lock_invariant :
  forall (State Res Op : Type) (run : Op -> State -> State * Res)
         (progs : list (list (call Op))) (s0 : State) (st : gstate State Res Op),
    sreachable run progs s0 st ->
    forall i, in_cs st i = true ->
      g_lock st = Some i /\ forall j, j <> i -> in_cs st j = false.
Proof. exact lock_invariant. Qed.

(* a thread about to Apply holds the lock and no other thread is inside a critical section *)
Theorem C16_apply_exclusive :
  forall (State Res Op : Type) (run : Op -> State -> State * Res)
         (progs : list (list (call Op))) (s0 : State) (st : gstate State Res Op)
         (i : nat) (o : Op) (r : list (sevent Op)),
    sreachable run progs s0 st -> th_evs (thread st i) = EvApply o :: r ->
    g_lock st = Some i /\ forall j, j <> i -> in_cs st j = false.
Proof. exact apply_exclusive. Qed.

(* while something is left to run, some thread can move *)
Theorem C16_no_deadlock :
  forall (State Res Op : Type) (run : Op -> State -> State * Res)
         (progs : list (list (call Op))) (s0 : State) (st : gstate State Res Op),
    sreachable run progs s0 st -> ~ quiescent st -> exists i st', sstep run st i st'.
Proof. exact progress. Qed.

(* every step consumes exactly one event: executions are finite *)
Theorem C16_step_consumes :
  forall (State Res Op : Type) (run : Op -> State -> State * Res)
         (st : gstate State Res Op) (i : nat) (st' : gstate State Res Op),
    sstep run st i st' -> remaining State Res Op st = Datatypes.S (remaining State Res Op st').
Proof. exact step_consumes. Qed.

(* ---- 2. serializability ---- *)

(* along any run, with [log] the Apply events in the order they happened: the shared state is the
   serial run of [log]; each thread's results are its results in that serial run; each thread's
   applied operations followed by those it has still to apply are its program *)
Theorem C16_trace_serializable :
  forall (State Res Op : Type) (run : Op -> State -> State * Res)
         (progs : list (list (call Op))) (s0 : State)
         (log : list (nat * Op)) (st : gstate State Res Op),
    srun run (sinit progs s0) log st ->
    g_s st = fst (serial_run run log s0) /\
    (forall i, th_res (thread st i) = proj i (snd (serial_run run log s0))) /\
    (forall i, proj i log ++ pending Op (th_evs (thread st i)) = ops_of (nth i progs [])).
Proof. exact trace_serializable. Qed.

(* at quiescence the Apply events are an interleaving of the programs *)
Theorem C16_quiescent_merge :
  forall (State Res Op : Type) (run : Op -> State -> State * Res)
         (progs : list (list (call Op))) (s0 : State)
         (log : list (nat * Op)) (st : gstate State Res Op),
    srun run (sinit progs s0) log st -> quiescent st -> is_merge log (map ops_of progs).
Proof. exact quiescent_merge. Qed.

(* every reachable quiescent state is the outcome of a sequential order of all the operations
   that respects each thread's own order, results included *)
Theorem C16_serializable :
  forall (State Res Op : Type) (run : Op -> State -> State * Res)
         (progs : list (list (call Op))) (s0 : State) (st : gstate State Res Op),
    sreachable run progs s0 st -> quiescent st ->
    exists order : list (nat * Op),
      is_merge order (map ops_of progs) /\
      fst (serial_run run order s0) = g_s st /\
      forall i, proj i (snd (serial_run run order s0)) = th_res (thread st i).
Proof. exact serializable. Qed.

(* an interleaving holds every element of every thread exactly once *)
Theorem C16_merge_permutation :
  forall (A : Type) (order : list (nat * A)) (ls : list (list A)),
    is_merge order ls -> Permutation (map snd order) (List.concat ls).
Proof. exact @is_merge_permutation. Qed.

(* a schedule that executes is a run from the initial state *)
Theorem C16_exec_reachable :
  forall (State Res Op : Type) (run : Op -> State -> State * Res)
         (progs : list (list (call Op))) (s0 : State) (sched : list nat)
         (st : gstate State Res Op) (log : list (nat * Op)),
    exec run sched (sinit progs s0) = Some (st, log) ->
    sreachable run progs s0 st /\ srun run (sinit progs s0) log st.
Proof. exact exec_sound. Qed.

(* ---- 3. the pool ---- *)

(* a pool operation acts on the node as [step] of model/Reach.v does *)
Theorem C16_pool_op_is_step :
  forall (value_fn : N -> bool -> Z -> N) (addr_of : string -> string) (sig_ok : input -> bool)
         (H : block -> hash) (gen_id : slice input -> slice output -> Z -> string)
         (St : settings) (validator : string) (p : pop) (n : node),
    fst (pool_sop value_fn addr_of sig_ok H gen_id St validator p n) =
    match p with
    | PAdd t => step value_fn addr_of sig_ok H gen_id St validator n (OpAdd t)
    | PValidate ts perm => step value_fn addr_of sig_ok H gen_id St validator n (OpValidate ts perm)
    | PRead => n
    end.
Proof. exact pool_sop_is_step. Qed.

(* any concurrent execution of submissions, production ticks and reads, by any number of threads,
   ends in a node that a sequential order of the same operations, respecting each thread's order,
   also produces; and every caller got the result it gets in that sequential run *)
Theorem C16_pool_serial :
  forall (value_fn : N -> bool -> Z -> N) (addr_of : string -> string) (sig_ok : input -> bool)
         (H : block -> hash) (gen_id : slice input -> slice output -> Z -> string)
         (St : settings) (validator : string)
         (progs : list (list (call pop))) (n0 : node) (st : gstate node pres pop),
    sreachable (pool_sop value_fn addr_of sig_ok H gen_id St validator) progs n0 st ->
    quiescent st ->
    exists order : list (nat * pop),
      is_merge order (map ops_of progs) /\
      Permutation (map snd order) (List.concat (map ops_of progs)) /\
      g_s st = fold_left (pop_step value_fn addr_of sig_ok H gen_id St validator) (map snd order) n0 /\
      forall i, th_res (thread st i) =
                proj i (snd (serial_run (pool_sop value_fn addr_of sig_ok H gen_id St validator) order n0)).
Proof. exact Serial_lemmas.C16_pool_serial. Qed.

(* ---- 4. conservation ---- *)

(* one operation: a submission either leaves the node as it was or appends its id to the pool
   (the chain untouched; the id was not pooled); a production tick either leaves the node as it was,
   or (a tick not after the tip, refused by AddBlock) leaves the chain state as it was and the pool
   re-ordered, or appends one block whose ordinary transactions come from the pool and empties the pool, every
   pooled id being then in the block or in the dropped log, once; a read changes nothing *)
Theorem C16_pool_conservation_step :
  forall (value_fn : N -> bool -> Z -> N) (addr_of : string -> string) (sig_ok : input -> bool)
         (H : block -> hash) (gen_id : slice input -> slice output -> Z -> string)
         (St : settings) (validator : string) (n : node) (p : pop),
    match p with
    | PAdd t =>
      (exists e, pool_sop value_fn addr_of sig_ok H gen_id St validator p n = (n, RAdd (Some e))) \/
      (exists n', pool_sop value_fn addr_of sig_ok H gen_id St validator p n = (n', RAdd None) /\
                  pool_ids n' = pool_ids n ++ [t_id t] /\ n_c n' = n_c n /\
                  ~ In (t_id t) (pool_ids n))
    | PValidate ts perm =>
      (exists e, pool_sop value_fn addr_of sig_ok H gen_id St validator p n = (n, RVal (Refused e))) \/
      (exists n', pool_sop value_fn addr_of sig_ok H gen_id St validator p n = (n', RVal (Refused ETime)) /\
                  n_c n' = n_c n /\
                  chain (n_c n) <> [] /\ (ts <= last_block_ts (chain (n_c n)))%Z /\
                  (Permutation perm (seq 0 (length (elems (n_pool n)))) ->
                   Permutation (pool_ids n) (pool_ids n'))) \/
      (exists n' d b,
          pool_sop value_fn addr_of sig_ok H gen_id St validator p n = (n', RVal (Produced d)) /\
          chain (n_c n') = chain (n_c n) ++ [b] /\ pool_ids n' = [] /\
          incl (body b) (elems (n_pool n)) /\
          (Permutation perm (seq 0 (length (elems (n_pool n)))) ->
           Permutation (pool_ids n) (body_ids b ++ map fst d)))
    | PRead => pool_sop value_fn addr_of sig_ok H gen_id St validator p n = (n, RRead (pool_ids n))
    end.
Proof. exact pool_conservation_step. Qed.

(* along any sequential run in which every shuffle is a rearrangement of the pool's indices
   (rand.Shuffle), from a pool whose ids together with the submitted ids are pairwise distinct:
   the chain only grows, and (pooled at the start ++ taken in) is a rearrangement of
   (pooled at the end ++ ordinary transactions of the blocks appended ++ logged as dropped), which
   has no repetition: every pooled or accepted id is afterwards in exactly one place, once *)
Theorem C16_no_loss_no_duplication :
  forall (value_fn : N -> bool -> Z -> N) (addr_of : string -> string) (sig_ok : input -> bool)
         (H : block -> hash) (gen_id : slice input -> slice output -> Z -> string)
         (St : settings) (validator : string) (order : list (nat * pop)) (n : node),
    shuffles_ok value_fn addr_of sig_ok H gen_id St validator order n ->
    NoDup (pool_ids n ++ submitted order) ->
    exists bs,
      chain (n_c (fst (serial_run (pool_sop value_fn addr_of sig_ok H gen_id St validator) order n)))
      = chain (n_c n) ++ bs /\
      let before := pool_ids n ++ accepted value_fn addr_of sig_ok H gen_id St validator order n in
      let after :=
          pool_ids (fst (serial_run (pool_sop value_fn addr_of sig_ok H gen_id St validator) order n))
          ++ flat_map body_ids bs
          ++ dropped_ids value_fn addr_of sig_ok H gen_id St validator order n in
      Permutation before after /\ NoDup after /\
      forall id, In id before -> count_occ string_dec after id = 1%nat.
Proof. exact Serial_lemmas.C16_no_loss_no_duplication. Qed.

(* the same at any point of any interleaving, [log] being the Apply events so far *)
Theorem C16_conservation_run :
  forall (value_fn : N -> bool -> Z -> N) (addr_of : string -> string) (sig_ok : input -> bool)
         (H : block -> hash) (gen_id : slice input -> slice output -> Z -> string)
         (St : settings) (validator : string)
         (progs : list (list (call pop))) (n0 : node) (log : list (nat * pop))
         (st : gstate node pres pop),
    srun (pool_sop value_fn addr_of sig_ok H gen_id St validator) (sinit progs n0) log st ->
    shuffles_ok value_fn addr_of sig_ok H gen_id St validator log n0 ->
    NoDup (pool_ids n0 ++ submitted log) ->
    exists bs,
      chain (n_c (g_s st)) = chain (n_c n0) ++ bs /\
      let before := pool_ids n0 ++ accepted value_fn addr_of sig_ok H gen_id St validator log n0 in
      let after := pool_ids (g_s st) ++ flat_map body_ids bs
                   ++ dropped_ids value_fn addr_of sig_ok H gen_id St validator log n0 in
      Permutation before after /\ NoDup after /\
      forall id, In id before -> count_occ string_dec after id = 1%nat.
Proof. exact Serial_lemmas.C16_conservation_run. Qed.

(* and at quiescence of every interleaving, the distinctness being asked of the programs' text *)
Theorem C16_conservation_quiescent :
  forall (value_fn : N -> bool -> Z -> N) (addr_of : string -> string) (sig_ok : input -> bool)
         (H : block -> hash) (gen_id : slice input -> slice output -> Z -> string)
         (St : settings) (validator : string)
         (progs : list (list (call pop))) (n0 : node) (st : gstate node pres pop),
    sreachable (pool_sop value_fn addr_of sig_ok H gen_id St validator) progs n0 st ->
    quiescent st ->
    NoDup (pool_ids n0 ++ pop_ids (List.concat (map ops_of progs))) ->
    exists order : list (nat * pop),
      is_merge order (map ops_of progs) /\
      g_s st = fold_left (pop_step value_fn addr_of sig_ok H gen_id St validator) (map snd order) n0 /\
      (shuffles_ok value_fn addr_of sig_ok H gen_id St validator order n0 ->
       exists bs,
         chain (n_c (g_s st)) = chain (n_c n0) ++ bs /\
         let before := pool_ids n0 ++ accepted value_fn addr_of sig_ok H gen_id St validator order n0 in
         let after := pool_ids (g_s st) ++ flat_map body_ids bs
                      ++ dropped_ids value_fn addr_of sig_ok H gen_id St validator order n0 in
         Permutation before after /\ NoDup after /\
         forall id, In id before -> count_occ string_dec after id = 1%nat).
Proof. exact Serial_lemmas.C16_conservation_quiescent. Qed.

(* ---- non-vacuity ---- *)

(* a counter, operations as functions (fetch-and-increment, fetch-and-double); thread 0 runs
   incr then dbl, thread 1 runs incr. Under [toy_sched] thread 1 gets the lock first: the run
   reaches the quiescent state (14, results [6; 7] and [5]) and the Apply events were
   (1, incr); (0, incr); (0, dbl) *)
Example C16_toy_run :
  exec frun toy_sched (sinit toy_progs 5) = Some (toy_final, toy_log) /\
  quiescentb toy_final = true.
Proof. vm_compute. split; reflexivity. Qed.

(* its serial order: running the three operations one after another from 5 gives the same state
   and the same results, and the order restricted to each thread is that thread's program *)
Example C16_toy_serial_order :
  serial_run frun toy_log 5 = (g_s toy_final, [(1, 5); (0, 6); (0, 7)]%nat) /\
  proj 0 (snd (serial_run frun toy_log 5)) = th_res (thread toy_final 0) /\
  proj 1 (snd (serial_run frun toy_log 5)) = th_res (thread toy_final 1) /\
  proj 0 toy_log = ops_of (nth 0 toy_progs []) /\
  proj 1 toy_log = ops_of (nth 1 toy_progs []) /\
  proj 2 toy_log = ops_of (nth 2 toy_progs []).
Proof. vm_compute. repeat split. Qed.

(* the other sequential order (thread 0 first) gives another state: the interleaving matters *)
Example C16_toy_other_order :
  fst (serial_run frun [(0, toy_incr); (0, toy_dbl); (1, toy_incr)]%nat 5) = 13%nat.
Proof. vm_compute. reflexivity. Qed.

(* the lock bites: thread 1 holds it, thread 0 finishes its private step and then cannot Acquire *)
Example C16_toy_blocked :
  exec frun [1; 0; 0]%nat (sinit toy_progs 5) = None /\
  (exists st log, exec frun [1; 0]%nat (sinit toy_progs 5) = Some (st, log) /\
                  g_lock st = Some 1%nat /\ in_cs st 1 = true /\ in_cs st 0 = false).
Proof. split; [vm_compute; reflexivity|]. eexists. eexists. vm_compute. repeat split. Qed.

(* the pool (the node of the examples of C11): thread 0 produces the genesis block and, one tick
   later, a second block; thread 1 submits a transaction spending the genesis reward in between and
   reads the pool at the end. The run ends quiescent with an empty pool and two blocks, the
   transaction in the second one; nothing was dropped *)
Example C16_pool_run :
  match exec pex_run pex_sched (sinit pex_progs node_empty) with
  | Some (st, log) =>
    log = pex_log /\ quiescentb st = true /\ g_lock st = None /\
    pool_ids (g_s st) = [] /\ length (chain (n_c (g_s st))) = 2%nat /\
    flat_map body_ids (chain (n_c (g_s st))) = ["t1"%string] /\
    map th_res (g_threads st) =
      [[RVal (Produced []); RVal (Produced [])]; [RAdd None; RRead []]]
  | None => False
  end.
Proof. vm_compute. repeat split. Qed.

(* the hypotheses of the conservation theorems hold of this run *)
Example C16_pool_run_hypotheses :
  shuffles_ok (fun (x : N) (_ : bool) (_ : Z) => x) (fun k : string => k) (fun _ : input => true)
              (fun _ : block => zero_hash)
              (fun (_ : slice input) (_ : slice output) (_ : Z) => "id"%string)
              (mkSettings 5 1 100 10) "v"%string pex_log node_empty /\
  NoDup (pool_ids node_empty ++ submitted pex_log) /\
  NoDup (pool_ids node_empty ++ pop_ids (List.concat (map ops_of pex_progs))) /\
  accepted (fun (x : N) (_ : bool) (_ : Z) => x) (fun k : string => k) (fun _ : input => true)
           (fun _ : block => zero_hash)
           (fun (_ : slice input) (_ : slice output) (_ : Z) => "id"%string)
           (mkSettings 5 1 100 10) "v"%string pex_log node_empty = ["t1"%string] /\
  dropped_ids (fun (x : N) (_ : bool) (_ : Z) => x) (fun k : string => k) (fun _ : input => true)
           (fun _ : block => zero_hash)
           (fun (_ : slice input) (_ : slice output) (_ : Z) => "id"%string)
           (mkSettings 5 1 100 10) "v"%string pex_log node_empty = [].
Proof.
  vm_compute.
  repeat split; try apply Permutation_refl; repeat constructor; intros [].
Qed.

Print Assumptions C16_lock_invariant.
Print Assumptions C16_apply_exclusive.
Print Assumptions C16_no_deadlock.
Print Assumptions C16_step_consumes.
Print Assumptions C16_trace_serializable.
Print Assumptions C16_quiescent_merge.
Print Assumptions C16_serializable.
Print Assumptions C16_merge_permutation.
Print Assumptions C16_exec_reachable.
Print Assumptions C16_pool_op_is_step.
Print Assumptions C16_pool_serial.
Print Assumptions C16_pool_conservation_step.
Print Assumptions C16_no_loss_no_duplication.
Print Assumptions C16_conservation_run.
Print Assumptions C16_conservation_quiescent.
