(* C10 — in every chain a node produces or adopts, no address ever owns two unspent yielding
   outputs at once, and an ordinary transaction's yielding output is accepted only if its address
   is registered in that chain's confirmed state or is listed as newly registered by the very
   block that contains it. Every address to which an honest producer's block gives a yielding
   output is listed by that block as newly registered unless it already is, and addresses a block
   lists as removed stop being registered once that block is confirmed.
   This file contains only the property theorems, each closed by [exact] of a lemma of
   proofs/Spend_lemmas.v. *)
From RV Require Import model.Base model.Ledger model.Registry model.Chain model.Sync model.Pool
                       model.Reach proofs.Spend_lemmas.

(* ---- one unspent yielding output per address ---- *)
Theorem C10_one_yielding_after_block : forall (reg : ureg) (l : list tx) (ts : Z) (reg' : ureg),
  update_utxos reg l ts = Ok reg' -> forall a : string, count_yielding (utxos_of reg' a) <= 1.
Proof. exact Spend_lemmas.C10_one_yielding_after_block. Qed.

Theorem C10_one_yielding_after_chain :
  forall (u : ureg) (a : areg) (l : list block) (u' : ureg) (a' : areg),
  replay_from u a l = Ok (u', a') ->
  l <> [] \/ (forall x : string, count_yielding (utxos_of u x) <= 1) ->
  forall x : string, count_yielding (utxos_of u' x) <= 1.
Proof. exact Spend_lemmas.C10_one_yielding_after_chain. Qed.

(* the state a chain denotes *)
Theorem C10_one_yielding_replay : forall (l : list block) (u : ureg) (a : areg),
  replay l = Ok (u, a) -> forall x : string, count_yielding (utxos_of u x) <= 1.
Proof. exact Spend_lemmas.C10_one_yielding_replay. Qed.

(* every state a node reaches (production, admissions, sync rounds with arbitrary neighbors,
   registry refreshes), including after a sync round whose commit loop failed half-way *)
Theorem C10_reachable_one_yielding :
  forall (value_fn : N -> bool -> Z -> N) (addr_of : string -> string) (sig_ok : input -> bool)
         (H : block -> hash) (gen_id : slice input -> slice output -> Z -> string)
         (S0 : settings) (validator : string) (n : node),
  reach value_fn addr_of sig_ok H gen_id S0 validator n ->
  forall a : string, count_yielding (utxos_of (ur (n_c n)) a) <= 1.
Proof. exact Spend_lemmas.C10_reachable_one_yielding. Qed.

Example C10_two_yielding_one_tx_rejected : update_utxos ureg_empty [yl_two] 0 = Err ETwoIncomes.
Proof. vm_compute. reflexivity. Qed.

Example C10_two_yielding_two_txs_rejected : update_utxos ureg_empty [yl_1; yl_2] 0 = Err ETwoIncomes.
Proof. vm_compute. reflexivity. Qed.

Example C10_two_yielding_across_blocks_rejected :
  exists u : ureg, update_utxos ureg_empty [yl_1] 0 = Ok u /\ update_utxos u [yl_2] 5 = Err ETwoIncomes.
Proof. exact Spend_lemmas.C10_two_yielding_across_blocks_rejected. Qed.

Example C10_spent_and_recreated_accepted :
  exists u u' : ureg,
    update_utxos ureg_empty [yl_1] 0 = Ok u /\ update_utxos u [yl_3] 5 = Ok u' /\
    count_yielding (utxos_of u' "a"%string) = 1.
Proof. exact Spend_lemmas.C10_spent_and_recreated_accepted. Qed.

(* ---- yielding outputs of ordinary transactions go to registered or newly listed addresses ---- *)
Theorem C10_yield_registered :
  forall (value_fn : N -> bool -> Z -> N) (addr_of : string -> string) (sig_ok : input -> bool)
         (S : settings) (c : cstate) (b : block) (prev now : Z),
  verify_block value_fn addr_of sig_ok S c b prev now = Ok tt ->
  forall (t : tx) (o : output),
    In t (txs b) -> is_reward t = false -> In o (outs t) -> o_yield o = true ->
    In (o_addr o) (elems (b_added b)) \/ is_registered (ar c) (o_addr o) = true.
Proof. exact Spend_lemmas.C10_yield_registered. Qed.

(* remark: the reward transaction is exempt from the test *)
Example C10_reward_yield_unchecked_witness :
  verify_block (fun v _ _ => v) (fun _ => "A"%string) (fun _ => true) ad_S cstate_empty yr_block 0 5 = Ok tt /\
  is_registered (ar cstate_empty) "v"%string = false /\ elems (b_added yr_block) = [].
Proof. exact Spend_lemmas.C10_reward_yield_unchecked_witness. Qed.

(* ---- the honest producer lists what it gives a yielding output to ---- *)
Theorem C10_filter_new_spec : forall (ar : areg) (l : list string) (a : string),
  In a (elems (filter_new ar l)) <-> In a l /\ is_registered ar a = false.
Proof. exact Spend_lemmas.filter_new_spec. Qed.

Theorem C10_producer_lists :
  forall (value_fn : N -> bool -> Z -> N) (addr_of : string -> string) (sig_ok : input -> bool)
         (H : block -> hash) (gen_id : slice input -> slice output -> Z -> string) (S : settings)
         (validator : string) (n : node) (ts : Z) (perm : list nat) (n' : node)
         (d : list (string * drop)),
  validate value_fn addr_of sig_ok H gen_id S validator n ts perm = (n', Produced d) ->
  exists b : block,
    chain (n_c n') = chain (n_c n) ++ [b] /\
    (forall (t : tx) (o : output),
       In t (txs b) -> In o (outs t) -> o_yield o = true ->
       In (o_addr o) (elems (b_added b)) \/ is_registered (ar (n_c n)) (o_addr o) = true).
Proof. exact Spend_lemmas.C10_producer_lists. Qed.

(* ---- removed addresses ---- *)
Theorem C10_removed : forall (ar : areg) (added removed : list string) (x : string),
  (In x added -> is_registered (reg_update ar added removed) x = true) /\
  (In x removed -> ~ In x added -> is_registered (reg_update ar added removed) x = false) /\
  (~ In x removed -> ~ In x added ->
   is_registered (reg_update ar added removed) x = is_registered ar x).
Proof. exact Spend_lemmas.C10_removed. Qed.

Theorem C10_removed_after_block :
  forall (u : ureg) (a : areg) (b : block) (u' : ureg) (a' : areg) (x : string),
  apply_block u a b = Ok (u', a') ->
  (In x (elems (b_removed b)) -> ~ In x (elems (b_added b)) -> is_registered a' x = false) /\
  (In x (elems (b_added b)) -> is_registered a' x = true).
Proof. exact Spend_lemmas.C10_removed_after_block. Qed.

(* additions are applied after removals: an address in both lists stays registered *)
Example C10_removed_and_added_stays :
  is_registered (reg_update (mkAreg ["a"%string; "b"%string] (Some ["a"%string]))
                            ["a"%string] ["a"%string; "b"%string]) "a"%string = true /\
  is_registered (reg_update (mkAreg ["a"%string; "b"%string] (Some ["a"%string]))
                            ["a"%string] ["a"%string; "b"%string]) "b"%string = false.
Proof. vm_compute. split; reflexivity. Qed.

Print Assumptions C10_one_yielding_after_block.
Print Assumptions C10_one_yielding_after_chain.
Print Assumptions C10_one_yielding_replay.
Print Assumptions C10_reachable_one_yielding.
Print Assumptions C10_yield_registered.
Print Assumptions C10_filter_new_spec.
Print Assumptions C10_producer_lists.
Print Assumptions C10_removed.
Print Assumptions C10_removed_after_block.
