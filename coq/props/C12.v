(* C12 — a block, once in a node's chain, stays there unchanged unless a full re-synchronization
   replaces the chain by a verified one; incremental adoption leaves every block below the tip
   untouched; the chain a node serves is hash-linked (blockchain.go:41-57, 99-266, 284-365).
   This file contains only the property theorems, each closed by [exact] of a lemma of
   proofs/Reach_lemmas.v. *)
From RV Require Import model.Base model.Ledger model.Registry model.Chain model.Sync model.Pool model.Reach.
From RV Require Import proofs.Sync_lemmas proofs.Reach_lemmas.

(* one operation, from any state (no reachability needed):
   - a production tick keeps the chain or appends one block;
   - a submission and a registry refresh keep it;
   - a sync round keeps it, or (full re-sync, only when the fork test fired) replaces it by a
     neighbor's answer that passed [verify] from its first block, or (incremental) keeps
     everything below the tip and appends a neighbor's non-empty answer to it *)
Theorem C12_step_chain :
  forall (value_fn : N -> bool -> Z -> N) (addr_of : string -> string) (sig_ok : input -> bool)
         (H : block -> hash) (gen_id : slice input -> slice output -> Z -> string)
         (St : settings) (validator : string) (n : node) (o : op),
    let c := chain (n_c n) in
    let c' := chain (n_c (step value_fn addr_of sig_ok H gen_id St validator n o)) in
    match o with
    | OpValidate _ _ => c' = c \/ exists b : block, c' = c ++ [b]
    | OpAdd _ => c' = c
    | OpRegSync _ _ => c' = c
    | OpUpdate now nbs pref =>
      c' = c \/
      (is_fork (n_c n) (stage1 value_fn addr_of sig_ok H St (n_c n) now nbs) nbs = true /\
       exists nb : neighbor,
         In nb nbs /\ nb_full nb = RBlocks c' /\
         verify value_fn addr_of sig_ok H St (n_c n) (removelast c) c' [] now = Ok c') \/
      ((exists (nb : neighbor) (l : list block),
          In nb nbs /\ nb_inc nb = RBlocks l /\ l <> [] /\ c' = removelast c ++ l) /\
       prefix (removelast c) c')
    end.
Proof. exact step_chain. Qed.

(* every chain a reachable node holds is hash-linked from its first block. No hypothesis on the
   hash function is needed: every link is either made by AddBlock (hash of the tip) or compared
   by verify (previous hash of block i against the hash of block i-1). *)
Theorem C12_linked :
  forall (value_fn : N -> bool -> Z -> N) (addr_of : string -> string) (sig_ok : input -> bool)
         (H : block -> hash) (gen_id : slice input -> slice output -> Z -> string)
         (St : settings) (validator : string) (n : node),
    reach value_fn addr_of sig_ok H gen_id St validator n ->
    chain_linked H (chain (n_c n)).
Proof. exact reach_linked. Qed.

(* linkedness is kept by every operation from every state, whatever the neighbors answer *)
Theorem C12_step_linked :
  forall (value_fn : N -> bool -> Z -> N) (addr_of : string -> string) (sig_ok : input -> bool)
         (H : block -> hash) (gen_id : slice input -> slice output -> Z -> string)
         (St : settings) (validator : string) (n : node) (o : op),
    chain_linked H (chain (n_c n)) ->
    chain_linked H (chain (n_c (step value_fn addr_of sig_ok H gen_id St validator n o))).
Proof. exact step_linked. Qed.

(* what [verify] checks of the links: an accepted answer [neigh] is linked to the last block of
   [old] (incremental), or is linked from its first block, whose previous hash is zero (full) *)
Theorem C12_verify_linked :
  forall (value_fn : N -> bool -> Z -> N) (addr_of : string -> string) (sig_ok : input -> bool)
         (H : block -> hash) (St : settings)
         (host : cstate) (lh neigh old : list block) (now : Z) (v : list block),
    verify value_fn addr_of sig_ok H St host lh neigh old now = Ok v ->
    match last_block old, neigh with
    | Some p, _ => linked H p neigh
    | None, g :: r => b_prev g = zero_hash /\ linked H g r
    | None, [] => False
    end.
Proof. exact verify_linked. Qed.

(* ---- the hypotheses are satisfiable (ReachExample in proofs/Reach_lemmas.v) ---- *)

(* a node that produced two blocks: the second step appended one block to the first *)
Example C12_ex_reachable :
  reach SyncExample.vf SyncExample.ao SyncExample.so ReachExample.Hinj ReachExample.gid SyncExample.Sx
        "V"%string (ReachExample.n2 ReachExample.Hinj) /\
  length (chain (n_c (ReachExample.n2 ReachExample.Hinj))) = 2 /\
  exists b : block,
    chain (n_c (ReachExample.n2 ReachExample.Hinj)) = chain (n_c (ReachExample.n1 ReachExample.Hinj)) ++ [b].
Proof.
  split; [exact ReachExample.n2_reach|]. split; [vm_compute; reflexivity|].
  eexists. vm_compute. reflexivity.
Qed.

(* a sync round in which that node replaces its two blocks by a neighbor's three (full re-sync) *)
Example C12_ex_resync :
  reach SyncExample.vf SyncExample.ao SyncExample.so ReachExample.Hinj ReachExample.gid SyncExample.Sx
        "V"%string ReachExample.n3 /\
  chain (n_c ReachExample.n3) = chain (n_c ReachExample.w3) /\
  length (chain (n_c ReachExample.n3)) = 3 /\
  is_fork (n_c (ReachExample.n2 ReachExample.Hinj))
          (stage1 SyncExample.vf SyncExample.ao SyncExample.so ReachExample.Hinj SyncExample.Sx
                  (n_c (ReachExample.n2 ReachExample.Hinj)) 40 [ReachExample.nbW])
          [ReachExample.nbW] = true.
Proof.
  split; [apply reach_pos_reach; exact ReachExample.n3_reach_pos|]. vm_compute. repeat split; reflexivity.
Qed.

Print Assumptions C12_step_chain.
Print Assumptions C12_linked.
Print Assumptions C12_step_linked.
Print Assumptions C12_verify_linked.
