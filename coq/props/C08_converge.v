(* C08, the convergence half — "A node whose own chain is a prefix of chain C (or that holds at most
   two blocks of its own and fewer than C) and whose neighbors are honest nodes holding C (at least
   two blocks, tip not in the future), holds exactly C after at most 1 + ceil (|C| / (page size - 1))
   sync rounds, with the same spendable outputs and registered addresses as the serving node,
   provided the page size is at least 3."
   The validation interval must be positive: verify ends with AddBlock of a block dated one interval
   after the last answered block (blockchain.go:358-363), and AddBlock refuses a block that is not
   dated after the tip, so with an interval <= 0 no answer is ever accepted (C04_verified_interval_pos)
   and a node that is behind stays behind. The theorems that derive an adoption carry the hypothesis
   0 < s_interval; those saying that a node already holding C keeps it do not need it.
   The paging half (Blockchain.Blocks) is props/C08.v. This file is about Blockchain.Update
   (blockchain.go:99-266; model/Sync.v [update], model/Chain.v [verify]).

   Vocabulary (proofs/Converge_lemmas.v):
   - [page_verifiable now C]: for every adjacent pair p, b of C, with X the blocks before p,
     verifyBlock accepts b against the shadow state (chain X ++ [p], registers = replay X). This is
     what the code checks: inside one answered page the verifier's registers lag one block behind
     (block j is checked against the replay of the blocks before block j - 1; block 1 against the
     empty registers). Wallet-style chains (every transaction spends outputs confirmed at least two
     blocks back) satisfy it; C08_page_verifiable_positions restates it position by position.
   - [servable now C]: C is hash-linked, its first block points to the zero hash, its replay
     succeeds, it is page_verifiable, every block holds a reward transaction, tip not after [now].
   - [serves_inc Se C st nb] / [serves_full Se C nb] / [serves]: the neighbor is not called "host"
     and answers the incremental request of [st] (height |chain st| - 1), resp. the full request
     (height 0), with the page Blocks returns on C.
   - [sync_rounds ... C now0 st n st']: n rounds of Update, at times >= now0, each with a non-empty
     set of neighbors that all serve C, any arg-max iteration order.
   - [lim Se] = page size as a nat; [ceil_div d k] = (d + k - 1) / k;
     [denotes c u a] (proofs/Reach_lemmas.v, C07) = the registers are the replay of c minus its tip.
   An empty-chain node never syncs (Update does nothing at length 0): hence 1 <= |chain|.
   This file contains only the property theorems, each closed by [exact] of a lemma. *)
From RV Require Import model.Base model.Ledger model.Registry model.Chain model.Sync model.Pool model.Reach
  proofs.Sync_lemmas proofs.Reach_lemmas proofs.Converge_lemmas.

(* ---- 1. the hypothesis on C, position by position ---- *)
Theorem C08_page_verifiable_positions :
  forall (value_fn : N -> bool -> Z -> N) (addr_of : string -> string) (sig_ok : input -> bool)
         (Se : settings) (now : Z) (C : list block),
    page_verifiable value_fn addr_of sig_ok Se now C <->
    (forall (j : nat) (p b : block) (u : ureg) (a : areg),
       nth_error C j = Some p -> nth_error C (S j) = Some b ->
       replay (firstn j C) = Ok (u, a) ->
       verify_block value_fn addr_of sig_ok Se (mkC (firstn (S j) C) u a) b (b_ts p) now = Ok tt).
Proof. exact page_verifiable_nth. Qed.

(* ---- 2. verify accepts the pages of C ---- *)

(* incremental request: host = old ++ [tip] with the registers of [old]; answer = tip :: Q *)
Theorem C08_verify_prefix_page :
  forall (value_fn : N -> bool -> Z -> N) (addr_of : string -> string) (sig_ok : input -> bool)
         (H : block -> hash) (Se : settings) (st : cstate) (now : Z) (C old : list block)
         (tip : block) (Q T : list block) (a : areg),
    (0 < s_interval Se)%Z ->
    chain_linked H C ->
    (exists (u : ureg) (a0 : areg), replay C = Ok (u, a0)) ->
    page_verifiable value_fn addr_of sig_ok Se now C ->
    C = old ++ tip :: Q ++ T -> old <> [] ->
    replay old = Ok (ur st, a) -> registered a = registered (ar st) ->
    verify value_fn addr_of sig_ok H Se st [tip] (tip :: Q) old now = Ok (tip :: Q).
Proof. exact verify_prefix_page. Qed.

(* full request: verified from the empty registers; the host window [lh] has at most one block *)
Theorem C08_verify_full_page :
  forall (value_fn : N -> bool -> Z -> N) (addr_of : string -> string) (sig_ok : input -> bool)
         (H : block -> hash) (Se : settings) (st : cstate) (now : Z) (C lh : list block)
         (g b1 : block) (Q T : list block),
    (0 < s_interval Se)%Z ->
    chain_linked H C -> genesis_rooted C ->
    (exists (u : ureg) (a : areg), replay C = Ok (u, a)) ->
    page_verifiable value_fn addr_of sig_ok Se now C ->
    C = g :: b1 :: Q ++ T -> length lh <= 1 ->
    verify value_fn addr_of sig_ok H Se st lh (g :: b1 :: Q) [] now = Ok (g :: b1 :: Q).
Proof. exact verify_full_page. Qed.

(* ---- 3. one incremental round: page size - 1 more blocks of C ---- *)
Theorem C08_round_extends_prefix :
  forall (value_fn : N -> bool -> Z -> N) (addr_of : string -> string) (sig_ok : input -> bool)
         (H : block -> hash) (Se : settings) (st : cstate) (now : Z) (nbs : list neighbor)
         (pref : string) (C P R : list block),
    (0 < s_interval Se)%Z ->
    servable value_fn addr_of sig_ok H Se now C ->
    C = P ++ R -> R <> [] -> chain st = P -> 2 < length P ->
    denotes P (ur st) (ar st) ->
    (3 <= s_limit Se)%N -> (N.of_nat (length C) + s_limit Se <= two64)%N ->
    nbs <> [] -> (forall nb : neighbor, In nb nbs -> serves_inc Se C st nb) ->
    exists st' : cstate,
      update value_fn addr_of sig_ok H Se st now nbs pref = (st', true) /\
      chain st' = P ++ firstn (lim Se - 1) R /\
      exists a : areg, replay (removelast (chain st')) = Ok (ur st', a) /\
                       registered a = registered (ar st').
Proof. exact round_extends_prefix. Qed.

(* a node that holds C keeps it, registers included *)
Theorem C08_round_stable :
  forall (value_fn : N -> bool -> Z -> N) (addr_of : string -> string) (sig_ok : input -> bool)
         (H : block -> hash) (Se : settings) (st : cstate) (now : Z) (nbs : list neighbor)
         (pref : string) (C : list block),
    servable value_fn addr_of sig_ok H Se now C ->
    chain st = C -> 2 < length C -> denotes C (ur st) (ar st) ->
    (1 <= s_limit Se)%N -> (N.of_nat (length C) + s_limit Se <= two64)%N ->
    (forall nb : neighbor, In nb nbs -> serves_inc Se C st nb) ->
    update value_fn addr_of sig_ok H Se st now nbs pref = (st, false).
Proof. exact round_stable. Qed.

(* ---- 5. the short starts: one full round adopts the first page of C ---- *)
Theorem C08_round_full_adopts :
  forall (value_fn : N -> bool -> Z -> N) (addr_of : string -> string) (sig_ok : input -> bool)
         (H : block -> hash) (Se : settings) (st : cstate) (now : Z) (nbs : list neighbor)
         (pref : string) (C : list block),
    (0 < s_interval Se)%Z ->
    servable value_fn addr_of sig_ok H Se now C ->
    1 <= length (chain st) <= 2 -> length (chain st) < length C ->
    (3 <= s_limit Se)%N -> (N.of_nat (length C) + s_limit Se <= two64)%N ->
    nbs <> [] -> (forall nb : neighbor, In nb nbs -> serves_full Se C nb) ->
    exists st' : cstate,
      update value_fn addr_of sig_ok H Se st now nbs pref = (st', true) /\
      chain st' = firstn (lim Se) C /\
      replay (removelast (chain st')) = Ok (ur st', ar st').
Proof. exact round_full_adopts. Qed.

Theorem C08_round_full_stable :
  forall (value_fn : N -> bool -> Z -> N) (addr_of : string -> string) (sig_ok : input -> bool)
         (H : block -> hash) (Se : settings) (st : cstate) (now : Z) (nbs : list neighbor)
         (pref : string) (C : list block),
    servable value_fn addr_of sig_ok H Se now C ->
    chain st = C -> length C = 2 ->
    (3 <= s_limit Se)%N -> (N.of_nat (length C) + s_limit Se <= two64)%N ->
    (forall nb : neighbor, In nb nbs -> serves_full Se C nb) ->
    update value_fn addr_of sig_ok H Se st now nbs pref = (st, false).
Proof. exact round_full_stable. Qed.

(* ---- 4. several rounds ---- *)

(* from a prefix longer than two blocks: any number of rounds n with |C| - |P| <= n (limit - 1) *)
Theorem C08_rounds_converge :
  forall (value_fn : N -> bool -> Z -> N) (addr_of : string -> string) (sig_ok : input -> bool)
         (H : block -> hash) (Se : settings) (C : list block) (now0 : Z),
    (0 < s_interval Se)%Z ->
    servable value_fn addr_of sig_ok H Se now0 C ->
    (3 <= s_limit Se)%N -> (N.of_nat (length C) + s_limit Se <= two64)%N ->
    forall (n : nat) (st st' : cstate),
      sync_rounds value_fn addr_of sig_ok H Se C now0 st n st' ->
      prefix (chain st) C -> 2 < length (chain st) ->
      denotes (chain st) (ur st) (ar st) ->
      length C - length (chain st) <= n * (lim Se - 1) ->
      chain st' = C /\
      exists a : areg, replay (removelast C) = Ok (ur st', a) /\ registered a = registered (ar st').
Proof. exact rounds_converge. Qed.

(* ... in particular n = ceil ((|C| - |P|) / (limit - 1)), which is within the stated bound *)
Theorem C08_rounds_converge_ceil :
  forall (value_fn : N -> bool -> Z -> N) (addr_of : string -> string) (sig_ok : input -> bool)
         (H : block -> hash) (Se : settings) (C : list block) (now0 : Z) (st st' : cstate),
    (0 < s_interval Se)%Z ->
    servable value_fn addr_of sig_ok H Se now0 C ->
    (3 <= s_limit Se)%N -> (N.of_nat (length C) + s_limit Se <= two64)%N ->
    prefix (chain st) C -> 2 < length (chain st) ->
    denotes (chain st) (ur st) (ar st) ->
    sync_rounds value_fn addr_of sig_ok H Se C now0 st
                (ceil_div (length C - length (chain st)) (lim Se - 1)) st' ->
    chain st' = C /\ denotes C (ur st') (ar st') /\
    ceil_div (length C - length (chain st)) (lim Se - 1) <= 1 + ceil_div (length C) (lim Se - 1).
Proof. exact rounds_converge_ceil. Qed.

Theorem C08_ceil_div_covers : forall d k : nat, 0 < k -> d <= ceil_div d k * k.
Proof. exact ceil_div_ok. Qed.

Theorem C08_ceil_div_least : forall d k : nat, 0 < k -> 0 < d -> (ceil_div d k - 1) * k < d.
Proof. exact ceil_div_least. Qed.

(* from every start the property allows, after any n >= 1 + ceil (|C| / (limit - 1)) rounds *)
Theorem C08_sync_converges :
  forall (value_fn : N -> bool -> Z -> N) (addr_of : string -> string) (sig_ok : input -> bool)
         (H : block -> hash) (Se : settings) (C : list block) (now0 : Z),
    (0 < s_interval Se)%Z ->
    servable value_fn addr_of sig_ok H Se now0 C ->
    (3 <= s_limit Se)%N -> (N.of_nat (length C) + s_limit Se <= two64)%N ->
    2 <= length C ->
    forall (n : nat) (st st' : cstate),
      sync_rounds value_fn addr_of sig_ok H Se C now0 st n st' ->
      1 <= length (chain st) ->
      prefix (chain st) C \/ (length (chain st) <= 2 /\ length (chain st) < length C) ->
      denotes (chain st) (ur st) (ar st) ->
      1 + ceil_div (length C) (lim Se - 1) <= n ->
      chain st' = C /\
      exists a : areg, replay (removelast C) = Ok (ur st', a) /\ registered a = registered (ar st').
Proof. exact sync_converges. Qed.

(* between reachable nodes: the node that catches up ends with the serving node's spendable
   outputs and registered addresses *)
Theorem C08_sync_converges_reach :
  forall (value_fn : N -> bool -> Z -> N) (addr_of : string -> string) (sig_ok : input -> bool)
         (H : block -> hash) (gen_id : slice input -> slice output -> Z -> string)
         (Se : settings) (validator validator' : string) (C : list block) (now0 : Z)
         (srv n0 : node),
    reach value_fn addr_of sig_ok H gen_id Se validator' srv -> chain (n_c srv) = C ->
    reach value_fn addr_of sig_ok H gen_id Se validator n0 ->
    (0 < s_interval Se)%Z ->
    servable value_fn addr_of sig_ok H Se now0 C ->
    (3 <= s_limit Se)%N -> (N.of_nat (length C) + s_limit Se <= two64)%N ->
    2 <= length C ->
    1 <= length (chain (n_c n0)) ->
    prefix (chain (n_c n0)) C \/
    (length (chain (n_c n0)) <= 2 /\ length (chain (n_c n0)) < length C) ->
    forall (n : nat) (st' : cstate),
      sync_rounds value_fn addr_of sig_ok H Se C now0 (n_c n0) n st' ->
      1 + ceil_div (length C) (lim Se - 1) <= n ->
      chain st' = C /\
      (forall addr : string, utxos_of (ur st') addr = utxos_of (ur (n_c srv)) addr) /\
      (forall addr : string, is_registered (ar st') addr = is_registered (ar (n_c srv)) addr).
Proof. exact sync_converges_reach. Qed.

(* ---- the hypotheses are satisfiable; the functions run ---- *)
(* a five-block chain whose block 3 spends the genesis output, page size 3 *)
Example C08_ex_servable :
  servable SyncExample.vf SyncExample.ao SyncExample.so SyncExample.Ht ConvergeExample.S3 40
           ConvergeExample.CC.
Proof. exact ConvergeExample.ex_servable. Qed.

Example C08_ex_settings :
  (3 <= s_limit ConvergeExample.S3)%N /\
  (N.of_nat (length ConvergeExample.CC) + s_limit ConvergeExample.S3 <= two64)%N.
Proof. exact ConvergeExample.ex_settings. Qed.

Example C08_ex_interval : (0 < s_interval ConvergeExample.S3)%Z.
Proof. reflexivity. Qed.

(* a node holding the genesis block only: a full round (3 blocks), an incremental round (5) *)
Example C08_ex_rounds :
  sync_rounds SyncExample.vf SyncExample.ao SyncExample.so SyncExample.Ht ConvergeExample.S3
              ConvergeExample.CC 40 ConvergeExample.st1 2 ConvergeExample.st5.
Proof. exact ConvergeExample.ex_rounds. Qed.

Example C08_ex_chains :
  chain ConvergeExample.st3 = [ConvergeExample.g0; ConvergeExample.c1; ConvergeExample.c2] /\
  chain ConvergeExample.st5 = ConvergeExample.CC /\
  replay (removelast ConvergeExample.CC) = Ok (ur ConvergeExample.st5, ar ConvergeExample.st5).
Proof. exact ConvergeExample.ex_chains. Qed.

Example C08_ex_bound : 1 + ceil_div (length ConvergeExample.CC) (lim ConvergeExample.S3 - 1) = 4.
Proof. vm_compute. reflexivity. Qed.

Print Assumptions C08_page_verifiable_positions.
Print Assumptions C08_verify_prefix_page.
Print Assumptions C08_verify_full_page.
Print Assumptions C08_round_extends_prefix.
Print Assumptions C08_round_stable.
Print Assumptions C08_round_full_adopts.
Print Assumptions C08_round_full_stable.
Print Assumptions C08_rounds_converge.
Print Assumptions C08_rounds_converge_ceil.
Print Assumptions C08_ceil_div_covers.
Print Assumptions C08_ceil_div_least.
Print Assumptions C08_sync_converges.
Print Assumptions C08_sync_converges_reach.
