(* C06 — A sync round changes a node's chain only to a candidate that passed full verification,
   and never to a shorter chain. The adopted chain is as long as the longest verified candidate,
   is not on a branch shared by fewer than half (rounded down) of the candidates, and among such
   chains its latest validator has gone at least as long without validating as any other's; in
   every other case, including an identical candidate, the chain is left exactly as it was.
   [pref] stands for Go's map iteration order: ties in waiting time may resolve either way.
   This file contains only the property theorems, each closed by [exact] of a lemma. *)
From RV Require Import model.Base model.Ledger model.Registry model.Chain model.Sync proofs.Sync_lemmas.

(* 1. Every candidate is the host's own chain (entered only when it has more than two blocks)
   or the answer of a neighbor that passed [verify], for the incremental or the full request. *)
Theorem C06_candidates_verified :
  forall value_fn addr_of sig_ok H S st now nbs t c,
    In (t, c) (candidates value_fn addr_of sig_ok H S st now nbs) ->
    (t = host_target /\ c = chain st /\ 2 < length (chain st)) \/
    (exists nb, In nb nbs /\ nb_target nb = t /\
       ((exists l v, nb_inc nb = RBlocks l /\ 2 < length (chain st) /\
                     verify value_fn addr_of sig_ok H S st
                            (match last_block (chain st) with Some b => [b] | None => [] end)
                            l (removelast (chain st)) now = Ok v /\
                     c = removelast (chain st) ++ v) \/
        (exists l v, nb_full nb = RBlocks l /\
                     verify value_fn addr_of sig_ok H S st (removelast (chain st)) l [] now = Ok v /\
                     c = v))).
Proof. exact candidates_verified. Qed.

Theorem C06_verify_returns_input :
  forall value_fn addr_of sig_ok H S host last_host neigh old_host now v,
    verify value_fn addr_of sig_ok H S host last_host neigh old_host now = Ok v -> v = neigh.
Proof. exact verify_returns_input. Qed.

(* 2. What survives the two filters: on a branch shared by at least half (rounded down) of the
   candidates, and as long as the longest of all candidates and of the host chain. *)
Theorem C06_survivors :
  forall st (m : cands) p,
    In p (survivors st m) <->
    In p m /\
    length m / 2 <=
      length (filter (fun q => hash_eqb (prev_at (snd p) (min_len (length (chain st)) m - 1))
                                        (prev_at (snd q) (min_len (length (chain st)) m - 1))) m) /\
    length (snd p) = max_len (length (chain st)) m.
Proof. exact survivors_spec. Qed.

Theorem C06_max_len :
  forall hl (m : cands), hl <= max_len hl m /\ forall p, In p m -> length (snd p) <= max_len hl m.
Proof. exact max_len_ge. Qed.

(* 3. The selection is a maximiser of the waiting time, whatever the iteration order. *)
Theorem C06_select_spec :
  forall pref (m : cands) sel,
    select pref m = Some sel ->
    (exists t, In (t, sel) m) /\ (0 < age_of sel)%N /\
    forall p, In p m -> (age_of (snd p) <= age_of sel)%N.
Proof. exact select_spec. Qed.

Theorem C06_select_none :
  forall pref (m : cands), select pref m = None <-> forall p, In p m -> age_of (snd p) = 0%N.
Proof. exact select_none. Qed.

(* 5. The commit loop reports success exactly when replaying the blocks in order succeeds. *)
Theorem C06_commit_loop_spec :
  forall u a l u' a', commit_loop u a l true = (u', a', true) <-> replay_from u a l = Ok (u', a').
Proof. exact commit_loop_spec. Qed.

(* 4. The two outcomes of a round. *)
Theorem C06_update_cases :
  forall value_fn addr_of sig_ok H S st now nbs pref st' rep,
    update value_fn addr_of sig_ok H S st now nbs pref = (st', rep) ->
    (rep = false /\ chain st' = chain st /\
     ((ur st' = ur st /\ ar st' = ar st) \/
      exists sel u0 a0 news,
        select pref (survivors st (candidates value_fn addr_of sig_ok H S st now nbs)) = Some sel /\
        is_different H (chain st) sel = true /\ sel <> [] /\
        commit_input st (is_fork st (stage1 value_fn addr_of sig_ok H S st now nbs) nbs) sel
          = (u0, a0, news) /\
        commit_loop u0 a0 news true = (ur st', ar st', false)))
    \/
    (rep = true /\
     (exists t, In (t, chain st') (survivors st (candidates value_fn addr_of sig_ok H S st now nbs))) /\
     select pref (survivors st (candidates value_fn addr_of sig_ok H S st now nbs)) = Some (chain st') /\
     is_different H (chain st) (chain st') = true /\ chain st' <> [] /\
     exists u0 a0 news,
       commit_input st (is_fork st (stage1 value_fn addr_of sig_ok H S st now nbs) nbs) (chain st')
         = (u0, a0, news) /\
       commit_loop u0 a0 news true = (ur st', ar st', true)).
Proof. exact update_cases. Qed.

Theorem C06_kept_chain :
  forall value_fn addr_of sig_ok H S st now nbs pref st',
    update value_fn addr_of sig_ok H S st now nbs pref = (st', false) -> chain st' = chain st.
Proof. exact update_kept_chain. Qed.

(* The second alternative of the kept case never happens for neighbors not called "host":
   the whole state, registers included, is then left as it was. *)
Theorem C06_kept_state :
  forall value_fn addr_of sig_ok H S st now nbs pref st',
    (forall nb, In nb nbs -> nb_target nb <> host_target) ->
    update value_fn addr_of sig_ok H S st now nbs pref = (st', false) -> st' = st.
Proof. exact update_kept_state. Qed.

Theorem C06_never_shorter :
  forall value_fn addr_of sig_ok H S st now nbs pref st',
    update value_fn addr_of sig_ok H S st now nbs pref = (st', true) ->
    length (chain st) <= length (chain st').
Proof. exact update_never_shorter. Qed.

Theorem C06_longest :
  forall value_fn addr_of sig_ok H S st now nbs pref st',
    update value_fn addr_of sig_ok H S st now nbs pref = (st', true) ->
    length (chain st') = max_len (length (chain st)) (candidates value_fn addr_of sig_ok H S st now nbs).
Proof. exact update_longest. Qed.

Theorem C06_longest_all :
  forall value_fn addr_of sig_ok H S st now nbs pref st',
    update value_fn addr_of sig_ok H S st now nbs pref = (st', true) ->
    forall t c, In (t, c) (candidates value_fn addr_of sig_ok H S st now nbs) ->
                length c <= length (chain st').
Proof. exact update_longest_all. Qed.

Theorem C06_majority_branch :
  forall value_fn addr_of sig_ok H S st now nbs pref st',
    update value_fn addr_of sig_ok H S st now nbs pref = (st', true) ->
    (exists t, In (t, chain st') (candidates value_fn addr_of sig_ok H S st now nbs)) /\
    length (candidates value_fn addr_of sig_ok H S st now nbs) / 2 <=
    branch_count (length (chain st)) (candidates value_fn addr_of sig_ok H S st now nbs) (chain st').
Proof. exact update_majority_branch. Qed.

Theorem C06_oldest :
  forall value_fn addr_of sig_ok H S st now nbs pref st',
    update value_fn addr_of sig_ok H S st now nbs pref = (st', true) ->
    (0 < age_of (chain st'))%N /\
    forall p, In p (survivors st (candidates value_fn addr_of sig_ok H S st now nbs)) ->
              (age_of (snd p) <= age_of (chain st'))%N.
Proof. exact update_oldest. Qed.

(* The adopted chain is never the host's own entry: it is a neighbor answer that passed [verify]. *)
Theorem C06_verified :
  forall value_fn addr_of sig_ok H S st now nbs pref st',
    update value_fn addr_of sig_ok H S st now nbs pref = (st', true) ->
    exists t, In (t, chain st') (candidates value_fn addr_of sig_ok H S st now nbs) /\
      exists nb, In nb nbs /\ nb_target nb = t /\
       ((exists l v, nb_inc nb = RBlocks l /\ 2 < length (chain st) /\
                     verify value_fn addr_of sig_ok H S st
                            (match last_block (chain st) with Some b => [b] | None => [] end)
                            l (removelast (chain st)) now = Ok v /\
                     chain st' = removelast (chain st) ++ v) \/
        (exists l v, nb_full nb = RBlocks l /\
                     verify value_fn addr_of sig_ok H S st (removelast (chain st)) l [] now = Ok v /\
                     chain st' = v)).
Proof. exact update_verified. Qed.

(* The registers of the new state are those obtained by replaying the new blocks. *)
Theorem C06_replaced_state :
  forall value_fn addr_of sig_ok H S st now nbs pref st',
    update value_fn addr_of sig_ok H S st now nbs pref = (st', true) ->
    exists u0 a0 news,
      commit_input st (is_fork st (stage1 value_fn addr_of sig_ok H S st now nbs) nbs) (chain st')
        = (u0, a0, news) /\
      replay_from u0 a0 news = Ok (ur st', ar st').
Proof. exact update_replaced_state. Qed.

Theorem C06_identical_kept :
  forall value_fn addr_of sig_ok H S st now nbs pref sel,
    select pref (survivors st (candidates value_fn addr_of sig_ok H S st now nbs)) = Some sel ->
    length sel <= length (chain st) ->
    (forall a b, last_block sel = Some a -> last_block (chain st) = Some b -> H a = H b) ->
    update value_fn addr_of sig_ok H S st now nbs pref = (st, false).
Proof. exact update_identical_kept. Qed.

Theorem C06_none_selected_kept :
  forall value_fn addr_of sig_ok H S st now nbs pref,
    select pref (survivors st (candidates value_fn addr_of sig_ok H S st now nbs)) = None ->
    update value_fn addr_of sig_ok H S st now nbs pref = (st, false).
Proof. exact update_none_selected_kept. Qed.

Theorem C06_no_candidates :
  forall value_fn addr_of sig_ok H S st now nbs pref,
    candidates value_fn addr_of sig_ok H S st now nbs = [] ->
    update value_fn addr_of sig_ok H S st now nbs pref = (st, false).
Proof. exact update_no_candidates. Qed.

Theorem C06_no_neighbors :
  forall value_fn addr_of sig_ok H S st now pref,
    update value_fn addr_of sig_ok H S st now [] pref = (st, false).
Proof. exact update_no_neighbors. Qed.

Theorem C06_no_neighbors_short :
  forall value_fn addr_of sig_ok H S st now pref,
    length (chain st) <= 2 ->
    candidates value_fn addr_of sig_ok H S st now [] = [] /\
    update value_fn addr_of sig_ok H S st now [] pref = (st, false).
Proof. exact update_no_neighbors_short. Qed.

(* ---- the hypotheses are satisfiable: a toy instance (SyncExample in proofs/Sync_lemmas.v) ---- *)

(* no neighbor: the state is kept, for a two-block and for a three-block host *)
Example C06_ex_no_neighbors :
  update SyncExample.vf SyncExample.ao SyncExample.so SyncExample.Ht SyncExample.Sx SyncExample.st2 30 [] EmptyString = (SyncExample.st2, false) /\
  update SyncExample.vf SyncExample.ao SyncExample.so SyncExample.Ht SyncExample.Sx SyncExample.st3 30 [] EmptyString = (SyncExample.st3, false).
Proof. vm_compute. split; reflexivity. Qed.

(* a two-block host adopts a neighbor's longer verified chain; the neighbor whose answer does
   not link is not even a candidate *)
Example C06_ex_adopt :
  update SyncExample.vf SyncExample.ao SyncExample.so SyncExample.Ht SyncExample.Sx SyncExample.st2 30 [SyncExample.nb_bad; SyncExample.nb_good] EmptyString = (SyncExample.st3, true) /\
  map fst (candidates SyncExample.vf SyncExample.ao SyncExample.so SyncExample.Ht SyncExample.Sx SyncExample.st2 30 [SyncExample.nb_bad; SyncExample.nb_good]) = [nb_target SyncExample.nb_good].
Proof. vm_compute. split; reflexivity. Qed.

(* only an unverifiable answer: nothing changes *)
Example C06_ex_reject :
  update SyncExample.vf SyncExample.ao SyncExample.so SyncExample.Ht SyncExample.Sx SyncExample.st2 30 [SyncExample.nb_bad] EmptyString = (SyncExample.st2, false).
Proof. vm_compute. reflexivity. Qed.

(* an identical candidate is selected and the state is kept *)
Example C06_ex_identical :
  update SyncExample.vf SyncExample.ao SyncExample.so SyncExample.Ht SyncExample.Sx SyncExample.st3 30 [SyncExample.nb_same] EmptyString = (SyncExample.st3, false) /\
  select EmptyString (survivors SyncExample.st3 (candidates SyncExample.vf SyncExample.ao SyncExample.so SyncExample.Ht SyncExample.Sx SyncExample.st3 30 [SyncExample.nb_same])) = Some (chain SyncExample.st3).
Proof. vm_compute. split; reflexivity. Qed.

Print Assumptions C06_candidates_verified.
Print Assumptions C06_verify_returns_input.
Print Assumptions C06_survivors.
Print Assumptions C06_max_len.
Print Assumptions C06_select_spec.
Print Assumptions C06_select_none.
Print Assumptions C06_commit_loop_spec.
Print Assumptions C06_update_cases.
Print Assumptions C06_kept_chain.
Print Assumptions C06_kept_state.
Print Assumptions C06_never_shorter.
Print Assumptions C06_longest.
Print Assumptions C06_longest_all.
Print Assumptions C06_majority_branch.
Print Assumptions C06_oldest.
Print Assumptions C06_verified.
Print Assumptions C06_replaced_state.
Print Assumptions C06_identical_kept.
Print Assumptions C06_none_selected_kept.
Print Assumptions C06_no_candidates.
Print Assumptions C06_no_neighbors.
Print Assumptions C06_no_neighbors_short.
