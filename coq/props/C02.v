(* C02 — in every chain a node produces or adopts, each input consumes an output that was created
   by a transaction in an earlier block of that same chain and that no other input — in an earlier
   block, in the same block, or in the same transaction — has consumed. A submitted transaction
   that consumes an output already consumed by the last block or by a pooled transaction is
   refused admission.
   This file contains only the property theorems, each closed by [exact] of a lemma of
   proofs/Spend_lemmas.v (which builds on proofs/Ledger_update.v). Every block of a chain is
   applied with [update_utxos reg (txs b) (b_ts b)]; the state a chain denotes is [replay]
   (C07). Findings kept as theorems: an output created earlier in the SAME block is accepted
   ([C02_same_block_spend_accepted]); "consumed once" needs pairwise distinct transaction ids
   ([C02_id_reuse_refuted], [C02_admission_conflict_refuted]). *)
From RV Require Import model.Base model.Ledger model.Registry model.Chain model.Pool
                       proofs.Ledger_update proofs.Spend_lemmas.

(* ---- same transaction ---- *)
Theorem C02_same_tx : forall (reg : ureg) (t : tx) (ts : Z) (reg' : ureg),
  apply_tx reg t ts = Ok reg' -> NoDup (map (fun i : input => (i_ref i, i_idx i)) (ins t)).
Proof. exact Spend_lemmas.C02_same_tx. Qed.

Theorem C02_same_tx_block : forall (reg : ureg) (l : list tx) (ts : Z) (reg' : ureg),
  update_utxos reg l ts = Ok reg' ->
  Forall (fun t : tx => NoDup (map (fun i : input => (i_ref i, i_idx i)) (ins t))) l.
Proof. exact Spend_lemmas.C02_same_tx_block. Qed.

Theorem C02_same_tx_refused : forall (reg : ureg) (l : list tx) (ts : Z) (t : tx),
  In t l -> ~ NoDup (map (fun i : input => (i_ref i, i_idx i)) (ins t)) ->
  exists e : err, update_utxos reg l ts = Err e.
Proof. exact Spend_lemmas.C02_same_tx_refused. Qed.

Example C02_same_tx_refused_example :
  ~ NoDup (map (fun i : input => (i_ref i, i_idx i)) (ins sp_Tdup)) /\
  update_utxos sp_reg0 [sp_Tdup] 10 = Err EUnknownId.
Proof. exact Spend_lemmas.C02_same_tx_refused_example. Qed.

(* ---- same block ---- *)
(* [consumed l] = all references named by the inputs of l, in order; [ids_fresh reg l] = the ids
   of l are pairwise distinct and none is a key of utxosById *)
Theorem C02_block_no_double_spend : forall (reg : ureg) (l : list tx) (ts : Z) (reg' : ureg),
  update_utxos reg l ts = Ok reg' -> ids_fresh reg l ->
  NoDup (flat_map (fun t => map (fun i : input => (i_ref i, i_idx i)) (ins t)) l) /\
  (forall (l1 : list tx) (t : tx) (l2 : list tx) (i : input),
     l = l1 ++ t :: l2 -> In i (ins t) ->
     (exists u : utxo, find_utxo reg i = Ok u) \/
     (exists t' : tx, In t' (l1 ++ [t]) /\ i_ref i = t_id t' /\
                      N.to_nat (i_idx i) < length (outs t'))) /\
  (forall (t : tx) (i : input), In t l -> In i (ins t) -> exists e : err, find_utxo reg' i = Err e).
Proof. exact Spend_lemmas.C02_block_no_double_spend. Qed.

(* the origin clause needs no hypothesis *)
Theorem C02_block_origin : forall (reg : ureg) (l : list tx) (ts : Z) (reg' : ureg),
  update_utxos reg l ts = Ok reg' ->
  forall (l1 : list tx) (t : tx) (l2 : list tx) (i : input),
    l = l1 ++ t :: l2 -> In i (ins t) ->
    (exists u : utxo, find_utxo reg i = Ok u) \/
    (exists t' : tx, In t' (l1 ++ [t]) /\ i_ref i = t_id t' /\
                     N.to_nat (i_idx i) < length (outs t')).
Proof. exact Spend_lemmas.C02_block_origin. Qed.

(* KNOWN FINDING: "created in an earlier block" is not enforced by the registry *)
Example C02_same_block_spend_accepted :
  exists reg' : ureg,
    update_utxos sp_reg0 [sp_T1; sp_T2] 10 = Ok reg' /\ ids_fresh sp_reg0 [sp_T1; sp_T2] /\
    In (sp_in 0 "T1"%string) (ins sp_T2) /\ i_ref (sp_in 0 "T1"%string) = t_id sp_T1 /\
    find_utxo sp_reg0 (sp_in 0 "T1"%string) = Err EUnknownId.
Proof. exact Spend_lemmas.C02_same_block_spend_accepted. Qed.

Example C02_same_block_spend_accepted_run :
  update_utxos sp_reg0 [sp_T1; sp_T2] 10 =
  Ok (mkUreg [("C"%string, [mkUtxo "T2"%string 0 (mkOutput "C"%string false 8) 10])]
             [("T2"%string, [Some (mkUtxo "T2"%string 0 (mkOutput "C"%string false 8) 10)])]).
Proof. vm_compute. reflexivity. Qed.

Example C02_self_spend_accepted :
  exists reg' : ureg, update_utxos sp_reg0 [sp_Tself] 10 = Ok reg' /\ ids_fresh sp_reg0 [sp_Tself].
Proof. exact Spend_lemmas.C02_self_spend_accepted. Qed.

(* why [ids_fresh] is there *)
Example C02_spent_in_block_still_spendable_witness :
  exists (reg' : ureg) (u : utxo),
    update_utxos ureg_empty [w_X; w_Y; w_X] 0 = Ok reg' /\
    In (w_in 0 "X"%string) (ins w_Y) /\ find_utxo reg' (w_in 0 "X"%string) = Ok u.
Proof. exact Spend_lemmas.C02_spent_in_block_still_spendable_witness. Qed.

(* ---- whole chain ---- *)
Theorem C02_replay_chain : forall (u : ureg) (a : areg) (l : list block) (u' : ureg) (a' : areg),
  replay_from u a l = Ok (u', a') ->
  forall (k : nat) (b : block), nth_error l k = Some b ->
  exists (ub : ureg) (ab : areg) (ua : ureg) (aa : areg),
    nth_error (states_along u a l) k = Some (ub, ab) /\
    nth_error (states_along u a l) (S k) = Some (ua, aa) /\
    replay_from u a (firstn k l) = Ok (ub, ab) /\
    apply_block ub ab b = Ok (ua, aa) /\
    (forall (p : list tx) (t : tx) (q : list tx) (i : input),
       txs b = p ++ t :: q -> In i (ins t) ->
       ((exists v : utxo, find_utxo ub i = Ok v) \/
        (exists t' : tx, In t' (p ++ [t]) /\ i_ref i = t_id t' /\
                         N.to_nat (i_idx i) < length (outs t'))) /\
       (ids_fresh ub (txs b) -> exists e : err, find_utxo ua i = Err e)).
Proof. exact Spend_lemmas.C02_replay_chain. Qed.

(* [chain_ids_fresh u l]: the ids of all transactions of l are pairwise distinct and none is a key
   of utxosById in u; it gives [ids_fresh] at every block *)
Theorem C02_chain_ids_fresh_at : forall (u : ureg) (a : areg) (l : list block) (u' : ureg) (a' : areg)
    (k : nat) (b : block) (ub : ureg) (ab : areg),
  replay_from u a l = Ok (u', a') ->
  (NoDup (map t_id (flat_map txs l)) /\
   forall t : tx, In t (flat_map txs l) -> alookup (t_id t) (by_id u) = None) ->
  nth_error l k = Some b -> replay_from u a (firstn k l) = Ok (ub, ab) -> ids_fresh ub (txs b).
Proof. exact Spend_lemmas.chain_ids_fresh_at. Qed.

Theorem C02_chain_spent_forever : forall (u : ureg) (a : areg) (l : list block) (u' : ureg) (a' : areg),
  replay_from u a l = Ok (u', a') ->
  (NoDup (map t_id (flat_map txs l)) /\
   forall t : tx, In t (flat_map txs l) -> alookup (t_id t) (by_id u) = None) ->
  forall (k : nat) (b : block) (j : nat) (uj : ureg) (aj : areg) (t : tx) (i : input),
    nth_error l k = Some b -> k < j -> nth_error (states_along u a l) j = Some (uj, aj) ->
    In t (txs b) -> In i (ins t) -> exists e : err, find_utxo uj i = Err e.
Proof. exact Spend_lemmas.C02_chain_spent_forever. Qed.

(* consumed once along the chain a node's state denotes, when ids are pairwise distinct *)
Theorem C02_chain_no_double_spend : forall (l : list block) (u : ureg) (a : areg),
  replay l = Ok (u, a) -> NoDup (map t_id (flat_map txs l)) ->
  NoDup (flat_map (fun t => map (fun i : input => (i_ref i, i_idx i)) (ins t)) (flat_map txs l)).
Proof. exact Spend_lemmas.C02_chain_no_double_spend_replay. Qed.

(* without any hypothesis on ids: a second consumption needs a re-creation in between *)
Theorem C02_chain_respend_needs_recreation :
  forall (u : ureg) (a : areg) (l1 : list block) (b1 : block) (l2 : list block) (b2 : block)
         (l3 : list block) (u' : ureg) (a' : areg) (p1 : list tx) (t1 : tx) (q1 p2 : list tx)
         (t2 : tx) (q2 : list tx) (i1 i2 : input),
  replay_from u a (l1 ++ b1 :: l2 ++ b2 :: l3) = Ok (u', a') ->
  txs b1 = p1 ++ t1 :: q1 -> txs b2 = p2 ++ t2 :: q2 ->
  In i1 (ins t1) -> In i2 (ins t2) -> (i_ref i2, i_idx i2) = (i_ref i1, i_idx i1) ->
  exists t' : tx, In t' (q1 ++ flat_map txs l2 ++ p2 ++ [t2]) /\ t_id t' = i_ref i1.
Proof. exact Spend_lemmas.C02_chain_respend_needs_recreation. Qed.

Theorem C02_block_respend_needs_recreation :
  forall (reg : ureg) (ts : Z) (reg' : ureg) (l1 : list tx) (t1 : tx) (l2 : list tx) (t2 : tx)
         (l3 : list tx) (i1 i2 : input),
  apply_txs reg (l1 ++ t1 :: l2 ++ t2 :: l3) ts = Ok reg' ->
  In i1 (ins t1) -> In i2 (ins t2) -> (i_ref i2, i_idx i2) = (i_ref i1, i_idx i1) ->
  exists t' : tx, In t' (l2 ++ [t2]) /\ t_id t' = i_ref i1 /\
                  N.to_nat (i_idx i1) < length (outs t').
Proof. exact apply_txs_respend_needs_recreation. Qed.

(* every input names an output of a transaction of an earlier block — or of its own block *)
Theorem C02_chain_created_earlier :
  forall (l1 : list block) (b : block) (l2 : list block) (u' : ureg) (a' : areg)
         (p : list tx) (t : tx) (q : list tx) (i : input),
  replay (l1 ++ b :: l2) = Ok (u', a') -> txs b = p ++ t :: q -> In i (ins t) ->
  exists t' : tx, (In t' (flat_map txs l1) \/ In t' (p ++ [t])) /\ i_ref i = t_id t' /\
                  N.to_nat (i_idx i) < length (outs t').
Proof. exact Spend_lemmas.C02_chain_created_earlier. Qed.

(* KNOWN FINDING: with a repeated id a reference is consumed in two successive blocks *)
Theorem C02_id_reuse_refuted :
  exists (ts : Z) (reg1 reg2 : ureg),
    update_utxos ureg_empty [w_X; w_Y] ts = Ok reg1 /\ ids_fresh ureg_empty [w_X; w_Y] /\
    update_utxos reg1 [w_X; w_Z] ts = Ok reg2 /\ ids_fresh reg1 [w_X; w_Z] /\
    In (iref (w_in 0 "X"%string)) (consumed [w_X; w_Y]) /\
    In (iref (w_in 0 "X"%string)) (consumed [w_X; w_Z]).
Proof. exact Spend_lemmas.C02_id_reuse_refuted. Qed.

Example C02_id_reuse_chain_refuted :
  exists (u : ureg) (a : areg),
    replay [sp_blk 1 [w_X; w_Y]; sp_blk 2 [w_X; w_Z]] = Ok (u, a) /\
    ~ NoDup (consumed (flat_map txs [sp_blk 1 [w_X; w_Y]; sp_blk 2 [w_X; w_Z]])).
Proof. exact Spend_lemmas.C02_id_reuse_chain_refuted. Qed.

Example C02_chain_example :
  exists (u : ureg) (a : areg),
    replay [sp_blk 1 [sp_G]; sp_blk 2 [sp_T1]; sp_blk 3 [sp_T2]] = Ok (u, a) /\
    chain_ids_fresh ureg_empty [sp_blk 1 [sp_G]; sp_blk 2 [sp_T1]; sp_blk 3 [sp_T2]] /\
    consumed (flat_map txs [sp_blk 1 [sp_G]; sp_blk 2 [sp_T1]; sp_blk 3 [sp_T2]])
    = [("G"%string, 0%N); ("T1"%string, 0%N)].
Proof. exact Spend_lemmas.C02_chain_example. Qed.

(* ---- admission ---- *)
(* unconditional: a conflict with the last block or the pool implies a later re-creation there *)
Theorem C02_admission_conflict_recreated :
  forall (value_fn : N -> bool -> Z -> N) (addr_of : string -> string) (sig_ok : input -> bool)
         (S : settings) (n : node) (t : tx) (n' : node),
  pool_add value_fn addr_of sig_ok S n t = Ok n' ->
  forall (p : list tx) (t' : tx) (q : list tx) (i i' : input),
    last_block_txs (chain (n_c n)) ++ elems (n_pool n) = p ++ t' :: q ->
    In i (ins t) -> In i' (ins t') -> (i_ref i', i_idx i') = (i_ref i, i_idx i) ->
    exists t'' : tx, In t'' q /\ t_id t'' = i_ref i.
Proof. exact Spend_lemmas.C02_admission_conflict_recreated. Qed.

(* Full statement (refuted below): the same without the last hypothesis. *)
Theorem C02_admission_conflict_partial :
  forall (value_fn : N -> bool -> Z -> N) (addr_of : string -> string) (sig_ok : input -> bool)
         (S : settings) (n : node) (t : tx) (n' : node),
  pool_add value_fn addr_of sig_ok S n t = Ok n' ->
  forall (i : input) (t' : tx) (i' : input),
    In i (ins t) -> In t' (last_block_txs (chain (n_c n)) ++ elems (n_pool n)) ->
    In i' (ins t') -> (i_ref i', i_idx i') = (i_ref i, i_idx i) ->
    (forall t'' : tx, In t'' (last_block_txs (chain (n_c n)) ++ elems (n_pool n)) ->
                      t_id t'' <> i_ref i) ->
    False.
Proof. exact Spend_lemmas.C02_admission_conflict_partial. Qed.

Theorem C02_admission_refused_partial :
  forall (value_fn : N -> bool -> Z -> N) (addr_of : string -> string) (sig_ok : input -> bool)
         (S : settings) (n : node) (t : tx) (i : input) (t' : tx) (i' : input),
  In i (ins t) -> In t' (last_block_txs (chain (n_c n)) ++ elems (n_pool n)) ->
  In i' (ins t') -> (i_ref i', i_idx i') = (i_ref i, i_idx i) ->
  (forall t'' : tx, In t'' (last_block_txs (chain (n_c n)) ++ elems (n_pool n)) ->
                    t_id t'' <> i_ref i) ->
  exists e : err, pool_add value_fn addr_of sig_ok S n t = Err e.
Proof. exact Spend_lemmas.C02_admission_refused_partial. Qed.

(* for a node whose confirmed state is the replay of its chain minus the tip (C07) and whose
   chain and pool carry pairwise distinct ids *)
Theorem C02_admission_conflict_chain_partial :
  forall (value_fn : N -> bool -> Z -> N) (addr_of : string -> string) (sig_ok : input -> bool)
         (S : settings) (n : node) (t : tx) (n' : node) (old : list block) (lb : block) (a0 : areg),
  pool_add value_fn addr_of sig_ok S n t = Ok n' ->
  chain (n_c n) = old ++ [lb] -> replay old = Ok (ur (n_c n), a0) ->
  NoDup (map t_id (flat_map txs old ++ txs lb ++ elems (n_pool n))) ->
  forall (i : input) (t' : tx) (i' : input),
    In i (ins t) -> In t' (txs lb ++ elems (n_pool n)) -> In i' (ins t') ->
    (i_ref i', i_idx i') = (i_ref i, i_idx i) -> False.
Proof. exact Spend_lemmas.C02_admission_conflict_chain_partial. Qed.

Theorem C02_admission_conflict_refuted :
  exists (value_fn : N -> bool -> Z -> N) (addr_of : string -> string) (sig_ok : input -> bool)
         (S : settings) (n : node) (t : tx) (n' : node) (i : input) (t' : tx) (i' : input),
    pool_add value_fn addr_of sig_ok S n t = Ok n' /\
    In i (ins t) /\ In t' (last_block_txs (chain (n_c n)) ++ elems (n_pool n)) /\
    In i' (ins t') /\ (i_ref i', i_idx i') = (i_ref i, i_idx i).
Proof. exact Spend_lemmas.C02_admission_conflict_refuted. Qed.

Example C02_admission_conflict_refuted_run :
  pool_add (fun v _ _ => v) (fun _ => "A"%string) (fun _ => true) ad_S ad_node ad_Z
  = Ok (mkNode (n_c ad_node) (Some [ad_Z])) /\
  last_block_txs (chain (n_c ad_node)) = [ad_Y; ad_X] /\
  ins ad_Y = ins ad_Z.
Proof. vm_compute. repeat split; reflexivity. Qed.

(* hypotheses of the positive forms hold on a non-trivial node; conflicting submissions
   (with the last block: "G", with the pool: "T1") are refused *)
Example C02_admission_example :
  (exists n' : node,
     pool_add (fun v _ _ => v) (fun _ => "C"%string) (fun _ => true) ad_S ad_node_ok ad_T3 = Ok n') /\
  pool_add (fun v _ _ => v) (fun _ => "A"%string) (fun _ => true) ad_S ad_node_ok ad_Tbad1 = Err EUnknownId /\
  pool_add (fun v _ _ => v) (fun _ => "B"%string) (fun _ => true) ad_S ad_node_ok ad_Tbad2 = Err EUnknownId /\
  replay [sp_blk 0 [sp_G]] = Ok (ur (n_c ad_node_ok), areg_empty) /\
  NoDup (map t_id (flat_map txs [sp_blk 0 [sp_G]] ++ txs (sp_blk 10 [sp_T1]) ++ elems (n_pool ad_node_ok))).
Proof. exact Spend_lemmas.C02_admission_example. Qed.

Print Assumptions C02_same_tx.
Print Assumptions C02_same_tx_block.
Print Assumptions C02_same_tx_refused.
Print Assumptions C02_block_no_double_spend.
Print Assumptions C02_block_origin.
Print Assumptions C02_replay_chain.
Print Assumptions C02_chain_ids_fresh_at.
Print Assumptions C02_chain_spent_forever.
Print Assumptions C02_chain_no_double_spend.
Print Assumptions C02_chain_respend_needs_recreation.
Print Assumptions C02_block_respend_needs_recreation.
Print Assumptions C02_chain_created_earlier.
Print Assumptions C02_id_reuse_refuted.
Print Assumptions C02_admission_conflict_recreated.
Print Assumptions C02_admission_conflict_partial.
Print Assumptions C02_admission_refused_partial.
Print Assumptions C02_admission_conflict_chain_partial.
Print Assumptions C02_admission_conflict_refuted.
