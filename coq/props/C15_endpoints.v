(* C15, last clause: "each endpoint answers the request it is named for".
   The binding tables are regenerated from /repo's source on every run (gen/Endpoints_gen.v);
   the specification table below says, for each of the seven endpoints, which handler must
   answer it and which client method must address it with which request encoding. The check
   is finite, so vm_compute is a proof. *)
From RV Require Import model.Base gen.Endpoints_gen.
Local Open Scope string_scope.

(* endpoint name on the wire, Node/Host setter, handler, client method, request encoding *)
Definition endpoint_spec : list (string * string * string * string * string) := [
  ("blocks", "SetHandleBlocksRequest", "blocksController.HandleBlocksRequest", "GetBlocks", "json");
  ("first-block-timestamp", "SetHandleFirstBlockTimestampRequest", "blocksController.HandleFirstBlockTimestampRequest", "GetFirstBlockTimestamp", "bytes");
  ("settings", "SetHandleSettingsRequest", "settingsController.HandleSettingsRequest", "GetSettings", "bytes");
  ("targets", "SetHandleTargetsRequest", "sendersController.HandleTargetsRequest", "SendTargets", "json");
  ("transaction", "SetHandleTransactionRequest", "transactionsController.HandleTransactionRequest", "AddTransaction", "bytes");
  ("transactions", "SetHandleTransactionsRequest", "transactionsController.HandleTransactionsRequest", "GetTransactions", "bytes");
  ("utxos", "SetHandleUtxosRequest", "utxosController.HandleUtxosRequest", "GetUtxos", "json")
].

Definition const_named (wire : string) : option string :=
  match filter (fun p => String.eqb (snd p) wire) endpoint_consts with [(c, _)] => Some c | _ => None end.

Definition row_ok (r : string * string * string * string * string) : bool :=
  let '(wire, setter, handler, method, enc) := r in
  match const_named wire with
  | None => false
  | Some c =>
    (* Node passes exactly this constant to exactly this setter *)
    match filter (fun p => String.eqb (fst p) setter) node_bind with
    | [(_, c')] => String.eqb c c' | _ => false end &&
    (* the Host setter binds its own argument to exactly this handler *)
    match filter (fun p => String.eqb (fst (fst p)) setter) host_bind with
    | [(_, h, passes)] => String.eqb h handler && String.eqb passes "param" | _ => false end &&
    (* the client method of that name sends to the same constant with the expected encoding *)
    match filter (fun p => String.eqb (fst (fst p)) method) client_bind with
    | [(_, c', e)] => String.eqb c c' && String.eqb e enc | _ => false end
  end.

Fixpoint nodup_str (l : list string) : bool :=
  match l with [] => true | x :: r => negb (mem_str x r) && nodup_str r end.

Definition endpoints_ok : bool :=
  forallb row_ok endpoint_spec &&
  nodup_str (map snd endpoint_consts) && nodup_str (map fst endpoint_consts) &&
  Nat.eqb (length endpoint_consts) 7 && Nat.eqb (length node_bind) 7 &&
  Nat.eqb (length host_bind) 7 && Nat.eqb (length client_bind) 7.

Theorem C15_endpoints : endpoints_ok = true.
Proof. vm_compute. reflexivity. Qed.

Print Assumptions C15_endpoints.
