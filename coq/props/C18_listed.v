(* C18 (with C07 / C02) — every LIVE output a node lists as spendable for an address
   (utxos endpoint, utxosByAddress) is found when an input names it (utxosById).

   [live_u u]  : initial value > 0 or yielding — the test of utxos_registry.go UpdateUtxos
                 (output.InitialValue() > 0 || output.IsYielding()).
   [names i u] : i_ref i = u_ref u /\ i_idx i = u_idx u (key and signature arbitrary).
   [listed_findable reg] : forall a u i, In u (utxos_of reg a) -> live_u u = true -> names i u ->
                           find_utxo reg i = Ok u.
   The statement for EVERY listed output is false of the model and of the Go code: a zero-valued
   non-yielding output stays listed after its id entry was deleted
   (proofs/Listed_lemmas.v: listed_findable_all_refuted).
   Hypotheses: [ureg_sound] is the invariant of proofs/Ledger_update.v; output lists shorter than
   2^16 (the index is a uint16); [txs_compat] / pairwise distinct transaction ids (a reused id
   with other outputs breaks the property: replay_listed_findable_needs_distinct_ids_refuted).
   [inputs_listed reg t] : every input of t names a live output listed for some address.

   This file contains only the property theorems, each closed by [exact] of a lemma of
   proofs/Listed_lemmas.v. *)
From RV Require Import model.Base model.Ledger model.Registry model.Chain model.Sync model.Pool model.Reach.
From RV Require Import proofs.Ledger_update proofs.Sync_lemmas proofs.Reach_lemmas proofs.Spend_lemmas
                       proofs.Listed_lemmas.
From Coq Require Import ZArith NArith.
Local Open Scope N_scope.

Theorem C18_listed_outputs_findable :
  forall (reg : ureg) (l : list tx) (ts : Z) (reg' : ureg),
    ureg_sound reg -> (forall t, In t l -> N.of_nat (length (outs t)) < 65536) ->
    txs_compat reg l -> update_utxos reg l ts = Ok reg' ->
    ureg_sound reg' /\ listed_findable reg'.
Proof. exact update_utxos_listed_findable. Qed.

Theorem C18_listed_outputs_findable_replay :
  forall (C : list block) (u : ureg) (a : areg),
    chain_outs_bounded C -> NoDup (map t_id (chain_txs C)) ->
    replay C = Ok (u, a) -> ureg_sound u /\ listed_findable u.
Proof. exact replay_listed_findable. Qed.

Theorem C18_listed_outputs_findable_reach :
  forall (value_fn : N -> bool -> Z -> N) (addr_of : string -> string) (sig_ok : input -> bool)
         (H : block -> hash) (gen_id : slice input -> slice output -> Z -> string)
         (S : settings) (validator : string) (n : node),
    reach value_fn addr_of sig_ok H gen_id S validator n ->
    chain_outs_bounded (chain (n_c n)) -> NoDup (map t_id (chain_txs (chain (n_c n)))) ->
    ureg_sound (ur (n_c n)) /\ listed_findable (ur (n_c n)).
Proof. exact reach_listed_findable. Qed.

Theorem C18_listed_inputs_pass_lookup :
  forall (value_fn : N -> bool -> Z -> N) (addr_of : string -> string) (sig_ok : input -> bool)
         (H : block -> hash) (gen_id : slice input -> slice output -> Z -> string)
         (S : settings) (validator : string) (n : node) (fee : N) (t : tx) (ts : Z) (e : err),
    reach value_fn addr_of sig_ok H gen_id S validator n ->
    chain_outs_bounded (chain (n_c n)) -> NoDup (map t_id (chain_txs (chain (n_c n)))) ->
    inputs_listed (ur (n_c n)) t ->
    calc_fee value_fn addr_of fee (ur (n_c n)) t ts = Err e ->
    e <> EUnknownId /\ e <> ENoIndex /\
    (e = EOwner \/ e = EOverflow \/ e = ENegFee \/ e = ELowFee).
Proof. exact reach_listed_inputs_pass_lookup. Qed.

(* F20, "value == 0 means empty": after [T] with outputs [(R, plain, 100); (O, yielding, 0)] is
   recorded and output 0 consumed by [consume_val0], O's output is still listed and not found *)
Theorem C18_empty_means_dead_refuted :
  exists reg,
    consume_val0 f20_reg0 f20_in = Ok reg /\
    In f20_u (utxos_of reg "O"%string) /\ live_u f20_u = true /\
    (forall i, names i f20_u -> find_utxo reg i = Err EUnknownId) /\
    ~ listed_findable reg.
Proof. exact listed_findable_val0_refuted. Qed.

Example C18_ex_update_hyps :
  ureg_sound ureg_empty /\
  (forall t, In t [w_X2; w_Y2] -> N.of_nat (length (outs t)) < 65536) /\
  txs_compat ureg_empty [w_X2; w_Y2] /\
  exists reg' u,
    update_utxos ureg_empty [w_X2; w_Y2] 0 = Ok reg' /\
    In u (utxos_of reg' "C"%string) /\ live_u u = true.
Proof. exact ListedExample.ex_update_hyps. Qed.

Example C18_ex_reach_hyps :
  reach SyncExample.vf SyncExample.ao SyncExample.so ReachExample.Hinj ReachExample.gid
        SyncExample.Sx "V"%string (ReachExample.n2 ReachExample.Hinj) /\
  chain_outs_bounded (chain (n_c (ReachExample.n2 ReachExample.Hinj))) /\
  NoDup (map t_id (chain_txs (chain (n_c (ReachExample.n2 ReachExample.Hinj))))) /\
  inputs_listed (ur (n_c (ReachExample.n2 ReachExample.Hinj))) ListedExample.ex_spend /\
  ins ListedExample.ex_spend <> [].
Proof. exact ListedExample.ex_reach_hyps. Qed.

Example C18_ex_f20_defs :
  f20_reg0 = add_outputs ureg_empty f20_T 0 /\
  outs f20_T = [mkOutput "R"%string false 100; mkOutput "O"%string true 0] /\
  f20_in = mkInput 0 "T"%string "k"%string "s"%string /\
  f20_u = mkUtxo "T"%string 1 (mkOutput "O"%string true 0) 0.
Proof. repeat split; reflexivity. Qed.

Print Assumptions C18_listed_outputs_findable.
Print Assumptions C18_listed_outputs_findable_replay.
Print Assumptions C18_listed_outputs_findable_reach.
Print Assumptions C18_listed_inputs_pass_lookup.
Print Assumptions C18_empty_means_dead_refuted.
