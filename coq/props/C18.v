(* C18 — the access node's transaction-info answer (info_controller.go).
   This file contains only the property theorems, each closed by [exact] of a lemma.
   Holdings are ((transaction id, output index), value at the next block time), in the
   validator's order; [balance] is the exact sum of the non-zero ones; [hval hs r] is the
   value of the holding of [hs] whose reference is [r]. *)
From RV Require Import model.Base model.Wallet proofs.Wallet_lemmas.
Local Open Scope N_scope.

(* 405 exactly when the wallet cannot afford amount + minimal fee; then nothing is listed
   ([Info405] carries no input) *)
Theorem C18_405 : forall fee c amount hs,
  balance hs < two64 -> amount + fee < two64 -> NoDup (map fst hs) ->
  (tx_info fee c amount hs = Info405 <-> balance hs < amount + fee).
Proof. exact Wallet_lemmas.C18_405. Qed.

(* an affordable request is answered 200 with distinct, non-zero outputs of the wallet whose
   total value is amount + fee + rest; all of them, in order, under consolidation *)
Theorem C18_ok : forall fee c amount hs,
  NoDup (map fst hs) -> balance hs < two64 -> amount + fee <= balance hs ->
  exists rest inputs,
    tx_info fee c amount hs = InfoOk rest inputs /\
    NoDup inputs /\
    (forall r, In r inputs -> exists v, In (r, v) hs /\ v <> 0) /\
    nsum (map (hval hs) inputs) = amount + fee + rest /\
    (c = true -> inputs = map fst (nz hs)).
Proof. exact Wallet_lemmas.C18_ok. Qed.

Theorem C18_exact : forall fee c amount hs rest inputs,
  NoDup (map fst hs) -> balance hs < two64 -> amount + fee < two64 ->
  tx_info fee c amount hs = InfoOk rest inputs ->
  NoDup inputs /\
  (forall r, In r inputs -> exists v, In (r, v) hs /\ v <> 0) /\
  nsum (map (hval hs) inputs) = amount + fee + rest.
Proof. exact Wallet_lemmas.C18_exact. Qed.

Theorem C18_consolidate : forall fee amount hs rest inputs,
  NoDup (map fst hs) -> balance hs < two64 -> amount + fee < two64 ->
  tx_info fee true amount hs = InfoOk rest inputs ->
  inputs = map fst (nz hs) /\ rest = balance hs - (amount + fee).
Proof. exact Wallet_lemmas.C18_consolidate. Qed.

(* a single output is listed when one alone suffices (for a non-zero target) *)
Theorem C18_single : forall fee amount hs rest inputs,
  balance hs < two64 -> 0 < amount + fee ->
  (exists r v, In (r, v) hs /\ amount + fee <= v) ->
  tx_info fee false amount hs = InfoOk rest inputs ->
  length inputs = 1%nat.
Proof. exact Wallet_lemmas.C18_single. Qed.

(* the degenerate target 0 lists nothing *)
Theorem C18_zero_target : forall hs, balance hs < two64 -> tx_info 0 false 0 hs = InfoOk 0 [].
Proof. exact Wallet_lemmas.C18_zero_target. Qed.

(* the out-of-range indexings of lines 111 and 114 are never reached, and the model's
   recursion bound is never hit *)
Theorem C18_no_panic : forall fee c amount hs,
  NoDup (map fst hs) -> balance hs < two64 -> amount + fee <= balance hs ->
  tx_info fee c amount hs <> InfoPanic /\ tx_info fee c amount hs <> InfoFuel /\
  tx_info fee c amount hs <> Info405.
Proof. exact Wallet_lemmas.C18_no_panic. Qed.

(* findClosestValueIndex: in range; the smallest value reaching the target if there is one,
   else the largest value; at its first position *)
Theorem find_closest_spec : forall target, target < two64 -> forall values,
  Forall (fun w => w < two64) values -> values <> [] ->
  exists v, nth_error values (find_closest target values) = Some v /\
    ((exists w, In w values /\ target <= w) ->
       target <= v /\ (forall w, In w values -> target <= w -> v <= w) /\
       (forall j w, (j < find_closest target values)%nat -> nth_error values j = Some w ->
                    target <= w -> v < w)) /\
    ((forall w, In w values -> w < target) ->
       (forall w, In w values -> w <= v) /\
       (forall j w, (j < find_closest target values)%nat -> nth_error values j = Some w -> w < v)).
Proof. exact Wallet_lemmas.find_closest_spec. Qed.

(* ---- examples: equal values, a zero-valued output, an amount needing three inputs ---- *)
Definition ex_hs : list (string * N * N) :=
  [("a"%string, 0, 5); ("b"%string, 0, 0); ("c"%string, 1, 5); ("d"%string, 0, 3); ("e"%string, 0, 5)].

Example C18_ex_hyps : NoDup (map fst ex_hs) /\ balance ex_hs = 18 /\ balance ex_hs < two64.
Proof.
  split; [|split; reflexivity].
  repeat constructor; cbn [In]; intuition discriminate.
Qed.

Example C18_ex_three : tx_info 1 false 12 ex_hs
  = InfoOk 2 [("a"%string, 0); ("c"%string, 1); ("e"%string, 0)].
Proof. vm_compute. reflexivity. Qed.

Example C18_ex_two_exact : tx_info 1 false 9 ex_hs = InfoOk 0 [("a"%string, 0); ("c"%string, 1)].
Proof. vm_compute. reflexivity. Qed.

Example C18_ex_one_equal : tx_info 1 false 4 ex_hs = InfoOk 0 [("a"%string, 0)].
Proof. vm_compute. reflexivity. Qed.

Example C18_ex_one_greater :
  tx_info 1 false 9 (ex_hs ++ [("f"%string, 2, 40); ("g"%string, 0, 12)]) = InfoOk 2 [("g"%string, 0)].
Proof. vm_compute. reflexivity. Qed.

Example C18_ex_consolidate : tx_info 1 true 9 ex_hs
  = InfoOk 8 [("a"%string, 0); ("c"%string, 1); ("d"%string, 0); ("e"%string, 0)].
Proof. vm_compute. reflexivity. Qed.

Example C18_ex_all : tx_info 1 false 17 ex_hs
  = InfoOk 0 [("a"%string, 0); ("c"%string, 1); ("e"%string, 0); ("d"%string, 0)].
Proof. vm_compute. reflexivity. Qed.

Example C18_ex_405 : tx_info 1 false 18 ex_hs = Info405 /\ tx_info 1 true 18 ex_hs = Info405.
Proof. split; vm_compute; reflexivity. Qed.

Example C18_ex_closest :
  find_closest 10 [9; 20; 12; 3] = 2%nat /\ find_closest 10 [9; 3; 8] = 0%nat /\
  find_closest 10 [3; 9; 9] = 1%nat /\ find_closest 10 [12; 9; 10] = 2%nat.
Proof. repeat split; vm_compute; reflexivity. Qed.

Print Assumptions C18_405.
Print Assumptions C18_ok.
Print Assumptions C18_exact.
Print Assumptions C18_consolidate.
Print Assumptions C18_single.
Print Assumptions C18_zero_target.
Print Assumptions C18_no_panic.
Print Assumptions find_closest_spec.
