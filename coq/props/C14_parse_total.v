(* C14, the parser is total for the right reason — "No byte string delivered to any validator
   endpoint ... can make the process panic" is stated over ALL strings, and the lex suite compares
   [parse_json s = None] with Go's "invalid".  parse_json (model/JsonParse.v) runs on fuel and
   answers None both for a syntax error and when the fuel is used up.  model/JsonParseF.v is the
   same parser with the two told apart (PSyntax / PFuel); for EVERY text the fuel given at the top
   level is enough, so None always means "syntax error".
   This file contains only the property theorems, each closed by [exact] of a lemma of
   proofs/JsonParseF_lemmas.v. *)
From RV Require Import model.Base model.Json model.JsonParse model.JsonParseF proofs.JsonParseF_lemmas.

Theorem C14_parse_never_out_of_fuel :
  forall s, parse_jsonF s <> PFuel.
Proof. exact parse_jsonF_never_fuel. Qed.

Theorem C14_parse_none_is_syntax_error :
  forall s, parse_json s = None <-> parse_jsonF s = PSyntax.
Proof. exact parse_json_none_is_syntax. Qed.

Theorem C14_parse_instrumented_refines :
  (forall f s, erase (parse_valF f s) = parse_val f s) /\
  (forall f s, erase (parse_elemsF f s) = parse_elems f s) /\
  (forall f s, erase (parse_membersF f s) = parse_members f s) /\
  (forall s, erase (parse_jsonF s) = parse_json s).
Proof. exact parse_F_refines. Qed.

(* a valid nested text, a broken one, and forty unterminated opening brackets *)
Example C14_parse_total_ex :
  parse_jsonF "{""a"":[1,{""b"":[true,null,""x""]},-2.5e3], ""c"" : { } }"%string
    = POk (JObj [("a"%string, JArr [JNum 1; JObj [("b"%string, JArr [JBool true; JNull; JStr "x"])]; JNumF "-2.5e3"]);
                 ("c"%string, JObj [])])
  /\ parse_jsonF "{""a"":[1,}"%string = PSyntax
  /\ parse_jsonF "[[[[[[[[[[[[[[[[[[[[[[[[[[[[[[[[[[[[[[[["%string = PSyntax
  /\ String.length "[[[[[[[[[[[[[[[[[[[[[[[[[[[[[[[[[[[[[[[["%string = 40.
Proof. vm_compute. repeat split; reflexivity. Qed.

Print Assumptions C14_parse_never_out_of_fuel.
Print Assumptions C14_parse_none_is_syntax_error.
Print Assumptions C14_parse_instrumented_refines.
