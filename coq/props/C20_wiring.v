(* Composition facts that several properties lean on, as tables regenerated from /repo's source on
   every run (gen/Endpoints_gen.v, written by tools/genendpoints from validatornode/main.go,
   validatornode/presentation/api/host.go and accessnode/presentation/node.go):

   - C20 / C04 / C05: the production engine calls TransactionsPool.Validate once per validation
     timer, the sync engine calls Blockchain.Update VerificationsCountPerValidation times per
     validation timer with the first occurrence skipped (the Engine model of C20 and the aligned
     ticks assumed by C04, C05, C11 are instantiated with exactly these arguments);
   - C13: the host's server is given the validation timeout as its connection timeout;
   - C18 / C19: every access-node controller that talks to the validator is handed the very
     sender NewNode received (no intermediary that could remember answers).

   The tables are finite: vm_compute is a proof. A renaming in those files breaks the theorem
   without breaking the property; the check then reports no-failing-input-found. *)
From RV Require Import model.Base gen.Endpoints_gen.
Local Open Scope string_scope.

Definition engine_spec : list (string * string * string * string * string) := [
  ("neighborhoodSynchronizationEngine", "neighborhood.Synchronize", "settings.Network().SynchronizationTimer()", "1", "0");
  ("validationEngine", "transactionsPool.Validate", "settings.Protocol().ValidationTimer()", "1", "0");
  ("verificationEngine", "blockchain.Update", "settings.Protocol().ValidationTimer()", "settings.Protocol().VerificationsCountPerValidation()", "1");
  ("registrySynchronizationEngine", "addressesRegistry.Synchronize", "settings.Registry().SynchronizationTimer()", "1", "0")
].

Definition row5_eqb (a b : string * string * string * string * string) : bool :=
  let '(a1, a2, a3, a4, a5) := a in
  let '(b1, b2, b3, b4, b5) := b in
  String.eqb a1 b1 && String.eqb a2 b2 && String.eqb a3 b3 && String.eqb a4 b4 && String.eqb a5 b5.

Fixpoint rows5_eqb (l1 l2 : list (string * string * string * string * string)) : bool :=
  match l1, l2 with
  | [], [] => true
  | a :: r1, b :: r2 => row5_eqb a b && rows5_eqb r1 r2
  | _, _ => false
  end.

Fixpoint strs_eqb (l1 l2 : list string) : bool :=
  match l1, l2 with
  | [], [] => true
  | a :: r1, b :: r2 => String.eqb a b && strs_eqb r1 r2
  | _, _ => false
  end.

(* every engine of main.go is created with the function, period, occurrences and skipped
   occurrences of the specification, and exactly these four engines are started by the node *)
Theorem C20_engines_wired :
  rows5_eqb engine_wiring engine_spec = true /\
  strs_eqb node_engines ("host" :: map (fun r => fst (fst (fst (fst r)))) engine_spec) = true.
Proof. vm_compute. split; reflexivity. Qed.

Definition lookup2 (k : string) (l : list (string * string)) : list string :=
  map snd (filter (fun p => String.eqb (fst p) k) l).

(* the host serves the four components of this node and waits on a connection for the
   validation timeout *)
Theorem C13_host_wired :
  lookup2 "NewHost.arg0" host_wiring = ["blockchain"] /\
  lookup2 "NewHost.arg1" host_wiring = ["neighborhood"] /\
  lookup2 "NewHost.arg2" host_wiring = ["transactionsPool"] /\
  lookup2 "NewHost.arg3" host_wiring = ["utxosRegistry"] /\
  lookup2 "NewHost.arg6" host_wiring = ["settings.Protocol().ValidationTimeout()"] /\
  lookup2 "serverSettings.SetConnTimeout" host_wiring = ["validationTimeout"].
Proof. vm_compute. repeat split. Qed.

Definition talks_to_validator : list string :=
  ["payment.NewInfoController"; "payment.NewProgressController"; "payment.NewTransactionController";
   "payment.NewTransactionsController"; "wallet.NewAmountController"].

(* every access-node controller that talks to the validator gets NewNode's own sender *)
Theorem C19_access_wired :
  forallb (fun c => match lookup2 c access_wiring with
                    | [s] => String.eqb s "sender-parameter"
                    | _ => false
                    end) talks_to_validator = true.
Proof. vm_compute. reflexivity. Qed.

(* C18 / C19: one request has one "now". The info and progress handlers reach exactly one watch.Now()
   call site, outside any loop (the model's tx_info and progress_of take one clock reading as input: a
   second reading - in the handler or in a helper it calls - could fall in another block slot). The
   balance handler has one call site inside its per-output loop: it reads the clock once per output
   (microseconds apart; the model and the suites value all outputs at one instant - noted in DESIGN.md). *)
Definition reads_of (h : string) : list (nat * nat) :=
  map (fun r => (snd (fst r), snd r)) (filter (fun r => String.eqb (fst (fst r)) h) clock_reads).

Theorem C18_single_clock_reading :
  reads_of "InfoController.GetTransactionInfo" = [(1, 0)] /\
  reads_of "ProgressController.GetTransactionProgress" = [(1, 0)] /\
  reads_of "AmountController.GetWalletAmount" = [(1, 1)].
Proof. vm_compute. repeat split; reflexivity. Qed.

Print Assumptions C20_engines_wired.
Print Assumptions C13_host_wired.
Print Assumptions C19_access_wired.
Print Assumptions C18_single_clock_reading.
