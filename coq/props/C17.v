(* C17 — after every neighbor-refresh round the outbound set holds at most the configured maximum
   of distinct reachable peers, never the node itself, drawn only from the targets it currently
   knows (or the seeds when it knows none), and never leaves out a reachable peer in favour of a
   lower-scored one. Every selected peer is sent the host's own target and all other reachable
   targets but not its own; announced targets are retained only if well-formed and on the node's
   own network.
   This file contains only the property theorems, each closed by [exact] of a lemma of
   proofs/Neighborhood_lemmas.v. Quantifiers: every SplitHostPort/CreateSender behaviour
   (split_hp, resolve), every map iteration order, every shuffle outcome (perm). *)
From RV Require Import model.Base model.Neighborhood proofs.Neighborhood_lemmas.
From Coq Require Import ZArith Permutation.
Local Open Scope Z_scope.

(* size: at most max for every perm; exactly min(count, reachable) for a genuine shuffle *)
Theorem C17_bound : forall (m : list (string * Z)) (r : list entry) (max : Z) (perm : list nat),
  0 <= max ->
  (length (select_outbounds r (outbounds_count m max) perm) <= Z.to_nat max)%nat /\
  (is_shuffle r (outbounds_count m max) perm ->
   length (select_outbounds r (outbounds_count m max) perm)
   = Nat.min (Z.to_nat (outbounds_count m max)) (length r)).
Proof. exact nb_bound. Qed.

(* source: a key of the live map (of the seeds when the live map is empty), not the host's own
   target value, well-formed and reachable *)
Theorem C17_source : forall split_hp resolve host seeds scores order max perm e,
  let m := known seeds scores in
  In e (select_outbounds (reachable split_hp resolve host m order) (outbounds_count m max) perm) ->
  In e (reachable split_hp resolve host m order) /\
  In (e_tv e) order /\
  In (e_tv e) (map fst m) /\ alookup (e_tv e) m = Some (e_sc e) /\
  e_tv e <> host /\
  (exists ip port, split_hp (e_tv e) = Some (ip, port) /\ resolve ip port = Some (e_tgt e)) /\
  (scores = [] -> In (e_tv e) (map fst seeds)) /\
  (scores <> [] -> In (e_tv e) (map fst scores)).
Proof. exact nb_source. Qed.

(* distinct target values *)
Theorem C17_distinct : forall split_hp resolve host m order max perm,
  let r := reachable split_hp resolve host m order in
  NoDup order -> is_shuffle r (outbounds_count m max) perm ->
  NoDup (map e_tv (select_outbounds r (outbounds_count m max) perm)).
Proof. exact nb_distinct. Qed.

(* distinct senders, only when no two target values resolve to one address *)
Theorem C17_distinct_targets : forall split_hp resolve host m order max perm,
  let r := reachable split_hp resolve host m order in
  resolve_injective split_hp resolve ->
  NoDup order -> is_shuffle r (outbounds_count m max) perm ->
  NoDup (map e_tgt (select_outbounds r (outbounds_count m max) perm)).
Proof. exact nb_distinct_targets. Qed.

(* ... and without that hypothesis the same machine is selected twice and the host selects itself *)
Theorem C17_alias_refuted :
  exists split_hp resolve host m order max perm,
    let r := reachable split_hp resolve host m order in
    let out := map e_tgt (select_outbounds r (outbounds_count m max) perm) in
    NoDup order /\ NoDup (map fst m) /\ Permutation order (map fst m) /\ 0 <= max /\
    is_shuffle r (outbounds_count m max) perm /\
    ~ NoDup out /\ In host out.
Proof. exact nb_alias_refuted. Qed.

Example C17_alias_refuted_run :
  map e_tgt (select_outbounds (reachable alias_split alias_resolve alias_host alias_map alias_order)
                              (outbounds_count alias_map 3) [0; 1; 2]%nat)
  = ["1.2.3.4:10600"; "1.2.3.4:10600"; "9.9.9.9:10600"]%string
  /\ alias_host = "9.9.9.9:10600"%string.
Proof. vm_compute. split; reflexivity. Qed.

(* best: no reachable peer left out outscores a selected one (every perm) *)
Theorem C17_best : forall (r : list entry) (count : Z) (perm : list nat) p q,
  In p r -> ~ In p (select_outbounds r count perm) -> In q (select_outbounds r count perm) ->
  e_sc p <= e_sc q.
Proof. exact nb_best. Qed.

(* what each selected peer is sent *)
Theorem C17_fanout : forall split_hp resolve host seeds scores order max perm out msgs scores',
  sync_round split_hp resolve host seeds scores order max perm = (out, msgs, scores') ->
  let r := reachable split_hp resolve host (known seeds scores) order in
  out = select_outbounds r (outbounds_count (known seeds scores) max) perm /\
  scores' = [] /\
  map fst msgs = map e_tgt out /\
  forall q, In q out ->
    let sent := fanout host r (e_tgt q) in
    In (e_tgt q, sent) msgs /\
    sent = (if String.eqb (e_tgt q) host then [] else [host]) ++
           filter (fun tv => negb (String.eqb (e_tgt q) tv)) (map e_tv r) /\
    (e_tgt q <> host -> exists tl, sent = host :: tl) /\
    (forall tv, In tv (map e_tv r) -> tv <> e_tgt q -> In tv sent) /\
    (forall tv, In tv sent -> tv = host \/ In tv (map e_tv r)) /\
    ~ In (e_tgt q) sent /\
    (e_tgt q = e_tv q -> ~ In (e_tv q) sent).
Proof. exact nb_fanout. Qed.

(* the last clause needs e_tgt q = e_tv q: a peer known by a name is sent its own target *)
Theorem C17_fanout_own_target_refuted :
  exists split_hp resolve host seeds scores order max perm out msgs scores' q,
    sync_round split_hp resolve host seeds scores order max perm = (out, msgs, scores') /\
    In q out /\ In (e_tgt q, fanout host (reachable split_hp resolve host (known seeds scores) order)
                                    (e_tgt q)) msgs /\
    In (e_tv q) (fanout host (reachable split_hp resolve host (known seeds scores) order) (e_tgt q)).
Proof. exact nb_fanout_own_target_refuted. Qed.

(* announcements *)
Theorem C17_announce : forall split_hp host_port scores targets tv,
  (In tv (map fst (add_targets split_hp host_port scores targets)) <->
   In tv (map fst scores) \/
   (In tv targets /\ exists ip port, split_hp tv = Some (ip, port) /\
                                     network_id port = network_id host_port)) /\
  (forall v, alookup tv scores = Some v ->
             alookup tv (add_targets split_hp host_port scores targets) = Some v) /\
  (alookup tv scores = None ->
   forall v, alookup tv (add_targets split_hp host_port scores targets) = Some v -> v = 0) /\
  (NoDup (map fst scores) -> NoDup (map fst (add_targets split_hp host_port scores targets))).
Proof. exact nb_announce. Qed.

(* remark: Incentive inserts its argument unvalidated, and thereby switches the seeds off *)
Theorem C17_incentive_unfiltered : forall scores t,
  alookup t (incentive scores t) = Some (match alookup t scores with Some v => v + 1 | None => 1 end) /\
  In t (map fst (incentive scores t)) /\
  (forall seeds, known seeds (incentive scores t) = incentive scores t) /\
  (forall k, k <> t -> alookup k (incentive scores t) = alookup k scores) /\
  (NoDup (map fst scores) -> NoDup (map fst (incentive scores t))).
Proof. exact nb_incentive_unfiltered. Qed.

Theorem C17_incentive_malformed_isolates : forall split_hp resolve host seeds t order,
  split_hp t = None ->
  reachable split_hp resolve host (known seeds (incentive [] t)) order = [].
Proof. exact incentive_malformed_isolates. Qed.

(* the check used by the Go correspondence harness accepts exactly the outcomes of the model *)
Theorem C17_admissible_sound : forall split_hp resolve host m order max perm,
  let r := reachable split_hp resolve host m order in
  is_shuffle r (outbounds_count m max) perm ->
  admissible_outbounds split_hp resolve host m order max
    (map e_tgt (select_outbounds r (outbounds_count m max) perm)) = true.
Proof. exact nb_admissible_sound. Qed.

Theorem C17_admissible_complete : forall split_hp resolve host m order max out,
  let r := reachable split_hp resolve host m order in
  admissible_outbounds split_hp resolve host m order max out = true ->
  exists perm, is_shuffle r (outbounds_count m max) perm /\
               Permutation out (map e_tgt (select_outbounds r (outbounds_count m max) perm)).
Proof. exact nb_admissible_complete. Qed.

(* one whole round, and the next round starts again from a map built by AddTargets/Incentive *)
Theorem C17_round : forall split_hp resolve host host_port seeds scores order max perm out msgs scores',
  NoDup (map fst seeds) -> built split_hp host_port scores ->
  Permutation order (map fst (known seeds scores)) -> 0 <= max ->
  is_shuffle (reachable split_hp resolve host (known seeds scores) order)
             (outbounds_count (known seeds scores) max) perm ->
  sync_round split_hp resolve host seeds scores order max perm = (out, msgs, scores') ->
  let m := known seeds scores in
  let r := reachable split_hp resolve host m order in
  (length out <= Z.to_nat max)%nat /\
  length out = Nat.min (Z.to_nat (outbounds_count m max)) (length r) /\
  NoDup (map e_tv out) /\
  (forall e, In e out -> In e r /\ In (e_tv e) (map fst m) /\ e_tv e <> host) /\
  (forall p q, In p r -> ~ In p out -> In q out -> e_sc p <= e_sc q) /\
  built split_hp host_port scores'.
Proof. exact nb_round. Qed.

(* ---- worked example: five peers in three score groups (3 | 2 | 1 1 1) and the host's own entry,
   max = 3, the peer of score 2 unreachable; the hypotheses of the theorems hold on it ---- *)
Example C17_example_hypotheses :
  NoDup (map fst ex_map) /\ Permutation ex_order (map fst ex_map) /\
  is_shuffle (reachable ex_split ex_resolve ex_host ex_map ex_order) (outbounds_count ex_map 3) ex_perm /\
  resolve_injective ex_split ex_resolve.
Proof. exact ex_hypotheses. Qed.

Example C17_example_reachable :
  reachable ex_split ex_resolve ex_host ex_map ex_order
  = [("10.0.0.4:10600", "10.0.0.4:10600", 1); ("10.0.0.5:10600", "10.0.0.5:10600", 1);
     ("10.0.0.1:10600", "10.0.0.1:10600", 3); ("10.0.0.3:10600", "10.0.0.3:10600", 1)]%string.
Proof. vm_compute. reflexivity. Qed.

(* the top peer whole, then two of the three peers of score 1 as shuffled by [2;0;1];
   each is sent the host and the other reachable targets *)
Example C17_example_round :
  sync_round ex_split ex_resolve ex_host [] ex_map ex_order 3 ex_perm
  = ([("10.0.0.1:10600", "10.0.0.1:10600", 3); ("10.0.0.3:10600", "10.0.0.3:10600", 1);
      ("10.0.0.4:10600", "10.0.0.4:10600", 1)],
     [("10.0.0.1:10600", ["10.0.0.9:10600"; "10.0.0.4:10600"; "10.0.0.5:10600"; "10.0.0.3:10600"]);
      ("10.0.0.3:10600", ["10.0.0.9:10600"; "10.0.0.4:10600"; "10.0.0.5:10600"; "10.0.0.1:10600"]);
      ("10.0.0.4:10600", ["10.0.0.9:10600"; "10.0.0.5:10600"; "10.0.0.1:10600"; "10.0.0.3:10600"])],
     [])%string.
Proof. vm_compute. reflexivity. Qed.

Example C17_example_admissible :
  (admissible_outbounds ex_split ex_resolve ex_host ex_map ex_order 3
     ["10.0.0.5:10600"; "10.0.0.1:10600"; "10.0.0.4:10600"]
   = true /\
   (* leaves the top peer out *)
   admissible_outbounds ex_split ex_resolve ex_host ex_map ex_order 3
     ["10.0.0.5:10600"; "10.0.0.3:10600"; "10.0.0.4:10600"]
   = false /\
   (* too few *)
   admissible_outbounds ex_split ex_resolve ex_host ex_map ex_order 3
     ["10.0.0.1:10600"; "10.0.0.4:10600"]
   = false /\
   (* the unreachable peer *)
   admissible_outbounds ex_split ex_resolve ex_host ex_map ex_order 3
     ["10.0.0.1:10600"; "10.0.0.2:10600"; "10.0.0.4:10600"]
   = false /\
   (* the same peer twice *)
   admissible_outbounds ex_split ex_resolve ex_host ex_map ex_order 3
     ["10.0.0.1:10600"; "10.0.0.4:10600"; "10.0.0.4:10600"]
   = false)%string.
Proof. vm_compute. repeat split; reflexivity. Qed.

Example C17_example_announce :
  (add_targets ex_split "10600" [("10.0.0.1:10600", 4)]
     ["10.0.0.1:10600"; "not a target"; "10.0.0.3:10600"; "10.0.0.3:10600"; "10.0.0.9:10600"]
   = [("10.0.0.1:10600", 4); ("10.0.0.3:10600", 0); ("10.0.0.9:10600", 0)] /\
   (* a testnet host drops the mainnet announcements *)
   add_targets ex_split "10601" [] ["10.0.0.1:10600"; "10.0.0.3:10600"] = [] /\
   (network_id "10600", network_id "10601", network_id "106ab", network_id "8080", network_id "")
   = (0, 1, 1, 2, 2)%N)%string.
Proof. vm_compute. repeat split; reflexivity. Qed.

Print Assumptions C17_bound.
Print Assumptions C17_source.
Print Assumptions C17_distinct.
Print Assumptions C17_distinct_targets.
Print Assumptions C17_alias_refuted.
Print Assumptions C17_best.
Print Assumptions C17_fanout.
Print Assumptions C17_fanout_own_target_refuted.
Print Assumptions C17_announce.
Print Assumptions C17_incentive_unfiltered.
Print Assumptions C17_incentive_malformed_isolates.
Print Assumptions C17_admissible_sound.
Print Assumptions C17_admissible_complete.
Print Assumptions C17_round.
