(* C08, convergence from a PRIVATE chain — the start that props/C08_converge.v leaves out: the node
   holds a chain P that is not a prefix of the served chain C, with 2 < |P|, |P| < page size and
   |P| < |C|. (Private chains of one or two blocks are in C08_sync_converges.)
   What Blockchain.Update does (blockchain.go:99-266; model/Sync.v [update], model/Chain.v [verify]):
   the node asks every neighbor from height |P| - 1 and gets the page of C from there.
   - P and C differ below P's tip: the first answered block does not point to the host's block
     below its tip, verify refuses the answer (blockchain.go:332-336), every answer being refused
     the node asks again from height 0 ("all neighbor blockchains are forks", blockchain.go:129-148),
     the first page of C verifies from the empty registers and, being longer than P, replaces it
     (registers cleared and rebuilt).
   - P and C agree below P's tip: C's block c at the height of P's tip is checked against the
     HOST's registers (the replay of all the blocks below the tip; inside an answered page the same
     block is checked against the replay of one block fewer — this is what [page_verifiable]
     gives, so the outcome of that check is not determined by [servable]). [swap_accepted] is that
     check: c has the hash of the host's tip, or verifyBlock accepts c against the host's
     registers. Accepted: the tip is swapped and the chain extended by the rest of the page.
     Refused: full re-sync as above. Either way the node ends the round with a prefix of C at least
     one page long, and the bound 1 + ceil (|C| / (page size - 1)) of the property holds.
   Two hypotheses on P beyond the property's text, both needed for the statement to be true of the
   code: P is hash-linked (true of every reachable node: C12, reach_linked) and no block of P has
   the hash of a different block of C ([no_collision]; H is an oracle here, SHA-256 in the code).
   Without them an answer that does not continue P's blocks could pass the previous-hash test and
   the node would keep blocks that are not in C.

   Vocabulary: as in props/C08_converge.v, plus (proofs/ConvergePrivate_lemmas.v)
   - [no_collision H P C] := forall a b, In a P -> In b C -> H a = H b -> a = b (spelled out below);
   - [swap_accepted ... st now C] : bool, the test described above.
   This file contains only the property theorems, each closed by [exact] of a lemma. *)
From RV Require Import model.Base model.Ledger model.Registry model.Chain model.Sync model.Pool model.Reach
  proofs.Sync_lemmas proofs.Reach_lemmas proofs.Converge_lemmas proofs.ConvergePrivate_lemmas.

(* ---- one round from a private chain ---- *)
Theorem C08_round_private_adopts :
  forall (value_fn : N -> bool -> Z -> N) (addr_of : string -> string) (sig_ok : input -> bool)
         (H : block -> hash) (Se : settings) (st : cstate) (now : Z) (nbs : list neighbor)
         (pref : string) (C P : list block),
    (0 < s_interval Se)%Z ->
    servable value_fn addr_of sig_ok H Se now C ->
    chain st = P -> denotes P (ur st) (ar st) ->
    2 < length P -> length P < lim Se -> length P < length C ->
    chain_linked H P ->
    (forall a b : block, In a P -> In b C -> H a = H b -> a = b) ->
    (3 <= s_limit Se)%N -> (N.of_nat (length C) + s_limit Se <= two64)%N ->
    nbs <> [] -> (forall nb : neighbor, In nb nbs -> serves Se C st nb) ->
    exists st' : cstate,
      update value_fn addr_of sig_ok H Se st now nbs pref = (st', true) /\
      (exists a : areg, replay (removelast (chain st')) = Ok (ur st', a) /\
                        registered a = registered (ar st')) /\
      ((removelast P <> firstn (length P - 1) C /\ chain st' = firstn (lim Se) C) \/
       (removelast P = firstn (length P - 1) C /\
        chain st' = if swap_accepted value_fn addr_of sig_ok H Se st now C
                    then firstn (length P - 1) C ++ firstn (lim Se) (skipn (length P - 1) C)
                    else firstn (lim Se) C)).
Proof. exact round_private_adopts. Qed.

(* the verifier's answer to the page of C served at the height of the host's tip, when the two
   chains agree below it and both tips point to the same block: one equation for both outcomes *)
Theorem C08_verify_swap_page :
  forall (value_fn : N -> bool -> Z -> N) (addr_of : string -> string) (sig_ok : input -> bool)
         (H : block -> hash) (Se : settings) (st : cstate) (now : Z) (C old : list block)
         (p0 tip c : block) (Q T : list block) (a : areg),
    (0 < s_interval Se)%Z ->
    chain_linked H C ->
    (exists (u : ureg) (a0 : areg), replay C = Ok (u, a0)) ->
    page_verifiable value_fn addr_of sig_ok Se now C ->
    C = old ++ c :: Q ++ T -> last_block old = Some p0 ->
    replay old = Ok (ur st, a) -> registered a = registered (ar st) ->
    b_prev tip = b_prev c ->
    verify value_fn addr_of sig_ok H Se st [tip] (c :: Q) old now =
    if hash_eqb (H c) (H tip) then Ok (c :: Q)
    else match verify_block value_fn addr_of sig_ok Se (mkC old (ur st) (ar st)) c (b_ts p0) now with
         | Ok _ => Ok (c :: Q)
         | Err e => Err e
         end.
Proof. exact verify_swap_page. Qed.

(* an answer whose first block does not point to the host's block below its tip is refused *)
Theorem C08_verify_link_rejected :
  forall (value_fn : N -> bool -> Z -> N) (addr_of : string -> string) (sig_ok : input -> bool)
         (H : block -> hash) (Se : settings) (st : cstate) (now : Z) (old : list block)
         (p0 tip c : block) (Q : list block),
    last_block old = Some p0 -> b_prev c <> H p0 ->
    exists e : err, verify value_fn addr_of sig_ok H Se st [tip] (c :: Q) old now = Err e.
Proof. exact verify_link_rejected. Qed.

(* the full request verifies whatever blocks the host compares it with *)
Theorem C08_verify_full_page_any :
  forall (value_fn : N -> bool -> Z -> N) (addr_of : string -> string) (sig_ok : input -> bool)
         (H : block -> hash) (Se : settings) (st : cstate) (now : Z) (C lh : list block)
         (g b1 : block) (Q T : list block),
    (0 < s_interval Se)%Z ->
    chain_linked H C -> genesis_rooted C ->
    (exists (u : ureg) (a : areg), replay C = Ok (u, a)) ->
    page_verifiable value_fn addr_of sig_ok Se now C ->
    C = g :: b1 :: Q ++ T ->
    verify value_fn addr_of sig_ok H Se st lh (g :: b1 :: Q) [] now = Ok (g :: b1 :: Q).
Proof. exact verify_full_page_any. Qed.

(* ---- several rounds: the bound of the property holds from a private chain ---- *)
Theorem C08_sync_converges_private :
  forall (value_fn : N -> bool -> Z -> N) (addr_of : string -> string) (sig_ok : input -> bool)
         (H : block -> hash) (Se : settings) (C : list block) (now0 : Z),
    (0 < s_interval Se)%Z ->
    servable value_fn addr_of sig_ok H Se now0 C ->
    (3 <= s_limit Se)%N -> (N.of_nat (length C) + s_limit Se <= two64)%N ->
    forall (n : nat) (st st' : cstate),
      sync_rounds value_fn addr_of sig_ok H Se C now0 st n st' ->
      2 < length (chain st) -> length (chain st) < lim Se -> length (chain st) < length C ->
      chain_linked H (chain st) ->
      (forall a b : block, In a (chain st) -> In b C -> H a = H b -> a = b) ->
      denotes (chain st) (ur st) (ar st) ->
      1 + ceil_div (length C) (lim Se - 1) <= n ->
      chain st' = C /\
      exists a : areg, replay (removelast C) = Ok (ur st', a) /\ registered a = registered (ar st').
Proof. exact sync_converges_private. Qed.

(* every start the property allows, in one statement *)
Theorem C08_sync_converges_all :
  forall (value_fn : N -> bool -> Z -> N) (addr_of : string -> string) (sig_ok : input -> bool)
         (H : block -> hash) (Se : settings) (C : list block) (now0 : Z),
    (0 < s_interval Se)%Z ->
    servable value_fn addr_of sig_ok H Se now0 C ->
    (3 <= s_limit Se)%N -> (N.of_nat (length C) + s_limit Se <= two64)%N ->
    2 <= length C ->
    forall (n : nat) (st st' : cstate),
      sync_rounds value_fn addr_of sig_ok H Se C now0 st n st' ->
      1 <= length (chain st) ->
      prefix (chain st) C \/
      (length (chain st) < length C /\ length (chain st) < lim Se /\
       chain_linked H (chain st) /\
       (forall a b : block, In a (chain st) -> In b C -> H a = H b -> a = b)) ->
      denotes (chain st) (ur st) (ar st) ->
      1 + ceil_div (length C) (lim Se - 1) <= n ->
      chain st' = C /\
      exists a : areg, replay (removelast C) = Ok (ur st', a) /\ registered a = registered (ar st').
Proof. exact sync_converges_all. Qed.

(* between reachable nodes: linking and registers come with reachability; the node that catches
   up ends with the serving node's spendable outputs and registered addresses *)
Theorem C08_sync_converges_all_reach :
  forall (value_fn : N -> bool -> Z -> N) (addr_of : string -> string) (sig_ok : input -> bool)
         (H : block -> hash) (gen_id : slice input -> slice output -> Z -> string)
         (Se : settings) (validator validator' : string) (C : list block) (now0 : Z)
         (srv n0 : node),
    reach value_fn addr_of sig_ok H gen_id Se validator' srv -> chain (n_c srv) = C ->
    reach value_fn addr_of sig_ok H gen_id Se validator n0 ->
    (0 < s_interval Se)%Z ->
    servable value_fn addr_of sig_ok H Se now0 C ->
    (3 <= s_limit Se)%N -> (N.of_nat (length C) + s_limit Se <= two64)%N ->
    2 <= length C ->
    1 <= length (chain (n_c n0)) ->
    prefix (chain (n_c n0)) C \/
    (length (chain (n_c n0)) < length C /\ length (chain (n_c n0)) < lim Se /\
     (forall a b : block, In a (chain (n_c n0)) -> In b C -> H a = H b -> a = b)) ->
    forall (n : nat) (st' : cstate),
      sync_rounds value_fn addr_of sig_ok H Se C now0 (n_c n0) n st' ->
      1 + ceil_div (length C) (lim Se - 1) <= n ->
      chain st' = C /\
      (forall addr : string, utxos_of (ur st') addr = utxos_of (ur (n_c srv)) addr) /\
      (forall addr : string, is_registered (ar st') addr = is_registered (ar (n_c srv)) addr).
Proof. exact sync_converges_all_reach. Qed.

(* ---- the hypotheses are satisfiable; the functions run ---- *)
(* the five-block chain of C08_converge served with a page size of 4; PF = [g0; y1; y2] leaves it
   after the genesis block, PS = [g0; c1; z2] shares every block below its tip *)
Example C08p_ex_servable :
  servable SyncExample.vf SyncExample.ao SyncExample.so SyncExample.Ht PrivateExample.S4 40
           ConvergeExample.CC.
Proof. exact PrivateExample.ex4_servable. Qed.

Example C08p_ex_settings :
  (0 < s_interval PrivateExample.S4)%Z /\ (3 <= s_limit PrivateExample.S4)%N /\
  (N.of_nat (length ConvergeExample.CC) + s_limit PrivateExample.S4 <= two64)%N.
Proof. exact PrivateExample.ex4_settings. Qed.

Example C08p_ex_bounds :
  2 < length (chain PrivateExample.stF) /\
  length (chain PrivateExample.stF) < lim PrivateExample.S4 /\
  length (chain PrivateExample.stF) < length ConvergeExample.CC.
Proof. exact PrivateExample.ex4_bounds_F. Qed.

Example C08p_ex_linked :
  chain_linked SyncExample.Ht PrivateExample.PF /\ chain_linked SyncExample.Ht PrivateExample.PS.
Proof. exact PrivateExample.ex4_linked. Qed.

Example C08p_ex_no_collision_F :
  forall a b : block, In a PrivateExample.PF -> In b ConvergeExample.CC ->
                      SyncExample.Ht a = SyncExample.Ht b -> a = b.
Proof. exact PrivateExample.ex4_no_collision_F. Qed.

Example C08p_ex_no_collision_S :
  forall a b : block, In a PrivateExample.PS -> In b ConvergeExample.CC ->
                      SyncExample.Ht a = SyncExample.Ht b -> a = b.
Proof. exact PrivateExample.ex4_no_collision_S. Qed.

Example C08p_ex_denotes :
  denotes PrivateExample.PF (ur PrivateExample.stF) (ar PrivateExample.stF) /\
  denotes PrivateExample.PS (ur PrivateExample.stS) (ar PrivateExample.stS).
Proof. exact PrivateExample.ex4_denotes. Qed.

Example C08p_ex_not_prefix :
  ~ prefix PrivateExample.PF ConvergeExample.CC /\ ~ prefix PrivateExample.PS ConvergeExample.CC.
Proof. exact PrivateExample.ex4_not_prefix. Qed.

Example C08p_ex_cases :
  removelast PrivateExample.PF <> firstn (length PrivateExample.PF - 1) ConvergeExample.CC /\
  removelast PrivateExample.PS = firstn (length PrivateExample.PS - 1) ConvergeExample.CC /\
  swap_accepted SyncExample.vf SyncExample.ao SyncExample.so SyncExample.Ht PrivateExample.S4
                PrivateExample.stS 40 ConvergeExample.CC = true.
Proof. exact PrivateExample.ex4_cases. Qed.

Example C08p_ex_serves :
  serves PrivateExample.S4 ConvergeExample.CC PrivateExample.stF (PrivateExample.nb4 3) /\
  serves PrivateExample.S4 ConvergeExample.CC PrivateExample.stS (PrivateExample.nb4 3).
Proof. exact (conj PrivateExample.ex4_serves_F PrivateExample.ex4_serves_S). Qed.

(* from PF: a full re-sync (4 blocks), an incremental round (5), a round that changes nothing;
   from PS: tip swap and extension to the five blocks in one round *)
Example C08p_ex_rounds :
  sync_rounds SyncExample.vf SyncExample.ao SyncExample.so SyncExample.Ht PrivateExample.S4
              ConvergeExample.CC 40 PrivateExample.stF 3 PrivateExample.stF3.
Proof. exact PrivateExample.ex4_rounds. Qed.

Example C08p_ex_chains :
  chain PrivateExample.stF1 =
  [ConvergeExample.g0; ConvergeExample.c1; ConvergeExample.c2; ConvergeExample.c3] /\
  chain PrivateExample.stF2 = ConvergeExample.CC /\
  chain PrivateExample.stF3 = ConvergeExample.CC /\
  replay (removelast ConvergeExample.CC) = Ok (ur PrivateExample.stF3, ar PrivateExample.stF3) /\
  chain PrivateExample.stS1 = ConvergeExample.CC /\
  replay (removelast ConvergeExample.CC) = Ok (ur PrivateExample.stS1, ar PrivateExample.stS1).
Proof. exact PrivateExample.ex4_chains. Qed.

Example C08p_ex_bound :
  1 + ceil_div (length ConvergeExample.CC) (lim PrivateExample.S4 - 1) = 3.
Proof. vm_compute. reflexivity. Qed.

Print Assumptions C08_round_private_adopts.
Print Assumptions C08_verify_swap_page.
Print Assumptions C08_verify_link_rejected.
Print Assumptions C08_verify_full_page_any.
Print Assumptions C08_sync_converges_private.
Print Assumptions C08_sync_converges_all.
Print Assumptions C08_sync_converges_all_reach.
