(* C01 — no value from nothing. In every chain a node produces or adopts, each ordinary
   transaction of a non-genesis block pays out, in exact (non-wrapping) arithmetic, no more than
   the value of the outputs it consumes as of that block's timestamp minus the minimal fee, and
   the block's single reward is no more than the fees its transactions leave over. The same
   bound holds, valued at the next block's timestamp, for every transaction that enters the pool.

   A transaction is judged at three places (verifyBlock, addTransaction, Validate); the property
   is stated at each of them against the registry state the code consults there. This file
   contains only the property theorems, each closed by [exact] of a lemma of
   proofs/Accept_lemmas.v, where [spends], [tx_bound], [tx_authorized], [leftover],
   [block_bounds], [is_new_at], [kept_ok], [run_kept] are defined. *)
From RV Require Import model.Base model.Ledger model.Registry model.Chain model.Sync model.Pool.
From RV Require Import proofs.Pool_lemmas proofs.Sync_lemmas proofs.Chain_verify proofs.Ledger_fee
                       proofs.Accept_lemmas.
From Coq Require Import ZArith NArith.
Local Open Scope N_scope.

(* the vocabulary, spelled out *)
Theorem C01_tx_bound_means :
  forall (value_fn : N -> bool -> Z -> N) (addr_of : string -> string) (St : settings)
         (reg : ureg) (t : tx) (ts : Z),
    tx_bound value_fn addr_of St reg t ts <->
    exists us : list utxo,
      Forall2 (fun i u => find_utxo reg i = Ok u /\ o_addr (u_out u) = addr_of (i_key i)) (ins t) us /\
      sumN (map o_val (outs t)) + s_fee St <= sumN (map (fun u => utxo_value value_fn u ts) us).
Proof. exact tx_bound_unfold. Qed.

(* ---- 1. adopted blocks ---- *)

(* a block that passes verifyBlock against the state [c]: every ordinary transaction is bounded
   (and authorized, C03) in the registry of [c] at the block's timestamp; exactly one reward, of
   at most the exact sum of what the ordinary transactions leave over *)
Theorem C01_adopted_block :
  forall (value_fn : N -> bool -> Z -> N) (addr_of : string -> string) (sig_ok : input -> bool)
         (St : settings) (c : cstate) (b : block) (prev_ts now : Z),
    verify_block value_fn addr_of sig_ok St c b prev_ts now = Ok tt ->
    Forall (fun t => is_reward t = false ->
                     tx_bound value_fn addr_of St (ur c) t (b_ts b) /\
                     tx_authorized addr_of sig_ok (ur c) t) (txs b) /\
    exists (fees : list N) (rt : tx),
      Forall2 (fun t f => leftover value_fn addr_of (ur c) t (b_ts b) f) (ordinary b) fees /\
      In rt (txs b) /\ is_reward rt = true /\
      length (filter is_reward (txs b)) = 1%nat /\
      reward_value rt <= sumN fees.
Proof. exact verify_block_bounds. Qed.

(* a neighbor's answer that passes verify: every block of it that is new (beyond the host's
   comparison window or differing from the host's block at its position) and is not the genesis
   position of a full synchronization has passed verifyBlock, against the shadow state whose
   chain is the old host blocks plus the answer's blocks before it and whose registers are those
   blocks but the last replayed on the initial registers *)
Theorem C01_adopted_chain_checked :
  forall (value_fn : N -> bool -> Z -> N) (addr_of : string -> string) (sig_ok : input -> bool)
         (Hf : block -> hash) (St : settings) (host : cstate) (lh neigh old : list block)
         (now : Z) (v : list block),
    verify value_fn addr_of sig_ok Hf St host lh neigh old now = Ok v ->
    forall (i : nat) (b : block),
      nth_error neigh i = Some b ->
      is_new_at Hf lh i b ->
      ~ (old = [] /\ i = 0%nat) ->
      exists (sh : cstate) (p : block),
        prev_at_pos (last_block old) neigh i = Some p /\
        chain sh = old ++ firstn i neigh /\
        replay_from (init_ur host old) (init_ar host old) (removelast (firstn i neigh))
          = Ok (ur sh, ar sh) /\
        verify_block value_fn addr_of sig_ok St sh b (b_ts p) now = Ok tt.
Proof. exact verify_checks_new_blocks. Qed.

(* ... hence the bounds of C01_adopted_block for every such block *)
Theorem C01_adopted_chain :
  forall (value_fn : N -> bool -> Z -> N) (addr_of : string -> string) (sig_ok : input -> bool)
         (Hf : block -> hash) (St : settings) (host : cstate) (lh neigh old : list block)
         (now : Z) (v : list block),
    verify value_fn addr_of sig_ok Hf St host lh neigh old now = Ok v ->
    v = neigh /\
    forall (i : nat) (b : block),
      nth_error neigh i = Some b ->
      is_new_at Hf lh i b ->
      ~ (old = [] /\ i = 0%nat) ->
      exists (reg : ureg) (a : areg),
        replay_from (init_ur host old) (init_ar host old) (removelast (firstn i neigh)) = Ok (reg, a) /\
        block_bounds value_fn addr_of sig_ok St reg b.
Proof. exact verify_new_blocks_bounds. Qed.

Theorem C01_block_bounds_means :
  forall (value_fn : N -> bool -> Z -> N) (addr_of : string -> string) (sig_ok : input -> bool)
         (St : settings) (reg : ureg) (b : block),
    block_bounds value_fn addr_of sig_ok St reg b <->
    (Forall (fun t => is_reward t = false ->
                      tx_bound value_fn addr_of St reg t (b_ts b) /\
                      tx_authorized addr_of sig_ok reg t) (txs b) /\
     exists (fees : list N) (rt : tx),
       Forall2 (fun t f => leftover value_fn addr_of reg t (b_ts b) f) (ordinary b) fees /\
       In rt (txs b) /\ is_reward rt = true /\
       length (filter is_reward (txs b)) = 1%nat /\
       reward_value rt <= sumN fees).
Proof. exact block_bounds_unfold. Qed.

(* a chain adopted by a synchronization round is the host's old blocks followed by a neighbor's
   answer that passed verify (incremental request), or such an answer alone (full request) *)
Theorem C01_adopted_update :
  forall (value_fn : N -> bool -> Z -> N) (addr_of : string -> string) (sig_ok : input -> bool)
         (Hf : block -> hash) (St : settings) (st : cstate) (now : Z) (nbs : list neighbor)
         (pref : string) (st' : cstate),
    update value_fn addr_of sig_ok Hf St st now nbs pref = (st', true) ->
    exists lh neigh old : list block,
      verify value_fn addr_of sig_ok Hf St st lh neigh old now = Ok neigh /\
      chain st' = old ++ neigh /\
      ((old = removelast (chain st) /\ lh = tip_of st) \/
       (old = [] /\ lh = removelast (chain st))).
Proof. exact update_adopted_verified. Qed.

(* ---- 2. the pool ---- *)

(* a transaction enters the pool only if it is bounded, at the next block's timestamp, in the
   registry [u2] obtained from the node's by the last block's and then the pooled transactions *)
Theorem C01_pooled :
  forall (value_fn : N -> bool -> Z -> N) (addr_of : string -> string) (sig_ok : input -> bool)
         (St : settings) (n : node) (t : tx) (n' : node),
    pool_add value_fn addr_of sig_ok St n t = Ok n' ->
    let last := last_block_ts (chain (n_c n)) in
    let next := (last + s_interval St)%Z in
    exists u1 u2 : ureg,
      update_utxos (ur (n_c n)) (last_block_txs (chain (n_c n))) last = Ok u1 /\
      update_utxos u1 (elems (n_pool n)) next = Ok u2 /\
      tx_bound value_fn addr_of St u2 t next /\ tx_authorized addr_of sig_ok u2 t.
Proof. exact pool_add_bounds. Qed.

(* ---- 3. production ---- *)

(* the produced block is the kept transactions followed by one reward; the kept transactions
   satisfy [kept_ok] from the registry [u0] of the last block on; the reward is at most the
   genesis amount (first block only) plus the exact sum of the fees, each a leftover *)
Theorem C01_produced :
  forall (value_fn : N -> bool -> Z -> N) (addr_of : string -> string) (sig_ok : input -> bool)
         (Hf : block -> hash) (gen_id : slice input -> slice output -> Z -> string)
         (St : settings) (validator : string) (n : node) (ts : Z) (perm : list nat)
         (n' : node) (d : list (string * drop)),
    validate value_fn addr_of sig_ok Hf gen_id St validator n ts perm = (n', Produced d) ->
    let last := last_block_ts (chain (n_c n)) in
    let next := (last + s_interval St)%Z in
    exists (kept : list tx) (fees : list N) (u0 : ureg) (rt : tx) (b : block),
      update_utxos (ur (n_c n)) (last_block_txs (chain (n_c n))) last = Ok u0 /\
      chain (n_c n') = chain (n_c n) ++ [b] /\
      b_ts b = ts /\
      txs b = kept ++ [rt] /\
      is_reward rt = true /\
      kept_ok value_fn addr_of sig_ok St ts next u0 kept fees /\
      reward_value rt <= (if (last =? 0)%Z then s_genesis St else 0) + sumN fees.
Proof. exact produce_bounds. Qed.

(* the same, transaction by transaction: the one after the prefix [pre] of the kept list is
   bounded at the block's timestamp in the registry [u0] updated by [pre], one at a time *)
Theorem C01_produced_each :
  forall (value_fn : N -> bool -> Z -> N) (addr_of : string -> string) (sig_ok : input -> bool)
         (Hf : block -> hash) (gen_id : slice input -> slice output -> Z -> string)
         (St : settings) (validator : string) (n : node) (ts : Z) (perm : list nat)
         (n' : node) (d : list (string * drop)),
    validate value_fn addr_of sig_ok Hf gen_id St validator n ts perm = (n', Produced d) ->
    let last := last_block_ts (chain (n_c n)) in
    let next := (last + s_interval St)%Z in
    exists (kept : list tx) (fees : list N) (u0 : ureg) (rt : tx) (b : block),
      update_utxos (ur (n_c n)) (last_block_txs (chain (n_c n))) last = Ok u0 /\
      chain (n_c n') = chain (n_c n) ++ [b] /\
      b_ts b = ts /\
      txs b = kept ++ [rt] /\
      is_reward rt = true /\
      length fees = length kept /\
      (forall (pre : list tx) (t : tx) (post : list tx),
         kept = pre ++ t :: post ->
         exists (u1 : ureg) (f : N),
           run_kept next u0 pre = Ok u1 /\ nth_error fees (length pre) = Some f /\
           tx_bound value_fn addr_of St u1 t ts /\ tx_authorized addr_of sig_ok u1 t /\
           leftover value_fn addr_of u1 t ts f /\ s_fee St <= f) /\
      reward_value rt <= (if (last =? 0)%Z then s_genesis St else 0) + sumN fees.
Proof. exact produce_each. Qed.

(* the loop of Validate keeps exactly the greedy selection, and that selection is [kept_ok] *)
Theorem C01_greedy_kept_ok :
  forall (value_fn : N -> bool -> Z -> N) (addr_of : string -> string) (sig_ok : input -> bool)
         (St : settings) (last next ts : Z) (l : list tx) (u : ureg),
    kept_ok value_fn addr_of sig_ok St ts next u
            (greedy value_fn addr_of sig_ok St last next ts l u)
            (greedy_fees value_fn addr_of sig_ok St last next ts l u).
Proof. exact greedy_kept_ok. Qed.

(* ---- 4. the pinned tree ---- *)

(* with the wrapping output sum of the pinned tree, CalculateFee accepted outputs worth
   2^63 + 2^63 + 5 paid from one input worth 2^40: the bound fails for the fee it returned *)
Theorem C01_wrap_refuted :
  exists (reg : ureg) (t : tx) (f : N) (us : list utxo),
    calc_fee_wrapping wr_value_fn wr_addr_of 1 reg t 0%Z = Ok f /\
    spends wr_addr_of reg t us /\
    sumN (map (fun u => utxo_value wr_value_fn u 0%Z) us) = 1099511627776 /\
    sumN (map o_val (outs t)) = 18446744073709551621 /\
    sumN (map (fun u => utxo_value wr_value_fn u 0%Z) us) < sumN (map o_val (outs t)) /\
    ~ leftover wr_value_fn wr_addr_of reg t 0%Z f.
Proof. exact wrap_refuted. Qed.

(* ---- examples: the hypotheses are satisfiable, the bound is not vacuous ---- *)
Import AcceptExample.

(* the registry the examples use is what the genesis block yields *)
Example C01_ex_registry : update_utxos ureg_empty (txs g) (b_ts g) = Ok reg.
Proof. vm_compute. reflexivity. Qed.

(* two inputs worth 100 + 50, two outputs worth 120 + 20, minimal fee 1: the fee is 10 *)
Example C01_ex_fee : calc_fee vf ao (s_fee Sx) reg t0 30%Z = Ok 10.
Proof. vm_compute. reflexivity. Qed.

Example C01_ex_bound : tx_bound vf ao Sx reg t0 30%Z.
Proof. exact ex_bound. Qed.

(* ... and not with one unit more paid out than 150 - 1 *)
Example C01_ex_bound_tight : ~ tx_bound vf ao Sx reg t_over 30%Z.
Proof. exact ex_bound_tight. Qed.

Example C01_ex_pooled : pool_add vf ao so Sx n0 t0 = Ok n1.
Proof. vm_compute. reflexivity. Qed.

Example C01_ex_produced : validate vf ao so_strict Hx gid Sx "V"%string n1 30%Z [0%nat] = (n2, Produced []).
Proof. vm_compute. reflexivity. Qed.

Example C01_ex_block : txs b2 = [t0; mkTx "r30"%string None (Some [mkOutput "V"%string false 10]) 30%Z].
Proof. vm_compute. reflexivity. Qed.

Example C01_ex_adopted_block : verify_block vf ao so Sx c0 b2 20%Z 100%Z = Ok tt.
Proof. vm_compute. reflexivity. Qed.

(* a full synchronization against the produced chain, and an incremental one *)
Example C01_ex_adopted_full :
  verify vf ao so Hx Sx cstate_empty [] [g; e1; b2] [] 100%Z = Ok [g; e1; b2].
Proof. vm_compute. reflexivity. Qed.

Example C01_ex_adopted_inc :
  verify vf ao so Hx Sx c0 [e1] [e1; b2] [g] 100%Z = Ok [e1; b2].
Proof. vm_compute. reflexivity. Qed.

Example C01_ex_new : is_new_at Hx [e1] 1 b2.
Proof. exact ex_new. Qed.

(* the witness of C01_wrap_refuted is refused by the overflow-checked CalculateFee *)
Example C01_ex_wrap_fixed : calc_fee wr_value_fn wr_addr_of 1 wr_reg wr_tx 0%Z = Err EOverflow.
Proof. vm_compute. reflexivity. Qed.

Print Assumptions C01_tx_bound_means.
Print Assumptions C01_adopted_block.
Print Assumptions C01_adopted_chain_checked.
Print Assumptions C01_adopted_chain.
Print Assumptions C01_block_bounds_means.
Print Assumptions C01_adopted_update.
Print Assumptions C01_pooled.
Print Assumptions C01_produced.
Print Assumptions C01_produced_each.
Print Assumptions C01_greedy_kept_ok.
Print Assumptions C01_wrap_refuted.
