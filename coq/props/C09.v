(* C09 — decay, income, no gain from churning: Utxo.Value over the real numbers, with the
   code's floor placements.  This file contains only the property theorems, each closed by
   [exact] of a lemma of proofs/DecayR_lemmas.v, plus one numeric Example.
   Vocabulary (model/DecayR.v):  F y x h / G y x h B L are f / g of utxo.go before
   truncation, Fz / Gz the same with the code's uint64() / math.Floor; y = initial value,
   x = elapsed ns, h = half-life in ns, B = income base, L = income limit;
   params_ok h B L := 0 < h /\ 0 < B /\ B < L /\ 0 < k1 B L.
   Binary64 rounding is NOT covered here (see DESIGN.md, C09 "Floating point"). *)
From RV Require Import model.DecayR proofs.DecayR_lemmas.
From Coq Require Import Reals ZArith Lra Lia.
From Interval Require Import Tactic.
Local Open Scope R_scope.

(* ---------------- the settings ---------------- *)

(* all integer settings with 1 <= base < limit satisfy the side conditions *)
Theorem C09_params_ok_int : forall h (B L : Z), 0 < h -> (1 <= B < L)%Z -> params_ok h (IZR B) (IZR L).
Proof. exact params_ok_int. Qed.

(* the exponent k1 is positive exactly when (2B)^2 < L^3 ... *)
Theorem C09_k1_pos_iff : forall B L, 0 < B -> B < L -> 1 < L -> (0 < k1 B L <-> 4 * B * B < L * L * L).
Proof. exact k1_pos_iff. Qed.

Theorem C09_k1_pos_int : forall B L : Z, (1 <= B < L)%Z -> 0 < k1 (IZR B) (IZR L).
Proof. exact k1_pos_int. Qed.

Theorem C09_k1_pos_L4 : forall B L, 0 < B -> B < L -> 4 <= L -> 0 < k1 B L.
Proof. exact k1_pos_L4. Qed.

(* ... which "1 <= B < L, 2 <= L" does NOT imply for non-integer settings: *)
Theorem C09_k1_pos_real_refuted : exists B L, 1 <= B /\ B < L /\ 2 <= L /\ k1 B L <= 0.
Proof. exact k1_pos_real_refuted. Qed.

Theorem C09_k1_lt_3 : forall B L, / 2 < B -> B < L -> 1 < L -> k1 B L < 3.
Proof. exact k1_lt_3. Qed.

Theorem C09_k2_pos : forall B L, 0 < B -> B < L -> 0 < k2 B L.
Proof. exact k2_pos. Qed.

(* ---------------- non-yielding outputs ---------------- *)

Theorem C09_F_nonneg : forall y x h, 0 <= y -> 0 <= F y x h.
Proof. exact F_nonneg. Qed.

Theorem C09_F_le : forall y x h, 0 <= y -> 0 <= x -> 0 < h -> F y x h <= y.
Proof. exact F_le. Qed.

Theorem C09_F_anti : forall y x x' h, 0 <= y -> 0 < h -> x <= x' -> F y x' h <= F y x h.
Proof. exact F_anti. Qed.

Theorem C09_F_half : forall y h, 0 < h -> F y h h = y / 2.
Proof. exact F_half. Qed.

Theorem C09_F_half_step : forall y x h, 0 < h -> F y (x + h) h = F y x h / 2.
Proof. exact F_half_step. Qed.

Theorem C09_F_semigroup : forall y x1 x2 h, 0 < h -> F (F y x1 h) x2 h = F y (x1 + x2) h.
Proof. exact F_semigroup. Qed.

Theorem C09_F_zero : forall y h, F y 0 h = y.
Proof. exact F_zero. Qed.

(* with the truncation *)
Theorem C09_Fz_le : forall y x h, 0 <= y -> 0 <= x -> 0 < h -> Fz y x h <= F y x h /\ F y x h <= y.
Proof. exact Fz_le. Qed.

Theorem C09_Fz_within_one : forall y x h, F y x h - 1 < Fz y x h /\ Fz y x h <= F y x h.
Proof. exact Fz_within_one. Qed.

Theorem C09_Fz_nonneg : forall y x h, 0 <= y -> 0 <= Fz y x h.
Proof. exact Fz_nonneg. Qed.

Theorem C09_Fz_anti : forall y x x' h, 0 <= y -> 0 < h -> x <= x' -> Fz y x' h <= Fz y x h.
Proof. exact Fz_anti. Qed.

Theorem C09_Fz_half : forall y h, 0 < h -> Fz y h h = Rfloor (y / 2).
Proof. exact Fz_half. Qed.

Theorem C09_Fz_no_gain : forall y x1 x2 h, 0 < h -> Fz (Fz y x1 h) x2 h <= Fz y (x1 + x2) h + 1.
Proof. exact Fz_no_gain. Qed.

(* over the reals the "+ 1" is not even needed *)
Theorem C09_Fz_no_gain_strong : forall y x1 x2 h, 0 < h -> Fz (Fz y x1 h) x2 h <= Fz y (x1 + x2) h.
Proof. exact Fz_no_gain_strong. Qed.

(* ---------------- yielding outputs ---------------- *)

Theorem C09_G_x0 : forall y h B L, params_ok h B L -> 0 <= y -> G y 0 h B L = y.
Proof. exact G_x0. Qed.

Theorem C09_G_bounds : forall y x h B L,
  params_ok h B L -> 0 <= y -> 0 <= x ->
  (y <= L -> y <= G y x h B L /\ G y x h B L <= L) /\
  (L <= y -> L <= G y x h B L /\ G y x h B L <= y).
Proof. exact G_bounds. Qed.

Theorem C09_G_branch_stable : forall y x h B L,
  params_ok h B L -> 0 <= y -> 0 <= x ->
  (y < L -> G y x h B L < L) /\ (L < y -> L < G y x h B L).
Proof. exact G_branch_stable. Qed.

Theorem C09_G_mono_x : forall y x x' h B L,
  params_ok h B L -> 0 <= y -> 0 <= x -> x <= x' ->
  (y <= L -> G y x h B L <= G y x' h B L) /\ (L <= y -> G y x' h B L <= G y x h B L).
Proof. exact G_mono_x. Qed.

Theorem C09_G_mono_y : forall y1 y2 x h B L,
  params_ok h B L -> 0 <= y1 -> y1 <= y2 -> 0 <= x -> G y1 x h B L <= G y2 x h B L.
Proof. exact G_mono_y. Qed.

Theorem C09_G_zero_half : forall h B L, params_ok h B L -> G 0 h h B L = B.
Proof. exact G_zero_half. Qed.

Theorem C09_G_semigroup : forall y x1 x2 h B L,
  params_ok h B L -> 0 <= y -> 0 <= x1 -> 0 <= x2 ->
  G (G y x1 h B L) x2 h B L = G y (x1 + x2) h B L.
Proof. exact G_semigroup. Qed.

(* with the code's floors *)
Theorem C09_Gz_is_floor_of_G : forall y x h B L, Gz y x h B L = Rfloor (G y x h B L - L) + L.
Proof. exact Gz_eq. Qed.

Theorem C09_Gz_within_one : forall y x h B L,
  G y x h B L - 1 < Gz y x h B L /\ Gz y x h B L <= G y x h B L.
Proof. exact Gz_within_one. Qed.

Theorem C09_Gz_integer : forall y x h B (L : Z), exists z : Z, Gz y x h B (IZR L) = IZR z.
Proof. exact Gz_integer. Qed.

Theorem C09_Gz_bounds : forall y x h B L,
  params_ok h B L -> 0 <= y -> 0 <= x ->
  (y <= L -> y - 1 < Gz y x h B L /\ Gz y x h B L <= L) /\
  (L <= y -> L <= Gz y x h B L /\ Gz y x h B L <= y).
Proof. exact Gz_bounds. Qed.

Theorem C09_Gz_bounds_int : forall (y L : Z) x h B,
  params_ok h B (IZR L) -> (0 <= y)%Z -> 0 <= x ->
  ((y <= L)%Z -> IZR y <= Gz (IZR y) x h B (IZR L) /\ Gz (IZR y) x h B (IZR L) <= IZR L) /\
  ((L <= y)%Z -> IZR L <= Gz (IZR y) x h B (IZR L) /\ Gz (IZR y) x h B (IZR L) <= IZR y).
Proof. exact Gz_bounds_int. Qed.

Theorem C09_Gz_mono_x : forall y x x' h B L,
  params_ok h B L -> 0 <= y -> 0 <= x -> x <= x' ->
  (y <= L -> Gz y x h B L <= Gz y x' h B L) /\ (L <= y -> Gz y x' h B L <= Gz y x h B L).
Proof. exact Gz_mono_x. Qed.

Theorem C09_Gz_mono_y : forall y1 y2 x h B L,
  params_ok h B L -> 0 <= y1 -> y1 <= y2 -> 0 <= x -> Gz y1 x h B L <= Gz y2 x h B L.
Proof. exact Gz_mono_y. Qed.

Theorem C09_Gz_zero_half : forall h (B L : Z),
  params_ok h (IZR B) (IZR L) -> Gz 0 h h (IZR B) (IZR L) = IZR B.
Proof. exact Gz_zero_half_int. Qed.

Theorem C09_Gz_no_gain : forall y x1 x2 h B (L : Z),
  params_ok h B (IZR L) -> 0 <= y -> 0 <= x1 -> 0 <= x2 ->
  Gz (Gz y x1 h B (IZR L)) x2 h B (IZR L) <= Gz y (x1 + x2) h B (IZR L) + 1.
Proof. exact Gz_no_gain. Qed.

(* over the reals the "+ 1" is not needed; for a non-integer limit the only extra side
   condition is that the intermediate value is not negative *)
Theorem C09_Gz_no_gain_strong : forall y x1 x2 h B L,
  params_ok h B L -> 0 <= y -> 0 <= x1 -> 0 <= x2 -> 0 <= Gz y x1 h B L ->
  Gz (Gz y x1 h B L) x2 h B L <= Gz y (x1 + x2) h B L.
Proof. exact Gz_no_gain_strong. Qed.

Theorem C09_Gz_no_gain_strong_int : forall y x1 x2 h B (L : Z),
  params_ok h B (IZR L) -> 0 <= y -> 0 <= x1 -> 0 <= x2 ->
  Gz (Gz y x1 h B (IZR L)) x2 h B (IZR L) <= Gz y (x1 + x2) h B (IZR L).
Proof. exact Gz_no_gain_strong_int. Qed.

(* ---------------- the value depends only on elapsed time ---------------- *)

Theorem C09_value_shift : forall yielding y t0 t d h B L,
  value_at yielding y (t0 + d) (t + d) h B L = value_at yielding y t0 t h B L.
Proof. exact value_at_shift. Qed.

Theorem C09_value_elapsed_only : forall yielding (y L : Z) t0 t h B,
  params_ok h B (IZR L) -> (0 <= y)%Z ->
  value_at yielding (IZR y) t0 t h B (IZR L) =
  if yielding then Gz (IZR y) (IZR (t - t0)) h B (IZR L) else Fz (IZR y) (IZR (t - t0)) h.
Proof. exact value_at_elapsed. Qed.

(* ---------------- the hypotheses are satisfiable: validatornode/settings.json ---------------- *)
(* halfLifeInDays 373.59, incomeBase 100000000000, incomeLimit 5000000000000 *)

Example C09_real_settings_ok :
  params_ok (37359 / 100 * 24 * 3600000000000) 100000000000 5000000000000.
Proof. apply (params_ok_int _ 100000000000 5000000000000); [lra | lia]. Qed.

Example C09_real_settings_k1 :
  122 / 100 < k1 100000000000 5000000000000 < 123 / 100.
Proof. rewrite k1_eq by lra. split; interval. Qed.

Print Assumptions C09_params_ok_int.
Print Assumptions C09_k1_pos_iff.
Print Assumptions C09_k1_pos_int.
Print Assumptions C09_k1_pos_L4.
Print Assumptions C09_k1_pos_real_refuted.
Print Assumptions C09_k1_lt_3.
Print Assumptions C09_k2_pos.
Print Assumptions C09_F_nonneg.
Print Assumptions C09_F_le.
Print Assumptions C09_F_anti.
Print Assumptions C09_F_half.
Print Assumptions C09_F_half_step.
Print Assumptions C09_F_semigroup.
Print Assumptions C09_F_zero.
Print Assumptions C09_Fz_le.
Print Assumptions C09_Fz_within_one.
Print Assumptions C09_Fz_nonneg.
Print Assumptions C09_Fz_anti.
Print Assumptions C09_Fz_half.
Print Assumptions C09_Fz_no_gain.
Print Assumptions C09_Fz_no_gain_strong.
Print Assumptions C09_G_x0.
Print Assumptions C09_G_bounds.
Print Assumptions C09_G_branch_stable.
Print Assumptions C09_G_mono_x.
Print Assumptions C09_G_mono_y.
Print Assumptions C09_G_zero_half.
Print Assumptions C09_G_semigroup.
Print Assumptions C09_Gz_is_floor_of_G.
Print Assumptions C09_Gz_within_one.
Print Assumptions C09_Gz_integer.
Print Assumptions C09_Gz_bounds.
Print Assumptions C09_Gz_bounds_int.
Print Assumptions C09_Gz_mono_x.
Print Assumptions C09_Gz_mono_y.
Print Assumptions C09_Gz_zero_half.
Print Assumptions C09_Gz_no_gain.
Print Assumptions C09_Gz_no_gain_strong.
Print Assumptions C09_Gz_no_gain_strong_int.
Print Assumptions C09_value_shift.
Print Assumptions C09_value_elapsed_only.
Print Assumptions C09_real_settings_ok.
Print Assumptions C09_real_settings_k1.
