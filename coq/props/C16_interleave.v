(* C16, the operations cut at their collaborator calls (model/Interleave.v): Validate reads the tip
   timestamp, the tip transactions and the registry in three separately locked calls before it
   takes the pool lock (V1..V4), addTransaction does the same under the pool lock (A1..A4), Update
   snapshots the chain, copies the registries and commits under the chain lock (U1..U3).
     - with fresh values each phase body is the atomic function of model/Pool.v, model/Sync.v
       (C16_view_fresh_validate, C16_view_fresh_add, C16_view_fresh_update), and the phases of one
       operation run without interruption are that function, with its result
       (C16_seq_atomic_validate, C16_seq_atomic_add, C16_seq_atomic_update);
     - a schedule in which no sync round changes the chain state while a tick or a submission is
       in flight ([quiet_step]) and whose completing steps satisfy the side conditions of
       Reach.op_ok ([iop_ok]: for V4 with the tick kept in the register since V1) ends in the
       node of a sequential history of atomic operations (C16_interleave_sequential), a reachable
       node (C16_interleave_reach), so that what is proved of reachable nodes holds of it, e.g. its
       chain is hash-linked (C16_interleave_chain_linked);
     - the condition can be weakened to exclude exactly the harmful overlaps ([quiet_step'],
       [sched_ok']): a sync round may change the chain state while a tick is in flight if the tip it
       installs is not dated before the tick, for V4 is then refused whatever V1..V3 have read
       (C16_stale_tick_refused), and while a submission is in flight if the submission has made
       its three reads, for A4 then does what the atomic submission does before the round: the
       history puts it there (C16_interleave_sequential_refined, C16_interleave_reach_refined;
       C16_sched_ok_refines);
     - both conditions are closed under prefixes, so the node is reachable, and its chain
       hash-linked, at every moment of the run (C16_interleave_always_reach,
       C16_interleave_always_reach_refined);
     - outside [sched_ok'] (D17: a tick in flight, a tip installed that is dated before it) a
       schedule ends in a chain with a transaction spending an output that no transaction of the
       chain creates, which neither sequential order of the same two operations does
       (C16_interleave_stale_view_refuted).
   Only theorems closed by [exact] of lemmas of proofs/Interleave_lemmas.v, and examples. *)
From RV Require Import model.Base model.Ledger model.Registry model.Chain model.Sync model.Pool
     model.Reach model.Interleave proofs.Interleave_lemmas.

(* ---- A. fresh views ---- *)

Theorem C16_view_fresh_validate :
  forall (value_fn : N -> bool -> Z -> N) (addr_of : string -> string) (sig_ok : input -> bool)
         (H : block -> hash) (gen_id : slice input -> slice output -> Z -> string)
         (S : settings) (validator : string) (n : node) (ts : Z) (perm : list nat),
    (validate_early S (last_block_ts (chain (n_c n))) ts = None ->
     validate_view value_fn addr_of sig_ok H gen_id S validator
                   (last_block_ts (chain (n_c n))) (last_block_txs (chain (n_c n))) (ur (n_c n))
                   n ts perm
     = validate value_fn addr_of sig_ok H gen_id S validator n ts perm) /\
    (forall e, validate_early S (last_block_ts (chain (n_c n))) ts = Some e ->
               validate value_fn addr_of sig_ok H gen_id S validator n ts perm = (n, Refused e)).
Proof. exact view_fresh_validate. Qed.

Theorem C16_view_fresh_add :
  forall (value_fn : N -> bool -> Z -> N) (addr_of : string -> string) (sig_ok : input -> bool)
         (S : settings) (n : node) (t : tx),
    pool_add_view value_fn addr_of sig_ok S
                  (last_block_ts (chain (n_c n))) (ur (n_c n)) (last_block_txs (chain (n_c n))) n t
    = pool_add value_fn addr_of sig_ok S n t /\
    (forall e, pool_add_early sig_ok S (last_block_ts (chain (n_c n))) n t = Some e ->
               pool_add value_fn addr_of sig_ok S n t = Err e).
Proof. exact view_fresh_add. Qed.

Theorem C16_view_fresh_update :
  forall (value_fn : N -> bool -> Z -> N) (addr_of : string -> string) (sig_ok : input -> bool)
         (H : block -> hash) (S : settings)
         (st : cstate) (now : Z) (nbs : list neighbor) (pref : string),
    update value_fn addr_of sig_ok H S st now nbs pref
    = match update_decide value_fn addr_of sig_ok H S st now nbs pref with
      | None => (st, false)
      | Some d => update_commit (length (chain st)) st d
      end.
Proof. exact update_fresh. Qed.

(* the phases of one operation, run without interruption, with what each step reports *)
Theorem C16_seq_atomic_validate :
  forall (value_fn : N -> bool -> Z -> N) (addr_of : string -> string) (sig_ok : input -> bool)
         (H : block -> hash) (gen_id : slice input -> slice output -> Z -> string)
         (S : settings) (validator : string) (s : istate) (ts : Z) (perm : list nat),
    i_v s = VR0 -> i_a s = AR0 ->
    irun_outs value_fn addr_of sig_ok H gen_id S validator s [IV1 ts; IV2; IV3; IV4 perm]
    = let r := validate value_fn addr_of sig_ok H gen_id S validator (i_n s) ts perm in
      (mkI (fst r) VR0 AR0 (i_u s),
       match validate_early S (last_block_ts (chain (n_c (i_n s)))) ts with
       | Some _ => [OVal (snd r); ONone; ONone; ONone]
       | None => [ONone; ONone; ONone; OVal (snd r)]
       end).
Proof. exact iv_seq_atomic. Qed.

Theorem C16_seq_atomic_add :
  forall (value_fn : N -> bool -> Z -> N) (addr_of : string -> string) (sig_ok : input -> bool)
         (H : block -> hash) (gen_id : slice input -> slice output -> Z -> string)
         (S : settings) (validator : string) (s : istate) (t : tx),
    i_a s = AR0 ->
    irun_outs value_fn addr_of sig_ok H gen_id S validator s [IA1 t; IA2; IA3; IA4]
    = (mkI (step value_fn addr_of sig_ok H gen_id S validator (i_n s) (OpAdd t)) (i_v s) AR0 (i_u s),
       let r := OAdd (match pool_add value_fn addr_of sig_ok S (i_n s) t with
                      | Ok _ => None
                      | Err e => Some e
                      end) in
       match pool_add_early sig_ok S (last_block_ts (chain (n_c (i_n s)))) (i_n s) t with
       | Some _ => [r; ONone; ONone; ONone]
       | None => [ONone; ONone; ONone; r]
       end).
Proof. exact ia_seq_atomic. Qed.

Theorem C16_seq_atomic_update :
  forall (value_fn : N -> bool -> Z -> N) (addr_of : string -> string) (sig_ok : input -> bool)
         (H : block -> hash) (gen_id : slice input -> slice output -> Z -> string)
         (S : settings) (validator : string) (s : istate)
         (now : Z) (nbs : list neighbor) (pref : string),
    i_u s = UR0 ->
    irun_outs value_fn addr_of sig_ok H gen_id S validator s [IU1; IU2; IU3 now nbs pref]
    = (mkI (step value_fn addr_of sig_ok H gen_id S validator (i_n s) (OpUpdate now nbs pref))
           (i_v s) (i_a s) UR0,
       [ONone; ONone; OUpd (snd (update value_fn addr_of sig_ok H S (n_c (i_n s)) now nbs pref))]).
Proof. exact iu_seq_atomic. Qed.

(* ---- B. linearisation ---- *)

Theorem C16_interleave_sequential :
  forall (value_fn : N -> bool -> Z -> N) (addr_of : string -> string) (sig_ok : input -> bool)
         (H : block -> hash) (gen_id : slice input -> slice output -> Z -> string)
         (S : settings) (validator : string) (n0 : node) (l : list iop),
    sched_ok value_fn addr_of sig_ok H gen_id S validator (istate_of n0) l ->
    exists ops : list op,
      ops_ok value_fn addr_of sig_ok H gen_id S validator n0 ops /\
      fold_left (step value_fn addr_of sig_ok H gen_id S validator) ops n0
      = i_n (irun value_fn addr_of sig_ok H gen_id S validator (istate_of n0) l).
Proof. exact interleave_sequential. Qed.

Theorem C16_interleave_reach :
  forall (value_fn : N -> bool -> Z -> N) (addr_of : string -> string) (sig_ok : input -> bool)
         (H : block -> hash) (gen_id : slice input -> slice output -> Z -> string)
         (S : settings) (validator : string) (n0 : node) (l : list iop),
    reach value_fn addr_of sig_ok H gen_id S validator n0 ->
    sched_ok value_fn addr_of sig_ok H gen_id S validator (istate_of n0) l ->
    reach value_fn addr_of sig_ok H gen_id S validator
          (i_n (irun value_fn addr_of sig_ok H gen_id S validator (istate_of n0) l)).
Proof. exact interleave_reach. Qed.

Theorem C16_interleave_chain_linked :
  forall (value_fn : N -> bool -> Z -> N) (addr_of : string -> string) (sig_ok : input -> bool)
         (H : block -> hash) (gen_id : slice input -> slice output -> Z -> string)
         (S : settings) (validator : string) (n0 : node) (l : list iop),
    reach value_fn addr_of sig_ok H gen_id S validator n0 ->
    sched_ok value_fn addr_of sig_ok H gen_id S validator (istate_of n0) l ->
    chain_linked H
      (chain (n_c (i_n (irun value_fn addr_of sig_ok H gen_id S validator (istate_of n0) l)))).
Proof. exact interleave_chain_linked. Qed.

(* ---- B'. the refined condition ---- *)

(* a tick not after the tip is refused whatever its view: by the registry copy not applying or by
   AddBlock; the node is left as it was *)
Theorem C16_stale_tick_refused :
  forall (value_fn : N -> bool -> Z -> N) (addr_of : string -> string) (sig_ok : input -> bool)
         (H : block -> hash) (gen_id : slice input -> slice output -> Z -> string)
         (S : settings) (validator : string)
         (n : node) (l : Z) (x : list tx) (u : ureg) (ts : Z) (perm : list nat),
    chain (n_c n) <> [] -> (ts <= last_block_ts (chain (n_c n)))%Z ->
    exists e,
      validate_view value_fn addr_of sig_ok H gen_id S validator l x u n ts perm = (n, Refused e) /\
      (e = ETime \/ update_utxos u x l = Err e).
Proof. exact validate_view_tip_not_before. Qed.

Theorem C16_sched_ok_refines :
  forall (value_fn : N -> bool -> Z -> N) (addr_of : string -> string) (sig_ok : input -> bool)
         (H : block -> hash) (gen_id : slice input -> slice output -> Z -> string)
         (S : settings) (validator : string) (l : list iop) (s : istate),
    sched_ok value_fn addr_of sig_ok H gen_id S validator s l ->
    sched_ok' value_fn addr_of sig_ok H gen_id S validator s l.
Proof. exact sched_ok_refines. Qed.

Theorem C16_interleave_sequential_refined :
  forall (value_fn : N -> bool -> Z -> N) (addr_of : string -> string) (sig_ok : input -> bool)
         (H : block -> hash) (gen_id : slice input -> slice output -> Z -> string)
         (S : settings) (validator : string) (n0 : node) (l : list iop),
    sched_ok' value_fn addr_of sig_ok H gen_id S validator (istate_of n0) l ->
    exists ops : list op,
      ops_ok value_fn addr_of sig_ok H gen_id S validator n0 ops /\
      fold_left (step value_fn addr_of sig_ok H gen_id S validator) ops n0
      = i_n (irun value_fn addr_of sig_ok H gen_id S validator (istate_of n0) l).
Proof. exact interleave_sequential_refined. Qed.

Theorem C16_interleave_reach_refined :
  forall (value_fn : N -> bool -> Z -> N) (addr_of : string -> string) (sig_ok : input -> bool)
         (H : block -> hash) (gen_id : slice input -> slice output -> Z -> string)
         (S : settings) (validator : string) (n0 : node) (l : list iop),
    reach value_fn addr_of sig_ok H gen_id S validator n0 ->
    sched_ok' value_fn addr_of sig_ok H gen_id S validator (istate_of n0) l ->
    reach value_fn addr_of sig_ok H gen_id S validator
          (i_n (irun value_fn addr_of sig_ok H gen_id S validator (istate_of n0) l)).
Proof. exact interleave_reach_refined. Qed.

(* at every moment of the run *)
Theorem C16_interleave_always_reach :
  forall (value_fn : N -> bool -> Z -> N) (addr_of : string -> string) (sig_ok : input -> bool)
         (H : block -> hash) (gen_id : slice input -> slice output -> Z -> string)
         (S : settings) (validator : string) (n0 : node) (l1 l2 : list iop),
    reach value_fn addr_of sig_ok H gen_id S validator n0 ->
    sched_ok value_fn addr_of sig_ok H gen_id S validator (istate_of n0) (l1 ++ l2) ->
    reach value_fn addr_of sig_ok H gen_id S validator
          (i_n (irun value_fn addr_of sig_ok H gen_id S validator (istate_of n0) l1)) /\
    chain_linked H
      (chain (n_c (i_n (irun value_fn addr_of sig_ok H gen_id S validator (istate_of n0) l1)))).
Proof. exact interleave_always_reach. Qed.

Theorem C16_interleave_always_reach_refined :
  forall (value_fn : N -> bool -> Z -> N) (addr_of : string -> string) (sig_ok : input -> bool)
         (H : block -> hash) (gen_id : slice input -> slice output -> Z -> string)
         (S : settings) (validator : string) (n0 : node) (l1 l2 : list iop),
    reach value_fn addr_of sig_ok H gen_id S validator n0 ->
    sched_ok' value_fn addr_of sig_ok H gen_id S validator (istate_of n0) (l1 ++ l2) ->
    reach value_fn addr_of sig_ok H gen_id S validator
          (i_n (irun value_fn addr_of sig_ok H gen_id S validator (istate_of n0) l1)) /\
    chain_linked H
      (chain (n_c (i_n (irun value_fn addr_of sig_ok H gen_id S validator (istate_of n0) l1)))).
Proof. exact interleave_always_reach_refined. Qed.

(* ---- C. the condition is needed ---- *)

Theorem C16_interleave_stale_view_refuted :
  exists (value_fn : N -> bool -> Z -> N) (addr_of : string -> string) (sig_ok : input -> bool)
         (H : block -> hash) (gen_id : slice input -> slice output -> Z -> string)
         (S : settings) (validator : string) (n0 : node)
         (ts : Z) (perm : list nat) (now : Z) (nbs : list neighbor) (pref : string),
    let l := [IV1 ts; IV2; IV3; IU1; IU2; IU3 now nbs pref; IV4 perm] in
    let step := step value_fn addr_of sig_ok H gen_id S validator in
    (forall a b, H a = H b -> a = b) /\
    reach value_fn addr_of sig_ok H gen_id S validator n0 /\
    chain_inputs_known (chain (n_c n0)) = true /\
    sched_ops_ok value_fn addr_of sig_ok H gen_id S validator (istate_of n0) l /\
    ~ sched_ok value_fn addr_of sig_ok H gen_id S validator (istate_of n0) l /\
    ~ sched_ok' value_fn addr_of sig_ok H gen_id S validator (istate_of n0) l /\
    chain_inputs_known
      (chain (n_c (i_n (irun value_fn addr_of sig_ok H gen_id S validator (istate_of n0) l))))
    = false /\
    chain_inputs_known (chain (n_c (fold_left step [OpUpdate now nbs pref; OpValidate ts perm] n0)))
    = true /\
    chain_inputs_known (chain (n_c (fold_left step [OpValidate ts perm; OpUpdate now nbs pref] n0)))
    = true.
Proof. exact InterleaveExample.interleave_stale_view_refuted. Qed.

(* ---- examples ---- *)

(* the hypothesis of C16_interleave_reach holds of a schedule whose operations overlap: from a
   reachable node with one block, a submission (A1..A4) and a sync round without neighbors
   (U1..U3) spread between V1..V3 of the tick 30, then V4; the block produced holds the
   transaction submitted meanwhile *)
Example C16_overlap_sched_ok :
  let vf := (fun (x : N) (_ : bool) (_ : Z) => x) in
  let ao := (fun k : string => k) in
  let so := (fun _ : input => true) in
  let Ho := InterleaveExample.Ho in
  let go := InterleaveExample.go in
  let St := mkSettings 10 1 100 8 in
  let h1 := step vf ao so Ho go St "V"%string node_empty (OpValidate 20 []) in
  let t1 := mkTx "t1"%string (Some [mkInput 0%N "VK"%string "V"%string "sig"%string])
                 (Some [mkOutput "X"%string false 99%N]) 25 in
  let l := [IV1 30; IU1; IA1 t1; IV2; IA2; IU2; IV3; IA3; IA4; IU3 40 [] EmptyString; IV4 [0]] in
  reach vf ao so Ho go St "V"%string h1 /\
  sched_ok vf ao so Ho go St "V"%string (istate_of h1) l.
Proof. exact (conj InterleaveExample.h1_reach InterleaveExample.overlap_sched_ok). Qed.

Example C16_overlap_result :
  let vf := (fun (x : N) (_ : bool) (_ : Z) => x) in
  let ao := (fun k : string => k) in
  let so := (fun _ : input => true) in
  let Ho := InterleaveExample.Ho in
  let go := InterleaveExample.go in
  let St := mkSettings 10 1 100 8 in
  let h1 := step vf ao so Ho go St "V"%string node_empty (OpValidate 20 []) in
  let t1 := mkTx "t1"%string (Some [mkInput 0%N "VK"%string "V"%string "sig"%string])
                 (Some [mkOutput "X"%string false 99%N]) 25 in
  let l := [IV1 30; IU1; IA1 t1; IV2; IA2; IU2; IV3; IA3; IA4; IU3 40 [] EmptyString; IV4 [0]] in
  i_n (irun vf ao so Ho go St "V"%string (istate_of h1) l)
  = fold_left (step vf ao so Ho go St "V"%string)
              [OpAdd t1; OpUpdate 40 [] EmptyString; OpValidate 30 [0]] h1 /\
  map (fun b => (b_ts b, map t_id (txs b)))
      (chain (n_c (i_n (irun vf ao so Ho go St "V"%string (istate_of h1) l))))
  = [(20%Z, ["VK"%string]); (30%Z, ["t1"%string; "VU"%string])].
Proof. vm_compute. split; reflexivity. Qed.

(* the chain the stale view leaves behind: the block dated 30 holds "t1", whose input names
   "VK", the reward of a block that is not in the chain any more *)
Example C16_stale_final_chain :
  map (fun b => (b_ts b, map t_id (txs b)))
      (chain (n_c (i_n (irun InterleaveExample.vf InterleaveExample.ao InterleaveExample.so
                             InterleaveExample.Ho InterleaveExample.go InterleaveExample.St
                             "V"%string (istate_of InterleaveExample.n0)
                             InterleaveExample.stale_sched))))
  = [(10%Z, ["WA"%string]); (20%Z, ["WK"%string]); (30%Z, ["t1"%string; "VU"%string])]
  /\ map i_ref (ins InterleaveExample.t1) = ["VK"%string].
Proof. vm_compute. split; reflexivity. Qed.

(* a schedule that satisfies [sched_ok'] and not [sched_ok]: from the reachable node with one
   block and "t1" pooled, the tick 30 is in flight when a sync round installs the neighbor's chain
   whose tip is dated 30; V4 is refused: the run is the sync round alone, "t1" stays pooled *)
Example C16_refused_sched_refined_only :
  let vf := InterleaveExample.vf in
  let ao := InterleaveExample.ao in
  let so := InterleaveExample.so in
  let Ho := InterleaveExample.Ho in
  let go := InterleaveExample.go in
  let St := InterleaveExample.St in
  let n0 := InterleaveExample.n0 in
  let nb := InterleaveExample.nbW3 in
  let l := [IV1 30; IV2; IV3; IU1; IU2; IU3 40 [nb] EmptyString; IV4 [0]] in
  reach vf ao so Ho go St "V"%string n0 /\
  sched_ok' vf ao so Ho go St "V"%string (istate_of n0) l /\
  ~ sched_ok vf ao so Ho go St "V"%string (istate_of n0) l /\
  i_n (irun vf ao so Ho go St "V"%string (istate_of n0) l)
  = fold_left (step vf ao so Ho go St "V"%string) [OpUpdate 40 [nb] EmptyString] n0 /\
  map b_ts (chain (n_c (i_n (irun vf ao so Ho go St "V"%string (istate_of n0) l))))
  = [10%Z; 20%Z; 30%Z] /\
  pool_ids (i_n (irun vf ao so Ho go St "V"%string (istate_of n0) l)) = ["t1"%string].
Proof.
  exact (conj InterleaveExample.n0_reach
        (conj InterleaveExample.refused_sched_ok'
        (conj InterleaveExample.refused_sched_not_quiet InterleaveExample.refused_result))).
Qed.

(* a submission overtaken by a sync round after its three reads (the tick in flight is doomed by
   the same round): the history is the submission, then the round; in the other order the
   submission is refused *)
Example C16_overtaken_sched_refined :
  let vf := InterleaveExample.vf in
  let ao := InterleaveExample.ao in
  let so := InterleaveExample.so in
  let Ho := InterleaveExample.Ho in
  let go := InterleaveExample.go in
  let St := InterleaveExample.St in
  let h1 := InterleaveExample.h1 in
  let t1 := InterleaveExample.t1 in
  let nb := InterleaveExample.nbW3 in
  let l := [IV1 30; IA1 t1; IA2; IA3; IU1; IU2; IU3 40 [nb] EmptyString; IA4; IV2; IV3; IV4 [0]] in
  sched_ok' vf ao so Ho go St "V"%string (istate_of h1) l /\
  i_n (irun vf ao so Ho go St "V"%string (istate_of h1) l)
  = fold_left (step vf ao so Ho go St "V"%string) [OpAdd t1; OpUpdate 40 [nb] EmptyString] h1 /\
  pool_ids (i_n (irun vf ao so Ho go St "V"%string (istate_of h1) l)) = ["t1"%string] /\
  pool_ids (fold_left (step vf ao so Ho go St "V"%string) [OpUpdate 40 [nb] EmptyString; OpAdd t1] h1)
  = [].
Proof. exact (conj InterleaveExample.overtaken_sched_ok' InterleaveExample.overtaken_result). Qed.

Print Assumptions C16_view_fresh_validate.
Print Assumptions C16_view_fresh_add.
Print Assumptions C16_view_fresh_update.
Print Assumptions C16_seq_atomic_validate.
Print Assumptions C16_seq_atomic_add.
Print Assumptions C16_seq_atomic_update.
Print Assumptions C16_interleave_sequential.
Print Assumptions C16_interleave_reach.
Print Assumptions C16_interleave_chain_linked.
Print Assumptions C16_stale_tick_refused.
Print Assumptions C16_sched_ok_refines.
Print Assumptions C16_interleave_sequential_refined.
Print Assumptions C16_interleave_reach_refined.
Print Assumptions C16_interleave_always_reach.
Print Assumptions C16_interleave_always_reach_refined.
Print Assumptions C16_interleave_stale_view_refuted.
