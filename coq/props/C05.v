(* C05 — "whatever an honest node's pool contains, the block it produces on top of a chain is
   accepted by every honest node that holds that same chain under the same settings - whether
   the block reaches it as an extension of its tip, as a competitor to its own tip, or as part
   of a full re-sync from the first block."

   As stated the property is FALSE of the code (two known findings, both confirmed on the Go
   tree): the producer (transactions_pool.go:65-148) judges pooled transactions against the
   confirmed outputs plus the tip block plus the transactions already kept for the new block;
   the receiver (blockchain.go:284-365, 399-462) checks the new block against a state that lags
   behind. [C05_last_block_spend_refuted] and [C05_same_block_spend_refuted] are reachable
   histories in which an honest block is refused with "unknown id".

   What does hold: a block whose kept transactions spend only outputs the receiver's checking
   state holds too ([confirmed_only], proofs/Honest_lemmas.v) is accepted in all three
   situations; as a competitor even spends of the tip's outputs are accepted; and there is one
   more disagreement on the competitor path, on the registered addresses
   ([C05_just_removed_competitor_witness]).

   This file contains only the property theorems, each closed by [exact] of a lemma of
   proofs/Honest_lemmas.v, where [conf_run], [kept_of], [confirmed_only], [yield_known] are
   defined. *)
From RV Require Import model.Base model.Ledger model.Registry model.Chain model.Sync model.Pool model.Reach.
From RV Require Import proofs.Pool_lemmas proofs.Sync_lemmas proofs.Accept_lemmas proofs.Reach_lemmas
                       proofs.Honest_lemmas.
From Coq Require Import ZArith NArith.
Local Open Scope N_scope.

(* ---- the vocabulary, spelled out ---- *)

(* the kept transactions of a produced block are all but the last one (the reward);
   [confirmed_only reg u0 b]: applied one by one, at the block's timestamp, to the running copy
   that starts as [u0], each of them names only outputs that [reg] holds identically *)
Theorem C05_confirmed_only_means :
  forall (reg u0 : ureg) (b : block),
    confirmed_only reg u0 b <-> conf_run (b_ts b) reg u0 (removelast (txs b)).
Proof. exact confirmed_only_unfold. Qed.

Theorem C05_conf_run_means :
  forall (next : Z) (reg u : ureg) (t : tx) (r : list tx),
    conf_run next reg u (t :: r) <->
    (forall i, In i (ins t) -> exists x, find_utxo reg i = Ok x /\ find_utxo u i = Ok x) /\
    (forall u', update_utxos u [t] next = Ok u' -> conf_run next reg u' r).
Proof. exact conf_run_unfold. Qed.

Theorem C05_yield_known_means :
  forall (prod check : areg) (b : block),
    yield_known prod check b <->
    forall x, In x (yielding_addrs (removelast (txs b))) ->
              is_registered prod x = true -> is_registered check x = true.
Proof. exact yield_known_unfold. Qed.

(* ---- the two refutations ---- *)

(* a reachable producer [n], the block [b] it produces on the next aligned tick, a kept
   transaction of [b] that spends an output created by the tip block: a receiver in the
   producer's state before the tick refuses [tip; b] as an extension and the whole chain in a
   full re-sync, although its clock is not behind the block *)
Theorem C05_last_block_spend_refuted :
  exists (n : node) (ts : Z) (perm : list nat) (n' : node) (d : list (string * drop))
         (tip b : block) (t : tx) (i : input) (t' : tx),
    reach SyncExample.vf SyncExample.ao SyncExample.so ReachExample.Hinj ReachExample.gid
          SyncExample.Sx "V"%string n /\
    validate SyncExample.vf SyncExample.ao SyncExample.so ReachExample.Hinj ReachExample.gid
             SyncExample.Sx "V"%string n ts perm = (n', Produced d) /\
    last_block (chain (n_c n)) = Some tip /\
    last_block (chain (n_c n')) = Some b /\
    (b_ts b <= ts)%Z /\
    In t (kept_of b) /\ In i (ins t) /\ In t' (txs tip) /\ i_ref i = t_id t' /\
    verify SyncExample.vf SyncExample.ao SyncExample.so ReachExample.Hinj SyncExample.Sx
           (n_c n) [tip] [tip; b] (removelast (chain (n_c n))) ts = Err EUnknownId /\
    verify SyncExample.vf SyncExample.ao SyncExample.so ReachExample.Hinj SyncExample.Sx
           (n_c n) (removelast (chain (n_c n))) (chain (n_c n) ++ [b]) [] ts = Err EUnknownId.
Proof. exact HonestExample.last_block_spend_refuted. Qed.

(* the same with a kept transaction that spends an output of an earlier kept transaction of the
   same block; this one is refused by a receiver for which it competes with its own tip, too *)
Theorem C05_same_block_spend_refuted :
  exists (n : node) (ts : Z) (perm : list nat) (n' : node) (d : list (string * drop))
         (tip b : block) (t : tx) (i : input) (t' : tx),
    reach SyncExample.vf SyncExample.ao SyncExample.so ReachExample.Hinj ReachExample.gid
          SyncExample.Sx "V"%string n /\
    validate SyncExample.vf SyncExample.ao SyncExample.so ReachExample.Hinj ReachExample.gid
             SyncExample.Sx "V"%string n ts perm = (n', Produced d) /\
    last_block (chain (n_c n)) = Some tip /\
    last_block (chain (n_c n')) = Some b /\
    (b_ts b <= ts)%Z /\
    In t (kept_of b) /\ In i (ins t) /\ In t' (kept_of b) /\ i_ref i = t_id t' /\
    verify SyncExample.vf SyncExample.ao SyncExample.so ReachExample.Hinj SyncExample.Sx
           (n_c n) [tip] [tip; b] (removelast (chain (n_c n))) ts = Err EUnknownId /\
    verify SyncExample.vf SyncExample.ao SyncExample.so ReachExample.Hinj SyncExample.Sx
           (n_c n) (removelast (chain (n_c n))) (chain (n_c n) ++ [b]) [] ts = Err EUnknownId /\
    exists peer : node,
      reach SyncExample.vf SyncExample.ao SyncExample.so ReachExample.Hinj ReachExample.gid
            SyncExample.Sx "V"%string peer /\
      removelast (chain (n_c peer)) = chain (n_c n) /\
      verify SyncExample.vf SyncExample.ao SyncExample.so ReachExample.Hinj SyncExample.Sx
             (n_c peer) [HonestExample.tip_of_node peer] [b] (removelast (chain (n_c peer))) ts
      = Err EUnknownId.
Proof. exact HonestExample.same_block_spend_refuted. Qed.

(* ---- what holds ---- *)

(* CalculateFee reads the registry only through the outputs the inputs name *)
Theorem C05_calc_fee_ext :
  forall (value_fn : N -> bool -> Z -> N) (addr_of : string -> string)
         (fee : N) (r1 r2 : ureg) (t : tx) (ts : Z),
    (forall i, In i (ins t) -> find_utxo r1 i = find_utxo r2 i) ->
    calc_fee value_fn addr_of fee r1 t ts = calc_fee value_fn addr_of fee r2 t ts.
Proof. exact calc_fee_ext. Qed.

(* verifyBlock accepts the produced block against any state [sh] whose registry holds the spent
   outputs as the producer's running copies did and whose registered addresses cover what the
   producer took for registered. [ur (n_c n')] is the producer's registry after the tick: the
   confirmed outputs with the tip applied, where its production loop started *)
Theorem C05_extension_block_checked :
  forall (value_fn : N -> bool -> Z -> N) (addr_of : string -> string) (sig_ok : input -> bool)
         (Hf : block -> hash) (gen_id : slice input -> slice output -> Z -> string)
         (St : settings) (validator : string)
         (n : node) (ts : Z) (perm : list nat) (n' : node) (d : list (string * drop))
         (old : list block) (tip b : block) (sh : cstate) (now : Z),
    validate value_fn addr_of sig_ok Hf gen_id St validator n ts perm = (n', Produced d) ->
    chain (n_c n) = old ++ [tip] ->
    last_block (chain (n_c n')) = Some b ->
    b_ts tip <> 0%Z ->
    ts = (b_ts tip + s_interval St)%Z ->
    (ts <= now)%Z ->
    0 < s_fee St ->
    confirmed_only (ur sh) (ur (n_c n')) b ->
    yield_known (ar (n_c n)) (ar sh) b ->
    update_utxos (ur (n_c n)) (txs tip) (b_ts tip) = Ok (ur (n_c n')) /\
    chain (n_c n') = old ++ [tip; b] /\
    b_prev b = Hf tip /\ b_ts b = ts /\
    verify_block value_fn addr_of sig_ok St sh b (b_ts tip) now = Ok tt.
Proof. exact produced_block_checked. Qed.

(* 1. extension of the tip. The receiver is in the producer's state before the tick. The chain
   is linked at its tip and a one-block chain has empty registers (facts for reachable nodes);
   the tick is the aligned one; the producer can replay its own block on its own state (what
   its next tick does). *)
Theorem C05_extension_confirmed_only :
  forall (value_fn : N -> bool -> Z -> N) (addr_of : string -> string) (sig_ok : input -> bool)
         (Hf : block -> hash) (gen_id : slice input -> slice output -> Z -> string)
         (St : settings) (validator : string)
         (n : node) (ts : Z) (perm : list nat) (n' : node) (d : list (string * drop))
         (old : list block) (tip b : block) (now : Z) (u1 : ureg),
    validate value_fn addr_of sig_ok Hf gen_id St validator n ts perm = (n', Produced d) ->
    chain (n_c n) = old ++ [tip] ->
    last_block (chain (n_c n')) = Some b ->
    b_prev tip = match last_block old with None => zero_hash | Some p => Hf p end ->
    (old = [] -> ur (n_c n) = ureg_empty /\ registered (ar (n_c n)) = []) ->
    b_ts tip <> 0%Z -> ts = (b_ts tip + s_interval St)%Z -> (ts <= now)%Z -> 0 < s_fee St ->
    confirmed_only (ur (n_c n)) (ur (n_c n')) b ->
    update_utxos (ur (n_c n')) (txs b) (b_ts b) = Ok u1 ->
    verify value_fn addr_of sig_ok Hf St (n_c n) [tip] [tip; b] old now = Ok [tip; b].
Proof. exact extension_confirmed_only. Qed.

(* the same for a reachable producer whose chain has at least two blocks *)
Theorem C05_extension_reachable :
  forall (value_fn : N -> bool -> Z -> N) (addr_of : string -> string) (sig_ok : input -> bool)
         (Hf : block -> hash) (gen_id : slice input -> slice output -> Z -> string)
         (St : settings) (validator : string)
         (n : node) (ts : Z) (perm : list nat) (n' : node) (d : list (string * drop))
         (old : list block) (tip b : block) (now : Z) (u1 : ureg),
    reach value_fn addr_of sig_ok Hf gen_id St validator n ->
    validate value_fn addr_of sig_ok Hf gen_id St validator n ts perm = (n', Produced d) ->
    chain (n_c n) = old ++ [tip] -> old <> [] ->
    last_block (chain (n_c n')) = Some b ->
    b_ts tip <> 0%Z -> ts = (b_ts tip + s_interval St)%Z -> (ts <= now)%Z -> 0 < s_fee St ->
    confirmed_only (ur (n_c n)) (ur (n_c n')) b ->
    update_utxos (ur (n_c n')) (txs b) (b_ts b) = Ok u1 ->
    verify value_fn addr_of sig_ok Hf St (n_c n) [tip] [tip; b] (removelast (chain (n_c n))) now
    = Ok [tip; b].
Proof. exact extension_reachable. Qed.

(* 2. competitor of the receiver's own tip [b']. The receiver's registry already holds the tip
   (it is the producer's registry after the tick), so only spends of the block's own outputs
   are excluded: [confirmed_only] against [ur (n_c n')] itself *)
Theorem C05_competitor_any_last_block_spend :
  forall (value_fn : N -> bool -> Z -> N) (addr_of : string -> string) (sig_ok : input -> bool)
         (Hf : block -> hash) (gen_id : slice input -> slice output -> Z -> string)
         (St : settings) (validator : string)
         (n : node) (ts : Z) (perm : list nat) (n' : node) (d : list (string * drop))
         (old : list block) (tip b b' : block) (peer : cstate) (now : Z) (u1 : ureg),
    validate value_fn addr_of sig_ok Hf gen_id St validator n ts perm = (n', Produced d) ->
    chain (n_c n) = old ++ [tip] ->
    last_block (chain (n_c n')) = Some b ->
    chain peer = old ++ [tip; b'] -> ur peer = ur (n_c n') ->
    b_prev b' = Hf tip -> Hf b <> Hf b' ->
    b_ts tip <> 0%Z -> ts = (b_ts tip + s_interval St)%Z -> (ts <= now)%Z -> 0 < s_fee St ->
    confirmed_only (ur (n_c n')) (ur (n_c n')) b ->
    yield_known (ar (n_c n)) (ar peer) b ->
    update_utxos (ur (n_c n')) (txs b) (b_ts b) = Ok u1 ->
    verify value_fn addr_of sig_ok Hf St peer [b'] [b] (removelast (chain peer)) now = Ok [b].
Proof. exact competitor_last_block_spend. Qed.

(* ... with the receiver's registered addresses = the producer's with the tip applied: the
   block must not pay a yielding output to an address the tip removes and does not add *)
Theorem C05_competitor_tip_applied :
  forall (value_fn : N -> bool -> Z -> N) (addr_of : string -> string) (sig_ok : input -> bool)
         (Hf : block -> hash) (gen_id : slice input -> slice output -> Z -> string)
         (St : settings) (validator : string)
         (n : node) (ts : Z) (perm : list nat) (n' : node) (d : list (string * drop))
         (old : list block) (tip b b' : block) (peer : cstate) (now : Z) (u1 : ureg),
    validate value_fn addr_of sig_ok Hf gen_id St validator n ts perm = (n', Produced d) ->
    chain (n_c n) = old ++ [tip] ->
    last_block (chain (n_c n')) = Some b ->
    chain peer = old ++ [tip; b'] -> ur peer = ur (n_c n') ->
    ar peer = reg_update (ar (n_c n)) (elems (b_added tip)) (elems (b_removed tip)) ->
    b_prev b' = Hf tip -> Hf b <> Hf b' ->
    b_ts tip <> 0%Z -> ts = (b_ts tip + s_interval St)%Z -> (ts <= now)%Z -> 0 < s_fee St ->
    confirmed_only (ur (n_c n')) (ur (n_c n')) b ->
    (forall x, In x (yielding_addrs (kept_of b)) -> In x (elems (b_removed tip)) ->
               In x (elems (b_added tip))) ->
    update_utxos (ur (n_c n')) (txs b) (b_ts b) = Ok u1 ->
    verify value_fn addr_of sig_ok Hf St peer [b'] [b] (removelast (chain peer)) now = Ok [b].
Proof. exact competitor_tip_applied. Qed.

(* that last hypothesis is needed: a wallet-style block, accepted as an extension, refused as a
   competitor because it pays a yielding output to the address the tip has just removed *)
Theorem C05_just_removed_competitor_witness :
  exists (n : node) (ts : Z) (perm : list nat) (n' : node) (d : list (string * drop))
         (tip b : block) (peer : node) (b' : block) (x : string),
    reach SyncExample.vf SyncExample.ao SyncExample.so ReachExample.Hinj ReachExample.gid
          SyncExample.Sx "V"%string n /\
    reach SyncExample.vf SyncExample.ao SyncExample.so ReachExample.Hinj ReachExample.gid
          SyncExample.Sx "V"%string peer /\
    validate SyncExample.vf SyncExample.ao SyncExample.so ReachExample.Hinj ReachExample.gid
             SyncExample.Sx "V"%string n ts perm = (n', Produced d) /\
    last_block (chain (n_c n)) = Some tip /\
    last_block (chain (n_c n')) = Some b /\
    chain (n_c peer) = chain (n_c n) ++ [b'] /\
    ur (n_c peer) = ur (n_c n') /\ ar (n_c peer) = ar (n_c n') /\
    confirmed_only (ur (n_c n)) (ur (n_c n')) b /\
    In x (yielding_addrs (kept_of b)) /\ In x (elems (b_removed tip)) /\ ~ In x (elems (b_added tip)) /\
    verify SyncExample.vf SyncExample.ao SyncExample.so ReachExample.Hinj SyncExample.Sx
           (n_c n) [tip] [tip; b] (removelast (chain (n_c n))) ts = Ok [tip; b] /\
    verify SyncExample.vf SyncExample.ao SyncExample.so ReachExample.Hinj SyncExample.Sx
           (n_c peer) [b'] [b] (removelast (chain (n_c peer))) ts = Err EUnregistered.
Proof. exact HonestExample.just_removed_competitor_witness. Qed.

(* 3. full re-sync. The receiver's own chain has to pass the loop of the full re-sync itself
   (its tip is checked again there; a tip holding a last-block spend fails: the first
   refutation one block earlier); its state is the replay of its chain minus the tip (C07) *)
Theorem C05_full_resync_confirmed_only :
  forall (value_fn : N -> bool -> Z -> N) (addr_of : string -> string) (sig_ok : input -> bool)
         (Hf : block -> hash) (gen_id : slice input -> slice output -> Z -> string)
         (St : settings) (validator : string)
         (n : node) (ts : Z) (perm : list nat) (n' : node) (d : list (string * drop))
         (old : list block) (tip b : block) (now : Z) (sh1 : cstate) (a : areg) (u1 : ureg),
    validate value_fn addr_of sig_ok Hf gen_id St validator n ts perm = (n', Produced d) ->
    chain (n_c n) = old ++ [tip] ->
    last_block (chain (n_c n')) = Some b ->
    verify_loop value_fn addr_of sig_ok Hf St old now 0 (mkC [] ureg_empty areg_empty) None (old ++ [tip])
    = Ok sh1 ->
    replay old = Ok (ur (n_c n), a) -> registered a = registered (ar (n_c n)) ->
    b_ts tip <> 0%Z -> ts = (b_ts tip + s_interval St)%Z -> (ts <= now)%Z -> 0 < s_fee St ->
    confirmed_only (ur (n_c n)) (ur (n_c n')) b ->
    update_utxos (ur (n_c n')) (txs b) (b_ts b) = Ok u1 ->
    verify value_fn addr_of sig_ok Hf St (n_c n) (removelast (chain (n_c n))) (chain (n_c n) ++ [b]) [] now
    = Ok (chain (n_c n) ++ [b]).
Proof. exact full_resync_confirmed_only. Qed.

Theorem C05_full_resync_reachable :
  forall (value_fn : N -> bool -> Z -> N) (addr_of : string -> string) (sig_ok : input -> bool)
         (Hf : block -> hash) (gen_id : slice input -> slice output -> Z -> string)
         (St : settings) (validator : string)
         (n : node) (ts : Z) (perm : list nat) (n' : node) (d : list (string * drop))
         (old : list block) (tip b : block) (now : Z) (sh1 : cstate) (u1 : ureg),
    reach value_fn addr_of sig_ok Hf gen_id St validator n ->
    validate value_fn addr_of sig_ok Hf gen_id St validator n ts perm = (n', Produced d) ->
    chain (n_c n) = old ++ [tip] ->
    last_block (chain (n_c n')) = Some b ->
    verify_loop value_fn addr_of sig_ok Hf St old now 0 (mkC [] ureg_empty areg_empty) None (old ++ [tip])
    = Ok sh1 ->
    b_ts tip <> 0%Z -> ts = (b_ts tip + s_interval St)%Z -> (ts <= now)%Z -> 0 < s_fee St ->
    confirmed_only (ur (n_c n)) (ur (n_c n')) b ->
    update_utxos (ur (n_c n')) (txs b) (b_ts b) = Ok u1 ->
    verify value_fn addr_of sig_ok Hf St (n_c n) (removelast (chain (n_c n))) (chain (n_c n) ++ [b]) [] now
    = Ok (chain (n_c n) ++ [b]).
Proof. exact full_resync_reachable. Qed.

(* ---- the hypotheses are satisfiable (AcceptExample: chain [g; e1], pool [t0], block b2) ---- *)
Import AcceptExample.

Example C05_ex_produced :
  validate vf ao so_strict Hx gid Sx "V"%string n1 30%Z [0%nat] = (n2, Produced []).
Proof. vm_compute. reflexivity. Qed.

Example C05_ex_chain : chain (n_c n1) = [g] ++ [e1] /\ last_block (chain (n_c n2)) = Some b2.
Proof. vm_compute. split; reflexivity. Qed.

Example C05_ex_kept : kept_of b2 = [t0].
Proof. vm_compute. reflexivity. Qed.

Example C05_ex_confirmed_only : confirmed_only (ur (n_c n1)) (ur (n_c n2)) b2.
Proof. exact HonestExample.ex_confirmed_only. Qed.

Example C05_ex_tick : b_ts e1 <> 0%Z /\ 30%Z = (b_ts e1 + s_interval Sx)%Z /\ 0 < s_fee Sx.
Proof. vm_compute. repeat split; discriminate. Qed.

Example C05_ex_linked : b_prev e1 = Hx g.
Proof. vm_compute. reflexivity. Qed.

Example C05_ex_replay : exists u1, update_utxos (ur (n_c n2)) (txs b2) (b_ts b2) = Ok u1.
Proof. exact HonestExample.ex_replay. Qed.

Example C05_ex_extension_accepted :
  verify vf ao so_strict Hx Sx (n_c n1) [e1] [e1; b2] (removelast (chain (n_c n1))) 30%Z = Ok [e1; b2].
Proof. vm_compute. reflexivity. Qed.

Example C05_ex_full_resync_accepted :
  verify vf ao so_strict Hx Sx (n_c n1) (removelast (chain (n_c n1))) (chain (n_c n1) ++ [b2]) [] 30%Z
  = Ok (chain (n_c n1) ++ [b2]).
Proof. vm_compute. reflexivity. Qed.

Print Assumptions C05_confirmed_only_means.
Print Assumptions C05_conf_run_means.
Print Assumptions C05_yield_known_means.
Print Assumptions C05_last_block_spend_refuted.
Print Assumptions C05_same_block_spend_refuted.
Print Assumptions C05_calc_fee_ext.
Print Assumptions C05_extension_block_checked.
Print Assumptions C05_extension_confirmed_only.
Print Assumptions C05_extension_reachable.
Print Assumptions C05_competitor_any_last_block_spend.
Print Assumptions C05_competitor_tip_applied.
Print Assumptions C05_just_removed_competitor_witness.
Print Assumptions C05_full_resync_confirmed_only.
Print Assumptions C05_full_resync_reachable.
