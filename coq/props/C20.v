(* C20 — periodic work is stamped with period-aligned, non-decreasing timestamps.
   This file contains only the property theorems, each closed by [exact] of a lemma. *)
From RV Require Import model.Base model.Clock proofs.Clock_lemmas.
From Coq Require Import ZArith Sorted.
Local Open Scope Z_scope.

(* A single pulse fires once (by construction of [pulse_stamp]: one value), stamped with
   the next period boundary of the clock reading it started from. *)
Theorem C20_pulse : forall d r, 0 < d ->
  aligned d (pulse_stamp d r) /\ r < pulse_stamp d r <= r + d.
Proof. exact pulse_spec. Qed.

Theorem C20_pulse_is_next_boundary : forall d r t, 0 < d -> aligned d t -> r < t -> pulse_stamp d r <= t.
Proof. exact pulse_next. Qed.

(* Every stamp the engine hands out is a multiple of the sub-period on the wall clock, for
   every sequence of clock readings (= every scheduling delay of the ticking goroutine). *)
Theorem C20_engine_aligned : forall timer occ readings s,
  0 < sub_timer timer occ -> In s (engine_stamps timer occ readings) ->
  aligned (sub_timer timer occ) s.
Proof. exact engine_stamps_aligned. Qed.

(* ... and stamps never decrease as long as the clock itself does not go backwards. *)
Theorem C20_engine_monotone : forall timer occ readings,
  0 < sub_timer timer occ -> Sorted Z.le readings -> Sorted Z.le (engine_stamps timer occ readings).
Proof. exact engine_stamps_sorted. Qed.

Theorem C20_subperiod_positive : forall timer occ, 0 < occ -> occ <= timer -> 0 < sub_timer timer occ.
Proof. exact sub_timer_pos. Qed.

Theorem C20_aligned_is_unix_multiple : forall d t, 0 < d -> (d | epoch_off) -> (aligned d t <-> t mod d = 0).
Proof. exact aligned_unix. Qed.

(* Stop: at most the one call whose started-check preceded Stop completes after it; once
   stopped and not inside a call, no call ever happens again — for every schedule. *)
Theorem C20_stop : forall evs, (e_calls_after_stop (fold_left estep evs einit) <= 1)%nat.
Proof. exact stop_at_most_one_in_flight. Qed.

Theorem C20_stop_no_new_call : forall s evs,
  einv s -> e_stopped s = true -> e_pc s <> PcCall ->
  e_calls_after_stop (fold_left estep evs s) = e_calls_after_stop s.
Proof. exact stop_no_new_call. Qed.

(* non-vacuity: the configurations of validatornode/main.go (5 s period, 1 or 4 slots) *)
Example C20_nonvacuous :
  0 < sub_timer 5000000000 4 /\ (5000000000 | epoch_off) /\
  engine_stamps 5000000000 4 [7; 1250000001; 2499999999; 3125000000]
    = [1250000000; 2500000000; 3750000000] /\
  pulse_stamp 5000000000 4999999999 = 5000000000 /\ pulse_stamp 5000000000 5000000000 = 10000000000.
Proof. repeat split; try reflexivity. exists 12427119360; reflexivity. Qed.

Print Assumptions C20_pulse.
Print Assumptions C20_pulse_is_next_boundary.
Print Assumptions C20_engine_aligned.
Print Assumptions C20_engine_monotone.
Print Assumptions C20_subperiod_positive.
Print Assumptions C20_aligned_is_unix_multiple.
Print Assumptions C20_stop.
Print Assumptions C20_stop_no_new_call.
