(* C12 / C13 on a heap model of Go slices.
   The functional model uses immutable lists, so "a chained block never changes" (C12) and
   "verifying a rejected candidate leaves the pending-removal list as it was" (C13) are true
   there by construction; the danger in Go is slice aliasing (removeAddress edits the backing
   array in place, addresses_registry.go:126-133).  model/SliceHeap.v makes aliasing
   expressible: backing arrays in a store, slice headers (array, offset, length), every
   registry operation with copying = true (the current code: RemovedAddresses() and Copy()
   hand over a copy, addresses_registry.go:75 and :49) and copying = false (the pinned tree).
   [run c ops] is the heap node after an operation sequence (Synchronize / AddBlock / verify of
   a rejected candidate), [frun ops] the same node over immutable lists, [abs_*] read the heap
   back into lists.  [wf] = the header lies inside its array, [disjoint] = different arrays,
   [Inv] = separation (all headers well formed, no chained block shares its array with the
   pending list or with another block).
   This file contains only the property theorems, each closed by [exact] of a lemma. *)
From RV Require Import model.Base model.Ledger model.Registry model.SliceHeap
     proofs.SliceHeap_lemmas.

(* ---- copying = true ---- *)

(* a chained block's removed list, read in any later state, is what it was when chained *)
Theorem C12_heap_copying : forall ops more k b,
  nth_error (abs_blocks (run true ops)) k = Some b ->
  nth_error (abs_blocks (run true (ops ++ more))) k = Some b.
Proof. exact SliceHeap_lemmas.C12_heap_copying. Qed.

(* the same through the stored header: it stays in place and reads the same elements
   in the later heap *)
Theorem C12_heap_copying_headers : forall ops more k s,
  nth_error (hn_blocks (run true ops)) k = Some s ->
  nth_error (hn_blocks (run true (ops ++ more))) k = Some s /\
  sl_read (hn_heap (run true (ops ++ more))) s = sl_read (hn_heap (run true ops)) s.
Proof. exact SliceHeap_lemmas.C12_heap_copying_headers. Qed.

(* verifying and dropping a candidate changes neither the registry nor any chained block *)
Theorem C13_heap_copying : forall ops lists,
  let n := run true ops in
  let n' := hop_verify_candidate true n lists in
  abs_reg (hn_heap n') (hn_reg n') = abs_reg (hn_heap n) (hn_reg n) /\
  abs_blocks n' = abs_blocks n.
Proof. exact SliceHeap_lemmas.C13_heap_copying. Qed.

(* ... in any separated state, and separation is kept *)
Theorem C13_heap_copying_inv : forall n lists, Inv n ->
  abs_reg (hn_heap (hop_verify_candidate true n lists)) (hn_reg (hop_verify_candidate true n lists))
    = abs_reg (hn_heap n) (hn_reg n) /\
  abs_blocks (hop_verify_candidate true n lists) = abs_blocks n /\
  Inv (hop_verify_candidate true n lists).
Proof. exact SliceHeap_lemmas.C13_heap_copying_inv. Qed.

(* separation holds in every reachable state *)
Theorem heap_separation_copying : forall ops, Inv (run true ops).
Proof. exact SliceHeap_lemmas.heap_separation_copying. Qed.

(* the heap node and the node over immutable lists agree on every operation sequence *)
Theorem heap_refines_functional : forall ops, abs_node (run true ops) = frun ops.
Proof. exact SliceHeap_lemmas.heap_refines_functional. Qed.

(* the registry operations commute with the abstraction *)
Theorem heap_update_refines : forall h r added rem h' r',
  wf h (h_pending r) -> wf h rem -> disjoint rem (h_pending r) ->
  h_update h r added rem = (h', r') ->
  abs_reg h' r' = reg_update (abs_reg h r) added (sl_read h rem).
Proof. exact SliceHeap_lemmas.heap_update_refines. Qed.

Theorem heap_sync_refines : forall h r poh order h' r',
  wf h (h_pending r) ->
  h_sync h r (filter (fun a => is_registered (abs_reg h r) a &&
                               match poh a with Some false => true | _ => false end) order)
    = (h', r') ->
  abs_reg h' r' = reg_sync (abs_reg h r) poh order.
Proof. exact SliceHeap_lemmas.heap_sync_refines. Qed.

Theorem heap_removed_addresses_refines : forall h r h' s',
  wf h (h_pending r) -> h_removed_addresses true h r = (h', s') ->
  abs_slice h' s' = removed_addresses (abs_reg h r) /\ abs_reg h' r = abs_reg h r.
Proof. exact SliceHeap_lemmas.heap_removed_addresses_refines. Qed.

Theorem heap_copy_refines : forall h r h' rc,
  wf h (h_pending r) -> h_copy true h r = (h', rc) ->
  abs_reg h' rc = abs_reg h r /\ abs_reg h' r = abs_reg h r.
Proof. exact SliceHeap_lemmas.heap_copy_refines. Qed.

(* removeAddress in place = remove_addr on lists; append (in place or relocating) = sl_app *)
Theorem heap_remove_refines : forall h s a h' s', wf h s -> sl_remove_first h s a = (h', s') ->
  abs_slice h' s' = remove_addr (abs_slice h s) a.
Proof. exact SliceHeap_lemmas.heap_remove_refines. Qed.

Theorem heap_append_refines : forall h s x h' s', wf h s -> sl_append h s x = (h', s') ->
  abs_slice h' s' = sl_app (abs_slice h s) x.
Proof. exact SliceHeap_lemmas.heap_append_refines. Qed.

(* ---- copying = false (the pinned tree) ---- *)

(* sync [a; b]; block n chained listing [a; b]; block n+1 chained: block n lists [b; b] *)
Theorem C12_alias_trace :
  abs_blocks (run false alias_ops) = [Some [adr_a; adr_b]] /\
  abs_blocks (run false (alias_ops ++ [Hproduce])) = [Some [adr_b; adr_b]; Some [adr_b; adr_b]] /\
  hn_blocks (run false (alias_ops ++ [Hproduce])) = [Some (1, 0, 2); Some (1, 0, 2)] /\
  h_pending (hn_reg (run false (alias_ops ++ [Hproduce]))) = Some (1, 0, 0) /\
  abs_blocks (run true (alias_ops ++ [Hproduce])) = [Some [adr_a; adr_b]; Some [adr_a; adr_b]].
Proof. exact SliceHeap_lemmas.C12_alias_trace. Qed.

Theorem C12_alias_refuted : exists ops more k b,
  nth_error (abs_blocks (run false ops)) k = Some b /\
  nth_error (abs_blocks (run false (ops ++ more))) k <> Some b.
Proof. exact SliceHeap_lemmas.C12_alias_refuted. Qed.

(* pending [a; b]; a candidate listing [a] is verified and dropped: the live list reads [b; b] *)
Theorem C13_alias_trace :
  let n := run false [Hsync [adr_a; adr_b]] in
  let n' := hop_verify_candidate false n [[adr_a]] in
  pending (abs_reg (hn_heap n) (hn_reg n)) = Some [adr_a; adr_b] /\
  pending (abs_reg (hn_heap n') (hn_reg n')) = Some [adr_b; adr_b] /\
  hn_reg n' = hn_reg n /\
  let m := run true [Hsync [adr_a; adr_b]] in
  let m' := hop_verify_candidate true m [[adr_a]] in
  pending (abs_reg (hn_heap m') (hn_reg m')) = Some [adr_a; adr_b].
Proof. exact SliceHeap_lemmas.C13_alias_trace. Qed.

Theorem C13_alias_refuted : exists ops lists,
  let n := run false ops in
  let n' := hop_verify_candidate false n lists in
  abs_reg (hn_heap n') (hn_reg n') <> abs_reg (hn_heap n) (hn_reg n).
Proof. exact SliceHeap_lemmas.C13_alias_refuted. Qed.

(* three addresses: the aliased Update reads a, c, c from its own loop input; b stays pending *)
Theorem alias_update_trace :
  let ops := [Hsync [adr_a; adr_b; adr_c]; Hproduce; Hproduce] in
  pending (fn_reg (abs_node (run false ops))) = Some [adr_b] /\
  pending (fn_reg (frun ops)) = Some [] /\
  fn_blocks (abs_node (run false ops)) = [Some [adr_b; adr_c; adr_c]; Some [adr_b; adr_c; adr_c]] /\
  fn_blocks (frun ops) = [Some [adr_a; adr_b; adr_c]; Some [adr_a; adr_b; adr_c]].
Proof. exact SliceHeap_lemmas.alias_update_trace. Qed.

Theorem alias_refinement_refuted : exists ops, abs_node (run false ops) <> frun ops.
Proof. exact SliceHeap_lemmas.alias_refinement_refuted. Qed.

(* ---- examples ---- *)

(* the hypotheses of heap_update_refines hold on a non-trivial heap: the pending list
   [a; b; c] in array 0 (capacity 4), a block's list [b; a] in array 1 *)
Example update_hyps_sat :
  let h := [[adr_a; adr_b; adr_c; EmptyString]; [adr_b; adr_a]] in
  let r := mkHreg [adr_a; adr_b; adr_c] (Some (0, 0, 3)) in
  let rem := Some (1, 0, 2) in
  wf h (h_pending r) /\ wf h rem /\ disjoint rem (h_pending r) /\
  h_update h r [] rem
    = ([[adr_c; adr_c; adr_c; EmptyString]; [adr_b; adr_a]], mkHreg [adr_c] (Some (0, 0, 1))) /\
  reg_update (abs_reg h r) [] (sl_read h rem) = mkAreg [adr_c] (Some [adr_c]).
Proof.
  cbv zeta. split; [simpl; split; repeat constructor|]. split; [simpl; split; repeat constructor|].
  split; [intros j Hj Hp; vm_compute in Hj, Hp; congruence|]. split; vm_compute; reflexivity.
Qed.

(* removing the only element leaves a non-nil header of length 0: Some [], not None *)
Example remove_only_element :
  let h := [[adr_a]] in
  sl_remove_first h (Some (0, 0, 1)) adr_a = ([[adr_a]], Some (0, 0, 0)) /\
  abs_slice [[adr_a]] (Some (0, 0, 0)) = Some [] /\
  remove_addr (Some [adr_a]) adr_a = Some [].
Proof. vm_compute. repeat split; reflexivity. Qed.

(* append writes in place when there is capacity to spare, else relocates (capacity doubled) *)
Example append_in_place_and_relocating :
  sl_append [[adr_a; adr_b]] (Some (0, 0, 1)) adr_c = ([[adr_a; adr_c]], Some (0, 0, 2)) /\
  sl_append [[adr_a; adr_b]] (Some (0, 0, 2)) adr_c
    = ([[adr_a; adr_b]; [adr_a; adr_b; adr_c; EmptyString]], Some (1, 0, 3)).
Proof. vm_compute. split; reflexivity. Qed.

(* a longer run of the copying node: blocks in separate arrays, earlier blocks untouched,
   and a chained block found again unchanged after more operations (C12's hypothesis) *)
Example copying_run :
  let ops := [Hsync [adr_a; adr_b; adr_c]; Hproduce; Hproduce] in
  let more := [Hsync [adr_c]; Hverify [[adr_c]; [adr_a]]; Hproduce] in
  hn_blocks (run true (ops ++ more)) = [Some (3, 0, 3); Some (4, 0, 3); Some (8, 0, 1)] /\
  h_pending (hn_reg (run true (ops ++ more))) = Some (2, 0, 0) /\
  nth_error (abs_blocks (run true ops)) 0 = Some (Some [adr_a; adr_b; adr_c]) /\
  abs_blocks (run true (ops ++ more))
    = [Some [adr_a; adr_b; adr_c]; Some [adr_a; adr_b; adr_c]; Some [adr_c]] /\
  abs_node (run true (ops ++ more)) = frun (ops ++ more).
Proof. vm_compute. repeat split; reflexivity. Qed.

Print Assumptions C12_heap_copying.
Print Assumptions C12_heap_copying_headers.
Print Assumptions C13_heap_copying.
Print Assumptions C13_heap_copying_inv.
Print Assumptions heap_separation_copying.
Print Assumptions heap_refines_functional.
Print Assumptions heap_update_refines.
Print Assumptions heap_sync_refines.
Print Assumptions heap_removed_addresses_refines.
Print Assumptions heap_copy_refines.
Print Assumptions heap_remove_refines.
Print Assumptions heap_append_refines.
Print Assumptions C12_alias_trace.
Print Assumptions C12_alias_refuted.
Print Assumptions C13_alias_trace.
Print Assumptions C13_alias_refuted.
Print Assumptions alias_update_trace.
Print Assumptions alias_refinement_refuted.
