(* C15, indented answers — "a third of the honest neighbors in the correspondence suites serve
   json.Indent-ed answers": the same tree is decoded from a JSON text whatever whitespace stands
   between its tokens.  [render_ws w j] (model/JsonIndent.v) is Json.render with the string
   [w path slot] put at every place where the grammar allows whitespace inside a value (after an
   opening bracket, before a closing one, before and after every comma and colon, between the
   brackets of an empty container), the generator [w] being free to give each place of the tree
   a different string; [ws_gen_ok w] = all of them are made of space, \n, \t, \r.
   [render_indent prefix indent] is Go's json.Indent(dst, compact, prefix, indent).
   The texts of the two examples are the bytes Go 1.23's json.Indent wrote for the compact
   rendering of the same tree (indent of two spaces; indent of one tab), pasted unchanged.
   This file contains only the property theorems, each closed by [exact] of a lemma of
   proofs/JsonIndent_lemmas.v. *)
From RV Require Import model.Base model.Json model.JsonParse model.JsonIndent proofs.JsonIndent_lemmas.

Theorem C15_parse_render_ws :
  forall w j, wf_json j -> ws_gen_ok w -> parse_json (render_ws w j) = Some j.
Proof. exact parse_render_ws. Qed.

Theorem C15_parse_render_indent :
  forall prefix indent j, wf_json j -> all_ws prefix -> all_ws indent ->
    parse_json (render_indent prefix indent j) = Some j.
Proof. exact parse_render_indent. Qed.

Example C15_indent_two_spaces :
  wf_json (JObj [("a"%string, JArr [JNum 1; JObj [("b"%string, JArr [JBool true; JNull; JStr "x y"])]; JNumF "-2.5e3"; JArr []; JObj []]);
         ("c"%string, JObj []); ("d"%string, JStr "p:q,[r]")])
  /\ all_ws "" /\ all_ws "  "
  /\ render_indent "" "  " (JObj [("a"%string, JArr [JNum 1; JObj [("b"%string, JArr [JBool true; JNull; JStr "x y"])]; JNumF "-2.5e3"; JArr []; JObj []]);
         ("c"%string, JObj []); ("d"%string, JStr "p:q,[r]")])
     = "{
  ""a"": [
    1,
    {
      ""b"": [
        true,
        null,
        ""x y""
      ]
    },
    -2.5e3,
    [],
    {}
  ],
  ""c"": {},
  ""d"": ""p:q,[r]""
}"%string
  /\ parse_json "{
  ""a"": [
    1,
    {
      ""b"": [
        true,
        null,
        ""x y""
      ]
    },
    -2.5e3,
    [],
    {}
  ],
  ""c"": {},
  ""d"": ""p:q,[r]""
}"%string
     = Some (JObj [("a"%string, JArr [JNum 1; JObj [("b"%string, JArr [JBool true; JNull; JStr "x y"])]; JNumF "-2.5e3"; JArr []; JObj []]);
         ("c"%string, JObj []); ("d"%string, JStr "p:q,[r]")]).
Proof. vm_compute. repeat split; reflexivity. Qed.

Example C15_indent_tab :
  all_ws (String "009" "")
  /\ render_indent "" (String "009" "") (JObj [("a"%string, JArr [JNum 1; JObj [("b"%string, JArr [JBool true; JNull; JStr "x y"])]; JNumF "-2.5e3"; JArr []; JObj []]);
         ("c"%string, JObj []); ("d"%string, JStr "p:q,[r]")])
     = "{
	""a"": [
		1,
		{
			""b"": [
				true,
				null,
				""x y""
			]
		},
		-2.5e3,
		[],
		{}
	],
	""c"": {},
	""d"": ""p:q,[r]""
}"%string
  /\ parse_json "{
	""a"": [
		1,
		{
			""b"": [
				true,
				null,
				""x y""
			]
		},
		-2.5e3,
		[],
		{}
	],
	""c"": {},
	""d"": ""p:q,[r]""
}"%string
     = Some (JObj [("a"%string, JArr [JNum 1; JObj [("b"%string, JArr [JBool true; JNull; JStr "x y"])]; JNumF "-2.5e3"; JArr []; JObj []]);
         ("c"%string, JObj []); ("d"%string, JStr "p:q,[r]")]).
Proof. vm_compute. repeat split; reflexivity. Qed.

Example C15_ws_every_slot :
  ws_gen_ok noisy_gen
  /\ render_ws noisy_gen (JObj [("a"%string, JArr [JNum 1; JArr []]); ("b"%string, JObj [])]) <> render (JObj [("a"%string, JArr [JNum 1; JArr []]); ("b"%string, JObj [])])
  /\ parse_json (render_ws noisy_gen (JObj [("a"%string, JArr [JNum 1; JArr []]); ("b"%string, JObj [])]))
     = Some (JObj [("a"%string, JArr [JNum 1; JArr []]); ("b"%string, JObj [])]).
Proof. split; [exact noisy_gen_ok|]. vm_compute. split; [intros H; discriminate H|reflexivity]. Qed.

Print Assumptions C15_parse_render_ws.
Print Assumptions C15_parse_render_indent.
