(* C01, chain level — coins originate only from the first block and from income accrual.

   [nominal u] is the exact sum of the initial amounts of all outputs recorded and unspent in
   utxosById of the registry [u]; [face uss] the exact sum of the initial amounts of the outputs
   [uss]; [worth value_fn ts uss] what they are worth at [ts] (value_fn = Utxo.Value).

   C01_update_accounting: one successful UpdateUtxos neither makes nor loses a unit: what is
   recorded afterwards plus the initial amounts of the outputs its inputs named (each looked up
   in the running registry just before it is consumed, [nominal_consumed]) is what was recorded
   before plus every output of every transaction. Needed: utxosById has no key twice (true of
   every registry a chain denotes).

   C01_chain_supply: for a chain C that replays to [u], every non-first block of which passes
   verifyBlock against the registers the verification loop holds when it checks it (the replay
   of the blocks before the previous one: [page_verifiable], as in C08), whose input-less
   transactions have one output (checked by the decoder, C01_reward_shape_decoded) and whose
   first block, which nobody verifies, creates at most the genesis amount:
     nominal u + Σ_k face(consumed_k) <= genesis + Σ_k worth(value_fn, ts_k, consumed_k)
   where consumed_k are the outputs verifyBlock found for the inputs of block k, and their
   initial amounts are exactly what the application of block k removes from [nominal].
   Value enters only through value_fn. Hypothesis on ids: transactions of C with the same id
   list the same outputs (implied by pairwise distinct ids, and by ids computed injectively
   from the content as the decoder checks). Without it the statement is false of the model
   (C01_chain_supply_reused_id_refuted).

   C01_chain_supply_no_income: if no output is ever worth more than its initial amount,
   nominal u <= genesis.

   This file contains only the property theorems, each closed by [exact] of a lemma of
   proofs/SupplyChain_lemmas.v. *)
From RV Require Import model.Base model.Ledger model.Registry model.Chain model.Sync model.Pool.
From RV Require Import proofs.Pool_lemmas proofs.Sync_lemmas proofs.Chain_verify proofs.Ledger_fee
                       proofs.Accept_lemmas proofs.Supply_lemmas proofs.Converge_lemmas
                       proofs.SupplyChain_lemmas.
From Coq Require Import ZArith NArith.
Local Open Scope N_scope.

Theorem C01_update_accounting :
  forall (u : ureg) (l : list tx) (ts : Z) (u' : ureg),
    update_utxos u l ts = Ok u' ->
    NoDup (map fst (by_id u)) ->
    nominal u' + nominal_consumed u l ts = nominal u + sumN (map o_val (flat_map outs l)) /\
    NoDup (map fst (by_id u')).
Proof. exact update_accounting. Qed.

Theorem C01_chain_supply :
  forall (value_fn : N -> bool -> Z -> N) (addr_of : string -> string) (sig_ok : input -> bool)
         (St : settings) (now : Z) (C : list block) (u : ureg) (a : areg),
    replay C = Ok (u, a) ->
    page_verifiable value_fn addr_of sig_ok St now C ->
    Forall (fun b => Forall (fun t => is_reward t = true -> (length (outs t) <= 1)%nat) (txs b))
           (tl C) ->
    match C with
    | g :: _ => sumN (map o_val (flat_map outs (txs g))) <= s_genesis St
    | [] => True
    end ->
    (forall t1 t2 : tx, In t1 (flat_map txs C) -> In t2 (flat_map txs C) ->
                        t_id t1 = t_id t2 -> outs t1 = outs t2) ->
    exists W : list (block * list (list utxo)),
      (map fst W = tl C /\
       forall (j : nat) (b : block) (uss : list (list utxo)),
         nth_error W j = Some (b, uss) ->
         exists (X : list block) (p : block) (T : list block) (uX : ureg) (aX : areg)
                (u1 : ureg) (a1 : areg) (u2 : ureg) (a2 : areg),
           C = X ++ p :: b :: T /\ length X = j /\
           replay X = Ok (uX, aX) /\
           replay (X ++ [p]) = Ok (u1, a1) /\
           replay (X ++ [p; b]) = Ok (u2, a2) /\
           Forall2 (fun t us => spends addr_of uX t us) (ordinary b) uss /\
           nominal u2 + face uss = nominal u1 + sumN (map o_val (flat_map outs (txs b)))) /\
      nominal u + sumN (map (fun w => face (snd w)) W)
      <= s_genesis St + sumN (map (fun w => worth value_fn (b_ts (fst w)) (snd w)) W).
Proof. exact chain_supply. Qed.

Theorem C01_chain_supply_no_income :
  forall (value_fn : N -> bool -> Z -> N) (addr_of : string -> string) (sig_ok : input -> bool)
         (St : settings) (now : Z) (C : list block) (u : ureg) (a : areg),
    (forall (v : N) (y : bool) (e : Z), value_fn v y e <= v) ->
    replay C = Ok (u, a) ->
    page_verifiable value_fn addr_of sig_ok St now C ->
    Forall (fun b => Forall (fun t => is_reward t = true -> (length (outs t) <= 1)%nat) (txs b))
           (tl C) ->
    match C with
    | g :: _ => sumN (map o_val (flat_map outs (txs g))) <= s_genesis St
    | [] => True
    end ->
    (forall t1 t2 : tx, In t1 (flat_map txs C) -> In t2 (flat_map txs C) ->
                        t_id t1 = t_id t2 -> outs t1 = outs t2) ->
    nominal u <= s_genesis St.
Proof. exact supply_no_income. Qed.

(* the hypothesis on ids cannot be dropped: in the model an id is a free string; a reward that
   takes the id of an entry spent earlier in its block makes the next block's verifyBlock (which
   reads the registers of two blocks back) value the old output and its application consume the
   new one. 199 recorded out of a genesis amount of 100, with value_fn v y e = v and the ids of
   every single block pairwise distinct *)
Theorem C01_chain_supply_reused_id_refuted :
  exists (value_fn : N -> bool -> Z -> N) (addr_of : string -> string) (sig_ok : input -> bool)
         (St : settings) (now : Z) (C : list block) (u : ureg) (a : areg),
    (forall v y e, value_fn v y e <= v) /\
    replay C = Ok (u, a) /\
    page_verifiable value_fn addr_of sig_ok St now C /\
    Forall (fun b => Forall (fun t => is_reward t = true -> (length (outs t) <= 1)%nat) (txs b))
           (tl C) /\
    match C with
    | g :: _ => sumN (map o_val (flat_map outs (txs g))) <= s_genesis St
    | [] => True
    end /\
    Forall (fun b => NoDup (map t_id (txs b))) C /\
    s_genesis St < nominal u.
Proof. exact chain_supply_reused_id_refuted. Qed.

(* ---- example: the hypotheses are satisfiable, the inequality is tight ---- *)
Import AcceptExample SupplyChainExample.

(* three blocks: genesis (A 100, B 50), an empty block, the transfer t0 (150 in; 120 + 20 out)
   with a reward of the 10 left over; genesis amount 150 *)
Example C01_ex_chain : E = [g; e1; b2] /\ s_genesis Sy = 150.
Proof. split; reflexivity. Qed.

Example C01_ex_chain_replay : replay E = Ok (ex_u, areg_empty).
Proof. vm_compute. reflexivity. Qed.

Example C01_ex_chain_verifiable : page_verifiable vf ao so Sy 100%Z E.
Proof. exact ex_pv. Qed.

Example C01_ex_chain_shape :
  Forall (fun b => Forall (fun t => is_reward t = true -> (length (outs t) <= 1)%nat) (txs b)) (tl E).
Proof. exact ex_shape. Qed.

Example C01_ex_chain_genesis : sumN (map o_val (flat_map outs (txs g))) <= s_genesis Sy.
Proof. exact ex_genesis. Qed.

Example C01_ex_chain_ids :
  forall t1 t2 : tx, In t1 (flat_map txs E) -> In t2 (flat_map txs E) ->
                     t_id t1 = t_id t2 -> outs t1 = outs t2.
Proof. exact ex_ids. Qed.

(* the outputs consumed: none by the empty block, A's 100 and B's 50 by the third block *)
Example C01_ex_chain_witness : chain_witness ao E [(e1, []); (b2, [[uA; uB]])].
Proof. exact ex_witness. Qed.

(* 150 recorded at the end + 150 destroyed <= 150 genesis + 150 worth when consumed *)
Example C01_ex_chain_numbers :
  nominal ex_u = 150 /\
  sumN (map (fun w => face (snd w)) [(e1, []); (b2, [[uA; uB]])]) = 150 /\
  sumN (map (fun w => worth vf (b_ts (fst w)) (snd w)) [(e1, []); (b2, [[uA; uB]])]) = 150.
Proof. repeat split; vm_compute; reflexivity. Qed.

(* one update of that chain: the third block applied to the registers of the first two *)
Example C01_ex_update_numbers :
  exists u1 a1,
    replay [g; e1] = Ok (u1, a1) /\
    nominal u1 = 150 /\ nominal_consumed u1 (txs b2) (b_ts b2) = 150 /\
    sumN (map o_val (flat_map outs (txs b2))) = 150.
Proof. eexists. eexists. split; [vm_compute; reflexivity|]. repeat split; vm_compute; reflexivity. Qed.

Print Assumptions C01_update_accounting.
Print Assumptions C01_chain_supply.
Print Assumptions C01_chain_supply_no_income.
Print Assumptions C01_chain_supply_reused_id_refuted.
