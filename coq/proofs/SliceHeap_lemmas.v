(* SliceHeap_lemmas.v — proofs about model/SliceHeap.v.
   With copy-on-handover (copying = true) the heap node keeps a separation invariant
   (no chained block shares its backing array with the pending list or with another block),
   in-place edits stay inside the array the registry owns, and the heap node simulates the
   node over immutable lists step by step.  C12/C13 on the heap follow.  With
   copying = false (the pinned tree) explicit runs refute all of it. *)
From RV Require Import model.Base model.Ledger model.Registry model.SliceHeap.
From Coq Require Import Lia.

(* ---------- lists ---------- *)
Lemma set_nth_length : forall A i (x : A) l, length (set_nth i x l) = length l.
Proof. intros A i x l. revert i. induction l as [|y r IH]; intros [|i]; simpl; auto. Qed.

Lemma set_nth_other : forall A i j (x d : A) l, j <> i -> nth j (set_nth i x l) d = nth j l d.
Proof.
  intros A i j x d l. revert i j. induction l as [|y r IH]; intros [|i] [|j] Hne; simpl; auto.
  - congruence.
Qed.

Lemma set_nth_same : forall A i (x d : A) l, i < length l -> nth i (set_nth i x l) d = x.
Proof.
  intros A i x d l. revert i. induction l as [|y r IH]; intros [|i] Hi; simpl in *; try lia; auto.
  apply IH. lia.
Qed.

Lemma split3 : forall (a : list string) off len, off + len <= length a ->
  exists pre w post, a = pre ++ w ++ post /\ length pre = off /\ length w = len.
Proof.
  intros a off len H.
  exists (firstn off a), (firstn len (skipn off a)), (skipn len (skipn off a)).
  split; [|split].
  - rewrite firstn_skipn. rewrite firstn_skipn. reflexivity.
  - rewrite firstn_length. lia.
  - rewrite firstn_length, skipn_length. lia.
Qed.

Lemma read_mid : forall (pre w post : list string),
  firstn (length w) (skipn (length pre) (pre ++ w ++ post)) = w.
Proof.
  intros pre w post.
  rewrite skipn_app, skipn_all, Nat.sub_diag. simpl.
  rewrite firstn_app, firstn_all, Nat.sub_diag. simpl. apply app_nil_r.
Qed.

Lemma splice_mid : forall (pre w post w' : list string), length w' = length w ->
  splice (pre ++ w ++ post) (length pre) w' = pre ++ w' ++ post.
Proof.
  intros pre w post w' Hl. unfold splice.
  rewrite firstn_app, firstn_all, Nat.sub_diag. simpl. rewrite app_nil_r.
  rewrite skipn_app. rewrite (skipn_all2 pre) by lia. simpl.
  replace (length pre + length w' - length pre) with (length w) by lia.
  rewrite skipn_app, skipn_all, Nat.sub_diag. simpl. reflexivity.
Qed.

Lemma shift_left_length : forall w, length (shift_left w) = length w.
Proof.
  induction w as [|x r IH]; simpl; auto.
  destruct r as [|y r']; simpl in *; auto.
Qed.

Lemma shift_left_firstn : forall x r, firstn (length r) (shift_left (x :: r)) = r.
Proof.
  intros x r. revert x. induction r as [|y r IH]; intros x; auto.
  change (shift_left (x :: y :: r)) with (y :: shift_left (y :: r)).
  simpl length. rewrite firstn_cons. f_equal. apply IH.
Qed.

Lemma rm_in_place_some : forall a w w', rm_in_place a w = Some w' ->
  length w' = length w /\ firstn (length w - 1) w' = remove_first (String.eqb a) w.
Proof.
  intros a w. induction w as [|x r IH]; intros w' H.
  - discriminate.
  - cbn [rm_in_place] in H. cbn [remove_first].
    destruct (String.eqb a x) eqn:E.
    + assert (Hw : w' = shift_left (x :: r)) by congruence. subst w'. clear H. split.
      * apply shift_left_length.
      * simpl length. replace (S (length r) - 1) with (length r) by lia. apply shift_left_firstn.
    + destruct (rm_in_place a r) as [w1|] eqn:E1; simpl in H; [|discriminate].
      inversion H; subst w'. destruct (IH w1 eq_refl) as [Hl Hf]. split.
      * simpl. lia.
      * destruct r as [|y r']; [discriminate|].
        simpl length in *. replace (S (S (length r')) - 1) with (S (length r')) by lia.
        rewrite firstn_cons. f_equal.
        replace (S (length r') - 1) with (length r') in Hf by lia.
        exact Hf.
Qed.

Lemma rm_in_place_none : forall a w, rm_in_place a w = None -> remove_first (String.eqb a) w = w.
Proof.
  intros a w. induction w as [|x r IH]; intros H; auto.
  cbn [rm_in_place] in H. cbn [remove_first].
  destruct (String.eqb a x) eqn:E; [discriminate|].
  destruct (rm_in_place a r) eqn:E1; simpl in H; [discriminate|].
  f_equal. auto.
Qed.

Lemma map_nth_seq : forall (l : list string) d, map (fun i => nth i l d) (seq 0 (length l)) = l.
Proof.
  intros l d. induction l as [|x r IH]; auto.
  simpl length. rewrite <- cons_seq, <- seq_shift. simpl. f_equal.
  rewrite map_map. exact IH.
Qed.

(* ---------- well-formed headers, separation, ownership ---------- *)
Definition wf (h : heap) (s : gslice) : Prop :=
  match s with
  | None => True
  | Some (id, off, len) => id < length h /\ off + len <= length (arr h id)
  end.

(* t and s do not share a backing array *)
Definition disjoint (t s : gslice) : Prop := forall j, sl_id t = Some j -> sl_id s <> Some j.

(* going from (h, s) to (h', s') only the array of s was written, arrays were only added,
   and s' lives in the array of s or in an array that did not exist in h *)
Definition owns (h : heap) (s : gslice) (h' : heap) (s' : gslice) : Prop :=
  wf h' s' /\ length h <= length h' /\
  (forall j, j < length h -> sl_id s <> Some j -> arr h' j = arr h j) /\
  (forall j, sl_id s' = Some j -> sl_id s = Some j \/ length h <= j).

Lemma wf_id_lt : forall h s j, wf h s -> sl_id s = Some j -> j < length h.
Proof.
  intros h [[[id off] len]|] j Hwf Hid; simpl in *; [|discriminate].
  inversion Hid; subst. tauto.
Qed.

Lemma owns_refl : forall h s, wf h s -> owns h s h s.
Proof. intros h s Hwf. unfold owns. repeat split; auto. Qed.

Lemma owns_trans : forall h s h1 s1 h2 s2,
  owns h s h1 s1 -> owns h1 s1 h2 s2 -> owns h s h2 s2.
Proof.
  intros h s h1 s1 h2 s2 (W1 & L1 & F1 & I1) (W2 & L2 & F2 & I2).
  unfold owns. split; [exact W2|]. split; [lia|]. split.
  - intros j Hj Hne. rewrite F2.
    + apply F1; assumption.
    + lia.
    + intros Hs1. destruct (I1 j Hs1) as [H|H]; [contradiction|lia].
  - intros j Hs2. destruct (I2 j Hs2) as [H|H].
    + destruct (I1 j H) as [H'|H']; [left; exact H'|right; exact H'].
    + right. lia.
Qed.

Lemma disjoint_nil_r : forall t, disjoint t None.
Proof. intros t j _ H. discriminate. Qed.

Lemma owns_frame : forall h s h' s' t,
  owns h s h' s' -> wf h t -> disjoint t s ->
  sl_read h' t = sl_read h t /\ wf h' t /\ disjoint t s' /\ abs_slice h' t = abs_slice h t.
Proof.
  intros h s h' s' t (W & L & F & I) Hwf Hd.
  destruct t as [[[id off] len]|].
  - simpl in Hwf. destruct Hwf as [Hid Hlen].
    assert (Ha : arr h' id = arr h id).
    { apply F; [exact Hid|]. apply Hd. reflexivity. }
    assert (Hr : sl_read h' (Some (id, off, len)) = sl_read h (Some (id, off, len))).
    { simpl. rewrite Ha. reflexivity. }
    split; [exact Hr|]. split; [|split].
    + simpl. rewrite Ha. split; [lia|exact Hlen].
    + intros j Hj Hs'. simpl in Hj. inversion Hj; subst j.
      destruct (I id Hs') as [H|H]; [|lia].
      exact (Hd id eq_refl H).
    + unfold abs_slice. rewrite Hr. reflexivity.
  - simpl. repeat split; auto. intros j Hj. discriminate.
Qed.

(* ---------- the primitive slice operations ---------- *)
Lemma arr_app_old : forall h l j, j < length h -> arr (h ++ [l]) j = arr h j.
Proof. intros h l j Hj. unfold arr. apply app_nth1. exact Hj. Qed.

Lemma arr_app_new : forall h l, arr (h ++ [l]) (length h) = l.
Proof. intros h l. unfold arr. apply nth_middle. Qed.

Lemma sl_alloc_owns : forall h l h' s', sl_alloc h l = (h', s') ->
  owns h None h' s' /\ sl_read h' s' = l /\ s' <> None.
Proof.
  intros h l h' s' H. unfold sl_alloc in H. inversion H; subst h' s'; clear H.
  split; [|split].
  - unfold owns. split; [|split; [|split]].
    + simpl. rewrite app_length, arr_app_new. simpl. lia.
    + rewrite app_length. lia.
    + intros j Hj _. apply arr_app_old. exact Hj.
    + intros j Hj. simpl in Hj. inversion Hj. right. lia.
  - simpl. rewrite arr_app_new. apply firstn_all.
  - discriminate.
Qed.

Lemma sl_read_wf : forall h id off len, wf h (Some (id, off, len)) ->
  exists pre post, arr h id = pre ++ sl_read h (Some (id, off, len)) ++ post /\
                   length pre = off /\ length (sl_read h (Some (id, off, len))) = len.
Proof.
  intros h id off len [Hid Hlen].
  destruct (split3 _ _ _ Hlen) as (pre & w & post & Ha & Hp & Hw).
  exists pre, post. simpl sl_read. rewrite Ha. subst off len.
  rewrite read_mid. auto.
Qed.

Lemma sl_append_owns : forall h s x h' s', wf h s -> sl_append h s x = (h', s') ->
  owns h s h' s' /\ sl_read h' s' = sl_read h s ++ [x] /\ s' <> None.
Proof.
  intros h s x h' s' Hwf H.
  destruct s as [[[id off] len]|].
  - destruct (sl_read_wf _ _ _ _ Hwf) as (pre & post & Ha & Hp & Hw).
    destruct Hwf as [Hid Hlen].
    cbn [sl_append] in H.
    remember (sl_read h (Some (id, off, len))) as w eqn:Hweq in *. clear Hweq.
    destruct (off + len <? length (arr h id)) eqn:E.
    + apply Nat.ltb_lt in E. inversion H; subst h' s'; clear H.
      destruct post as [|y post'].
      { rewrite Ha in E. rewrite !app_length in E. simpl in E. lia. }
      assert (Hnew : splice (arr h id) (off + len) [x] = pre ++ (w ++ [x]) ++ post').
      { rewrite Ha. subst off len.
        replace (pre ++ w ++ y :: post') with ((pre ++ w) ++ [y] ++ post')
          by (rewrite <- app_assoc; reflexivity).
        rewrite <- app_length. rewrite splice_mid by reflexivity.
        rewrite <- !app_assoc. reflexivity. }
      assert (Harr : arr (set_nth id (splice (arr h id) (off + len) [x]) h) id
                     = pre ++ (w ++ [x]) ++ post').
      { unfold arr at 1. rewrite set_nth_same by exact Hid. exact Hnew. }
      split; [|split].
      * unfold owns. split; [|split; [|split]].
        -- simpl. rewrite set_nth_length. split; [exact Hid|].
           rewrite Harr. rewrite !app_length. simpl. lia.
        -- rewrite set_nth_length. lia.
        -- intros j Hj Hne. unfold arr. apply set_nth_other. simpl in Hne. congruence.
        -- intros j Hj. left. exact Hj.
      * simpl sl_read at 1. rewrite Harr. subst off len.
        replace (length w + 1) with (length (w ++ [x])) by (rewrite app_length; simpl; lia).
        apply read_mid.
      * discriminate.
    + apply Nat.ltb_ge in E. inversion H; subst h' s'; clear H.
      split; [|split].
      * unfold owns. split; [|split; [|split]].
        -- simpl. rewrite app_length, arr_app_new. simpl.
           rewrite app_length. simpl. lia.
        -- rewrite app_length. lia.
        -- intros j Hj _. apply arr_app_old. exact Hj.
        -- intros j Hj. simpl in Hj. inversion Hj. right. lia.
      * simpl sl_read at 1. rewrite arr_app_new.
        set (pad := repeat EmptyString _).
        replace (w ++ x :: pad) with ([] ++ (w ++ [x]) ++ pad)
          by (simpl; rewrite <- app_assoc; reflexivity).
        replace (length w + 1) with (length (w ++ [x])) by (rewrite app_length; simpl; lia).
        exact (read_mid [] (w ++ [x]) pad).
      * discriminate.
  - cbn [sl_append] in H. destruct (sl_alloc_owns _ _ _ _ H) as (Ho & Hr & Hn).
    split; [exact Ho|]. split; [|exact Hn]. rewrite Hr. reflexivity.
Qed.

Lemma sl_remove_owns : forall h s a h' s', wf h s -> sl_remove_first h s a = (h', s') ->
  owns h s h' s' /\ abs_slice h' s' = remove_addr (abs_slice h s) a.
Proof.
  intros h s a h' s' Hwf H.
  destruct s as [[[id off] len]|].
  - destruct (sl_read_wf _ _ _ _ Hwf) as (pre & post & Ha & Hp & Hw).
    cbn [sl_remove_first abs_slice remove_addr] in H |- *.
    remember (sl_read h (Some (id, off, len))) as w eqn:Hweq in *.
    destruct (rm_in_place a w) as [w'|] eqn:E.
    + inversion H; subst h' s'; clear H. clear Hweq.
      destruct (rm_in_place_some _ _ _ E) as [Hl Hf].
      destruct Hwf as [Hid Hlen].
      assert (Harr : arr (set_nth id (splice (arr h id) off w') h) id = pre ++ w' ++ post).
      { unfold arr at 1. rewrite set_nth_same by exact Hid. rewrite Ha. subst off.
        apply splice_mid. exact Hl. }
      assert (Hread : sl_read (set_nth id (splice (arr h id) off w') h) (Some (id, off, len - 1))
                      = remove_first (String.eqb a) w).
      { simpl sl_read. rewrite Harr. subst off.
        rewrite skipn_app, skipn_all, Nat.sub_diag. simpl.
        rewrite firstn_app. replace (len - 1 - length w') with 0 by lia. simpl.
        rewrite app_nil_r. rewrite <- Hf. rewrite Hw. reflexivity. }
      split.
      * unfold owns. split; [|split; [|split]].
        -- simpl. rewrite set_nth_length. split; [exact Hid|].
           rewrite Harr. rewrite !app_length. lia.
        -- rewrite set_nth_length. lia.
        -- intros j Hj Hne. unfold arr. apply set_nth_other. simpl in Hne. congruence.
        -- intros j Hj. left. exact Hj.
      * unfold abs_slice. rewrite Hread. reflexivity.
    + inversion H; subst h' s'; clear H. split.
      * apply owns_refl. exact Hwf.
      * unfold abs_slice. rewrite <- Hweq. rewrite (rm_in_place_none _ _ E). reflexivity.
  - cbn [sl_remove_first] in H. inversion H; subst h' s'. split.
    + apply owns_refl. exact I.
    + reflexivity.
Qed.

Lemma sl_copy_owns : forall h s h' s', sl_copy h s = (h', s') ->
  owns h None h' s' /\ abs_slice h' s' = abs_slice h s.
Proof.
  intros h s h' s' H.
  destruct s as [p|].
  - cbn [sl_copy] in H. destruct (sl_alloc_owns _ _ _ _ H) as (Ho & Hr & Hn).
    split; [exact Ho|]. destruct s' as [p'|]; [|congruence].
    cbn [abs_slice]. rewrite Hr. reflexivity.
  - cbn [sl_copy] in H. inversion H; subst h' s'. split; [apply owns_refl; exact I|reflexivity].
Qed.

(* ---------- the registry operations ---------- *)
Definition f_remove_one (ar : areg) (a : string) : areg :=
  mkAreg (set_remove a (registered ar)) (remove_addr (pending ar) a).

Lemma elems_abs_slice : forall h s, elems (abs_slice h s) = sl_read h s.
Proof. intros h [p|]; reflexivity. Qed.

Lemma sl_len_read : forall h s, wf h s -> sl_len s = length (sl_read h s).
Proof.
  intros h [[[id off] len]|] Hwf; [|reflexivity].
  destruct (sl_read_wf _ _ _ _ Hwf) as (pre & post & _ & _ & Hw). simpl sl_len. lia.
Qed.

Lemma h_remove_one_ok : forall h r a h' r', wf h (h_pending r) ->
  h_remove_one (h, r) a = (h', r') ->
  owns h (h_pending r) h' (h_pending r') /\ abs_reg h' r' = f_remove_one (abs_reg h r) a.
Proof.
  intros h r a h' r' Hwf H. unfold h_remove_one in H.
  destruct (sl_remove_first h (h_pending r) a) as [h1 p1] eqn:E.
  inversion H; subst h' r'; clear H.
  destruct (sl_remove_owns _ _ _ _ _ Hwf E) as [Ho Ha].
  split; [exact Ho|]. unfold abs_reg, f_remove_one. simpl. rewrite Ha. reflexivity.
Qed.

Definition upd_loop (removed : gslice) (hr : heap * hreg) (is : list nat) : heap * hreg :=
  fold_left (fun hr i => h_remove_one hr (sl_get (fst hr) removed i)) is hr.

Lemma upd_loop_ok : forall rem is h r h' r',
  wf h (h_pending r) -> wf h rem -> disjoint rem (h_pending r) ->
  upd_loop rem (h, r) is = (h', r') ->
  owns h (h_pending r) h' (h_pending r') /\
  abs_reg h' r' = fold_left f_remove_one
                    (map (fun i => nth i (sl_read h rem) EmptyString) is) (abs_reg h r).
Proof.
  intros rem is. induction is as [|i is IH]; intros h r h' r' Hwp Hwr Hd H.
  - unfold upd_loop in H. simpl in H. inversion H; subst h' r'. split.
    + apply owns_refl. exact Hwp.
    + reflexivity.
  - unfold upd_loop in H. cbn [fold_left fst] in H.
    destruct (h_remove_one (h, r) (sl_get h rem i)) as [h1 r1] eqn:E.
    destruct (h_remove_one_ok _ _ _ _ _ Hwp E) as [Ho Ha].
    destruct (owns_frame _ _ _ _ rem Ho Hwr Hd) as (Hread & Hwr1 & Hd1 & _).
    assert (Hwp1 : wf h1 (h_pending r1)) by (destruct Ho as [W _]; exact W).
    destruct (IH h1 r1 h' r' Hwp1 Hwr1 Hd1 H) as [Ho2 Ha2].
    split.
    + eapply owns_trans; eassumption.
    + rewrite Ha2. rewrite Hread. cbn [map fold_left]. rewrite Ha. reflexivity.
Qed.

(* Update on the heap = reg_update on lists, provided the removed list does not alias
   the pending list *)
Lemma h_update_ok : forall h r added rem h' r',
  wf h (h_pending r) -> wf h rem -> disjoint rem (h_pending r) ->
  h_update h r added rem = (h', r') ->
  owns h (h_pending r) h' (h_pending r') /\
  abs_reg h' r' = reg_update (abs_reg h r) added (sl_read h rem).
Proof.
  intros h r added rem h' r' Hwp Hwr Hd H. unfold h_update in H.
  fold (upd_loop rem (h, r) (seq 0 (sl_len rem))) in H.
  destruct (upd_loop rem (h, r) (seq 0 (sl_len rem))) as [h1 r1] eqn:E.
  inversion H; subst h' r'; clear H.
  destruct (upd_loop_ok _ _ _ _ _ _ Hwp Hwr Hd E) as [Ho Ha].
  rewrite (sl_len_read _ _ Hwr) in Ha. rewrite map_nth_seq in Ha.
  split; [exact Ho|].
  unfold reg_update. fold f_remove_one. rewrite <- Ha. reflexivity.
Qed.

Lemma h_append_one_ok : forall h r a h' r', wf h (h_pending r) ->
  h_append_one (h, r) a = (h', r') ->
  owns h (h_pending r) h' (h_pending r') /\
  abs_reg h' r' = mkAreg (h_registered r) (Some (sl_read h (h_pending r) ++ [a])).
Proof.
  intros h r a h' r' Hwf H. unfold h_append_one in H.
  destruct (sl_append h (h_pending r) a) as [h1 p1] eqn:E.
  inversion H; subst h' r'; clear H.
  destruct (sl_append_owns _ _ _ _ _ Hwf E) as (Ho & Hr & Hn).
  split; [exact Ho|]. unfold abs_reg. simpl.
  destruct p1 as [p|]; [|congruence]. unfold abs_slice. rewrite Hr. reflexivity.
Qed.

Lemma h_sync_ok : forall invalid h r h' r', wf h (h_pending r) ->
  h_sync h r invalid = (h', r') ->
  owns h (h_pending r) h' (h_pending r') /\
  abs_reg h' r' = mkAreg (registered (abs_reg h r)) (sl_appl (pending (abs_reg h r)) invalid).
Proof.
  induction invalid as [|a rest IH]; intros h r h' r' Hwf H.
  - unfold h_sync in H. simpl in H. inversion H; subst h' r'. split.
    + apply owns_refl. exact Hwf.
    + unfold abs_reg. simpl. destruct (h_pending r) as [p|]; simpl; [|reflexivity].
      rewrite app_nil_r. reflexivity.
  - unfold h_sync in H. cbn [fold_left] in H.
    destruct (h_append_one (h, r) a) as [h1 r1] eqn:E.
    destruct (h_append_one_ok _ _ _ _ _ Hwf E) as [Ho Ha].
    assert (Hwf1 : wf h1 (h_pending r1)) by (destruct Ho as [W _]; exact W).
    destruct (IH h1 r1 h' r' Hwf1 H) as [Ho2 Ha2].
    split.
    + eapply owns_trans; eassumption.
    + rewrite Ha2, Ha. cbn [registered pending abs_reg].
      unfold sl_appl. cbn [elems]. rewrite elems_abs_slice.
      rewrite <- app_assoc. simpl.
      destruct (abs_slice h (h_pending r)); reflexivity.
Qed.

Lemma h_removed_addresses_ok : forall h r h' s', wf h (h_pending r) ->
  h_removed_addresses true h r = (h', s') ->
  owns h None h' s' /\ abs_slice h' s' = removed_addresses (abs_reg h r) /\
  abs_reg h' r = abs_reg h r.
Proof.
  intros h r h' s' Hwf H. unfold h_removed_addresses in H.
  destruct (sl_copy_owns _ _ _ _ H) as [Ho Ha].
  split; [exact Ho|]. split; [exact Ha|].
  destruct (owns_frame _ _ _ _ _ Ho Hwf (disjoint_nil_r _)) as (_ & _ & _ & Habs).
  unfold abs_reg. rewrite Habs. reflexivity.
Qed.

Lemma h_copy_ok : forall h r h' rc, wf h (h_pending r) ->
  h_copy true h r = (h', rc) ->
  owns h None h' (h_pending rc) /\ abs_reg h' rc = abs_reg h r /\ abs_reg h' r = abs_reg h r.
Proof.
  intros h r h' rc Hwf H. unfold h_copy in H.
  destruct (sl_copy h (h_pending r)) as [h1 p1] eqn:E.
  inversion H; subst h' rc; clear H.
  destruct (sl_copy_owns _ _ _ _ E) as [Ho Ha].
  split; [exact Ho|].
  destruct (owns_frame _ _ _ _ _ Ho Hwf (disjoint_nil_r _)) as (_ & _ & _ & Habs).
  unfold abs_reg. simpl. rewrite Ha, Habs. split; reflexivity.
Qed.

(* ---------- the node: invariant and simulation ---------- *)
Definition block_ids (bs : list gslice) : list nat :=
  flat_map (fun b => match sl_id b with Some j => [j] | None => [] end) bs.

(* separation: every header is well formed; no chained block shares its array with the
   pending list; no two chained blocks share an array *)
Definition Inv (n : hnode) : Prop :=
  wf (hn_heap n) (h_pending (hn_reg n)) /\
  Forall (wf (hn_heap n)) (hn_blocks n) /\
  Forall (fun b => disjoint b (h_pending (hn_reg n))) (hn_blocks n) /\
  NoDup (block_ids (hn_blocks n)).

Lemma frame_blocks : forall h s h' s' bs,
  owns h s h' s' -> Forall (wf h) bs -> Forall (fun b => disjoint b s) bs ->
  Forall (wf h') bs /\ Forall (fun b => disjoint b s') bs /\
  map (abs_slice h') bs = map (abs_slice h) bs.
Proof.
  intros h s h' s' bs Ho. induction bs as [|b bs IH]; intros Hw Hd.
  - repeat split; constructor.
  - inversion Hw as [|b0 bs0 Hwb Hwbs]; subst. inversion Hd as [|b1 bs1 Hdb Hdbs]; subst.
    destruct (IH Hwbs Hdbs) as (I1 & I2 & I3).
    destruct (owns_frame _ _ _ _ b Ho Hwb Hdb) as (_ & F2 & F3 & F4).
    split; [constructor; assumption|]. split; [constructor; assumption|].
    simpl. rewrite F4, I3. reflexivity.
Qed.

Lemma owns_weaken : forall h h' s' t, owns h None h' s' -> wf h t -> owns h t h' t.
Proof.
  intros h h' s' t Ho Hwf.
  destruct (owns_frame _ _ _ _ t Ho Hwf (disjoint_nil_r _)) as (_ & W & _ & _).
  destruct Ho as (_ & L & F & _).
  unfold owns. split; [exact W|]. split; [exact L|]. split.
  - intros j Hj _. apply F; [exact Hj|discriminate].
  - intros j Hj. left. exact Hj.
Qed.

(* a slice produced without touching anything (copy, alloc) is separate from every
   well-formed slice of the old heap *)
Lemma fresh_disjoint : forall h h' s' t, owns h None h' s' -> wf h t ->
  disjoint s' t /\ disjoint t s'.
Proof.
  intros h h' s' t (_ & _ & _ & I) Hwf. split.
  - intros j Hs' Ht. destruct (I j Hs') as [H|H]; [discriminate|].
    pose proof (wf_id_lt _ _ _ Hwf Ht). lia.
  - intros j Ht Hs'. destruct (I j Hs') as [H|H]; [discriminate|].
    pose proof (wf_id_lt _ _ _ Hwf Ht). lia.
Qed.

Lemma last_opt_In : forall A (l : list A) x, last_opt l = Some x -> In x l.
Proof.
  intros A l x. induction l as [|y r IH]; intros H; [discriminate|].
  destruct r as [|z r'].
  - simpl in H. inversion H. left. reflexivity.
  - right. apply IH. exact H.
Qed.

Lemma last_opt_map : forall A B (f : A -> B) l, last_opt (map f l) = option_map f (last_opt l).
Proof.
  intros A B f l. induction l as [|y r IH]; [reflexivity|].
  destruct r as [|z r']; [reflexivity|]. exact IH.
Qed.

Lemma NoDup_snoc : forall (l : list nat) x, NoDup l -> ~ In x l -> NoDup (l ++ [x]).
Proof.
  intros l x. induction l as [|y r IH]; intros Hn Hi; simpl.
  - constructor; [intros []|constructor].
  - inversion Hn as [|y0 r0 Hy Hr]; subst. constructor.
    + intros Hin. apply in_app_or in Hin. destruct Hin as [Hin|[Hin|[]]].
      * contradiction.
      * apply Hi. left. symmetry. exact Hin.
    + apply IH; [exact Hr|]. intros Hin. apply Hi. right. exact Hin.
Qed.

Lemma block_ids_lt : forall h bs j, Forall (wf h) bs -> In j (block_ids bs) -> j < length h.
Proof.
  intros h bs j Hw Hin. unfold block_ids in Hin. apply in_flat_map in Hin.
  destruct Hin as (b & Hb & Hj).
  rewrite Forall_forall in Hw. specialize (Hw b Hb).
  destruct (sl_id b) as [j'|] eqn:E; [|destruct Hj].
  destruct Hj as [Hj|[]]. subst j'. eapply wf_id_lt; eassumption.
Qed.

Lemma produce_update_ok : forall h1 r bs h2 r2,
  wf h1 (h_pending r) -> Forall (wf h1) bs -> Forall (fun b => disjoint b (h_pending r)) bs ->
  match last_opt bs with
  | None => (h1, r)
  | Some prev => h_update h1 r [] prev
  end = (h2, r2) ->
  owns h1 (h_pending r) h2 (h_pending r2) /\
  abs_reg h2 r2 = match last_opt (map (abs_slice h1) bs) with
                  | None => abs_reg h1 r
                  | Some prev => reg_update (abs_reg h1 r) [] (elems prev)
                  end.
Proof.
  intros h1 r bs h2 r2 Hwp Hwb Hdb H. rewrite last_opt_map.
  destruct (last_opt bs) as [prev|] eqn:E; simpl.
  - pose proof (last_opt_In _ _ _ E) as Hin.
    rewrite Forall_forall in Hwb, Hdb.
    destruct (h_update_ok _ _ _ _ _ _ Hwp (Hwb _ Hin) (Hdb _ Hin) H) as [Ho Ha].
    split; [exact Ho|]. rewrite Ha, elems_abs_slice. reflexivity.
  - inversion H; subst h2 r2. split; [apply owns_refl; exact Hwp|reflexivity].
Qed.

Lemma verify_loop_ok : forall lists h0 h rc,
  owns h0 None h (h_pending rc) ->
  owns h0 None (fst (fold_left h_apply_list lists (h, rc)))
               (h_pending (snd (fold_left h_apply_list lists (h, rc)))).
Proof.
  induction lists as [|l lists IH]; intros h0 h rc Ho; [exact Ho|].
  cbn [fold_left].
  destruct (h_apply_list (h, rc) l) as [h2 rc2] eqn:E.
  apply IH. unfold h_apply_list in E.
  destruct (sl_alloc h l) as [ha s] eqn:Ea.
  destruct (sl_alloc_owns _ _ _ _ Ea) as (Hoa & _ & _).
  assert (Hwc : wf h (h_pending rc)) by (destruct Ho as [W _]; exact W).
  pose proof (owns_weaken _ _ _ _ Hoa Hwc) as Hoc.
  destruct (fresh_disjoint _ _ _ _ Hoa Hwc) as [Hd _].
  assert (Hws : wf ha s) by (destruct Hoa as [W _]; exact W).
  assert (Hwc' : wf ha (h_pending rc)) by (destruct Hoc as [W _]; exact W).
  destruct (h_update_ok _ _ _ _ _ _ Hwc' Hws Hd E) as [Hou _].
  eapply owns_trans; [exact Ho|]. eapply owns_trans; [exact Hoc|exact Hou].
Qed.

(* one step of the heap node (copy-on-handover) = one step of the functional node,
   and separation is kept *)
Lemma hstep_sim : forall n o, Inv n ->
  Inv (hstep true n o) /\ abs_node (hstep true n o) = fstep (abs_node n) o.
Proof.
  intros [h r bs] o (Hwp & Hwb & Hdb & Hnd). cbn [hn_heap hn_reg hn_blocks] in *.
  destruct o as [invalid| |lists]; cbn [hstep].
  - (* Synchronize *)
    unfold hop_sync. cbn [hn_heap hn_reg hn_blocks].
    destruct (h_sync h r invalid) as [h' r'] eqn:E.
    destruct (h_sync_ok _ _ _ _ _ Hwp E) as [Ho Ha].
    destruct (frame_blocks _ _ _ _ _ Ho Hwb Hdb) as (F1 & F2 & F3).
    split.
    + unfold Inv. cbn [hn_heap hn_reg hn_blocks].
      split; [destruct Ho as [W _]; exact W|]. auto.
    + unfold abs_node, abs_blocks. cbn [hn_heap hn_reg hn_blocks fstep fn_reg fn_blocks].
      rewrite Ha, F3. reflexivity.
  - (* AddBlock *)
    unfold hop_produce. cbn [hn_heap hn_reg hn_blocks].
    destruct (h_removed_addresses true h r) as [h1 rs] eqn:E1.
    destruct (h_removed_addresses_ok _ _ _ _ Hwp E1) as (Ho1 & Hrs & Hreg1).
    destruct (frame_blocks _ _ _ _ _ Ho1 Hwb (Forall_impl _ (fun b _ => disjoint_nil_r b) Hwb))
      as (Hwb1 & _ & Hmap1).
    pose proof (owns_weaken _ _ _ _ Ho1 Hwp) as Hop.
    assert (Hwp1 : wf h1 (h_pending r)) by (destruct Hop as [W _]; exact W).
    assert (Hwrs : wf h1 rs) by (destruct Ho1 as [W _]; exact W).
    destruct (fresh_disjoint _ _ _ _ Ho1 Hwp) as [Hdrs _].
    destruct (match last_opt bs with None => (h1, r) | Some prev => h_update h1 r [] prev end)
      as [h2 r2] eqn:E2.
    destruct (produce_update_ok _ _ _ _ _ Hwp1 Hwb1 Hdb E2) as [Ho2 Ha2].
    assert (Hwall : Forall (wf h1) (bs ++ [rs])).
    { apply Forall_app. split; [exact Hwb1|]. constructor; [exact Hwrs|constructor]. }
    assert (Hdall : Forall (fun b => disjoint b (h_pending r)) (bs ++ [rs])).
    { apply Forall_app. split; [exact Hdb|]. constructor; [exact Hdrs|constructor]. }
    destruct (frame_blocks _ _ _ _ _ Ho2 Hwall Hdall) as (F1 & F2 & F3).
    split.
    + unfold Inv. cbn [hn_heap hn_reg hn_blocks].
      split; [destruct Ho2 as [W _]; exact W|]. split; [exact F1|]. split; [exact F2|].
      unfold block_ids. rewrite flat_map_app. fold (block_ids bs). simpl. rewrite app_nil_r.
      destruct (sl_id rs) as [j|] eqn:Ej.
      * apply NoDup_snoc; [exact Hnd|]. intros Hin.
        pose proof (block_ids_lt _ _ _ Hwb Hin) as Hlt.
        destruct Ho1 as (_ & _ & _ & I). destruct (I j Ej) as [H|H]; [discriminate|lia].
      * rewrite app_nil_r. exact Hnd.
    + unfold abs_node, abs_blocks. cbn [hn_heap hn_reg hn_blocks fstep fn_reg fn_blocks].
      rewrite F3, Ha2. rewrite map_app. simpl. rewrite Hmap1, Hrs, Hreg1. reflexivity.
  - (* verify of a rejected candidate *)
    unfold hop_verify_candidate. cbn [hn_heap hn_reg hn_blocks].
    destruct (h_copy true h r) as [h1 rc] eqn:E1.
    destruct (h_copy_ok _ _ _ _ Hwp E1) as (Ho1 & _ & _).
    pose proof (verify_loop_ok lists h h1 rc Ho1) as Ho.
    set (hf := fst (fold_left h_apply_list lists (h1, rc))) in *.
    destruct (frame_blocks _ _ _ _ _ Ho Hwb (Forall_impl _ (fun b _ => disjoint_nil_r b) Hwb))
      as (Hwbf & _ & Hmapf).
    destruct (owns_frame _ _ _ _ _ Ho Hwp (disjoint_nil_r _)) as (_ & Hwpf & _ & Habsf).
    split.
    + unfold Inv. cbn [hn_heap hn_reg hn_blocks]. auto.
    + unfold abs_node, abs_blocks, abs_reg. cbn [hn_heap hn_reg hn_blocks fstep].
      rewrite Hmapf, Habsf. reflexivity.
Qed.

Lemma Inv_empty : Inv hnode_empty.
Proof. unfold Inv. simpl. repeat split; constructor. Qed.

Lemma run_sim_from : forall ops n, Inv n ->
  Inv (fold_left (hstep true) ops n) /\
  abs_node (fold_left (hstep true) ops n) = fold_left fstep ops (abs_node n).
Proof.
  induction ops as [|o ops IH]; intros n Hi; [split; [exact Hi|reflexivity]|].
  cbn [fold_left]. destruct (hstep_sim n o Hi) as [Hi' Ha].
  destruct (IH _ Hi') as [Hi'' Ha']. split; [exact Hi''|]. rewrite Ha', Ha. reflexivity.
Qed.

(* ---------- the theorems ---------- *)

(* separation holds in every reachable state of the copying node *)
Theorem heap_separation_copying : forall ops, Inv (run true ops).
Proof. intros ops. exact (proj1 (run_sim_from ops hnode_empty Inv_empty)). Qed.

(* on every operation sequence the heap node with copy-on-handover and the node over
   immutable lists are in the same abstract state *)
Theorem heap_refines_functional : forall ops, abs_node (run true ops) = frun ops.
Proof. intros ops. exact (proj2 (run_sim_from ops hnode_empty Inv_empty)). Qed.

Lemma fstep_blocks_prefix : forall more f,
  exists extra, fn_blocks (fold_left fstep more f) = fn_blocks f ++ extra.
Proof.
  induction more as [|o more IH]; intros f.
  - exists []. simpl. rewrite app_nil_r. reflexivity.
  - cbn [fold_left]. destruct (IH (fstep f o)) as [extra He].
    destruct o as [invalid| |lists]; cbn [fstep fn_blocks] in He |- *.
    + exists extra. exact He.
    + exists ([removed_addresses (fn_reg f)] ++ extra). rewrite He, <- app_assoc. reflexivity.
    + exists extra. exact He.
Qed.

(* C12 on the heap: what a chained block's header reads never changes afterwards *)
Theorem C12_heap_copying : forall ops more k b,
  nth_error (abs_blocks (run true ops)) k = Some b ->
  nth_error (abs_blocks (run true (ops ++ more))) k = Some b.
Proof.
  intros ops more k b H.
  change (abs_blocks (run true (ops ++ more))) with (fn_blocks (abs_node (run true (ops ++ more)))).
  change (abs_blocks (run true ops)) with (fn_blocks (abs_node (run true ops))) in H.
  rewrite heap_refines_functional in *. unfold frun in *. rewrite fold_left_app.
  destruct (fstep_blocks_prefix more (fold_left fstep ops fnode_empty)) as [extra He].
  rewrite He. rewrite nth_error_app1; [exact H|].
  apply nth_error_Some. congruence.
Qed.

(* ... and the stored headers themselves are only ever appended to *)
Lemma hstep_headers_prefix : forall c n o, exists extra, hn_blocks (hstep c n o) = hn_blocks n ++ extra.
Proof.
  intros c n o. destruct o as [invalid| |lists]; cbn [hstep].
  - unfold hop_sync. destruct (h_sync _ _ _). exists []. simpl. rewrite app_nil_r. reflexivity.
  - unfold hop_produce. destruct (h_removed_addresses _ _ _) as [h1 rs].
    destruct (match last_opt (hn_blocks n) with None => _ | Some prev => _ end) as [h2 r2].
    exists [rs]. reflexivity.
  - unfold hop_verify_candidate. destruct (h_copy _ _ _). exists []. simpl.
    rewrite app_nil_r. reflexivity.
Qed.

(* C13 on the heap: verifying (and dropping) a candidate changes neither the pending list
   nor any chained block — in any separated state, in particular in every reachable one *)
Theorem C13_heap_copying_inv : forall n lists, Inv n ->
  abs_reg (hn_heap (hop_verify_candidate true n lists)) (hn_reg (hop_verify_candidate true n lists))
    = abs_reg (hn_heap n) (hn_reg n) /\
  abs_blocks (hop_verify_candidate true n lists) = abs_blocks n /\
  Inv (hop_verify_candidate true n lists).
Proof.
  intros n lists Hi. destruct (hstep_sim n (Hverify lists) Hi) as [Hi' Ha].
  cbn [hstep fstep] in *. unfold abs_node in Ha.
  split; [exact (f_equal fn_reg Ha)|]. split; [exact (f_equal fn_blocks Ha)|]. exact Hi'.
Qed.

Theorem C13_heap_copying : forall ops lists,
  let n := run true ops in
  let n' := hop_verify_candidate true n lists in
  abs_reg (hn_heap n') (hn_reg n') = abs_reg (hn_heap n) (hn_reg n) /\
  abs_blocks n' = abs_blocks n.
Proof.
  intros ops lists n n'.
  destruct (C13_heap_copying_inv n lists (heap_separation_copying ops)) as (H1 & H2 & _).
  split; assumption.
Qed.

(* the registry operations commute with the abstraction *)
Theorem heap_update_refines : forall h r added rem h' r',
  wf h (h_pending r) -> wf h rem -> disjoint rem (h_pending r) ->
  h_update h r added rem = (h', r') ->
  abs_reg h' r' = reg_update (abs_reg h r) added (sl_read h rem).
Proof. intros h r added rem h' r' H1 H2 H3 H4. exact (proj2 (h_update_ok _ _ _ _ _ _ H1 H2 H3 H4)). Qed.

Theorem heap_sync_refines : forall h r poh order h' r',
  wf h (h_pending r) ->
  h_sync h r (filter (fun a => is_registered (abs_reg h r) a &&
                               match poh a with Some false => true | _ => false end) order)
    = (h', r') ->
  abs_reg h' r' = reg_sync (abs_reg h r) poh order.
Proof.
  intros h r poh order h' r' Hwf H.
  destruct (h_sync_ok _ _ _ _ _ Hwf H) as [_ Ha]. rewrite Ha. reflexivity.
Qed.

Theorem heap_removed_addresses_refines : forall h r h' s',
  wf h (h_pending r) -> h_removed_addresses true h r = (h', s') ->
  abs_slice h' s' = removed_addresses (abs_reg h r) /\ abs_reg h' r = abs_reg h r.
Proof. intros h r h' s' Hwf H. exact (proj2 (h_removed_addresses_ok _ _ _ _ Hwf H)). Qed.

Theorem heap_copy_refines : forall h r h' rc,
  wf h (h_pending r) -> h_copy true h r = (h', rc) ->
  abs_reg h' rc = abs_reg h r /\ abs_reg h' r = abs_reg h r.
Proof. intros h r h' rc Hwf H. exact (proj2 (h_copy_ok _ _ _ _ Hwf H)). Qed.

(* the in-place operations, seen through the abstraction *)
Theorem heap_remove_refines : forall h s a h' s', wf h s -> sl_remove_first h s a = (h', s') ->
  abs_slice h' s' = remove_addr (abs_slice h s) a.
Proof. intros h s a h' s' Hwf H. exact (proj2 (sl_remove_owns _ _ _ _ _ Hwf H)). Qed.

Theorem heap_append_refines : forall h s x h' s', wf h s -> sl_append h s x = (h', s') ->
  abs_slice h' s' = sl_app (abs_slice h s) x.
Proof.
  intros h s x h' s' Hwf H. destruct (sl_append_owns _ _ _ _ _ Hwf H) as (_ & Hr & Hn).
  destruct s' as [p|]; [|congruence]. unfold abs_slice at 1. rewrite Hr.
  unfold sl_app. rewrite elems_abs_slice. reflexivity.
Qed.

(* the literal form of C12: the header stored for block k stays where it is, and reading
   through it in any later heap gives what it gave when the block was chained *)
Lemma run_headers_prefix : forall c more n,
  exists extra, hn_blocks (fold_left (hstep c) more n) = hn_blocks n ++ extra.
Proof.
  intros c more. induction more as [|o more IH]; intros n.
  - exists []. simpl. rewrite app_nil_r. reflexivity.
  - cbn [fold_left]. destruct (IH (hstep c n o)) as [e1 H1].
    destruct (hstep_headers_prefix c n o) as [e2 H2].
    exists (e2 ++ e1). rewrite H1, H2, <- app_assoc. reflexivity.
Qed.

Theorem C12_heap_copying_headers : forall ops more k s,
  nth_error (hn_blocks (run true ops)) k = Some s ->
  nth_error (hn_blocks (run true (ops ++ more))) k = Some s /\
  sl_read (hn_heap (run true (ops ++ more))) s = sl_read (hn_heap (run true ops)) s.
Proof.
  intros ops more k s H.
  assert (Hh : nth_error (hn_blocks (run true (ops ++ more))) k = Some s).
  { unfold run. rewrite fold_left_app. fold (run true ops).
    destruct (run_headers_prefix true more (run true ops)) as [extra He].
    rewrite He. rewrite nth_error_app1; [exact H|]. apply nth_error_Some. congruence. }
  split; [exact Hh|].
  assert (Ha : nth_error (abs_blocks (run true ops)) k = Some (abs_slice (hn_heap (run true ops)) s)).
  { unfold abs_blocks. rewrite nth_error_map, H. reflexivity. }
  pose proof (C12_heap_copying ops more k _ Ha) as Hb.
  unfold abs_blocks in Hb. rewrite nth_error_map, Hh in Hb. simpl in Hb.
  destruct s as [p|]; [|reflexivity].
  unfold abs_slice in Hb. congruence.
Qed.

(* ---------- copying = false (the pinned tree): refutations ---------- *)
Definition adr_a : string := "a"%string.
Definition adr_b : string := "b"%string.
Definition adr_c : string := "c"%string.

(* Synchronize finds a and b invalid; block n is produced *)
Definition alias_ops : list hop := [Hsync [adr_a; adr_b]; Hproduce].

(* block n lists [a; b] when chained; chaining block n+1 applies block n's removals to the
   pending list IN PLACE in the array block n still points to: block n now lists [b; b].
   With copy-on-handover both blocks keep [a; b]. *)
Theorem C12_alias_trace :
  abs_blocks (run false alias_ops) = [Some [adr_a; adr_b]] /\
  abs_blocks (run false (alias_ops ++ [Hproduce])) = [Some [adr_b; adr_b]; Some [adr_b; adr_b]] /\
  hn_blocks (run false (alias_ops ++ [Hproduce])) = [Some (1, 0, 2); Some (1, 0, 2)] /\
  h_pending (hn_reg (run false (alias_ops ++ [Hproduce]))) = Some (1, 0, 0) /\
  abs_blocks (run true (alias_ops ++ [Hproduce])) = [Some [adr_a; adr_b]; Some [adr_a; adr_b]].
Proof. vm_compute. repeat split; reflexivity. Qed.

Theorem C12_alias_refuted : exists ops more k b,
  nth_error (abs_blocks (run false ops)) k = Some b /\
  nth_error (abs_blocks (run false (ops ++ more))) k <> Some b.
Proof.
  exists alias_ops, [Hproduce], 0, (Some [adr_a; adr_b]).
  split; [vm_compute; reflexivity|]. vm_compute. discriminate.
Qed.

(* pending = [a; b]; a candidate whose block lists [a] is verified on the "copy" and dropped:
   the live pending list reads [b; b] *)
Theorem C13_alias_trace :
  let n := run false [Hsync [adr_a; adr_b]] in
  let n' := hop_verify_candidate false n [[adr_a]] in
  pending (abs_reg (hn_heap n) (hn_reg n)) = Some [adr_a; adr_b] /\
  pending (abs_reg (hn_heap n') (hn_reg n')) = Some [adr_b; adr_b] /\
  hn_reg n' = hn_reg n /\
  let m := run true [Hsync [adr_a; adr_b]] in
  let m' := hop_verify_candidate true m [[adr_a]] in
  pending (abs_reg (hn_heap m') (hn_reg m')) = Some [adr_a; adr_b].
Proof. vm_compute. repeat split; reflexivity. Qed.

Theorem C13_alias_refuted : exists ops lists,
  let n := run false ops in
  let n' := hop_verify_candidate false n lists in
  abs_reg (hn_heap n') (hn_reg n') <> abs_reg (hn_heap n) (hn_reg n).
Proof.
  exists [Hsync [adr_a; adr_b]], [[adr_a]]. vm_compute. discriminate.
Qed.

(* with three addresses the aliased Update even reads its own loop input wrongly: the range
   loop over block n's list [a; b; c] sees a, then c, then c — b is never removed from the
   pending list, where the list semantics removes all three *)
Theorem alias_update_trace :
  let ops := [Hsync [adr_a; adr_b; adr_c]; Hproduce; Hproduce] in
  pending (fn_reg (abs_node (run false ops))) = Some [adr_b] /\
  pending (fn_reg (frun ops)) = Some [] /\
  fn_blocks (abs_node (run false ops)) = [Some [adr_b; adr_c; adr_c]; Some [adr_b; adr_c; adr_c]] /\
  fn_blocks (frun ops) = [Some [adr_a; adr_b; adr_c]; Some [adr_a; adr_b; adr_c]].
Proof. vm_compute. repeat split; reflexivity. Qed.

Theorem alias_refinement_refuted : exists ops, abs_node (run false ops) <> frun ops.
Proof.
  exists [Hsync [adr_a; adr_b; adr_c]; Hproduce; Hproduce]. vm_compute. discriminate.
Qed.
